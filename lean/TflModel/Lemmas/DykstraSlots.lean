import TflModel.Model.Dykstra
import TflModel.Lemmas.DykstraExec
import TflModel.Lemmas.IdxReg
import Mathlib.Data.List.Nodup
import Mathlib.Data.List.GetD
import Mathlib.Data.List.Forall2
import Mathlib.Tactic.Ring
import Mathlib.Tactic.Linarith
/-!
# The `last_change` dict of `project_by_dykstra`: slots keyed by the group key

`Model/Dykstra.lean` runs the loop with one `last_change` slot per dict KEY (`dykstraPassS`,
`dykstraPassST`; `slots c = firstIdx (groupKeys c)`): a constraint tuple listed twice shares its slots,
as in the Python. This file has
* the alignment of the key list with the group list (`groups_eq_groupKeys`, `groupKeys_length`);
* `firstIdx_of_nodup`: without repeated keys every position is its own slot;
* the bridges `dykstraPassS_range / dykstraIterS_range / dykstraPassST_range / dykstraIterST_range`:
  with the slots `0, 1, 2, …` the slotted loops ARE the position-slotted loops `dykstraPass`,
  `dykstraIter`, `dykstraPassT`, `dykstraIterT` (the objects of the convergence theorems);
* for ANY slots: fixed kernels stay fixed (`dykstraIterST_fix`, `dykstraIterST_fix_any`), the table loop
  computes the function-level loop on the box (`dykstraIterST_agree`), and the bookkeeping invariant
  `w − Σ_slots last_change` (`dykstraPassS_telescoping`, `dykstraIterS_telescoping`).
-/
namespace Tfl.Lat
open Tfl

/-! ### keys and groups are aligned -/

/-- the model's group schedule is its key list mapped through `slotMap`: equal keys ⇒ equal maps,
and position `i` of `groups c` has the key at position `i` of `groupKeys c` -/
theorem groups_eq_groupKeys (c : DCfg) : groups c = (groupKeys c).map (slotMap c) := by
  simp only [groups, groupKeys, List.map_append, List.map_flatMap]
  congr 1
  · congr 1
    · congr 1
      · congr 1
        · congr 1
          · congr 1
            · refine List.flatMap_congr (fun d _ => ?_)
              split_ifs <;> simp [slotMap, Function.comp_def]
            · refine List.flatMap_congr (fun tr _ => ?_)
              simp [slotMap, Function.comp_def]
          · refine List.flatMap_congr (fun tr _ => ?_)
            simp [slotMap, Function.comp_def]
        · refine List.flatMap_congr (fun p _ => ?_)
          simp [slotMap, Function.comp_def]
      · refine List.flatMap_congr (fun p _ => List.flatMap_congr (fun i _ => ?_))
        simp [slotMap, Function.comp_def]
    · refine List.flatMap_congr (fun p _ => ?_)
      simp [slotMap, Function.comp_def]
  · refine List.flatMap_congr (fun ju _ => List.flatMap_congr (fun vertex _ => ?_))
    rw [List.map_filterMap]
    refine List.filterMap_congr (fun offs _ => ?_)
    cases hs : juStencil (ju.dims.map (sz c)) vertex offs with
    | none => rfl
    | some st => simp [slotMap, hs]

theorem groupKeys_length (c : DCfg) : (groupKeys c).length = (groups c).length := by
  rw [groups_eq_groupKeys, List.length_map]

theorem firstIdx_length {α : Type} [BEq α] (ks : List α) : (firstIdx ks).length = ks.length := by
  simp [firstIdx]

theorem slots_length (c : DCfg) : (slots c).length = (groups c).length := by
  rw [slots, firstIdx_length, groupKeys_length]

/-- every slot is the position of a group (a first occurrence) -/
theorem firstIdx_lt {α : Type} [DecidableEq α] (ks : List α) : ∀ s ∈ firstIdx ks, s < ks.length := by
  intro s hs
  obtain ⟨k, hk, rfl⟩ := List.mem_map.mp hs
  exact List.idxOf_lt_length_of_mem hk

/-- the slot of a position is never after the position -/
theorem firstIdx_le {α : Type} [DecidableEq α] (ks : List α) (i : Nat) (hi : i < ks.length) :
    (firstIdx ks).getD i 0 ≤ i := by
  have hlen : i < (firstIdx ks).length := by rw [firstIdx_length]; exact hi
  rw [List.getD_eq_getElem _ _ hlen]
  simp only [firstIdx, List.getElem_map]
  by_contra hlt
  have := List.not_of_lt_findIdx (p := fun x => x == ks[i]) (xs := ks) (i := i) (by
    simpa [List.idxOf] using not_le.mp hlt)
  simp at this

/-- without repeated keys every position is its own slot -/
theorem firstIdx_of_nodup {α : Type} [DecidableEq α] (ks : List α) (h : ks.Nodup) :
    firstIdx ks = List.range ks.length := by
  apply List.ext_getElem
  · simp [firstIdx]
  · intro i h1 h2
    simp only [firstIdx, List.getElem_map, List.getElem_range]
    exact List.Nodup.idxOf_getElem h i _

theorem slots_of_nodup (c : DCfg) (h : (groupKeys c).Nodup) : slots c = List.range (groups c).length := by
  rw [slots, firstIdx_of_nodup _ h, groupKeys_length]

/-! ### the function-level slotted loop -/

theorem dykstraPass_len (ps : List (W → W)) (w : W) (cs : List W) :
    (dykstraPass ps w cs).2.length = ps.length := by
  induction ps generalizing w cs with
  | nil => rfl
  | cons P r ih => simp [dykstraPass, ih]

theorem dykstraPassS_length (ps : List ((W → W) × Nat)) (w : W) (cs : List W) :
    (dykstraPassS ps w cs).2.length = cs.length := by
  induction ps generalizing w cs with
  | nil => rfl
  | cons q r ih => simp [dykstraPassS, ih]

theorem dykstraIterS_length (ps : List ((W → W) × Nat)) (n : Nat) (w : W) (cs : List W) :
    (dykstraIterS ps n (w, cs)).2.length = cs.length := by
  induction n generalizing w cs with
  | zero => rfl
  | succ n ih => simp only [dykstraIterS]; rw [ih, dykstraPassS_length]

/-- slots `k, k+1, …` behind a prefix of `k` untouched entries: the position-slotted pass -/
theorem dykstraPassS_range_aux (ps : List (W → W)) :
    ∀ (pre cs : List W) (w : W), cs.length = ps.length →
      dykstraPassS (ps.zip (List.range' pre.length ps.length)) w (pre ++ cs)
        = ((dykstraPass ps w cs).1, pre ++ (dykstraPass ps w cs).2) := by
  induction ps with
  | nil =>
    intro pre cs w hl
    have : cs = [] := List.eq_nil_of_length_eq_zero (by simpa using hl)
    subst this
    simp [dykstraPassS, dykstraPass]
  | cons P r ih =>
    intro pre cs w hl
    cases cs with
    | nil => simp at hl
    | cons c cr =>
      have hl' : cr.length = r.length := by simpa using hl
      have hget : (pre ++ c :: cr).getD pre.length (fun _ => 0) = c := by
        rw [List.getD_eq_getElem _ _ (by simp)]
        simp
      have hset : ∀ x : W, (pre ++ c :: cr).set pre.length x = (pre ++ [x]) ++ cr := by
        intro x
        rw [List.set_append_right _ _ le_rfl]
        simp
      simp only [List.length_cons, List.range'_succ, List.zip_cons_cons, dykstraPassS, hget, hset,
        dykstraPass, List.headD_cons, List.tail_cons]
      have := ih (pre ++ [(visit P w c).2]) cr (visit P w c).1 hl'
      simp only [List.length_append, List.length_cons, List.length_nil, Nat.zero_add] at this
      rw [this]
      simp

/-- **bridge, one pass**: with the slots `0, 1, …, n−1` the slotted pass is the aligned pass -/
theorem dykstraPassS_range (ps : List (W → W)) (w : W) (cs : List W) (hl : cs.length = ps.length) :
    dykstraPassS (ps.zip (List.range ps.length)) w cs = dykstraPass ps w cs := by
  have := dykstraPassS_range_aux ps [] cs w hl
  simpa [List.range_eq_range'] using this

/-- **bridge, all passes** -/
theorem dykstraIterS_range (ps : List (W → W)) (n : Nat) (w : W) (cs : List W) (hl : cs.length = ps.length) :
    dykstraIterS (ps.zip (List.range ps.length)) n (w, cs) = dykstraIter ps n (w, cs) := by
  induction n generalizing w cs with
  | zero => rfl
  | succ n ih =>
    simp only [dykstraIterS, dykstraIter]
    rw [dykstraPassS_range ps w cs hl]
    exact ih _ _ (dykstraPass_len ps w cs)

/-- all entries of the slot list are the zero tensor -/
def AllZero (cs : List W) : Prop := ∀ c ∈ cs, c = fun _ => (0 : Rat)

theorem allZero_map {α : Type} (l : List α) : AllZero (l.map (fun _ => fun _ => (0 : Rat))) := by
  intro c hc
  obtain ⟨_, _, rfl⟩ := List.mem_map.mp hc
  rfl

theorem getD_of_all {α : Type} {l : List α} {v : α} (h : ∀ a ∈ l, a = v) (s : Nat) : l.getD s v = v := by
  by_cases hs : s < l.length
  · rw [List.getD_eq_getElem _ _ hs]; exact h _ (List.getElem_mem hs)
  · rw [List.getD_eq_default _ _ (by omega)]

theorem set_of_all {α : Type} {l : List α} {v : α} (h : ∀ a ∈ l, a = v) (s : Nat) : l.set s v = l := by
  by_cases hs : s < l.length
  · have : l[s] = v := h _ (List.getElem_mem hs)
    rw [← this]; exact List.set_getElem_self hs
  · exact List.set_eq_of_length_le (by omega)

/-- a kernel fixed by every map, all slots zero: the pass returns the same state, whatever the slots -/
theorem dykstraPassS_fix (ps : List ((W → W) × Nat)) (w : W) (h : ∀ q ∈ ps, q.1 w = w) (cs : List W)
    (hz : AllZero cs) : dykstraPassS ps w cs = (w, cs) := by
  induction ps with
  | nil => rfl
  | cons q r ih =>
    have hq := h q (List.mem_cons_self ..)
    have hr : (fun idx => w idx - (fun _ => (0 : Rat)) idx) = w := by funext idx; simp
    have hv : visit q.1 w (fun _ => 0) = (w, fun _ => 0) := by
      simp only [visit, hr, hq]
      congr 1
      funext idx; simp
    simp only [dykstraPassS, getD_of_all hz, hv, set_of_all hz]
    exact ih (fun q' hq' => h q' (List.mem_cons_of_mem _ hq'))

theorem dykstraIterS_fix (ps : List ((W → W) × Nat)) (w : W) (h : ∀ q ∈ ps, q.1 w = w) (cs : List W)
    (hz : AllZero cs) (n : Nat) : dykstraIterS ps n (w, cs) = (w, cs) := by
  induction n with
  | zero => rfl
  | succ n ih => simp only [dykstraIterS, dykstraPassS_fix ps w h cs hz]; exact ih

/-! ### bookkeeping: `w − Σ_slots last_change` is invariant, for any maps and any slots -/

/-- `Σ_c c idx` over the slot list -/
def slotSum (cs : List W) (idx : Idx) : Rat := rsum (cs.map (fun c => c idx))

theorem slotSum_set (cs : List W) (s : Nat) (hs : s < cs.length) (x : W) (idx : Idx) :
    slotSum (cs.set s x) idx = slotSum cs idx - cs.getD s (fun _ => 0) idx + x idx := by
  induction cs generalizing s with
  | nil => simp at hs
  | cons c cr ih =>
    cases s with
    | zero => simp only [List.set_cons_zero, slotSum, List.map_cons, rsum, List.getD_cons_zero]; ring
    | succ s =>
      have := ih s (by simpa using hs)
      simp only [slotSum, List.set_cons_succ, List.map_cons, rsum, List.getD_cons_succ] at this ⊢
      rw [this]; ring

/-- **T3 with shared slots.** One pass keeps `w − Σ_slots last_change` invariant on every vertex,
whatever the maps are and whichever positions share a slot (every visit rolls back exactly what its
slot holds and stores exactly what it added). -/
theorem dykstraPassS_telescoping (ps : List ((W → W) × Nat)) (w : W) (cs : List W)
    (hs : ∀ q ∈ ps, q.2 < cs.length) (idx : Idx) :
    (dykstraPassS ps w cs).1 idx - slotSum (dykstraPassS ps w cs).2 idx = w idx - slotSum cs idx := by
  induction ps generalizing w cs with
  | nil => rfl
  | cons q r ih =>
    have hq := hs q (List.mem_cons_self ..)
    simp only [dykstraPassS]
    rw [ih _ _ (fun q' hq' => by rw [List.length_set]; exact hs q' (List.mem_cons_of_mem _ hq'))]
    rw [slotSum_set cs q.2 hq]
    simp only [visit]
    ring

theorem dykstraIterS_telescoping (ps : List ((W → W) × Nat)) (n : Nat) (w : W) (cs : List W)
    (hs : ∀ q ∈ ps, q.2 < cs.length) (idx : Idx) :
    (dykstraIterS ps n (w, cs)).1 idx - slotSum (dykstraIterS ps n (w, cs)).2 idx = w idx - slotSum cs idx := by
  induction n generalizing w cs with
  | zero => rfl
  | succ n ih =>
    simp only [dykstraIterS]
    rw [ih _ _ (fun q hq => by rw [dykstraPassS_length]; exact hs q hq), dykstraPassS_telescoping ps w cs hs]

/-! ### the executable slotted loop -/

theorem dykstraPassT_len (sizes : List Nat) (ps : List (W → W)) (t : Table) (cs : List Table) :
    (dykstraPassT sizes ps t cs).2.length = ps.length := by
  induction ps generalizing t cs with
  | nil => rfl
  | cons P r ih => simp [dykstraPassT, ih]

theorem dykstraPassST_length (sizes : List Nat) (ps : List ((W → W) × Nat)) (t : Table) (cs : List Table) :
    (dykstraPassST sizes ps t cs).2.length = cs.length := by
  induction ps generalizing t cs with
  | nil => rfl
  | cons q r ih => simp [dykstraPassST, ih]

theorem dykstraPassST_range_aux (sizes : List Nat) (ps : List (W → W)) :
    ∀ (pre cs : List Table) (t : Table), cs.length = ps.length →
      dykstraPassST sizes (ps.zip (List.range' pre.length ps.length)) t (pre ++ cs)
        = ((dykstraPassT sizes ps t cs).1, pre ++ (dykstraPassT sizes ps t cs).2) := by
  induction ps with
  | nil =>
    intro pre cs t hl
    have : cs = [] := List.eq_nil_of_length_eq_zero (by simpa using hl)
    subst this
    simp [dykstraPassST, dykstraPassT]
  | cons P r ih =>
    intro pre cs t hl
    cases cs with
    | nil => simp at hl
    | cons c cr =>
      have hl' : cr.length = r.length := by simpa using hl
      have hget : (pre ++ c :: cr).getD pre.length (zeroT sizes) = c := by
        rw [List.getD_eq_getElem _ _ (by simp)]
        simp
      have hset : ∀ x : Table, (pre ++ c :: cr).set pre.length x = (pre ++ [x]) ++ cr := by
        intro x
        rw [List.set_append_right _ _ le_rfl]
        simp
      simp only [List.length_cons, List.range'_succ, List.zip_cons_cons, dykstraPassST, hget, hset,
        dykstraPassT, List.headD_cons, List.tail_cons]
      have := ih (pre ++ [subT sizes (runStage sizes P (subT sizes t c)) (subT sizes t c)]) cr
        (runStage sizes P (subT sizes t c)) hl'
      simp only [List.length_append, List.length_cons, List.length_nil, Nat.zero_add] at this
      rw [this]
      simp

/-- **bridge, executable, one pass** -/
theorem dykstraPassST_range (sizes : List Nat) (ps : List (W → W)) (t : Table) (cs : List Table)
    (hl : cs.length = ps.length) :
    dykstraPassST sizes (ps.zip (List.range ps.length)) t cs = dykstraPassT sizes ps t cs := by
  have := dykstraPassST_range_aux sizes ps [] cs t hl
  simpa [List.range_eq_range'] using this

/-- **bridge, executable, all passes**: with one slot per position the slotted table loop is
`dykstraIterT` -/
theorem dykstraIterST_range (sizes : List Nat) (ps : List (W → W)) (n : Nat) (t : Table) (cs : List Table)
    (hl : cs.length = ps.length) :
    dykstraIterST sizes (ps.zip (List.range ps.length)) n (t, cs) = dykstraIterT sizes ps n (t, cs) := by
  induction n generalizing t cs with
  | zero => rfl
  | succ n ih =>
    simp only [dykstraIterST, dykstraIterT]
    rw [dykstraPassST_range sizes ps t cs hl]
    exact ih _ _ (dykstraPassT_len sizes ps t cs)

/-- **the executable `project_by_dykstra` without repeated keys** is the position-slotted table loop
(the loop of the convergence theorems) -/
theorem projectByDykstraT_of_nodup (c : DCfg) (h : (groupKeys c).Nodup) (n : Nat) (t : Table) :
    projectByDykstraT c n t =
      if n = 0 || !dykstraActive c then t
      else (dykstraIterT c.sizes (groups c) n (t, (groups c).map (fun _ => zeroT c.sizes))).1 := by
  unfold projectByDykstraT
  split_ifs
  · rfl
  · simp only [slots_of_nodup c h]
    rw [dykstraIterST_range c.sizes (groups c) n t _ (by simp)]

/-- all entries of the slot list are the zero table -/
def AllZeroT (sizes : List Nat) (cs : List Table) : Prop := ∀ c ∈ cs, c = zeroT sizes

theorem allZeroT_map (sizes : List Nat) {α : Type} (l : List α) : AllZeroT sizes (l.map (fun _ => zeroT sizes)) := by
  intro c hc
  obtain ⟨_, _, rfl⟩ := List.mem_map.mp hc
  rfl

/-- normalised table, every group fixes it on the box, all slots zero: one pass returns literally the
same state, whatever the slots -/
theorem dykstraPassST_fix (sizes : List Nat) (ps : List ((W → W) × Nat)) (t : Table) (ht : Normal sizes t)
    (h : ∀ q ∈ ps, AgreeOn sizes (q.1 t.get) t.get) (cs : List Table) (hz : AllZeroT sizes cs) :
    dykstraPassST sizes ps t cs = (t, cs) := by
  induction ps with
  | nil => rfl
  | cons q r ih =>
    have hr : subT sizes t (zeroT sizes) = t := by rw [subT_zeroT]; exact ht.symm
    simp only [dykstraPassST, getD_of_all hz, hr, runStage_fix ht (h q (List.mem_cons_self ..)), subT_self,
      set_of_all hz]
    exact ih (fun q' hq' => h q' (List.mem_cons_of_mem _ hq'))

theorem dykstraIterST_fix (sizes : List Nat) (ps : List ((W → W) × Nat)) (t : Table) (ht : Normal sizes t)
    (h : ∀ q ∈ ps, AgreeOn sizes (q.1 t.get) t.get) (cs : List Table) (hz : AllZeroT sizes cs) (n : Nat) :
    dykstraIterST sizes ps n (t, cs) = (t, cs) := by
  induction n with
  | zero => rfl
  | succ n ih => simp only [dykstraIterST, dykstraPassST_fix sizes ps t ht h cs hz]; exact ih

/-- ANY table (normalised or not): after the first pass the state is the normalised copy -/
theorem dykstraPassST_fix_any (sizes : List Nat) (ps : List ((W → W) × Nat)) (t : Table) (hne : ps ≠ [])
    (hloc : ∀ q ∈ ps, Local sizes q.1) (h : ∀ q ∈ ps, AgreeOn sizes (q.1 t.get) t.get)
    (cs : List Table) (hz : AllZeroT sizes cs) :
    dykstraPassST sizes ps t cs = (tabulate sizes t.get, cs) := by
  have h0 : ∀ q ∈ ps, AgreeOn sizes (q.1 (tabulate sizes t.get).get) (tabulate sizes t.get).get :=
    fun q hq => fix_on_normalised (hloc q hq) (h q hq)
  have hn := normal_tabulate sizes t.get
  cases ps with
  | nil => exact absurd rfl hne
  | cons q r =>
    simp only [dykstraPassST, getD_of_all hz, subT_zeroT,
      runStage_fix hn (h0 q (List.mem_cons_self ..)), subT_self, set_of_all hz]
    exact dykstraPassST_fix sizes r _ hn (fun q' hq' => h0 q' (List.mem_cons_of_mem _ hq')) cs hz

theorem dykstraIterST_fix_any (sizes : List Nat) (ps : List ((W → W) × Nat)) (t : Table)
    (hloc : ∀ q ∈ ps, Local sizes q.1) (h : ∀ q ∈ ps, AgreeOn sizes (q.1 t.get) t.get)
    (cs : List Table) (hz : AllZeroT sizes cs) (n : Nat) :
    Table.vals sizes (dykstraIterST sizes ps n (t, cs)).1 = Table.vals sizes t := by
  cases n with
  | zero => rfl
  | succ n =>
    by_cases hne : ps = []
    · subst hne
      have : ∀ m, dykstraIterST sizes [] m (t, cs) = (t, cs) := by
        intro m; induction m with
        | zero => rfl
        | succ m ih => simpa [dykstraIterST, dykstraPassST] using ih
      simpa using congrArg (fun s => Table.vals sizes s.1) (this (n + 1))
    · simp only [dykstraIterST, dykstraPassST_fix_any sizes ps t hne hloc h cs hz]
      rw [dykstraIterST_fix sizes ps _ (normal_tabulate sizes t.get)
        (fun q hq => fix_on_normalised (hloc q hq) (h q hq)) cs hz]
      rw [vals_tabulate]; rfl

/-! ### the executable slotted loop computes the function-level slotted loop on the box -/

theorem agreeL_getD {sizes : List Nat} {ts : List Table} {cs : List W} (h : AgreeL sizes ts cs) (s : Nat) :
    AgreeOn sizes (ts.getD s (zeroT sizes)).get (cs.getD s (fun _ => 0)) := by
  induction h generalizing s with
  | nil => simpa [zeroT] using agreeOn_tabulate sizes (fun _ => (0 : Rat))
  | cons hd _ ih =>
    cases s with
    | zero => simpa using hd
    | succ s => simpa using ih s

theorem agreeL_set {sizes : List Nat} {ts : List Table} {cs : List W} (h : AgreeL sizes ts cs) (s : Nat)
    {x : Table} {y : W} (hxy : AgreeOn sizes x.get y) : AgreeL sizes (ts.set s x) (cs.set s y) := by
  induction h generalizing s with
  | nil => exact List.Forall₂.nil
  | cons hd tl ih =>
    cases s with
    | zero => exact List.Forall₂.cons hxy tl
    | succ s => exact List.Forall₂.cons hd (ih s)

theorem dykstraPassST_agree (sizes : List Nat) (ps : List ((W → W) × Nat)) (hloc : ∀ q ∈ ps, Local sizes q.1) :
    ∀ {t : Table} {w : W} {ts : List Table} {cs : List W}, AgreeOn sizes t.get w → AgreeL sizes ts cs →
      AgreeOn sizes (dykstraPassST sizes ps t ts).1.get (dykstraPassS ps w cs).1 ∧
        AgreeL sizes (dykstraPassST sizes ps t ts).2 (dykstraPassS ps w cs).2 := by
  induction ps with
  | nil => intro t w ts cs hw hc; exact ⟨hw, hc⟩
  | cons q r ih =>
    intro t w ts cs hw hc
    have hhd := agreeL_getD hc q.2
    have hrolled : AgreeOn sizes (subT sizes t (ts.getD q.2 (zeroT sizes))).get
        (fun idx => w idx - (cs.getD q.2 (fun _ => 0)) idx) := by
      intro idx hr
      rw [subT_agree sizes _ _ idx hr]
      show t.get idx - _ = _
      rw [hw idx hr, hhd idx hr]
    have hw' := runStage_agree (hloc q (List.mem_cons_self ..)) hrolled
    have hch : AgreeOn sizes
        (subT sizes (runStage sizes q.1 (subT sizes t (ts.getD q.2 (zeroT sizes))))
          (subT sizes t (ts.getD q.2 (zeroT sizes)))).get
        (visit q.1 w (cs.getD q.2 (fun _ => 0))).2 := by
      intro idx hr
      rw [subT_agree sizes _ _ idx hr]
      show (runStage sizes q.1 _).get idx - _ = _
      rw [hw' idx hr, hrolled idx hr]
      rfl
    exact ih (fun q' hq' => hloc q' (List.mem_cons_of_mem _ hq')) hw' (agreeL_set hc q.2 hch)

theorem dykstraIterST_agree (sizes : List Nat) (ps : List ((W → W) × Nat)) (hloc : ∀ q ∈ ps, Local sizes q.1)
    (n : Nat) :
    ∀ {t : Table} {w : W} {ts : List Table} {cs : List W}, AgreeOn sizes t.get w → AgreeL sizes ts cs →
      AgreeOn sizes (dykstraIterST sizes ps n (t, ts)).1.get (dykstraIterS ps n (w, cs)).1 ∧
        AgreeL sizes (dykstraIterST sizes ps n (t, ts)).2 (dykstraIterS ps n (w, cs)).2 := by
  induction n with
  | zero => intro t w ts cs hw hc; exact ⟨hw, hc⟩
  | succ n ih =>
    intro t w ts cs hw hc
    obtain ⟨h1, h2⟩ := dykstraPassST_agree sizes ps hloc hw hc
    exact ih h1 h2

/-- the members of `ps.zip sl` carry maps of `ps` -/
theorem zip_fst_mem {α β : Type} {ps : List α} {sl : List β} {q : α × β} (hq : q ∈ ps.zip sl) : q.1 ∈ ps :=
  (List.of_mem_zip hq).1

theorem zip_snd_mem {α β : Type} {ps : List α} {sl : List β} {q : α × β} (hq : q ∈ ps.zip sl) : q.2 ∈ sl :=
  (List.of_mem_zip hq).2


/-! ### no repeated constraint ⇒ no repeated key -/

/-- no constraint list of the configuration has a repeated entry -/
structure NoRepeats (c : DCfg) : Prop where
  edge : c.edgeworth.Nodup
  trap : c.trapezoid.Nodup
  mdom : c.monoDom.Nodup
  rdom : c.rangeDom.Nodup
  jmono : c.jointMono.Nodup
  juni : c.jointUnimod.Nodup

/-- `flatMap` over a duplicate-free list is duplicate-free when every part is and every produced
element remembers the list element it came from -/
theorem nodup_flatMap_of_key {α β : Type} (l : List α) (f : α → List β) (key : β → Option α)
    (hl : l.Nodup) (hf : ∀ x ∈ l, (f x).Nodup) (hk : ∀ x ∈ l, ∀ b ∈ f x, key b = some x) :
    (l.flatMap f).Nodup := by
  induction l with
  | nil => simp
  | cons x r ih =>
    rw [List.flatMap_cons, List.nodup_append']
    obtain ⟨hx, hr⟩ := List.nodup_cons.mp hl
    refine ⟨hf x (List.mem_cons_self ..), ih hr (fun y hy => hf y (List.mem_cons_of_mem _ hy))
      (fun y hy => hk y (List.mem_cons_of_mem _ hy)), ?_⟩
    intro b hb1 hb2
    obtain ⟨y, hy, hby⟩ := List.mem_flatMap.mp hb2
    have h1 := hk x (List.mem_cons_self ..) b hb1
    have h2 := hk y (List.mem_cons_of_mem _ hy) b hby
    rw [h1] at h2
    exact hx ((Option.some.inj h2) ▸ hy)

theorem nodup_offsetsAll (n : Nat) : (offsetsAll n).Nodup := by
  induction n with
  | zero => simp [offsetsAll]
  | succ n ih =>
    simp only [offsetsAll]
    refine nodup_flatMap_of_key _ _ (fun r => r.head?) (by decide) (fun o _ => ih.map (fun a b h => by simpa using h))
      (fun o _ b hb => ?_)
    obtain ⟨r, _, rfl⟩ := List.mem_map.mp hb
    rfl

/-- the family of a key -/
def SlotKey.tag : SlotKey → Nat
  | .mono .. => 0 | .edge .. => 1 | .trap .. => 2 | .mdom .. => 3 | .rdom .. => 4 | .jmono .. => 5
  | .juni .. => 6

theorem nodup_append_of_tag {l₁ l₂ : List SlotKey} {a b : Nat} (h1 : l₁.Nodup) (h2 : l₂.Nodup)
    (t1 : ∀ k ∈ l₁, k.tag ≤ a) (t2 : ∀ k ∈ l₂, k.tag = b) (hab : a < b) : (l₁ ++ l₂).Nodup := by
  rw [List.nodup_append']
  refine ⟨h1, h2, fun k hk1 hk2 => ?_⟩
  have := t1 k hk1
  have := t2 k hk2
  omega

theorem nodup_step {l₁ l₂ : List SlotKey} {a b : Nat} (h1 : l₁.Nodup ∧ ∀ k ∈ l₁, k.tag ≤ a) (h2 : l₂.Nodup)
    (t2 : ∀ k ∈ l₂, k.tag = b) (hab : a < b) : (l₁ ++ l₂).Nodup ∧ ∀ k ∈ l₁ ++ l₂, k.tag ≤ b := by
  refine ⟨nodup_append_of_tag h1.1 h2 h1.2 t2 hab, fun k hk => ?_⟩
  rcases List.mem_append.mp hk with hk | hk
  · have := h1.2 k hk; omega
  · exact (t2 k hk).le

theorem nodup_quads : ([(0,0),(0,1),(1,0),(1,1)] : List (Nat × Nat)).Nodup := by decide
theorem nodup_tris : ([(0,0,false),(0,0,true),(0,1,false),(0,1,true),(1,0,false),(1,0,true),(1,1,false),
    (1,1,true)] : List (Nat × Nat × Bool)).Nodup := by decide
theorem nodup_par : ([0, 1] : List Nat).Nodup := by decide

/-- **no repeated constraint tuple ⇒ no repeated `last_change` key**: then every group visit has its
own slot and `projectByDykstraT` runs the position-slotted loop (`projectByDykstraT_of_nodup`). -/
theorem groupKeys_nodup (c : DCfg) (h : NoRepeats c) : (groupKeys c).Nodup := by
  unfold groupKeys
  -- the seven families
  have h0 : ((List.range c.sizes.length).flatMap (fun d =>
      if (!(c.mono.getD d false) && c.unimod.getD d 0 == 0) = true then ([] : List SlotKey) else
        ([0, 1].filter (fun g => g + 1 < sz c d)).map (fun g => SlotKey.mono d g))).Nodup := by
    refine nodup_flatMap_of_key _ _ (fun k => match k with | .mono d _ => some d | _ => none)
      List.nodup_range (fun d _ => ?_) (fun d _ b hb => ?_)
    · split_ifs
      · exact List.nodup_nil
      · exact (nodup_par.filter _).map (fun a b h => by simpa using h)
    · split_ifs at hb
      · cases hb
      · obtain ⟨g, _, rfl⟩ := List.mem_map.mp hb; rfl
  have h1 : (c.edgeworth.flatMap (fun tr =>
      ([(0,0),(0,1),(1,0),(1,1)].filter (fun g => g.1 + 1 < sz c tr.main ∧ g.2 + 1 < sz c tr.cond)).map
        (fun g => SlotKey.edge tr g.1 g.2))).Nodup := by
    refine nodup_flatMap_of_key _ _ (fun k => match k with | .edge tr _ _ => some tr | _ => none)
      h.edge (fun tr _ => ?_) (fun tr _ b hb => ?_)
    · exact (nodup_quads.filter _).map (fun a b h => by
        simp only [SlotKey.edge.injEq, true_and] at h; exact Prod.ext h.1 h.2)
    · obtain ⟨g, _, rfl⟩ := List.mem_map.mp hb; rfl
  have h2 : (c.trapezoid.flatMap (fun tr =>
      ([0, 1].filter (fun g => g + 1 < sz c tr.cond)).map (fun g => SlotKey.trap tr g))).Nodup := by
    refine nodup_flatMap_of_key _ _ (fun k => match k with | .trap tr _ => some tr | _ => none)
      h.trap (fun tr _ => ?_) (fun tr _ b hb => ?_)
    · exact (nodup_par.filter _).map (fun a b h => by simpa using h)
    · obtain ⟨g, _, rfl⟩ := List.mem_map.mp hb; rfl
  have h3 : (c.monoDom.flatMap (fun p =>
      ([(0,0,false),(0,0,true),(0,1,false),(0,1,true),(1,0,false),(1,0,true),(1,1,false),(1,1,true)].filter
        (fun g => g.1 + 1 < sz c p.1 ∧ g.2.1 + 1 < sz c p.2)).map
        (fun g => SlotKey.mdom p g.1 g.2.1 g.2.2))).Nodup := by
    refine nodup_flatMap_of_key _ _ (fun k => match k with | .mdom p _ _ _ => some p | _ => none)
      h.mdom (fun p _ => ?_) (fun p _ b hb => ?_)
    · exact (nodup_tris.filter _).map (fun a b h => by
        simp only [SlotKey.mdom.injEq, true_and] at h
        exact Prod.ext h.1 (Prod.ext h.2.1 h.2.2))
    · obtain ⟨g, _, rfl⟩ := List.mem_map.mp hb; rfl
  have h4 : (c.rangeDom.flatMap (fun p =>
      (List.range (sz c p.1)).flatMap (fun i => (List.range (sz c p.2)).map (fun j =>
        SlotKey.rdom p i j)))).Nodup := by
    refine nodup_flatMap_of_key _ _ (fun k => match k with | .rdom p _ _ => some p | _ => none)
      h.rdom (fun p _ => ?_) (fun p _ b hb => ?_)
    · refine nodup_flatMap_of_key _ _ (fun k => match k with | .rdom _ i _ => some i | _ => none)
        List.nodup_range (fun i _ => ?_) (fun i _ b hb => ?_)
      · exact List.nodup_range.map (fun a b h => by simpa using h)
      · obtain ⟨j, _, rfl⟩ := List.mem_map.mp hb; rfl
    · obtain ⟨i, _, hb⟩ := List.mem_flatMap.mp hb
      obtain ⟨j, _, rfl⟩ := List.mem_map.mp hb; rfl
  have h5 : (c.jointMono.flatMap (fun p =>
      ([(0,0,false),(0,0,true),(0,1,false),(0,1,true),(1,0,false),(1,0,true),(1,1,false),(1,1,true)].filter
        (fun g => g.1 + 1 < sz c p.1 ∧ g.2.1 + 1 < sz c p.2)).map
        (fun g => SlotKey.jmono p g.1 g.2.1 g.2.2))).Nodup := by
    refine nodup_flatMap_of_key _ _ (fun k => match k with | .jmono p _ _ _ => some p | _ => none)
      h.jmono (fun p _ => ?_) (fun p _ b hb => ?_)
    · exact (nodup_tris.filter _).map (fun a b h => by
        simp only [SlotKey.jmono.injEq, true_and] at h
        exact Prod.ext h.1 (Prod.ext h.2.1 h.2.2))
    · obtain ⟨g, _, rfl⟩ := List.mem_map.mp hb; rfl
  have h6 : (c.jointUnimod.flatMap (fun ju =>
      (allIdx (ju.dims.map (sz c))).flatMap (fun vertex =>
        (offsetsAll ju.dims.length).filterMap (fun offs =>
          (juStencil (ju.dims.map (sz c)) vertex offs).map (fun _ => SlotKey.juni ju vertex offs))))).Nodup := by
    refine nodup_flatMap_of_key _ _ (fun k => match k with | .juni ju _ _ => some ju | _ => none)
      h.juni (fun ju _ => ?_) (fun ju _ b hb => ?_)
    · refine nodup_flatMap_of_key _ _ (fun k => match k with | .juni _ v _ => some v | _ => none)
        (nodup_allIdx _) (fun v _ => ?_) (fun v _ b hb => ?_)
      · refine (nodup_offsetsAll _).filterMap (fun o o' b hb hb' => ?_)
        cases hs : juStencil (ju.dims.map (sz c)) v o with
        | none => rw [hs] at hb; simp at hb
        | some st =>
          cases hs' : juStencil (ju.dims.map (sz c)) v o' with
          | none => rw [hs'] at hb'; simp at hb'
          | some st' =>
            rw [hs] at hb; rw [hs'] at hb'
            simp only [Option.map_some, Option.mem_def, Option.some.injEq] at hb hb'
            rw [← hb'] at hb
            simpa using hb
      · obtain ⟨o, _, hb⟩ := List.mem_filterMap.mp hb
        cases hs : juStencil (ju.dims.map (sz c)) v o with
        | none => rw [hs] at hb; simp at hb
        | some st =>
          rw [hs] at hb
          simp only [Option.map_some, Option.some.injEq] at hb
          subst hb; rfl
    · obtain ⟨v, _, hb⟩ := List.mem_flatMap.mp hb
      obtain ⟨o, _, hb⟩ := List.mem_filterMap.mp hb
      cases hs : juStencil (ju.dims.map (sz c)) v o with
      | none => rw [hs] at hb; simp at hb
      | some st =>
        rw [hs] at hb
        simp only [Option.map_some, Option.some.injEq] at hb
        subst hb; rfl
  -- tags
  have tag_fm : ∀ {α : Type} (l : List α) (f : α → List SlotKey) (i : Nat),
      (∀ x ∈ l, ∀ b ∈ f x, b.tag = i) → ∀ k ∈ l.flatMap f, k.tag = i := by
    intro α l f i hf k hk
    obtain ⟨x, hx, hk⟩ := List.mem_flatMap.mp hk
    exact hf x hx k hk
  have t0 := tag_fm (List.range c.sizes.length) (fun d =>
      if (!(c.mono.getD d false) && c.unimod.getD d 0 == 0) = true then ([] : List SlotKey) else
        ([0, 1].filter (fun g => g + 1 < sz c d)).map (fun g => SlotKey.mono d g)) 0 (fun d _ b hb => by
    split_ifs at hb
    · cases hb
    · obtain ⟨g, _, rfl⟩ := List.mem_map.mp hb; rfl)
  have t1 := tag_fm c.edgeworth (fun tr =>
      ([(0,0),(0,1),(1,0),(1,1)].filter (fun g => g.1 + 1 < sz c tr.main ∧ g.2 + 1 < sz c tr.cond)).map
        (fun g => SlotKey.edge tr g.1 g.2)) 1 (fun tr _ b hb => by
    obtain ⟨g, _, rfl⟩ := List.mem_map.mp hb; rfl)
  have t2 := tag_fm c.trapezoid (fun tr =>
      ([0, 1].filter (fun g => g + 1 < sz c tr.cond)).map (fun g => SlotKey.trap tr g)) 2 (fun tr _ b hb => by
    obtain ⟨g, _, rfl⟩ := List.mem_map.mp hb; rfl)
  have t3 := tag_fm c.monoDom (fun p =>
      ([(0,0,false),(0,0,true),(0,1,false),(0,1,true),(1,0,false),(1,0,true),(1,1,false),(1,1,true)].filter
        (fun g => g.1 + 1 < sz c p.1 ∧ g.2.1 + 1 < sz c p.2)).map
        (fun g => SlotKey.mdom p g.1 g.2.1 g.2.2)) 3 (fun p _ b hb => by
    obtain ⟨g, _, rfl⟩ := List.mem_map.mp hb; rfl)
  have t4 := tag_fm c.rangeDom (fun p =>
      (List.range (sz c p.1)).flatMap (fun i => (List.range (sz c p.2)).map (fun j =>
        SlotKey.rdom p i j))) 4 (fun p _ b hb => by
    obtain ⟨i, _, hb⟩ := List.mem_flatMap.mp hb
    obtain ⟨j, _, rfl⟩ := List.mem_map.mp hb; rfl)
  have t5 := tag_fm c.jointMono (fun p =>
      ([(0,0,false),(0,0,true),(0,1,false),(0,1,true),(1,0,false),(1,0,true),(1,1,false),(1,1,true)].filter
        (fun g => g.1 + 1 < sz c p.1 ∧ g.2.1 + 1 < sz c p.2)).map
        (fun g => SlotKey.jmono p g.1 g.2.1 g.2.2)) 5 (fun p _ b hb => by
    obtain ⟨g, _, rfl⟩ := List.mem_map.mp hb; rfl)
  have t6 := tag_fm c.jointUnimod (fun ju =>
      (allIdx (ju.dims.map (sz c))).flatMap (fun vertex =>
        (offsetsAll ju.dims.length).filterMap (fun offs =>
          (juStencil (ju.dims.map (sz c)) vertex offs).map (fun _ => SlotKey.juni ju vertex offs)))) 6
      (fun ju _ b hb => by
    obtain ⟨v, _, hb⟩ := List.mem_flatMap.mp hb
    obtain ⟨o, _, hb⟩ := List.mem_filterMap.mp hb
    cases hs : juStencil (ju.dims.map (sz c)) v o with
    | none => rw [hs] at hb; simp at hb
    | some st =>
      rw [hs] at hb
      simp only [Option.map_some, Option.some.injEq] at hb
      subst hb; rfl)
  have s0 : _ ∧ ∀ k ∈ _, SlotKey.tag k ≤ 0 := ⟨h0, fun k hk => (t0 k hk).le⟩
  exact (nodup_step (nodup_step (nodup_step (nodup_step (nodup_step (nodup_step s0 h1 t1 (by omega))
    h2 t2 (by omega)) h3 t3 (by omega)) h4 t4 (by omega)) h5 t5 (by omega)) h6 t6 (by omega)).1

/-- all constraint lists empty (monotonicity / unimodality only) ⇒ no key repeats -/
theorem groupKeys_nodup_of_empty (c : DCfg) (h1 : c.edgeworth = []) (h2 : c.trapezoid = []) (h3 : c.monoDom = [])
    (h4 : c.rangeDom = []) (h5 : c.jointMono = []) (h6 : c.jointUnimod = []) : (groupKeys c).Nodup :=
  groupKeys_nodup c ⟨by simp [h1], by simp [h2], by simp [h3], by simp [h4], by simp [h5], by simp [h6]⟩

end Tfl.Lat
