import TflModel.Lemmas.Regularizers
/-! Lemmas for C13, units: the box `sizes ++ [n]` is the box `sizes` times `range n` (row-major), so a
sum over the extended box is the sum over units of the sums over the unit slices; an axis that
carries no amount contributes nothing.  Hence `lapSpec` / `torSpec` on the extended shape are the
sums over units of `lapSpec` / `torSpec` of the slices `fun idx => w (idx ++ [u])`. -/
namespace Tfl.Reg
open Tfl

/-- unit `u` of the reshaped weights: with `units > 1` the units axis is the LAST coordinate of the
index; with `units = 1` the axis does not exist and the kernel is its own only slice
(the driver's `unitTable`). -/
def unitSlice (units u : Nat) (w : W) : W := if units > 1 then fun idx => w (idx ++ [u]) else w

/-! ### the extended box -/
theorem allIdx_snoc (sizes : List Nat) (n : Nat) :
    allIdx (sizes ++ [n]) =
      (allIdx sizes).flatMap (fun idx => (List.range n).map (fun u => idx ++ [u])) := by
  induction sizes with
  | nil =>
    simp only [List.nil_append, allIdx, List.map_singleton, List.flatMap_cons,
      List.flatMap_nil, List.append_nil]
    induction (List.range n) with
    | nil => rfl
    | cons x xs ih => simp [List.flatMap_cons, ih]
  | cons m ns ih =>
    simp only [List.cons_append, allIdx, ih, List.flatMap_assoc, List.map_flatMap, List.flatMap_map,
      List.map_map, Function.comp_def]

theorem rsum_filter_map {α} (L : List α) (p : α → Bool) (g : α → Rat) :
    rsum ((L.filter p).map g) = rsum (L.map (fun x => if p x then g x else 0)) := by
  induction L with
  | nil => rfl
  | cons x xs ih =>
    by_cases h : p x = true
    · simp only [List.filter_cons, h, if_true, List.map_cons, rsum, ih]
    · simp only [List.filter_cons, h, if_false, List.map_cons, rsum, ih, Bool.false_eq_true, zero_add]

theorem rsum_filter_map_congr {α} {L : List α} {p q : α → Bool} {f g : α → Rat}
    (h : ∀ a ∈ L, p a = q a ∧ f a = g a) :
    rsum ((L.filter p).map f) = rsum ((L.filter q).map g) := by
  rw [rsum_filter_map, rsum_filter_map]
  apply rsum_map_congr
  intro a ha
  rw [(h a ha).1, (h a ha).2]

/-- a (filtered) sum over the extended box = the sum over units of the (filtered) sums over the box -/
theorem rsum_allIdx_snoc (sizes : List Nat) (n : Nat) (p : Idx → Bool) (g : Idx → Rat) :
    rsum (((allIdx (sizes ++ [n])).filter p).map g) =
      rsum ((List.range n).map (fun u =>
        rsum (((allIdx sizes).filter (fun idx => p (idx ++ [u]))).map (fun idx => g (idx ++ [u]))))) := by
  rw [rsum_filter_map, allIdx_snoc, List.map_flatMap, rsum_flatMap]
  simp only [List.map_map, Function.comp_def]
  rw [rsum_comm]
  apply rsum_map_congr
  intro u _
  rw [rsum_filter_map]

theorem coord_snoc_lt {idx : Idx} {d : Nat} (h : d < idx.length) (u : Nat) :
    coord (idx ++ [u]) d = coord idx d := by
  simp [coord, List.getD, List.getElem?_append_left h]

theorem setc_snoc_lt {idx : Idx} {d : Nat} (h : d < idx.length) (u v : Nat) :
    setc (idx ++ [u]) d v = setc idx d v ++ [u] := by
  simp [setc, h]

/-! ### Laplacian -/
/-- one lattice dimension `d` of the Laplacian on the extended box -/
theorem lapDim_snoc (sizes : List Nat) (n : Nat) {d : Nat} (hd : d < sizes.length) (a b : Rat) (w : W) :
    rsum (((allIdx (sizes ++ [n])).filter (fun idx => coord idx d + 1 < coord (sizes ++ [n]) d)).map
      (fun idx => absSq a b (w (setc idx d (coord idx d + 1)) - w idx))) =
    rsum ((List.range n).map (fun u =>
      rsum (((allIdx sizes).filter (fun idx => coord idx d + 1 < coord sizes d)).map (fun idx =>
        absSq a b ((fun idx => w (idx ++ [u])) (setc idx d (coord idx d + 1)) -
          (fun idx => w (idx ++ [u])) idx))))) := by
  rw [rsum_allIdx_snoc]
  apply rsum_map_congr
  intro u _
  apply rsum_filter_map_congr
  intro idx hm
  have hl : idx.length = sizes.length := (mem_allIdx_box.mp hm).1
  have hdi : d < idx.length := by omega
  rw [coord_snoc_lt hdi, coord_snoc_lt hd, setc_snoc_lt hdi]
  exact ⟨rfl, rfl⟩

/-- the documented Laplacian on the shape `sizes ++ [n]`, the last axis carrying no amount, is the sum
over the `n` units of the documented Laplacian of the unit slices -/
theorem lapSpec_snoc (sizes : List Nat) (n : Nat) (l1 l2 : List Rat) (w : W)
    (h1 : getR l1 sizes.length = 0) (h2 : getR l2 sizes.length = 0) :
    lapSpec (sizes ++ [n]) l1 l2 w =
      rsum ((List.range n).map (fun u => lapSpec sizes l1 l2 (fun idx => w (idx ++ [u])))) := by
  unfold lapSpec
  rw [rsum_comm]
  simp only [List.length_append, List.length_singleton, List.range_succ, List.map_append, rsum_append,
    List.map_singleton]
  have hz : ∀ (L : List Idx) (f : Idx → Rat), rsum (L.map (fun idx => absSq 0 0 (f idx))) = 0 := by
    intro L f
    apply rsum_eq_zero
    intro x hx
    obtain ⟨y, _, rfl⟩ := List.mem_map.mp hx
    exact absSq_zero_amounts _
  rw [h1, h2, hz]
  simp only [rsum, add_zero]
  apply rsum_map_congr
  intro d hd
  exact lapDim_snoc sizes n (List.mem_range.mp hd) _ _ w

/-! ### torsion -/
theorem twist_snoc {idx : Idx} {d d' : Nat} (hd : d < idx.length) (hd' : d' < idx.length) (u : Nat) (w : W) :
    twist w d d' (idx ++ [u]) = twist (fun idx => w (idx ++ [u])) d d' idx := by
  simp only [twist]
  rw [coord_snoc_lt hd, coord_snoc_lt hd', setc_snoc_lt hd, setc_snoc_lt hd',
    setc_snoc_lt (by simpa using hd')]

/-- one pair `d < d'` of lattice dimensions of the torsion on the extended box -/
theorem torPair_snoc (sizes : List Nat) (n : Nat) {d d' : Nat} (hd : d < sizes.length)
    (hd' : d' < sizes.length) (a b : Rat) (w : W) :
    rsum (((allIdx (sizes ++ [n])).filter (fun idx =>
        coord idx d + 1 < coord (sizes ++ [n]) d ∧ coord idx d' + 1 < coord (sizes ++ [n]) d')).map
      (fun idx => absSq a b (twist w d d' idx))) =
    rsum ((List.range n).map (fun u =>
      rsum (((allIdx sizes).filter (fun idx =>
          coord idx d + 1 < coord sizes d ∧ coord idx d' + 1 < coord sizes d')).map (fun idx =>
        absSq a b (twist (fun idx => w (idx ++ [u])) d d' idx))))) := by
  rw [rsum_allIdx_snoc]
  apply rsum_map_congr
  intro u _
  apply rsum_filter_map_congr
  intro idx hm
  have hl : idx.length = sizes.length := (mem_allIdx_box.mp hm).1
  have hdi : d < idx.length := by omega
  have hdi' : d' < idx.length := by omega
  rw [coord_snoc_lt hdi, coord_snoc_lt hdi', coord_snoc_lt hd, coord_snoc_lt hd', twist_snoc hdi hdi']
  exact ⟨rfl, rfl⟩

/-- the documented torsion on the shape `sizes ++ [n]`, no pair with the last axis carrying an amount,
is the sum over the `n` units of the documented torsion of the unit slices -/
theorem torSpec_snoc (sizes : List Nat) (n : Nat) (p1 p2 : Nat → Nat → Rat) (w : W)
    (h1 : ∀ i, p1 i sizes.length = 0) (h2 : ∀ i, p2 i sizes.length = 0) :
    torSpec (sizes ++ [n]) p1 p2 w =
      rsum ((List.range n).map (fun u => torSpec sizes p1 p2 (fun idx => w (idx ++ [u])))) := by
  have hz : ∀ (L : List Idx) (f : Idx → Rat), rsum (L.map (fun idx => absSq 0 0 (f idx))) = 0 := by
    intro L f
    apply rsum_eq_zero
    intro x hx
    obtain ⟨y, _, rfl⟩ := List.mem_map.mp hx
    exact absSq_zero_amounts _
  unfold torSpec
  simp only [List.length_append, List.length_singleton, Nat.add_sub_cancel]
  -- the right-hand side runs over `d < rank - 1`; the term `d = rank - 1` is an empty sum
  have hr : ∀ (f : Nat → Nat → Rat),
      rsum ((List.range (sizes.length - 1)).map (fun d =>
        rsum ((List.range' (d + 1) (sizes.length - (d + 1))).map (f d)))) =
      rsum ((List.range sizes.length).map (fun d =>
        rsum ((List.range' (d + 1) (sizes.length - (d + 1))).map (f d)))) := by
    intro f
    cases hs : sizes.length with
    | zero => rfl
    | succ r =>
      simp only [Nat.add_sub_cancel, List.range_succ, List.map_append, rsum_append, List.map_singleton,
        Nat.sub_self, List.range'_zero, List.map_nil, rsum, add_zero]
  simp only [hr]
  rw [rsum_comm (List.range n) (List.range sizes.length)]
  apply rsum_map_congr
  intro d hd
  have hd' := List.mem_range.mp hd
  have e : sizes.length + 1 - (d + 1) = (sizes.length - (d + 1)) + 1 := by omega
  rw [e, List.range'_concat, List.map_append, rsum_append]
  have e2 : d + 1 + 1 * (sizes.length - (d + 1)) = sizes.length := by omega
  simp only [List.map_singleton, e2, h1, h2, hz, rsum, add_zero]
  rw [rsum_comm]
  apply rsum_map_congr
  intro d2 hd2
  have hd2' := List.mem_range'_1.mp hd2
  exact torPair_snoc sizes n hd' (by omega) _ _ w

/-! ### PWL: one kernel column per unit -/
theorem pwlReg_per_unit (terms : List Rat → List Rat) (l1 l2 : Rat) (cols : List (List Rat)) :
    pwlReg terms l1 l2 cols = rsum (cols.map (fun x => pwlReg terms l1 l2 [x])) := by
  simp only [pwlReg_eq, sumAbs_flatMap, sumSq_flatMap, List.map_singleton, rsum, add_zero]
  rw [rsum_map_add, rsum_map_mul_left, rsum_map_mul_left]

end Tfl.Reg
