import TflModel.Model.Verify
import Mathlib.Data.List.Basic
import Mathlib.Tactic.Linarith
import Mathlib.Tactic.NormNum
/-!
# Lemmas about the canonicalisers and the validators (C11-T2, C16)
-/
namespace Tfl.Verify
open Tfl

/-! ## `mapE` -/

theorem mapE_ok_forall₂ {α β} (f : α → Except Err β) :
    ∀ (xs : List α) (ys : List β), mapE f xs = .ok ys → List.Forall₂ (fun x y => f x = .ok y) xs ys := by
  intro xs
  induction xs with
  | nil => intro ys h; simp [mapE] at h; subst h; exact List.Forall₂.nil
  | cons x xs ih =>
    intro ys h
    simp only [mapE] at h
    split at h
    · cases h
    · rename_i y hy
      split at h
      · cases h
      · rename_i zs hz
        cases h
        exact List.Forall₂.cons hy (ih zs hz)

theorem mapE_of_forall₂ {α β} (f : α → Except Err β) :
    ∀ (xs : List α) (ys : List β), List.Forall₂ (fun x y => f x = .ok y) xs ys → mapE f xs = .ok ys := by
  intro xs ys h
  induction h with
  | nil => rfl
  | cons hxy _ ih => simp only [mapE, hxy, ih]

theorem mapE_length {α β} {f : α → Except Err β} {xs : List α} {ys : List β}
    (h : mapE f xs = .ok ys) : ys.length = xs.length := by
  have := mapE_ok_forall₂ f xs ys h
  induction this with
  | nil => rfl
  | cons _ _ ih => simp only [List.length_cons, ih (mapE_of_forall₂ _ _ _ ‹_›)]

/-- if re-applying `f` to (the embedding of) its own result returns it, so does `mapE f` -/
theorem forall₂_idem {α β} (f : α → Except Err β) (g : β → α) (hf : ∀ x y, f x = .ok y → f (g y) = .ok y) :
    ∀ (xs : List α) (ys : List β), List.Forall₂ (fun x y => f x = .ok y) xs ys →
      List.Forall₂ (fun x y => f x = .ok y) (ys.map g) ys := by
  intro xs ys h
  induction h with
  | nil => exact List.Forall₂.nil
  | cons hxy _ ih => exact List.Forall₂.cons (hf _ _ hxy) ih

theorem mapE_mem {α β} {f : α → Except Err β} {xs : List α} {ys : List β}
    (h : mapE f xs = .ok ys) {y : β} (hy : y ∈ ys) : ∃ x ∈ xs, f x = .ok y := by
  have := mapE_ok_forall₂ f xs ys h
  induction this with
  | nil => cases hy
  | cons hxy _ ih =>
    rcases List.mem_cons.mp hy with e | e
    · subst e; exact ⟨_, List.mem_cons_self .., hxy⟩
    · obtain ⟨x, hx, hf⟩ := ih (mapE_of_forall₂ _ _ _ ‹_›) e
      exact ⟨x, List.mem_cons_of_mem _ hx, hf⟩

theorem mapE_congr {α β} {f g : α → Except Err β} :
    ∀ (xs : List α), (∀ x ∈ xs, f x = g x) → mapE f xs = mapE g xs := by
  intro xs
  induction xs with
  | nil => intro _; rfl
  | cons x xs ih =>
    intro h
    simp only [mapE, h x (List.mem_cons_self ..), ih (fun y hy => h y (List.mem_cons_of_mem _ hy))]

theorem mapE_map {α β γ} (f : β → Except Err γ) (g : α → β) :
    ∀ (xs : List α), mapE f (xs.map g) = mapE (fun x => f (g x)) xs := by
  intro xs
  induction xs with
  | nil => rfl
  | cons x xs ih => simp only [List.map, mapE, ih]

theorem mapE_append {α β} (f : α → Except Err β) :
    ∀ (xs ys : List α) (zs : List β), mapE f (xs ++ ys) = .ok zs →
      mapE f xs = .ok (zs.take xs.length) ∧ mapE f ys = .ok (zs.drop xs.length) := by
  intro xs
  induction xs with
  | nil => intro ys zs h; simpa [mapE] using h
  | cons x xs ih =>
    intro ys zs h
    simp only [List.cons_append, mapE] at h
    split at h
    · cases h
    · rename_i y hy
      split at h
      · cases h
      · rename_i ws hw
        cases h
        obtain ⟨h1, h2⟩ := ih ys ws hw
        simp only [mapE, hy, h1, List.length_cons, List.take_succ_cons, List.drop_succ_cons, h2, and_self]

/-! ## canonicalisers: idempotence (C11-T2) -/

theorem canonMonotonicity_idem (ad : Bool) (it : Item) (a : Atom)
    (h : canonMonotonicity ad it = .ok a) : canonMonotonicity ad (.a a) = .ok a := by
  cases it with
  | s t xs => simp [canonMonotonicity, ve] at h
  | a x =>
    cases x with
    | none => simp [canonMonotonicity] at h; subst h; rfl
    | int i =>
      simp only [canonMonotonicity, Atom.num] at h ⊢
      split at h
      · split at h
        · cases h
        · cases h; simp_all
      · cases h
    | flt r =>
      simp only [canonMonotonicity, Atom.num] at h ⊢
      split at h
      · split at h
        · cases h
        · cases h; simp_all
      · cases h
    | str t e =>
      cases t <;> cases ad <;> simp [canonMonotonicity, Atom.num, ve] at h <;> subst h <;>
        simp [canonMonotonicity, Atom.num] <;> norm_num

theorem canonUnimodality_idem (it : Item) (a : Atom)
    (h : canonUnimodality it = .ok a) : canonUnimodality (.a a) = .ok a := by
  cases it with
  | s t xs => simp [canonUnimodality, ve] at h
  | a x =>
    cases x with
    | none => simp [canonUnimodality, Atom.num, ve] at h
    | int i =>
      simp only [canonUnimodality, Atom.num] at h ⊢
      split at h
      · cases h; simp_all
      · cases h
    | flt r =>
      simp only [canonUnimodality, Atom.num] at h ⊢
      split at h
      · cases h; simp_all
      · cases h
    | str t e =>
      cases t <;> simp only [canonUnimodality, Atom.num, ve] at h <;> (try cases h) <;>
        (simp [canonUnimodality, Atom.num])

theorem canonConvexity_idem (it : Item) (a : Atom)
    (h : canonConvexity it = .ok a) : canonConvexity (.a a) = .ok a := by
  cases it with
  | s t xs => simp [canonConvexity, ve] at h
  | a x =>
    cases x with
    | none => simp [canonConvexity] at h; subst h; rfl
    | int i =>
      simp only [canonConvexity, Atom.num] at h ⊢
      split at h
      · cases h; simp_all
      · cases h
    | flt r =>
      simp only [canonConvexity, Atom.num] at h ⊢
      split at h
      · cases h; simp_all
      · cases h
    | str t e =>
      cases t <;> simp only [canonConvexity, Atom.num, ve] at h <;> (try cases h) <;>
        (simp [canonConvexity, Atom.num])

theorem canonInputBound_idem (it : Item) (a : Atom)
    (h : canonInputBound it = .ok a) : canonInputBound (.a a) = .ok a := by
  unfold canonInputBound at h
  split at h <;> cases h <;> rfl

/-- a truthy value that can be iterated is a non-empty sequence -/
theorem truthy_iter {v : Val} {xs : List Item} (ht : v.truthy = true) (hi : v.iter = .ok xs) :
    xs ≠ [] ∧ ∃ t, v = .s t xs := by
  cases v with
  | a x => cases x <;> simp [Val.iter, te, oe] at hi
  | s t ys =>
    simp only [Val.iter, Except.ok.injEq] at hi
    subst hi
    refine ⟨?_, t, rfl⟩
    simpa [Val.truthy] using ht

/-- generic idempotence of the list canonicalisers -/
theorem canonList_idem (f : Item → Except Err Atom)
    (hf : ∀ it a, f it = .ok a → f (.a a) = .ok a) (v : Val) (o : Option (List Atom))
    (h : (if !v.truthy then Except.ok Option.none
          else (do let xs ← v.iter; let ys ← mapE f xs; pure (some ys) : Except Err _)) = .ok o) :
    (if !(atomsVal o).truthy then Except.ok Option.none
      else (do let xs ← (atomsVal o).iter; let ys ← mapE f xs; pure (some ys) : Except Err _)) = .ok o := by
  by_cases ht : v.truthy = true
  · simp only [ht, Bool.not_true, Bool.false_eq_true, if_false, bind, Except.bind] at h
    split at h
    · cases h
    · rename_i xs hxs
      split at h
      · cases h
      · rename_i ys hys
        simp only [pure, Except.pure, Except.ok.injEq] at h
        subst h
        obtain ⟨hne, _⟩ := truthy_iter ht hxs
        have hl := mapE_length hys
        have hyne : ys ≠ [] := by
          intro e; subst e; simp at hl; exact hne (List.eq_nil_of_length_eq_zero hl.symm)
        have htr : (Val.s false (ys.map Item.a)).truthy = true := by
          simp [Val.truthy, hyne]
        have hm : mapE f (ys.map Item.a) = .ok ys :=
          mapE_of_forall₂ _ _ _ (forall₂_idem f Item.a hf xs ys (mapE_ok_forall₂ f xs ys hys))
        simp only [atomsVal, htr, Bool.not_true, Bool.false_eq_true, if_false, Val.iter, bind, Except.bind, hm]
        rfl
  · simp only [Bool.not_eq_true] at ht
    simp only [ht, Bool.not_false, if_true, Except.ok.injEq] at h
    subst h
    simp [atomsVal, Val.truthy, Atom.truthy]

/-- **C11-T2** `canonicalize_monotonicities` is idempotent: feeding the stored canonical value
back returns it unchanged -/
theorem canonMonotonicities_idem (ad : Bool) (v : Val) (o : Option (List Atom))
    (h : canonMonotonicities ad v = .ok o) : canonMonotonicities ad (atomsVal o) = .ok o :=
  canonList_idem _ (canonMonotonicity_idem ad) v o h

theorem canonUnimodalities_idem (v : Val) (o : Option (List Atom))
    (h : canonUnimodalities v = .ok o) : canonUnimodalities (atomsVal o) = .ok o :=
  canonList_idem _ canonUnimodality_idem v o h

theorem canonInputBounds_idem (v : Val) (o : Option (List Atom))
    (h : canonInputBounds v = .ok o) : canonInputBounds (atomsVal o) = .ok o :=
  canonList_idem _ canonInputBound_idem v o h

theorem canonTrustOne_idem (it : Item) (t : CTrust) (h : canonTrustOne it = .ok t) :
    canonTrustOne (.s true [t.main, t.cond, .int t.dir]) = .ok t := by
  simp only [canonTrustOne, bind, Except.bind] at h
  split at h
  · cases h
  · rename_i n hn
    split at h
    · cases h
    · split at h
      · rename_i tp a b d
        split at h
        · cases h; simp [canonTrustOne, Item.len, bind, Except.bind, Atom.eqNum, Atom.num]
        · split at h
          · cases h; simp [canonTrustOne, Item.len, bind, Except.bind, Atom.eqNum, Atom.num]; norm_num
          · split at h <;> cases h <;>
              simp [canonTrustOne, Item.len, bind, Except.bind, Atom.eqNum, Atom.num] <;> norm_num
      · cases h

/-- **C11-T2** `canonicalize_trust` is idempotent on its own output (a list of tuples) -/
theorem canonTrust_idem (v : Val) (o : Option (List CTrust)) (h : canonTrust v = .ok o) :
    canonTrust (trustsVal o) = .ok o := by
  unfold canonTrust at h ⊢
  by_cases ht : v.truthy = true
  · simp only [ht, Bool.not_true, Bool.false_eq_true, if_false, bind, Except.bind] at h
    split at h
    · cases h
    · rename_i xs hxs
      split at h
      · cases h
      · rename_i ys hys
        simp only [pure, Except.pure, Except.ok.injEq] at h
        subst h
        obtain ⟨hne, _⟩ := truthy_iter ht hxs
        have hl := mapE_length hys
        have hyne : ys ≠ [] := by
          intro e; subst e; simp at hl; exact hne (List.eq_nil_of_length_eq_zero hl.symm)
        have htr : (Val.s false (ys.map (fun t => Item.s true [t.main, t.cond, .int t.dir]))).truthy = true := by
          simp [Val.truthy, hyne]
        have hm : mapE canonTrustOne (ys.map (fun t => Item.s true [t.main, t.cond, .int t.dir])) = .ok ys :=
          mapE_of_forall₂ _ _ _ (forall₂_idem canonTrustOne _ canonTrustOne_idem xs ys
            (mapE_ok_forall₂ canonTrustOne xs ys hys))
        simp only [trustsVal, htr, Bool.not_true, Bool.false_eq_true, if_false, Val.iter, bind, Except.bind, hm]
        rfl
  · simp only [Bool.not_eq_true] at ht
    simp only [ht, Bool.not_false, if_true, Except.ok.injEq] at h
    subst h
    simp [trustsVal, Val.truthy, Atom.truthy]

/-! ## tuple ↔ list insensitivity (what a JSON round trip changes) -/

theorem truthy_jsonify (v : Val) : v.jsonify.truthy = v.truthy := by
  cases v <;> simp [Val.jsonify, Val.truthy]

theorem canonMonotonicity_jsonify (ad : Bool) (it : Item) :
    canonMonotonicity ad it.jsonify = canonMonotonicity ad it := by
  cases it <;> rfl
theorem canonUnimodality_jsonify (it : Item) : canonUnimodality it.jsonify = canonUnimodality it := by
  cases it <;> rfl
theorem canonInputBound_jsonify (it : Item) : canonInputBound it.jsonify = canonInputBound it := by
  cases it <;> rfl
theorem canonTrustOne_jsonify (it : Item) : canonTrustOne it.jsonify = canonTrustOne it := by
  cases it with
  | a x => rfl
  | s t xs =>
    match xs with
    | [] => rfl
    | [_] => rfl
    | [_, _] => rfl
    | [_, _, _] => rfl
    | _ :: _ :: _ :: _ :: _ => rfl

theorem canonSeq_jsonify {β} (f : Item → Except Err β) (hf : ∀ it, f it.jsonify = f it) (v : Val) :
    (if !v.jsonify.truthy then Except.ok (Option.none : Option (List β))
      else (do let xs ← v.jsonify.iter; let ys ← mapE f xs; pure (some ys) : Except Err _)) =
    (if !v.truthy then Except.ok Option.none
      else (do let xs ← v.iter; let ys ← mapE f xs; pure (some ys) : Except Err _)) := by
  rw [truthy_jsonify]
  cases v with
  | a x => cases x <;> rfl
  | s t xs =>
    simp only [Val.jsonify, Val.iter, bind, Except.bind, mapE_map]
    rw [mapE_congr xs (fun x _ => hf x)]

/-- **C11-T2** tuples and lists are interchangeable for every list canonicaliser -/
theorem canonMonotonicities_jsonify (ad : Bool) (v : Val) :
    canonMonotonicities ad v.jsonify = canonMonotonicities ad v :=
  canonSeq_jsonify _ (canonMonotonicity_jsonify ad) v
theorem canonUnimodalities_jsonify (v : Val) : canonUnimodalities v.jsonify = canonUnimodalities v :=
  canonSeq_jsonify _ canonUnimodality_jsonify v
theorem canonInputBounds_jsonify (v : Val) : canonInputBounds v.jsonify = canonInputBounds v :=
  canonSeq_jsonify _ canonInputBound_jsonify v
theorem canonTrust_jsonify (v : Val) : canonTrust v.jsonify = canonTrust v :=
  canonSeq_jsonify _ canonTrustOne_jsonify v

/-- the canonical trusts are TUPLES (hashable), whatever the spelling of the argument -/
theorem trustsVal_tuples (o : Option (List CTrust)) :
    match trustsVal o with
    | .s _ xs => ∀ it ∈ xs, ∃ ys, it = Item.s true ys
    | .a _ => True := by
  cases o with
  | none => trivial
  | some l =>
    simp only [trustsVal]
    intro it hit
    obtain ⟨t, _, rfl⟩ := List.mem_map.mp hit
    exact ⟨_, rfl⟩

/-! ## synonyms (C16-T2) -/

def synMono : Atom → Atom
  | .str .increasing _ => .int 1
  | .str .decreasing _ => .int (-1)
  | .str .none_ _ => .int 0
  | x => x
def synUni : Atom → Atom
  | .str .valley _ => .int 1
  | .str .peak _ => .int (-1)
  | .str .none_ _ => .int 0
  | x => x
def synConv : Atom → Atom
  | .str .convex _ => .int 1
  | .str .concave _ => .int (-1)
  | .str .none_ _ => .int 0
  | x => x
def synDir : Atom → Atom
  | .str .positive _ => .int 1
  | .str .negative _ => .int (-1)
  | x => x

def Item.mapAtom (f : Atom → Atom) : Item → Item
  | .a x => .a (f x)
  | it => it
/-- rewrite the scalar elements of a sequence (a bare scalar is left alone) -/
def Val.mapItems (f : Atom → Atom) : Val → Val
  | .s t xs => .s t (xs.map (Item.mapAtom f))
  | v => v
/-- rewrite the direction (third element) of every trust triple -/
def Item.mapDir (f : Atom → Atom) : Item → Item
  | .s t [x, y, d] => .s t [x, y, f d]
  | it => it
def Val.mapDirs (f : Atom → Atom) : Val → Val
  | .s t xs => .s t (xs.map (Item.mapDir f))
  | v => v

theorem canonMonotonicity_syn (ad : Bool) (it : Item) :
    canonMonotonicity ad (it.mapAtom synMono) = canonMonotonicity ad it := by
  cases it with
  | s t xs => rfl
  | a x =>
    cases x with
    | str t e => cases t <;> cases ad <;> simp [Item.mapAtom, synMono, canonMonotonicity, Atom.num, ve] <;> norm_num
    | _ => rfl

theorem canonUnimodality_syn (it : Item) : canonUnimodality (it.mapAtom synUni) = canonUnimodality it := by
  cases it with
  | s t xs => rfl
  | a x =>
    cases x with
    | str t e => cases t <;> simp [Item.mapAtom, synUni, canonUnimodality, Atom.num, ve]
    | _ => rfl

theorem canonConvexity_syn (it : Item) : canonConvexity (it.mapAtom synConv) = canonConvexity it := by
  cases it with
  | s t xs => rfl
  | a x =>
    cases x with
    | str t e => cases t <;> simp [Item.mapAtom, synConv, canonConvexity, Atom.num, ve]
    | _ => rfl

theorem canonTrustOne_syn (it : Item) : canonTrustOne (it.mapDir synDir) = canonTrustOne it := by
  cases it with
  | a x => rfl
  | s t xs =>
    match xs with
    | [] => rfl
    | [_] => rfl
    | [_, _] => rfl
    | _ :: _ :: _ :: _ :: _ => rfl
    | [a, b, d] =>
      cases d with
      | str tk e => cases tk <;> simp [Item.mapDir, synDir, canonTrustOne, Item.len, bind, Except.bind, Atom.eqNum, Atom.num] <;> norm_num
      | _ => rfl

theorem truthy_mapItems (f : Atom → Atom) (v : Val) : (v.mapItems f).truthy = v.truthy := by
  cases v <;> simp [Val.mapItems, Val.truthy]
theorem truthy_mapDirs (f : Atom → Atom) (v : Val) : (v.mapDirs f).truthy = v.truthy := by
  cases v <;> simp [Val.mapDirs, Val.truthy]

/-- **C16-T2** `'increasing'` = 1, `'decreasing'` = -1, `'none'` = 0 canonicalise identically -/
theorem canonMonotonicities_syn (ad : Bool) (v : Val) :
    canonMonotonicities ad (v.mapItems synMono) = canonMonotonicities ad v := by
  unfold canonMonotonicities
  rw [truthy_mapItems]
  cases v with
  | a x => rfl
  | s t xs =>
    simp only [Val.mapItems, Val.iter, bind, Except.bind, mapE_map]
    rw [mapE_congr xs (fun x _ => canonMonotonicity_syn ad x)]

/-- **C16-T2** `'valley'` = 1, `'peak'` = -1, `'none'` = 0 -/
theorem canonUnimodalities_syn (v : Val) :
    canonUnimodalities (v.mapItems synUni) = canonUnimodalities v := by
  unfold canonUnimodalities
  rw [truthy_mapItems]
  cases v with
  | a x => rfl
  | s t xs =>
    simp only [Val.mapItems, Val.iter, bind, Except.bind, mapE_map]
    rw [mapE_congr xs (fun x _ => canonUnimodality_syn x)]

/-- **C16-T2** `'positive'` = 1, `'negative'` = -1 -/
theorem canonTrust_syn (v : Val) : canonTrust (v.mapDirs synDir) = canonTrust v := by
  unfold canonTrust
  rw [truthy_mapDirs]
  cases v with
  | a x => rfl
  | s t xs =>
    simp only [Val.mapDirs, Val.iter, bind, Except.bind, mapE_map]
    rw [mapE_congr xs (fun x _ => canonTrustOne_syn x)]

end Tfl.Verify

namespace Tfl.Verify
open Tfl

/-! ## stage specifications of `lattice_lib.verify_hyperparameters` (C16-T1) -/

theorem parseSizes_spec {v : Val} {ys : List Int} (h : parseSizes v = .ok ys) : ∀ s ∈ ys, 2 ≤ s := by
  simp only [parseSizes, bind, Except.bind] at h
  split at h
  · cases h
  split at h
  · cases h
  · split at h
    · cases h
    · rename_i zs _
      split at h
      · cases h
      · rename_i hany
        simp only [pure, Except.pure, Except.ok.injEq] at h
        subst h
        intro s hs
        by_contra hlt
        apply hany
        simp only [List.any_eq_true, decide_eq_true_eq]
        exact ⟨s, hs, by omega⟩

/-- fix 93797fc: accepted lattice sizes are not empty -/
theorem parseSizes_ne_nil {v : Val} {ys : List Int} (h : parseSizes v = .ok ys) : ys ≠ [] := by
  simp only [parseSizes, bind, Except.bind] at h
  split at h
  · cases h
  rename_i ht
  split at h
  · cases h
  · rename_i xs hxs
    split at h
    · cases h
    · rename_i zs hzs
      split at h
      · cases h
      · simp only [pure, Except.pure, Except.ok.injEq] at h
        subst h
        have hl := mapE_length hzs
        have hne : xs ≠ [] := by
          cases v with
          | a x => cases x <;> simp [Val.iter, te, oe] at hxs
          | s t ws =>
            simp only [Val.iter, Except.ok.injEq] at hxs
            subst hxs
            simpa [Val.truthy] using ht
        intro e
        rw [e] at hl
        exact hne (List.eq_nil_of_length_eq_zero (by simpa using hl.symm))

/-- the sizes of an accepted lattice configuration are the parsed `lattice_sizes` -/
theorem verifyLattice_sizes_eq {r : RawLatFull} {c : LatCfg} (h : verifyLattice r = .ok c) :
    parseSizes r.sizes = .ok c.sizes := by
  simp only [verifyLattice, bind, Except.bind] at h
  split at h
  · cases h
  · rename_i sizes hs
    split at h
    · cases h
    · split at h
      · cases h
      · split at h
        · cases h
        · split at h
          · cases h
          · split at h
            · cases h
            · split at h
              · cases h
              · split at h
                · cases h
                · split at h
                  · cases h
                  · split at h
                    · cases h
                    · split at h
                      · cases h
                      · split at h
                        · cases h
                        · simp only [pure, Except.pure, Except.ok.injEq] at h
                          subst h
                          exact hs

/-- **C16-T1 (lattice sizes)**: whatever `lattice_lib.verify_hyperparameters` accepts has at least
one dimension (fix 93797fc — an empty lattice used to be accepted) and every size is at least 2;
the same for the natural-number sizes `c.toLat.sizes` of the projection / evaluation models. -/
theorem verifyLattice_sizes {r : RawLatFull} {c : LatCfg} (h : verifyLattice r = .ok c) :
    (c.sizes ≠ [] ∧ ∀ s ∈ c.sizes, 2 ≤ s) ∧ (c.toLat.sizes ≠ [] ∧ ∀ n ∈ c.toLat.sizes, 2 ≤ n) := by
  have hs := verifyLattice_sizes_eq h
  have h1 := parseSizes_ne_nil hs
  have h2 := parseSizes_spec hs
  refine ⟨⟨h1, h2⟩, ?_, ?_⟩
  · simp only [LatCfg.toLat, ne_eq, List.map_eq_nil_iff]; exact h1
  · intro n hn
    simp only [LatCfg.toLat] at hn
    obtain ⟨z, hz, rfl⟩ := List.mem_map.mp hn
    have := h2 z hz
    omega

theorem lenNe_false {o : Option (List Atom)} {n : Nat} (h : lenNe o n = false) :
    ∀ l, o = some l → l.length = n := by
  intro l hl
  subst hl
  simpa [lenNe] using h

theorem verifyShape_spec {sizes : List Int} {mv uv : Val} {mu : Option (List Atom) × Option (List Atom)}
    (h : verifyShape sizes mv uv = .ok mu) :
    canonMonotonicities false mv = .ok mu.1 ∧ canonUnimodalities uv = .ok mu.2 ∧
    (∀ l, mu.1 = some l → l.length = sizes.length) ∧ (∀ l, mu.2 = some l → l.length = sizes.length) := by
  simp only [verifyShape, bind, Except.bind] at h
  split at h
  · cases h
  · rename_i mono hm
    split at h
    · cases h
    · rename_i hl1
      split at h
      · cases h
      · rename_i uni hu
        split at h
        · cases h
        · rename_i hl2
          split at h
          · cases h
          · split at h
            · cases h
            · simp only [pure, Except.pure, Except.ok.injEq] at h
              subst h
              exact ⟨hm, hu, lenNe_false (by simpa using hl1), lenNe_false (by simpa using hl2)⟩

/-- a validated dimension: an integer index below `n` -/
def DimOK (n : Nat) (a : Atom) : Prop := ∃ i : Nat, a = .int (i : Int) ∧ i < n

theorem DimOK.atomNat_lt {n : Nat} {a : Atom} (h : DimOK n a) : atomNat a < n := by
  obtain ⟨i, rfl, hi⟩ := h
  simpa [atomNat] using hi

theorem dims_ok {n : Nat} {a b : Atom} (hr : dimsOutOfRange n a b = .ok false)
    (hi : (a.isInt && b.isInt) = true) : DimOK n a ∧ DimOK n b := by
  cases a <;> cases b <;> simp [Atom.isInt] at hi
  rename_i i j
  simp only [dimsOutOfRange, Atom.toNum, Atom.num, bind, Except.bind] at hr
  split at hr
  · cases hr
  · rename_i hge
    split at hr
    · cases hr
    · rename_i hge2
      simp only [pure, Except.pure, Except.ok.injEq, Bool.or_eq_false_iff, decide_eq_false_iff_not, not_lt] at hr
      have h1 : (i : ℚ) < n := not_le.mp hge
      have h2 : (j : ℚ) < n := not_le.mp hge2
      have h3 : (0 : ℚ) ≤ i := hr.1
      have h4 : (0 : ℚ) ≤ j := hr.2
      have i0 : 0 ≤ i := by exact_mod_cast h3
      have j0 : 0 ≤ j := by exact_mod_cast h4
      have il : i < n := by exact_mod_cast h1
      have jl : j < n := by exact_mod_cast h2
      exact ⟨⟨i.toNat, by simp [Int.toNat_of_nonneg i0], by omega⟩,
             ⟨j.toNat, by simp [Int.toNat_of_nonneg j0], by omega⟩⟩

/-- what the trust loop establishes for one trust -/
def TrustOK (n : Nat) (mono : Option (List Atom)) (t : CTrust) : Prop :=
  DimOK n t.main ∧ DimOK n t.cond ∧ notIncreasing mono (atomNat t.main) = false

theorem trustStep_spec {n : Nat} {mono : Option (List Atom)} {acc acc' : TrustAcc} {t : CTrust}
    (h : trustStep n mono acc t = .ok acc') :
    TrustOK n mono t ∧ acc'.mains = atomNat t.main :: acc.mains ∧ acc'.conds = atomNat t.cond :: acc.conds := by
  simp only [trustStep, bind, Except.bind] at h
  split at h
  · cases h
  · rename_i bad hbad
    split at h
    · cases h
    · rename_i hb
      split at h
      · cases h
      · rename_i hint
        split at h
        · cases h
        · rename_i hinc
          have hb' : bad = false := by simpa using hb
          subst hb'
          have hd := dims_ok hbad (by simpa using hint)
          have hni : notIncreasing mono (atomNat t.main) = false := by simpa using hinc
          split at h
          · split at h
            · cases h
            · simp only [pure, Except.pure, Except.ok.injEq] at h
              subst h
              exact ⟨⟨hd.1, hd.2, hni⟩, rfl, rfl⟩
          · simp only [pure, Except.pure, Except.ok.injEq] at h
            subst h
            exact ⟨⟨hd.1, hd.2, hni⟩, rfl, rfl⟩

theorem trustLoop_spec {n : Nat} {mono : Option (List Atom)} :
    ∀ (ts : List CTrust) (acc acc' : TrustAcc), trustLoop n mono ts acc = .ok acc' →
      (∀ t ∈ ts, TrustOK n mono t ∧ atomNat t.main ∈ acc'.mains ∧ atomNat t.cond ∈ acc'.conds) ∧
      (∀ m ∈ acc.mains, m ∈ acc'.mains) ∧ (∀ c ∈ acc.conds, c ∈ acc'.conds) := by
  intro ts
  induction ts with
  | nil =>
    intro acc acc' h
    simp only [trustLoop, Except.ok.injEq] at h
    subst h
    exact ⟨fun t ht => (by cases ht), fun m hm => hm, fun c hc => hc⟩
  | cons t ts ih =>
    intro acc acc' h
    simp only [trustLoop, bind, Except.bind] at h
    split at h
    · cases h
    · rename_i acc1 h1
      obtain ⟨hok, hm, hc⟩ := trustStep_spec h1
      obtain ⟨hall, hsm, hsc⟩ := ih acc1 acc' h
      refine ⟨?_, fun m hmem => hsm m (by rw [hm]; exact List.mem_cons_of_mem _ hmem),
        fun c hmem => hsc c (by rw [hc]; exact List.mem_cons_of_mem _ hmem)⟩
      intro t' ht'
      rcases List.mem_cons.mp ht' with e | e
      · subst e
        exact ⟨hok, hsm _ (by rw [hm]; exact List.mem_cons_self ..), hsc _ (by rw [hc]; exact List.mem_cons_self ..)⟩
      · exact hall t' e

theorem verifyTrusts_spec {n : Nat} {mono : Option (List Atom)} {ew tp : Val} {all : List CTrust}
    (h : verifyTrusts n mono ew tp = .ok all) :
    (∀ t ∈ all, TrustOK n mono t) ∧ (∀ t ∈ all, ∀ t' ∈ all, atomNat t.main ≠ atomNat t'.cond) := by
  simp only [verifyTrusts, bind, Except.bind] at h
  split at h
  · cases h
  · split at h
    · cases h
    · rename_i o _
      split at h
      · cases h
      · rename_i acc hacc
        split at h
        · cases h
        · rename_i hany
          simp only [pure, Except.pure, Except.ok.injEq] at h
          subst h
          obtain ⟨hall, _, _⟩ := trustLoop_spec _ _ _ hacc
          refine ⟨fun t ht => (hall t ht).1, fun t ht t' ht' heq => hany ?_⟩
          simp only [List.any_eq_true, List.contains_iff_mem]
          exact ⟨_, (hall t ht).2.1, by rw [heq]; exact (hall t' ht').2.2⟩

/-- what the dominance loop establishes for one pair -/
def PairOK (n : Nat) (mono : Option (List Atom)) (withMono : Bool) (p : Nat × Nat) : Prop :=
  p.1 < n ∧ p.2 < n ∧ (withMono = true → notIncreasing mono p.1 = false ∧ notIncreasing mono p.2 = false)

theorem domLoop_spec {n : Nat} {mono : Option (List Atom)} {wm : Bool} :
    ∀ (xs : List Item) (acc ps : List (Nat × Nat)), (∀ p ∈ acc, PairOK n mono wm p) →
      domLoop n mono wm xs acc = .ok ps → ∀ p ∈ ps, PairOK n mono wm p := by
  intro xs
  induction xs with
  | nil =>
    intro acc ps hacc h
    simp only [domLoop, Except.ok.injEq] at h
    subst h
    intro p hp
    exact hacc p (List.mem_reverse.mp hp)
  | cons it rest ih =>
    intro acc ps hacc h
    simp only [domLoop, bind, Except.bind] at h
    split at h
    · cases h
    · split at h
      · cases h
      · split at h
        · rename_i tp a b
          split at h
          · cases h
          · rename_i bad hbad
            split at h
            · cases h
            · rename_i hb
              split at h
              · cases h
              · rename_i hint
                have hb' : bad = false := by simpa using hb
                subst hb'
                have hd := dims_ok hbad (by simpa using hint)
                split at h
                · cases h
                · rename_i hmono
                  split at h
                  · cases h
                  split at h
                  · cases h
                  · apply ih _ ps _ h
                    intro p hp
                    rcases List.mem_cons.mp hp with e | e
                    · subst e
                      refine ⟨hd.1.atomNat_lt, hd.2.atomNat_lt, fun hw => ?_⟩
                      subst hw
                      simpa using hmono
                    · exact hacc p e
        · cases h

theorem verifyDominances_spec {n : Nat} {mono : Option (List Atom)} {wm : Bool} {v : Val}
    {ps : List (Nat × Nat)} (h : verifyDominances n mono wm v = .ok ps) : ∀ p ∈ ps, PairOK n mono wm p := by
  unfold verifyDominances at h
  split at h
  · cases h; intro p hp; cases hp
  · simp only [bind, Except.bind] at h
    split at h
    · cases h
    · exact domLoop_spec _ _ _ (fun p hp => by cases hp) h

/-- fix 18dd711: every accepted dominance / joint-monotonicity pair names two DIFFERENT dimensions -/
theorem domLoop_distinct {n : Nat} {mono : Option (List Atom)} {wm : Bool} :
    ∀ (xs : List Item) (acc ps : List (Nat × Nat)), (∀ p ∈ acc, p.1 ≠ p.2) →
      domLoop n mono wm xs acc = .ok ps → ∀ p ∈ ps, p.1 ≠ p.2 := by
  intro xs
  induction xs with
  | nil =>
    intro acc ps hacc h
    simp only [domLoop, Except.ok.injEq] at h
    subst h
    intro p hp
    exact hacc p (List.mem_reverse.mp hp)
  | cons it rest ih =>
    intro acc ps hacc h
    simp only [domLoop, bind, Except.bind] at h
    split at h
    · cases h
    · split at h
      · cases h
      · split at h
        · rename_i tp a b
          split at h
          · cases h
          · split at h
            · cases h
            · split at h
              · cases h
              · split at h
                · cases h
                · split at h
                  · cases h
                  · rename_i hne
                    split at h
                    · cases h
                    · apply ih _ ps _ h
                      intro p hp
                      rcases List.mem_cons.mp hp with e | e
                      · subst e
                        simpa using hne
                      · exact hacc p e
        · cases h

theorem verifyDominances_distinct {n : Nat} {mono : Option (List Atom)} {wm : Bool} {v : Val}
    {ps : List (Nat × Nat)} (h : verifyDominances n mono wm v = .ok ps) : ∀ p ∈ ps, p.1 ≠ p.2 := by
  unfold verifyDominances at h
  split at h
  · cases h; intro p hp; cases hp
  · simp only [bind, Except.bind] at h
    split at h
    · cases h
    · exact domLoop_distinct _ _ _ (fun p hp => by cases hp) h

theorem loGeHi_false {lo hi : Option Rat} (h : loGeHi lo hi = false) :
    ∀ l h', lo = some l → hi = some h' → l < h' := by
  intro l h' hl hh
  subst hl hh
  simpa [loGeHi] using h

theorem hiLtLo_false {lo hi : Option Rat} (h : hiLtLo lo hi = false) :
    ∀ l h', lo = some l → hi = some h' → l ≤ h' := by
  intro l h' hl hh
  subst hl hh
  simpa [hiLtLo] using h

end Tfl.Verify
