import TflModel.Lemmas.Initializers
/-!
# totality of the BFS of `random_monotonic_initializer`

`rmOrder` rejects a list of shuffles that cannot come from the code. Here: whatever
`np.random.shuffle` does — every recorded list IS a permutation of the level the loop computed
(`ValidShuffles`) — the model's loop returns a parameter order (the fuel `sum(sizes) + 2` suffices:
a vertex of the box has level at most `sum(sizes)`), and such shuffle lists exist (`canonShuffles`).
-/
namespace Tfl.Init
open Tfl

/-- what the shuffles of the while loop can be: one permutation per non-empty level, in order -/
inductive ValidShuffles (sizes : List Nat) : List Idx → List (List Idx) → Prop
  | done (last : List Idx) : nextLevel sizes last = [] → ValidShuffles sizes last []
  | step (last p : List Idx) (ps : List (List Idx)) : nextLevel sizes last ≠ [] →
      p.Perm (nextLevel sizes last) → ValidShuffles sizes p ps → ValidShuffles sizes last (p :: ps)

theorem level_le_sum : ∀ (sizes : List Nat) (v : Idx), InRange sizes v → level v ≤ sumNat sizes
  | [], v, h => by
    have : v = [] := List.eq_nil_of_length_eq_zero h.1
    subst this; simp [level, sumNat]
  | s :: ss, [], h => by have := h.1; simp at this
  | s :: ss, a :: r, h => by
    have h0 : a < s := by simpa [coord] using h.2 0 (by simp)
    have hr : InRange ss r := by
      refine ⟨by simpa using h.1, fun d hd => ?_⟩
      have := h.2 (d + 1) (by simpa using hd)
      simpa [coord] using this
    have := level_le_sum ss r hr
    simp only [level, sumNat] at this ⊢
    omega

theorem rmOrderLoop_total (sizes : List Nat) :
    ∀ (fuel k : Nat) (last : List Idx) (perms : List (List Idx)) (acc : List Idx),
      last ≠ [] → (∀ v ∈ last, InRange sizes v ∧ level v = k) → sumNat sizes < k + fuel →
      ValidShuffles sizes last perms → ∃ order, rmOrderLoop sizes fuel last perms acc = .ok order := by
  intro fuel
  induction fuel with
  | zero =>
    intro k last perms acc hne hin hf _
    exfalso
    cases hl : last with
    | nil => exact hne hl
    | cons v r =>
      have hv := hin v (by rw [hl]; exact List.mem_cons_self ..)
      have := level_le_sum sizes v hv.1
      omega
  | succ fuel ih =>
    intro k last perms acc hne hin hf hv
    simp only [rmOrderLoop]
    cases hv with
    | done _ hnl =>
      simp only [hnl, List.isEmpty_nil, if_true]
      exact ⟨acc, rfl⟩
    | step _ p ps hnl hperm hrest =>
      have he : (nextLevel sizes last).isEmpty = false := by
        cases h : nextLevel sizes last with
        | nil => exact absurd h hnl
        | cons a r => rfl
      simp only [he, Bool.false_eq_true, if_false, List.isPerm_iff.mpr hperm, if_true]
      apply ih (k + 1) p ps (acc ++ p) _ _ (by omega) hrest
      · intro hp
        rw [hp] at hperm
        exact hnl (List.Perm.eq_nil hperm.symm)
      · intro w hw
        obtain ⟨u, hu, hc⟩ := mem_nextLevel.mp (hperm.mem_iff.mp hw)
        have := children_spec (hin u hu).1 hc
        exact ⟨this.1, by rw [this.2, (hin u hu).2]⟩

/-- **totality of `rmOrder`**: for positive sizes and ANY valid shuffles the loop returns an order -/
theorem rmOrder_total (sizes : List Nat) (hpos : ∀ s ∈ sizes, 0 < s) (perms : List (List Idx))
    (hv : ValidShuffles sizes [zeroIdx sizes] perms) : ∃ order, rmOrder sizes perms = .ok order := by
  unfold rmOrder
  apply rmOrderLoop_total sizes _ 0 _ _ _ (by simp) _ (by omega) hv
  intro v hvm
  simp only [List.mem_singleton] at hvm
  subst hvm
  exact ⟨inRange_zeroIdx sizes hpos, level_zeroIdx sizes⟩

/-- the unshuffled levels -/
def canonShuffles (sizes : List Nat) : Nat → List Idx → List (List Idx)
  | 0, _ => []
  | fuel + 1, last =>
    let nl := nextLevel sizes last
    if nl.isEmpty then [] else nl :: canonShuffles sizes fuel nl

theorem canonShuffles_valid (sizes : List Nat) :
    ∀ (fuel k : Nat) (last : List Idx), last ≠ [] → (∀ v ∈ last, InRange sizes v ∧ level v = k) →
      sumNat sizes < k + fuel → ValidShuffles sizes last (canonShuffles sizes fuel last) := by
  intro fuel
  induction fuel with
  | zero =>
    intro k last hne hin hf
    exfalso
    cases hl : last with
    | nil => exact hne hl
    | cons v r =>
      have hv := hin v (by rw [hl]; exact List.mem_cons_self ..)
      have := level_le_sum sizes v hv.1
      omega
  | succ fuel ih =>
    intro k last hne hin hf
    simp only [canonShuffles]
    cases h : nextLevel sizes last with
    | nil => simp only [List.isEmpty_nil, if_true]; exact ValidShuffles.done last h
    | cons a r =>
      simp only [List.isEmpty_cons, Bool.false_eq_true, if_false]
      rw [← h]
      refine ValidShuffles.step last _ _ (by rw [h]; simp) (List.Perm.refl _) ?_
      apply ih (k + 1) _ (by rw [h]; simp) _ (by omega)
      intro w hw
      obtain ⟨u, hu, hc⟩ := mem_nextLevel.mp hw
      have := children_spec (hin u hu).1 hc
      exact ⟨this.1, by rw [this.2, (hin u hu).2]⟩

/-- valid shuffle lists exist for every lattice with positive sizes -/
theorem validShuffles_exist (sizes : List Nat) (hpos : ∀ s ∈ sizes, 0 < s) :
    ValidShuffles sizes [zeroIdx sizes] (canonShuffles sizes (sumNat sizes + 2) [zeroIdx sizes]) := by
  apply canonShuffles_valid sizes _ 0 _ (by simp) _ (by omega)
  intro v hvm
  simp only [List.mem_singleton] at hvm
  subst hvm
  exact ⟨inRange_zeroIdx sizes hpos, level_zeroIdx sizes⟩

end Tfl.Init
