import TflModel.Lemmas.UnitsDykstra
import TflModel.Lemmas.DykstraSlots
/-! C09: the multi-unit Dykstra loop with the `last_change` slots keyed like the Python dict.

`Model/Units.lean` keeps the loop with one slot per list POSITION (`projectByDykstraU`). Here the same loop with
one slot per dict KEY (`projectByDykstraUS`, `constraintUS`: `dykstraIterS` over the group schedule of
`dcfgU c units`, every group paired with the slot of its key), the fact that the keys of the `sizes ++ [units]`
configuration are the keys of the one-unit configuration (`groupKeys_dcfgU`), and the per-unit slicing of the
slot-keyed loop (`dykstraIterS_slice`). -/
namespace Tfl.Units
open Tfl Tfl.Lat

/-! ### the dict keys on `sizes ++ [units]` are the one-unit keys -/

/-- appending the unit axis (with monotonicity / unimodality `0`) leaves the list of `last_change` dict keys
unchanged: the multi-unit loop shares slots exactly where the one-unit loop does. -/
theorem groupKeys_dcfgU (c : DCfg) (units : Nat) (h : DCfgWF c) : groupKeys (dcfgU c units) = groupKeys c := by
  have hmono : c.mono.getD c.sizes.length false = false := by
    have : c.mono[c.sizes.length]? = none := by simp; exact h.mono_len
    simp [List.getD_eq_getElem?_getD, this]
  have huni : c.unimod.getD c.sizes.length 0 = 0 := by
    have : c.unimod[c.sizes.length]? = none := by simp; exact h.unimod_len
    simp [List.getD_eq_getElem?_getD, this]
  simp only [groupKeys]
  refine congrArg₂ (· ++ ·) (congrArg₂ (· ++ ·) (congrArg₂ (· ++ ·) (congrArg₂ (· ++ ·) (congrArg₂ (· ++ ·)
    (congrArg₂ (· ++ ·) ?_ ?_) ?_) ?_) ?_) ?_) ?_
  · -- monotonicity keys
    simp only [dcfgU, List.length_append, List.length_cons, List.length_nil, zero_add, List.range_succ,
      List.flatMap_append, List.flatMap_cons, List.flatMap_nil, getD_append_false, getD_append_zero,
      hmono, huni, List.append_nil]
    simp only [Bool.not_false, BEq.rfl, Bool.and_self, if_true, List.append_nil]
    apply List.flatMap_congr
    intro d hd
    have hd' : d < c.sizes.length := List.mem_range.mp hd
    have := sz_dcfgU c units d hd'
    simp only [sz, dcfgU] at this
    simp only [sz, this]
    rfl
  · apply List.flatMap_congr
    intro tr htr
    have ht := h.trusts tr (List.mem_append_left _ htr)
    simp only [sz_dcfgU c units _ ht.1, sz_dcfgU c units _ ht.2]
  · apply List.flatMap_congr
    intro tr htr
    have ht := h.trusts tr (List.mem_append_right _ htr)
    simp only [sz_dcfgU c units _ ht.2]
  · apply List.flatMap_congr
    intro p hp
    have ht := h.pairs p (List.mem_append_left _ (List.mem_append_left _ hp))
    simp only [sz_dcfgU c units _ ht.1, sz_dcfgU c units _ ht.2]
  · apply List.flatMap_congr
    intro p hp
    have ht := h.pairs p (List.mem_append_left _ (List.mem_append_right _ hp))
    simp only [sz_dcfgU c units _ ht.1, sz_dcfgU c units _ ht.2]
  · apply List.flatMap_congr
    intro p hp
    have ht := h.pairs p (List.mem_append_right _ hp)
    simp only [sz_dcfgU c units _ ht.1, sz_dcfgU c units _ ht.2]
  · apply List.flatMap_congr
    intro ju hju
    have : ju.dims.map (sz (dcfgU c units)) = ju.dims.map (sz c) :=
      List.map_congr_left (fun d hd => sz_dcfgU c units d (h.jus ju hju d hd))
    simp only [this]

theorem slots_dcfgU (c : DCfg) (units : Nat) (h : DCfgWF c) : slots (dcfgU c units) = slots c := by
  unfold slots; rw [groupKeys_dcfgU c units h]

/-! ### the slot-keyed loop acts on every unit slice -/

/-- slot lists whose entries agree slice-wise -/
def SliceL (n u : Nat) (cs cs1 : List W) : Prop :=
  List.Forall₂ (fun c d => AgreeLen n (slice c u) d) cs cs1

theorem sliceL_getD {n u : Nat} {cs cs1 : List W} (h : SliceL n u cs cs1) (s : Nat) :
    AgreeLen n (slice (cs.getD s (fun _ => 0)) u) (cs1.getD s (fun _ => 0)) := by
  induction h generalizing s with
  | nil => intro idx _; rfl
  | cons hd _ ih =>
    cases s with
    | zero => simpa using hd
    | succ s => simpa using ih s

theorem sliceL_set {n u : Nat} {cs cs1 : List W} (h : SliceL n u cs cs1) (s : Nat) {x y : W}
    (hxy : AgreeLen n (slice x u) y) : SliceL n u (cs.set s x) (cs1.set s y) := by
  induction h generalizing s with
  | nil => exact List.Forall₂.nil
  | cons hd tl ih =>
    cases s with
    | zero => exact List.Forall₂.cons hxy tl
    | succ s => exact List.Forall₂.cons hd (ih s)

theorem sliceL_zero (n u : Nat) {α : Type} (l : List α) :
    SliceL n u (l.map (fun _ => fun _ => (0 : Rat))) (l.map (fun _ => fun _ => (0 : Rat))) := by
  induction l with
  | nil => exact List.Forall₂.nil
  | cons _ _ ih => exact List.Forall₂.cons (fun _ _ => rfl) ih

theorem dykstraPassS_slice (n u : Nat) :
    ∀ (ps : List ((W → W) × Nat)), (∀ q ∈ ps, SliceStage n q.1) → ∀ (w w1 : W) (cs cs1 : List W),
      AgreeLen n (slice w u) w1 → SliceL n u cs cs1 →
      AgreeLen n (slice (dykstraPassS ps w cs).1 u) (dykstraPassS ps w1 cs1).1 ∧
        SliceL n u (dykstraPassS ps w cs).2 (dykstraPassS ps w1 cs1).2 := by
  intro ps
  induction ps with
  | nil => intro _ w w1 cs cs1 hw hc; exact ⟨hw, hc⟩
  | cons q ps ih =>
    intro hP w w1 cs cs1 hw hc
    have hc0 := sliceL_getD hc q.2
    have hroll : AgreeLen n (slice (fun idx => w idx - (cs.getD q.2 (fun _ => 0)) idx) u)
        (fun idx => w1 idx - (cs1.getD q.2 (fun _ => 0)) idx) := by
      intro idx hl
      have a := hw idx hl
      have b := hc0 idx hl
      simp only [slice] at a b ⊢
      rw [a, b]
    have hproj := (hP q (List.mem_cons_self ..)).comm u _ _ hroll
    have hchange : AgreeLen n (slice (visit q.1 w (cs.getD q.2 (fun _ => 0))).2 u)
        (visit q.1 w1 (cs1.getD q.2 (fun _ => 0))).2 := by
      intro idx hl
      have a := hproj idx hl
      have b := hroll idx hl
      simp only [slice, visit] at a b ⊢
      rw [a, b]
    simp only [dykstraPassS]
    exact ih (fun Q hQ => hP Q (List.mem_cons_of_mem _ hQ)) _ _ _ _ hproj (sliceL_set hc q.2 hchange)

theorem dykstraIterS_slice (n u : Nat) (ps : List ((W → W) × Nat)) (hP : ∀ q ∈ ps, SliceStage n q.1) :
    ∀ (k : Nat) (w w1 : W) (cs cs1 : List W),
      AgreeLen n (slice w u) w1 → SliceL n u cs cs1 →
      AgreeLen n (slice (dykstraIterS ps k (w, cs)).1 u) (dykstraIterS ps k (w1, cs1)).1 := by
  intro k
  induction k with
  | zero => intro w w1 cs cs1 hw _; exact hw
  | succ k ih =>
    intro w w1 cs cs1 hw hc
    obtain ⟨r1, r2⟩ := dykstraPassS_slice n u ps hP w w1 cs cs1 hw hc
    simp only [dykstraIterS]
    exact ih _ _ _ _ r1 r2

/-! ### the slot-keyed function-level models -/

/-- function-level `project_by_dykstra` for one unit with the slots keyed like the Python dict (what
`projectByDykstraT` executes on tables, for EVERY configuration) -/
def projectByDykstraS (c : DCfg) (iters : Nat) (w : W) : W :=
  if iters = 0 || !dykstraActive c then w
  else (dykstraIterS ((groups c).zip (slots c)) iters (w, (groups c).map (fun _ => fun _ => 0))).1

/-- `project_by_dykstra` for `units > 1` with the slots keyed like the Python dict: the group schedule AND the
dict keys of `sizes + [units]`, `monotonicities + [0]`, `unimodalities + [0]` -/
def projectByDykstraUS (c : DCfg) (units iters : Nat) (w : W) : W :=
  if iters = 0 || !dykstraActive c then w
  else (dykstraIterS ((groups (dcfgU c units)).zip (slots (dcfgU c units))) iters
    (w, (groups (dcfgU c units)).map (fun _ => fun _ => 0))).1

/-- `constraint1` with the slot-keyed loop -/
def constraint1S (c : LCfg) (w : W) : W :=
  let w1 :=
    if constraintActive c then
      let wd := projectByDykstraS c.d c.iters w
      if c.strict then finalize c.fin wd else wd
    else w
  clipBounds c.lo c.hi w1

/-- `constraintU` with the slot-keyed loop: `LatticeConstraints.__call__` on a `(prod(sizes), units)` kernel,
`units > 1`, repeated constraint tuples sharing their `last_change` tensor as in the Python dict -/
def constraintUS (c : LCfg) (units : Nat) (w : W) : W :=
  let w1 :=
    if constraintActive c then
      let wd := projectByDykstraUS c.d units c.iters w
      if c.strict then finalizeU c.fin units wd else wd
    else w
  clipBounds c.lo c.hi w1

theorem projectByDykstraUS_slice (c : DCfg) (h : DCfgWF c) (units u iters : Nat) (w w1 : W)
    (hw : AgreeLen c.sizes.length (slice w u) w1) :
    AgreeLen c.sizes.length (slice (projectByDykstraUS c units iters w) u) (projectByDykstraS c iters w1) := by
  unfold projectByDykstraUS projectByDykstraS
  split
  · exact hw
  · rw [groups_dcfgU c units h, slots_dcfgU c units h]
    exact dykstraIterS_slice _ u _ (fun q hq => groups_sliceStage c h q.1 (zip_fst_mem hq)) iters w w1 _ _ hw
      (sliceL_zero _ u _)

theorem constraintUS_slice (c : LCfg) (hd : DCfgWF c.d) (units u : Nat) (hu : u < units) (w w1 : W)
    (hw : AgreeLen c.d.sizes.length (slice w u) w1) :
    AgreeLen c.d.sizes.length (slice (constraintUS c units w) u) (constraint1S c w1) := by
  have hclip : ∀ a a1 : W, AgreeLen c.d.sizes.length (slice a u) a1 →
      AgreeLen c.d.sizes.length (slice (clipBounds c.lo c.hi a) u) (clipBounds c.lo c.hi a1) := by
    intro a a1 h idx hl
    have := h idx hl
    simp only [slice, clipBounds] at this ⊢
    rw [this]
  unfold constraintUS constraint1S
  apply hclip
  split
  · have hdy := projectByDykstraUS_slice c.d hd units u c.iters w w1 hw
    split
    · exact finalizeU_slice c.fin units u hu hd.mono_len hd.trusts _ _ hdy
    · exact hdy
  · exact hw

/-- without repeated dict keys the slot-keyed one-unit loop IS the positional loop of `Model/Units.lean` -/
theorem projectByDykstraS_of_nodup (c : DCfg) (h : (groupKeys c).Nodup) (iters : Nat) (w : W) :
    projectByDykstraS c iters w = projectByDykstra c iters w := by
  unfold projectByDykstraS projectByDykstra
  split
  · rfl
  · rw [slots_of_nodup c h, dykstraIterS_range (groups c) iters w _ (by simp)]

/-- without repeated dict keys the slot-keyed multi-unit loop IS the positional `projectByDykstraU` -/
theorem projectByDykstraUS_of_nodup (c : DCfg) (hd : DCfgWF c) (h : (groupKeys c).Nodup) (units iters : Nat) (w : W) :
    projectByDykstraUS c units iters w = projectByDykstraU c units iters w := by
  unfold projectByDykstraUS projectByDykstraU
  split
  · rfl
  · rw [slots_of_nodup (dcfgU c units) (by rw [groupKeys_dcfgU c units hd]; exact h),
      dykstraIterS_range (groups (dcfgU c units)) iters w _ (by simp)]

end Tfl.Units
