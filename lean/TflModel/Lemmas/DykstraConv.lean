import Mathlib.Analysis.InnerProductSpace.Basic
import Mathlib.Analysis.InnerProductSpace.Continuous
import Mathlib.Topology.MetricSpace.Sequences
import Mathlib.Analysis.PSeries
import Mathlib.Algebra.Order.Chebyshev
import Mathlib.Analysis.Normed.Module.FiniteDimension
/-!
# Boyle–Dykstra convergence theorem for the pass-structured Dykstra loop

`visitG / passG / iterG` are the model's `Tfl.Lat.visit / dykstraPass / dykstraIter` over an
arbitrary carrier with subtraction and zero (the model's loop is the instance `V = Idx → ℚ`).

Setting of the theorem: `E` a finite-dimensional real inner product space, a list `ks` of group
keys, maps `P k : E → E`, closed sets `C k` with a common point, a set `S` of admissible points
(closed under subtraction and under the maps; `S = univ` for the plain statement — `S` is there so
that maps that are only defined on rational points can be used), and on `S`
* (lands) `P k x ∈ C k`,
* (vi)    `∀ y ∈ C k, ⟪x − P k x, y − P k x⟫ ≤ 0`.
Then the iterates `(iterG (ks.map P) n (x0, zeros)).1` converge to the unique point `p ∈ ⋂ C k`
with `⟪x0 − p, y − p⟫ ≤ 0` for all `y ∈ ⋂ C k`, i.e. to the point of `⋂ C k` nearest to `x0`.
-/
namespace Tfl.DykConv
open Filter Topology
open scoped RealInnerProductSpace

/-! ## the loop, over any carrier -/
section Generic
variable {V : Type*} [Sub V] [Zero V]

/-- one group visit: roll back, project, record the change -/
def visitG (P : V → V) (w c : V) : V × V :=
  let rolled := w - c
  let w' := P rolled
  (w', w' - rolled)

/-- one pass over all maps; `cs` is aligned with the list of maps -/
def passG : List (V → V) → V → List V → V × List V
  | [], w, _ => (w, [])
  | P :: ps, w, cs =>
    let r := visitG P w (cs.headD 0)
    let rest := passG ps r.1 cs.tail
    (rest.1, r.2 :: rest.2)

def iterG (ps : List (V → V)) : Nat → V × List V → V × List V
  | 0, s => s
  | n+1, s => iterG ps n (passG ps s.1 s.2)

theorem iterG_eq_iterate (ps : List (V → V)) (n : Nat) (s : V × List V) :
    iterG ps n s = (fun s => passG ps s.1 s.2)^[n] s := by
  induction n generalizing s with
  | zero => rfl
  | succ n ih => simp only [iterG, Function.iterate_succ_apply, ih]

end Generic

/-! ## a real-analysis lemma: square-summable ⇒ `a n * (a 0 + … + a n)` is frequently small -/

theorem frequently_mul_partial_sum_lt (a : ℕ → ℝ) (ha : ∀ n, 0 ≤ a n)
    (hs : Summable (fun n => a n ^ 2)) {ε : ℝ} (hε : 0 < ε) :
    ∃ᶠ n in atTop, a n * ∑ k ∈ Finset.range (n + 1), a k < ε := by
  by_contra hcon
  rw [Filter.not_frequently, Filter.eventually_atTop] at hcon
  obtain ⟨N, hN⟩ := hcon
  set A : ℝ := ∑' n, a n ^ 2 with hA
  have hA0 : 0 ≤ A := tsum_nonneg (fun n => sq_nonneg _)
  -- Cauchy–Schwarz on the partial sums
  have hcs : ∀ n, (∑ k ∈ Finset.range (n + 1), a k) ^ 2 ≤ ((n : ℝ) + 1) * A := by
    intro n
    have h1 := sq_sum_le_card_mul_sum_sq (s := Finset.range (n + 1)) (f := a)
    have h2 : ∑ k ∈ Finset.range (n + 1), a k ^ 2 ≤ A :=
      hs.sum_le_tsum _ (fun i _ => sq_nonneg _)
    rw [Finset.card_range] at h1
    have h3 : ((n + 1 : ℕ) : ℝ) = (n : ℝ) + 1 := by push_cast; ring
    rw [h3] at h1
    have h4 : (0 : ℝ) ≤ (n : ℝ) + 1 := by positivity
    calc _ ≤ ((n : ℝ) + 1) * ∑ k ∈ Finset.range (n + 1), a k ^ 2 := h1
      _ ≤ ((n : ℝ) + 1) * A := mul_le_mul_of_nonneg_left h2 h4
  have hkey : ∀ n, N ≤ n → ε ^ 2 ≤ a n ^ 2 * (((n : ℝ) + 1) * A) := by
    intro n hn
    have h1 := not_lt.mp (hN n hn)
    have hsn : 0 ≤ ∑ k ∈ Finset.range (n + 1), a k := Finset.sum_nonneg (fun i _ => ha i)
    have h2 : ε ^ 2 ≤ (a n * ∑ k ∈ Finset.range (n + 1), a k) ^ 2 := by
      apply pow_le_pow_left₀ hε.le h1
    rw [mul_pow] at h2
    exact h2.trans (mul_le_mul_of_nonneg_left (hcs n) (sq_nonneg _))
  have hApos : 0 < A := by
    rcases hA0.lt_or_eq with h | h
    · exact h
    · exfalso
      have := hkey N le_rfl
      rw [← h] at this
      simp only [mul_zero] at this
      have : 0 < ε ^ 2 := by positivity
      linarith
  -- comparison with the harmonic series
  have hshift : Summable (fun n => a (n + N) ^ 2) := (summable_nat_add_iff N).mpr hs
  have hc : 0 < ε ^ 2 / A := by positivity
  have hcmp : Summable (fun n : ℕ => (ε ^ 2 / A) * (1 / ((n + (N + 1) : ℕ) : ℝ))) := by
    refine Summable.of_nonneg_of_le (fun n => by positivity) (fun n => ?_) hshift
    have h1 := hkey (n + N) (by omega)
    have hpos : (0 : ℝ) < ((n + (N + 1) : ℕ) : ℝ) := by positivity
    have hcast : ((n + (N + 1) : ℕ) : ℝ) = ((n + N : ℕ) : ℝ) + 1 := by push_cast; ring
    rw [div_mul_div_comm, mul_one, div_le_iff₀ (by positivity)]
    rw [hcast]
    linarith [h1]
  rw [summable_mul_left_iff hc.ne'] at hcmp
  have := (summable_nat_add_iff (f := fun n : ℕ => 1 / (n : ℝ)) (N + 1)).mp hcmp
  exact Real.not_summable_one_div_natCast this

variable {E : Type*} [NormedAddCommGroup E]

/-! ## polygonal paths through a list of points -/

/-- sum of squared steps of the path `w → y₁ → y₂ → …` -/
def pathSq (w : E) : List E → ℝ
  | [] => 0
  | y :: ys => ‖w - y‖ ^ 2 + pathSq y ys

/-- length of the path `w → y₁ → y₂ → …` -/
def pathLen (w : E) : List E → ℝ
  | [] => 0
  | y :: ys => ‖w - y‖ + pathLen y ys

theorem pathSq_nonneg (w : E) (ys : List E) : 0 ≤ pathSq w ys := by
  induction ys generalizing w with
  | nil => exact le_rfl
  | cons y ys ih => have := ih y; simp only [pathSq]; positivity

theorem pathLen_nonneg (w : E) (ys : List E) : 0 ≤ pathLen w ys := by
  induction ys generalizing w with
  | nil => exact le_rfl
  | cons y ys ih => have := ih y; simp only [pathLen]; positivity

theorem pathLen_sq_le (w : E) (ys : List E) : pathLen w ys ^ 2 ≤ (ys.length : ℝ) * pathSq w ys := by
  induction ys generalizing w with
  | nil => simp [pathLen, pathSq]
  | cons y ys ih =>
    have h := ih y
    have hL := pathLen_nonneg y ys
    have hQ := pathSq_nonneg y ys
    simp only [pathLen, pathSq, List.length_cons, Nat.cast_add, Nat.cast_one]
    set L := pathLen y ys
    set Q := pathSq y ys
    set a := ‖w - y‖ with ha
    have ha0 : 0 ≤ a := norm_nonneg _
    set n : ℝ := (ys.length : ℝ)
    have hn : 0 ≤ n := Nat.cast_nonneg _
    rcases hn.lt_or_eq with hpos | h0
    · have hmul : 0 ≤ n * ((n + 1) * (a ^ 2 + Q) - (a + L) ^ 2) := by
        have e : n * ((n + 1) * (a ^ 2 + Q) - (a + L) ^ 2)
            = (n * a - L) ^ 2 + (n + 1) * (n * Q - L ^ 2) := by ring
        rw [e]
        have : 0 ≤ (n + 1) * (n * Q - L ^ 2) := mul_nonneg (by linarith) (by linarith)
        positivity
      have := nonneg_of_mul_nonneg_right hmul hpos
      linarith
    · rw [← h0] at h ⊢
      have hL0 : L = 0 := by
        have : L ^ 2 ≤ 0 := by simpa using h
        exact pow_eq_zero_iff (two_ne_zero) |>.mp (le_antisymm this (sq_nonneg _))
      rw [hL0]; nlinarith

variable [InnerProductSpace ℝ E]

/-! ## the pass with ghost state -/
section Ghost
variable {κ : Type*}

/-- the pass, remembering next to each correction `c` also the point `y` the map returned -/
def passZ (P : κ → E → E) : List κ → E → List (E × E) → E × List (E × E)
  | [], w, _ => (w, [])
  | k :: ks, w, st =>
    let r := visitG (P k) w (st.headD (0, 0)).1
    let rest := passZ P ks r.1 st.tail
    (rest.1, (r.2, r.1) :: rest.2)

omit [InnerProductSpace ℝ E] in
theorem passZ_proj (P : κ → E → E) (ks : List κ) (w : E) (st : List (E × E)) :
    passG (ks.map P) w (st.map Prod.fst)
      = ((passZ P ks w st).1, (passZ P ks w st).2.map Prod.fst) := by
  induction ks generalizing w st with
  | nil => rfl
  | cons k ks ih =>
    have hh : (st.map Prod.fst).headD 0 = (st.headD ((0 : E), (0 : E))).1 := by cases st <;> rfl
    have ht : (st.map Prod.fst).tail = st.tail.map Prod.fst := by cases st <;> rfl
    simp only [List.map_cons, passG, passZ, hh, ht, ih]

omit [InnerProductSpace ℝ E] in
theorem passZ_length (P : κ → E → E) (ks : List κ) (w : E) (st : List (E × E)) :
    (passZ P ks w st).2.length = ks.length := by
  induction ks generalizing w st with
  | nil => rfl
  | cons k ks ih => simp [passZ, ih]

/-! ### metric bookkeeping of one pass (no hypotheses on the maps) -/

omit [InnerProductSpace ℝ E] in
theorem passZ_dist_le (P : κ → E → E) (ks : List κ) (w : E) (st : List (E × E)) :
    ‖w - (passZ P ks w st).1‖ ≤ pathLen w ((passZ P ks w st).2.map Prod.snd) := by
  induction ks generalizing w st with
  | nil => simp [passZ, pathLen]
  | cons k ks ih =>
    simp only [passZ, List.map_cons, pathLen]
    have := ih (visitG (P k) w (st.headD (0, 0)).1).1 st.tail
    have h2 := norm_sub_le_norm_sub_add_norm_sub w (visitG (P k) w (st.headD (0, 0)).1).1
      (passZ P ks (visitG (P k) w (st.headD (0, 0)).1).1 st.tail).1
    linarith

omit [InnerProductSpace ℝ E] in
theorem passZ_ghost_near (P : κ → E → E) (ks : List κ) (w : E) (st : List (E × E)) :
    ∀ s ∈ (passZ P ks w st).2,
      ‖s.2 - (passZ P ks w st).1‖ ≤ pathLen w ((passZ P ks w st).2.map Prod.snd) := by
  induction ks generalizing w st with
  | nil => intro s hs; simp [passZ] at hs
  | cons k ks ih =>
    intro s hs
    simp only [passZ, List.map_cons, pathLen, List.mem_cons] at hs ⊢
    have hn : 0 ≤ ‖w - (visitG (P k) w (st.headD (0, 0)).1).1‖ := norm_nonneg _
    rcases hs with rfl | hs
    · have := passZ_dist_le P ks (visitG (P k) w (st.headD (0, 0)).1).1 st.tail
      simp only
      linarith
    · have := ih _ _ s hs
      linarith

omit [InnerProductSpace ℝ E] in
theorem passZ_corr_le (P : κ → E → E) (ks : List κ) (w : E) (st : List (E × E)) {M : ℝ}
    (hM : 0 ≤ M) (h : ∀ s ∈ st, ‖s.1‖ ≤ M) :
    ∀ s ∈ (passZ P ks w st).2, ‖s.1‖ ≤ M + pathLen w ((passZ P ks w st).2.map Prod.snd) := by
  induction ks generalizing w st with
  | nil => intro s hs; simp [passZ] at hs
  | cons k ks ih =>
    intro s hs
    simp only [passZ, List.map_cons, pathLen, List.mem_cons] at hs ⊢
    have hc : ‖(st.headD ((0 : E), (0 : E))).1‖ ≤ M := by
      cases st with
      | nil => simpa using hM
      | cons a l => exact h a (List.mem_cons_self ..)
    have ht : ∀ s ∈ st.tail, ‖s.1‖ ≤ M := fun s hs => h s (List.mem_of_mem_tail hs)
    have hp := pathLen_nonneg (visitG (P k) w (st.headD (0, 0)).1).1
      ((passZ P ks (visitG (P k) w (st.headD (0, 0)).1).1 st.tail).2.map Prod.snd)
    rcases hs with rfl | hs
    · simp only [visitG]
      set c := (st.headD ((0 : E), (0 : E))).1
      have e : P k (w - c) - (w - c) = c - (w - P k (w - c)) := by abel
      rw [e]
      have := norm_sub_le c (w - P k (w - c))
      simp only [visitG] at hp
      linarith
    · have := ih _ _ ht s hs
      have hn : 0 ≤ ‖w - (visitG (P k) w (st.headD (0, 0)).1).1‖ := norm_nonneg _
      linarith

omit [InnerProductSpace ℝ E] in
/-- Dykstra's bookkeeping: `w − Σ corrections` is invariant along a pass -/
theorem passZ_telescope (P : κ → E → E) (ks : List κ) (w : E) (st : List (E × E))
    (hl : st.length = ks.length) :
    (passZ P ks w st).1 - ((passZ P ks w st).2.map Prod.fst).sum = w - (st.map Prod.fst).sum := by
  induction ks generalizing w st with
  | nil =>
    have : st = [] := List.eq_nil_of_length_eq_zero (by simpa using hl)
    subst this; simp [passZ]
  | cons k ks ih =>
    cases st with
    | nil => simp at hl
    | cons s st =>
      have ih' := ih (visitG (P k) w s.1).1 st (by simpa using hl)
      simp only [passZ, List.headD_cons, List.tail_cons, List.map_cons, List.sum_cons] at ih' ⊢
      rw [show ∀ a b c : E, a - (b + c) = (a - c) - b from fun a b c => by abel, ih']
      simp only [visitG]
      abel

/-! ### the hypotheses on the maps and the invariant of the ghost state -/

/-- what is assumed of the map with key `k`: on admissible points it returns an admissible point
of `C k` and satisfies the variational inequality of the projection onto `C k` -/
structure HypK (P : κ → E → E) (C : κ → Set E) (S : Set E) (k : κ) : Prop where
  map : ∀ x ∈ S, P k x ∈ S
  lands : ∀ x ∈ S, P k x ∈ C k
  vi : ∀ x ∈ S, ∀ y ∈ C k, ⟪x - P k x, y - P k x⟫ ≤ 0

/-- the invariant of one entry `(c, y)` of the ghost state -/
def Inv (C : κ → Set E) (S : Set E) (k : κ) (s : E × E) : Prop :=
  s.1 ∈ S ∧ s.2 ∈ C k ∧ ∀ y ∈ C k, 0 ≤ ⟪s.1, y - s.2⟫

variable {P : κ → E → E} {C : κ → Set E} {S : Set E}

theorem visit_inv (hsub : ∀ x ∈ S, ∀ y ∈ S, x - y ∈ S) {k : κ} (hk : HypK P C S k) {w : E}
    (hw : w ∈ S) {s : E × E} (hs : Inv C S k s) :
    (visitG (P k) w s.1).1 ∈ S ∧ Inv C S k ((visitG (P k) w s.1).2, (visitG (P k) w s.1).1) := by
  simp only [visitG]
  have hr : w - s.1 ∈ S := hsub _ hw _ hs.1
  refine ⟨hk.map _ hr, hsub _ (hk.map _ hr) _ hr, hk.lands _ hr, fun y hy => ?_⟩
  have := hk.vi _ hr y hy
  simp only
  rw [← neg_sub (w - s.1) (P k (w - s.1)), inner_neg_left]
  linarith

theorem passZ_inv (hsub : ∀ x ∈ S, ∀ y ∈ S, x - y ∈ S) {ks : List κ}
    (hk : ∀ k ∈ ks, HypK P C S k) {w : E} (hw : w ∈ S) {st : List (E × E)}
    (h : List.Forall₂ (Inv C S) ks st) :
    (passZ P ks w st).1 ∈ S ∧ List.Forall₂ (Inv C S) ks (passZ P ks w st).2 := by
  induction h generalizing w with
  | nil => exact ⟨hw, List.Forall₂.nil⟩
  | @cons k s ks st hs _ ih =>
    simp only [passZ, List.headD_cons, List.tail_cons]
    obtain ⟨h1, h2⟩ := visit_inv hsub (hk k (List.mem_cons_self ..)) hw hs
    obtain ⟨h3, h4⟩ := ih (fun k' hk' => hk k' (List.mem_cons_of_mem _ hk')) h1
    exact ⟨h3, List.Forall₂.cons h2 h4⟩

/-- `Σ ⟪c, z − y⟫` over the ghost state -/
def G (z : E) (st : List (E × E)) : ℝ := (st.map (fun s => ⟪s.1, z - s.2⟫)).sum

/-- `Σ |⟪c, w − y⟫|` over the ghost state -/
def T (w : E) (st : List (E × E)) : ℝ := (st.map (fun s => |⟪s.1, w - s.2⟫|)).sum

theorem visit_potential (w c y z w' : E) :
    ‖w - z‖ ^ 2 + 2 * ⟪c, z - y⟫
      = ‖w' - z‖ ^ 2 + 2 * ⟪w' - (w - c), z - w'⟫ + ‖w - w'‖ ^ 2 + 2 * ⟪c, w' - y⟫ := by
  have e1 : w - z = (w - w') + (w' - z) := by abel
  have e2 : w' - (w - c) = c - (w - w') := by abel
  have e3 : z - w' = -(w' - z) := by abel
  have e4 : w' - y = (w' - z) + (z - y) := by abel
  rw [e1, e2, e3, e4, norm_add_sq_real]
  simp only [inner_sub_left, inner_neg_right, inner_add_right]
  ring

/-- the Lyapunov inequality of one pass -/
theorem passZ_potential (hsub : ∀ x ∈ S, ∀ y ∈ S, x - y ∈ S) {ks : List κ}
    (hk : ∀ k ∈ ks, HypK P C S k) (z : E) (hz : ∀ k ∈ ks, z ∈ C k) {w : E} (hw : w ∈ S)
    {st : List (E × E)} (h : List.Forall₂ (Inv C S) ks st) :
    ‖(passZ P ks w st).1 - z‖ ^ 2 + 2 * G z (passZ P ks w st).2
        + pathSq w ((passZ P ks w st).2.map Prod.snd)
      ≤ ‖w - z‖ ^ 2 + 2 * G z st := by
  induction h generalizing w with
  | nil => simp [passZ, G, pathSq]
  | @cons k s ks st hs _ ih =>
    obtain ⟨h1, h2⟩ := visit_inv hsub (hk k (List.mem_cons_self ..)) hw hs
    have ih' := ih (fun k' hk' => hk k' (List.mem_cons_of_mem _ hk'))
      (fun k' hk' => hz k' (List.mem_cons_of_mem _ hk')) h1
    have e : (visitG (P k) w s.1).2 = (visitG (P k) w s.1).1 - (w - s.1) := rfl
    have hp := visit_potential w s.1 s.2 z (visitG (P k) w s.1).1
    have hnn := hs.2.2 _ h2.2.1
    simp only at hnn
    simp only [passZ, List.headD_cons, List.tail_cons, G, List.map_cons, List.sum_cons, pathSq, e]
      at ih' ⊢
    linarith

theorem G_nonneg {ks : List κ} (z : E) (hz : ∀ k ∈ ks, z ∈ C k) {st : List (E × E)}
    (h : List.Forall₂ (Inv C S) ks st) : 0 ≤ G z st := by
  induction h with
  | nil => simp [G]
  | @cons k s ks st hs _ ih =>
    have := ih (fun k' hk' => hz k' (List.mem_cons_of_mem _ hk'))
    have h0 := hs.2.2 z (hz k (List.mem_cons_self ..))
    simp only [G, List.map_cons, List.sum_cons] at this ⊢
    linarith

end Ghost

/-! ## list lemmas on the ghost state -/
section ListLemmas
variable {κ : Type*} {C : κ → Set E} {S : Set E}

theorem forall₂_exists_of_mem {α β : Type*} {R : α → β → Prop} {l₁ : List α} {l₂ : List β}
    (h : List.Forall₂ R l₁ l₂) {a : α} (ha : a ∈ l₁) : ∃ b ∈ l₂, R a b := by
  induction h with
  | nil => cases ha
  | @cons a' b' l₁ l₂ hab _ ih =>
    rcases List.mem_cons.mp ha with rfl | ha
    · exact ⟨b', List.mem_cons_self .., hab⟩
    · obtain ⟨b, hb, hr⟩ := ih ha
      exact ⟨b, List.mem_cons_of_mem _ hb, hr⟩

theorem T_nonneg (w : E) (st : List (E × E)) : 0 ≤ T w st := by
  unfold T
  apply List.sum_nonneg
  intro x hx
  obtain ⟨s, _, rfl⟩ := List.mem_map.mp hx
  exact abs_nonneg _

theorem T_le (w : E) (st : List (E × E)) {A B : ℝ} (hA : 0 ≤ A) (h1 : ∀ s ∈ st, ‖s.1‖ ≤ A)
    (h2 : ∀ s ∈ st, ‖s.2 - w‖ ≤ B) : T w st ≤ (st.length : ℝ) * (A * B) := by
  induction st with
  | nil => simp [T]
  | cons s st ih =>
    have ih' := ih (fun s hs => h1 s (List.mem_cons_of_mem _ hs))
      (fun s hs => h2 s (List.mem_cons_of_mem _ hs))
    have hs1 := h1 s (List.mem_cons_self ..)
    have hs2 := h2 s (List.mem_cons_self ..)
    have := abs_real_inner_le_norm s.1 (w - s.2)
    have hn : ‖w - s.2‖ = ‖s.2 - w‖ := norm_sub_rev _ _
    have hm : ‖s.1‖ * ‖w - s.2‖ ≤ A * B := by
      rw [hn]; exact mul_le_mul hs1 hs2 (norm_nonneg _) hA
    simp only [T, List.map_cons, List.sum_cons, List.length_cons, Nat.cast_add, Nat.cast_one]
      at ih' ⊢
    linarith

theorem inner_list_sum (l : List E) (v : E) : ⟪l.sum, v⟫ = (l.map (fun c => ⟪c, v⟫)).sum := by
  induction l with
  | nil => simp
  | cons c l ih => simp [inner_add_left, ih]

/-- `Σ ⟪c, p − y⟫ ≤ ⟪Σ c, p − w⟫ + Σ |⟪c, w − y⟫|` -/
theorem G_le (p w : E) (st : List (E × E)) :
    G p st ≤ ⟪(st.map Prod.fst).sum, p - w⟫ + T w st := by
  induction st with
  | nil => simp [G, T]
  | cons s st ih =>
    have e : p - s.2 = (p - w) + (w - s.2) := by abel
    have := le_abs_self ⟪s.1, w - s.2⟫
    simp only [G, T, List.map_cons, List.sum_cons, inner_add_left] at ih ⊢
    rw [e, inner_add_right]
    linarith

end ListLemmas

/-! ## the sequence of passes -/
section Seq
variable {κ : Type*} (P : κ → E → E) (ks : List κ) (x0 : E)

/-- ghost state after `n` passes from `(x0, zeros)`; the initial ghost points are `P k x0` -/
def seqZ (n : ℕ) : E × List (E × E) :=
  (fun s => passZ P ks s.1 s.2)^[n] (x0, ks.map (fun k => ((0 : E), P k x0)))

omit [InnerProductSpace ℝ E] in
theorem seqZ_zero : seqZ P ks x0 0 = (x0, ks.map (fun k => ((0 : E), P k x0))) := rfl

omit [InnerProductSpace ℝ E] in
theorem seqZ_succ (n : ℕ) :
    seqZ P ks x0 (n + 1) = passZ P ks (seqZ P ks x0 n).1 (seqZ P ks x0 n).2 :=
  Function.iterate_succ_apply' _ _ _

omit [InnerProductSpace ℝ E] in
/-- the model-shaped loop is the projection of the ghost loop -/
theorem seqZ_proj (n : ℕ) :
    iterG (ks.map P) n (x0, ks.map (fun _ => (0 : E)))
      = ((seqZ P ks x0 n).1, (seqZ P ks x0 n).2.map Prod.fst) := by
  rw [iterG_eq_iterate]
  induction n with
  | zero => simp [seqZ, Function.comp_def]
  | succ n ih =>
    rw [Function.iterate_succ_apply', ih, seqZ_succ]
    exact passZ_proj P ks _ _

variable {P ks x0} {C : κ → Set E} {S : Set E}

/-- standing hypotheses -/
structure Setup (P : κ → E → E) (C : κ → Set E) (S : Set E) (ks : List κ) (x0 : E) : Prop where
  sub : ∀ x ∈ S, ∀ y ∈ S, x - y ∈ S
  hk : ∀ k ∈ ks, HypK P C S k
  x0S : x0 ∈ S

theorem seqZ_inv (H : Setup P C S ks x0) (n : ℕ) :
    (seqZ P ks x0 n).1 ∈ S ∧ List.Forall₂ (Inv C S) ks (seqZ P ks x0 n).2 := by
  induction n with
  | zero =>
    refine ⟨H.x0S, ?_⟩
    rw [seqZ_zero, List.forall₂_map_right_iff, List.forall₂_same]
    intro k hk
    refine ⟨?_, (H.hk k hk).lands _ H.x0S, fun y _ => ?_⟩
    · have := H.sub _ H.x0S _ H.x0S
      simpa using this
    · simp
  | succ n ih =>
    rw [seqZ_succ]
    exact passZ_inv H.sub H.hk ih.1 ih.2

omit [InnerProductSpace ℝ E] in
theorem seqZ_length (n : ℕ) : (seqZ P ks x0 n).2.length = ks.length := by
  cases n with
  | zero => simp [seqZ_zero]
  | succ n => rw [seqZ_succ]; exact passZ_length ..

/-- the potential `‖w_n − z‖² + 2 Σ ⟪c, z − y⟫` -/
def Phi (P : κ → E → E) (ks : List κ) (x0 z : E) (n : ℕ) : ℝ :=
  ‖(seqZ P ks x0 n).1 - z‖ ^ 2 + 2 * G z (seqZ P ks x0 n).2

/-- length of the path the iterate travels during pass `n + 1` -/
def Lp (P : κ → E → E) (ks : List κ) (x0 : E) (n : ℕ) : ℝ :=
  pathLen (seqZ P ks x0 n).1 ((seqZ P ks x0 (n + 1)).2.map Prod.snd)

def SQp (P : κ → E → E) (ks : List κ) (x0 : E) (n : ℕ) : ℝ :=
  pathSq (seqZ P ks x0 n).1 ((seqZ P ks x0 (n + 1)).2.map Prod.snd)

theorem Phi_zero (z : E) : Phi P ks x0 z 0 = ‖x0 - z‖ ^ 2 := by
  have : G z (ks.map (fun k => ((0 : E), P k x0))) = 0 := by
    unfold G
    apply List.sum_eq_zero
    intro x hx
    simp only [List.map_map, List.mem_map, Function.comp] at hx
    obtain ⟨k, _, rfl⟩ := hx
    simp
  simp [Phi, seqZ_zero, this]

theorem Phi_succ_le (H : Setup P C S ks x0) {z : E} (hz : ∀ k ∈ ks, z ∈ C k) (n : ℕ) :
    Phi P ks x0 z (n + 1) + SQp P ks x0 n ≤ Phi P ks x0 z n := by
  obtain ⟨h1, h2⟩ := seqZ_inv H n
  have := passZ_potential H.sub H.hk z hz h1 h2
  simp only [Phi, SQp, seqZ_succ]
  exact this

theorem Phi_antitone (H : Setup P C S ks x0) {z : E} (hz : ∀ k ∈ ks, z ∈ C k) :
    Antitone (Phi P ks x0 z) :=
  antitone_nat_of_succ_le (fun n => by
    have := Phi_succ_le H hz n
    have := pathSq_nonneg (seqZ P ks x0 n).1 ((seqZ P ks x0 (n + 1)).2.map Prod.snd)
    simp only [SQp] at *
    linarith)

theorem norm_sq_le_Phi (H : Setup P C S ks x0) {z : E} (hz : ∀ k ∈ ks, z ∈ C k) (n : ℕ) :
    ‖(seqZ P ks x0 n).1 - z‖ ^ 2 ≤ Phi P ks x0 z n := by
  have := G_nonneg z hz (seqZ_inv H n).2
  simp only [Phi]; linarith

theorem norm_le_of_feasible (H : Setup P C S ks x0) {z : E} (hz : ∀ k ∈ ks, z ∈ C k) (n : ℕ) :
    ‖(seqZ P ks x0 n).1 - z‖ ≤ ‖x0 - z‖ := by
  have h1 := norm_sq_le_Phi H hz n
  have h2 := Phi_antitone H hz (Nat.zero_le n)
  rw [Phi_zero] at h2
  exact (pow_le_pow_iff_left₀ (norm_nonneg _) (norm_nonneg _) two_ne_zero).mp (h1.trans h2)

theorem sum_SQp_le (H : Setup P C S ks x0) {z : E} (hz : ∀ k ∈ ks, z ∈ C k) (n : ℕ) :
    ∑ m ∈ Finset.range n, SQp P ks x0 m ≤ ‖x0 - z‖ ^ 2 := by
  have key : ∀ n, ∑ m ∈ Finset.range n, SQp P ks x0 m + Phi P ks x0 z n ≤ ‖x0 - z‖ ^ 2 := by
    intro n
    induction n with
    | zero => simp [Phi_zero]
    | succ n ih =>
      rw [Finset.sum_range_succ]
      have := Phi_succ_le H hz n
      linarith
  have h1 := key n
  have h2 := norm_sq_le_Phi H hz n
  have h3 : 0 ≤ ‖(seqZ P ks x0 n).1 - z‖ ^ 2 := by positivity
  linarith

omit [InnerProductSpace ℝ E] in
theorem Lp_nonneg (n : ℕ) : 0 ≤ Lp P ks x0 n := pathLen_nonneg _ _

omit [InnerProductSpace ℝ E] in
theorem Lp_sq_le (n : ℕ) : Lp P ks x0 n ^ 2 ≤ (ks.length : ℝ) * SQp P ks x0 n := by
  have := pathLen_sq_le (seqZ P ks x0 n).1 ((seqZ P ks x0 (n + 1)).2.map Prod.snd)
  rwa [List.length_map, seqZ_length] at this

theorem summable_Lp_sq (H : Setup P C S ks x0) {z : E} (hz : ∀ k ∈ ks, z ∈ C k) :
    Summable (fun n => Lp P ks x0 n ^ 2) := by
  have hS : Summable (SQp P ks x0) :=
    summable_of_sum_range_le (fun n => pathSq_nonneg _ _) (sum_SQp_le H hz)
  exact Summable.of_nonneg_of_le (fun n => sq_nonneg _) Lp_sq_le (hS.mul_left _)

omit [InnerProductSpace ℝ E] in
theorem ghost_near (n : ℕ) :
    ∀ s ∈ (seqZ P ks x0 (n + 1)).2, ‖s.2 - (seqZ P ks x0 (n + 1)).1‖ ≤ Lp P ks x0 n := by
  simp only [Lp, seqZ_succ]
  exact passZ_ghost_near P ks _ _

omit [InnerProductSpace ℝ E] in
theorem corr_le (n : ℕ) :
    ∀ s ∈ (seqZ P ks x0 n).2, ‖s.1‖ ≤ ∑ m ∈ Finset.range n, Lp P ks x0 m := by
  induction n with
  | zero =>
    intro s hs
    rw [seqZ_zero] at hs
    obtain ⟨k, _, rfl⟩ := List.mem_map.mp hs
    simp
  | succ n ih =>
    rw [Finset.sum_range_succ]
    have h0 : 0 ≤ ∑ m ∈ Finset.range n, Lp P ks x0 m := Finset.sum_nonneg (fun m _ => Lp_nonneg m)
    have := passZ_corr_le P ks (seqZ P ks x0 n).1 (seqZ P ks x0 n).2 h0 ih
    simp only [Lp, seqZ_succ] at this ⊢
    exact this

omit [InnerProductSpace ℝ E] in
theorem telescope (n : ℕ) :
    (seqZ P ks x0 n).1 - ((seqZ P ks x0 n).2.map Prod.fst).sum = x0 := by
  induction n with
  | zero =>
    have : ((ks.map (fun k => ((0 : E), P k x0))).map Prod.fst).sum = 0 := by
      apply List.sum_eq_zero
      intro x hx
      simp only [List.map_map, List.mem_map, Function.comp] at hx
      obtain ⟨k, _, rfl⟩ := hx
      rfl
    rw [seqZ_zero, this, sub_zero]
  | succ n ih =>
    rw [seqZ_succ, passZ_telescope P ks _ _ (seqZ_length n), ih]

/-- `Σ |⟪c, w − y⟫|` at the end of pass `n + 1` -/
theorem T_succ_le (n : ℕ) :
    T (seqZ P ks x0 (n + 1)).1 (seqZ P ks x0 (n + 1)).2
      ≤ (ks.length : ℝ) * (Lp P ks x0 n * ∑ m ∈ Finset.range (n + 1), Lp P ks x0 m) := by
  have h0 : 0 ≤ ∑ m ∈ Finset.range (n + 1), Lp P ks x0 m :=
    Finset.sum_nonneg (fun m _ => Lp_nonneg m)
  have := T_le (seqZ P ks x0 (n + 1)).1 (seqZ P ks x0 (n + 1)).2 h0 (corr_le (n + 1)) (ghost_near n)
  rw [seqZ_length] at this
  linarith [mul_comm (Lp P ks x0 n) (∑ m ∈ Finset.range (n + 1), Lp P ks x0 m)]

/-- approximate variational inequality at the iterate -/
theorem vi_approx (H : Setup P C S ks x0) {y : E} (hy : ∀ k ∈ ks, y ∈ C k) (n : ℕ) :
    ⟪x0 - (seqZ P ks x0 n).1, y - (seqZ P ks x0 n).1⟫ ≤ T (seqZ P ks x0 n).1 (seqZ P ks x0 n).2 := by
  have h1 := G_nonneg y hy (seqZ_inv H n).2
  have h2 := G_le y (seqZ P ks x0 n).1 (seqZ P ks x0 n).2
  have h3 : x0 - (seqZ P ks x0 n).1 = -((seqZ P ks x0 n).2.map Prod.fst).sum := by
    nth_rewrite 1 [← telescope (P := P) (ks := ks) (x0 := x0) n]; abel
  rw [h3, inner_neg_left]
  linarith

end Seq

/-! ## convergence -/
section Main
variable {κ : Type*} {P : κ → E → E} {ks : List κ} {x0 : E} {C : κ → Set E} {S : Set E}

theorem tendsto_Lp_zero (H : Setup P C S ks x0) {z : E} (hz : ∀ k ∈ ks, z ∈ C k) :
    Tendsto (Lp P ks x0) atTop (𝓝 0) := by
  have h := (summable_Lp_sq H hz).tendsto_atTop_zero
  have h2 := (Real.continuous_sqrt.tendsto 0).comp h
  rw [Real.sqrt_zero] at h2
  refine h2.congr (fun n => ?_)
  simp only [Function.comp]
  exact Real.sqrt_sq (Lp_nonneg n)

/-- a subsequence of pass ends along which `Σ |⟪c, w − y⟫| → 0` -/
theorem exists_subseq_T (H : Setup P C S ks x0) {z : E} (hz : ∀ k ∈ ks, z ∈ C k) :
    ∃ φ : ℕ → ℕ, StrictMono φ ∧
      Tendsto (fun j => T (seqZ P ks x0 (φ j + 1)).1 (seqZ P ks x0 (φ j + 1)).2) atTop (𝓝 0) := by
  set r : ℝ := (ks.length : ℝ) with hr
  have hr0 : 0 ≤ r := Nat.cast_nonneg _
  have hfreq : ∀ j : ℕ, ∃ᶠ m in atTop,
      T (seqZ P ks x0 (m + 1)).1 (seqZ P ks x0 (m + 1)).2 < 1 / ((j : ℝ) + 1) := by
    intro j
    have hδ : (0 : ℝ) < 1 / ((j : ℝ) + 1) := by positivity
    have hε : (0 : ℝ) < 1 / ((j : ℝ) + 1) / (r + 1) := by positivity
    refine (frequently_mul_partial_sum_lt (Lp P ks x0) Lp_nonneg (summable_Lp_sq H hz) hε).mono ?_
    intro m hm
    refine lt_of_le_of_lt (T_succ_le m) ?_
    set x := Lp P ks x0 m * ∑ k ∈ Finset.range (m + 1), Lp P ks x0 k
    have hx0 : 0 ≤ x := mul_nonneg (Lp_nonneg m) (Finset.sum_nonneg (fun k _ => Lp_nonneg k))
    have h1 : (r + 1) * x < 1 / ((j : ℝ) + 1) := by
      rw [lt_div_iff₀ (by linarith)] at hm
      linarith
    linarith
  obtain ⟨φ, hφ, hφT⟩ := Filter.extraction_forall_of_frequently hfreq
  refine ⟨φ, hφ, ?_⟩
  refine squeeze_zero (fun j => T_nonneg _ _) (fun j => (hφT j).le) ?_
  exact tendsto_one_div_add_atTop_nhds_zero_nat

/-- **Boyle–Dykstra**, ghost-state form. -/
theorem seqZ_tendsto [FiniteDimensional ℝ E] (H : Setup P C S ks x0)
    (hclosed : ∀ k ∈ ks, IsClosed (C k)) {z : E} (hz : ∀ k ∈ ks, z ∈ C k) :
    ∃ p : E, (∀ k ∈ ks, p ∈ C k) ∧ (∀ y, (∀ k ∈ ks, y ∈ C k) → ⟪x0 - p, y - p⟫ ≤ 0) ∧
      Tendsto (fun n => (seqZ P ks x0 n).1) atTop (𝓝 p) := by
  have : ProperSpace E := FiniteDimensional.proper_real E
  obtain ⟨φ, hφ, hφT⟩ := exists_subseq_T H hz
  -- compactness
  have hb : ∀ j, (seqZ P ks x0 (φ j + 1)).1 ∈ Metric.closedBall z ‖x0 - z‖ := by
    intro j
    rw [mem_closedBall_iff_norm]
    exact norm_le_of_feasible H hz _
  obtain ⟨p, -, ψ, hψ, hp⟩ := tendsto_subseq_of_bounded Metric.isBounded_closedBall hb
  -- the subsequence `μ j = φ (ψ j) + 1`
  have hμw : Tendsto (fun j => (seqZ P ks x0 (φ (ψ j) + 1)).1) atTop (𝓝 p) := hp
  have hμT : Tendsto (fun j => T (seqZ P ks x0 (φ (ψ j) + 1)).1 (seqZ P ks x0 (φ (ψ j) + 1)).2)
      atTop (𝓝 0) := hφT.comp hψ.tendsto_atTop
  have hμL : Tendsto (fun j => Lp P ks x0 (φ (ψ j))) atTop (𝓝 0) :=
    (tendsto_Lp_zero H hz).comp ((hφ.comp hψ).tendsto_atTop)
  -- `p` lies in every set
  have hpC : ∀ k ∈ ks, p ∈ C k := by
    intro k hk
    rw [← (hclosed k hk).closure_eq, Metric.mem_closure_iff]
    intro ε hε
    have e1 : ∀ᶠ j in atTop, dist (seqZ P ks x0 (φ (ψ j) + 1)).1 p < ε / 2 :=
      (Metric.tendsto_nhds.mp hμw) (ε / 2) (by positivity)
    have e2 : ∀ᶠ j in atTop, Lp P ks x0 (φ (ψ j)) < ε / 2 :=
      (tendsto_order.mp hμL).2 (ε / 2) (by positivity)
    obtain ⟨j, hj1, hj2⟩ := (e1.and e2).exists
    obtain ⟨s, hs, hinv⟩ := forall₂_exists_of_mem (seqZ_inv H (φ (ψ j) + 1)).2 hk
    refine ⟨s.2, hinv.2.1, ?_⟩
    have h3 := ghost_near (P := P) (ks := ks) (x0 := x0) (φ (ψ j)) s hs
    rw [dist_eq_norm] at hj1 ⊢
    have h4 := norm_sub_le_norm_sub_add_norm_sub p (seqZ P ks x0 (φ (ψ j) + 1)).1 s.2
    rw [norm_sub_rev p (seqZ P ks x0 (φ (ψ j) + 1)).1,
      norm_sub_rev (seqZ P ks x0 (φ (ψ j) + 1)).1 s.2] at h4
    linarith
  -- the variational inequality at `p`
  have hvi : ∀ y, (∀ k ∈ ks, y ∈ C k) → ⟪x0 - p, y - p⟫ ≤ 0 := by
    intro y hy
    have hlim : Tendsto (fun j => ⟪x0 - (seqZ P ks x0 (φ (ψ j) + 1)).1,
        y - (seqZ P ks x0 (φ (ψ j) + 1)).1⟫) atTop (𝓝 ⟪x0 - p, y - p⟫) :=
      Filter.Tendsto.inner (𝕜 := ℝ) (tendsto_const_nhds.sub hμw) (tendsto_const_nhds.sub hμw)
    exact le_of_tendsto_of_tendsto' hlim hμT (fun j => vi_approx H hy _)
  refine ⟨p, hpC, hvi, ?_⟩
  -- the whole sequence: the potential at `p` is antitone and tends to 0 along the subsequence
  set B := ‖x0 - z‖ with hB
  have hd : Tendsto (fun j => ‖(seqZ P ks x0 (φ (ψ j) + 1)).1 - p‖) atTop (𝓝 0) :=
    tendsto_iff_norm_sub_tendsto_zero.mp hμw
  have hU : Tendsto (fun j => ‖(seqZ P ks x0 (φ (ψ j) + 1)).1 - p‖ ^ 2
      + (4 * B) * ‖(seqZ P ks x0 (φ (ψ j) + 1)).1 - p‖
      + 2 * T (seqZ P ks x0 (φ (ψ j) + 1)).1 (seqZ P ks x0 (φ (ψ j) + 1)).2) atTop (𝓝 0) := by
    have := ((hd.pow 2).add (hd.const_mul (4 * B))).add (hμT.const_mul 2)
    simpa using this
  have hPhiU : ∀ n, Phi P ks x0 p n ≤ ‖(seqZ P ks x0 n).1 - p‖ ^ 2
      + (4 * B) * ‖(seqZ P ks x0 n).1 - p‖ + 2 * T (seqZ P ks x0 n).1 (seqZ P ks x0 n).2 := by
    intro n
    have h1 := G_le p (seqZ P ks x0 n).1 (seqZ P ks x0 n).2
    have h2 : ((seqZ P ks x0 n).2.map Prod.fst).sum = (seqZ P ks x0 n).1 - x0 := by
      exact eq_sub_of_add_eq
        (sub_eq_iff_eq_add'.mp (telescope (P := P) (ks := ks) (x0 := x0) n)).symm
    rw [h2] at h1
    have h3 := real_inner_le_norm ((seqZ P ks x0 n).1 - x0) (p - (seqZ P ks x0 n).1)
    have h4 : ‖(seqZ P ks x0 n).1 - x0‖ ≤ 2 * B := by
      have := norm_le_of_feasible H hz n
      have e : (seqZ P ks x0 n).1 - x0 = ((seqZ P ks x0 n).1 - z) - (x0 - z) := by abel
      rw [e]
      exact (norm_sub_le _ _).trans (by linarith)
    have h5 : ‖p - (seqZ P ks x0 n).1‖ = ‖(seqZ P ks x0 n).1 - p‖ := norm_sub_rev _ _
    have h6 : ‖(seqZ P ks x0 n).1 - x0‖ * ‖p - (seqZ P ks x0 n).1‖
        ≤ 2 * B * ‖(seqZ P ks x0 n).1 - p‖ := by
      rw [h5]; exact mul_le_mul_of_nonneg_right h4 (norm_nonneg _)
    simp only [Phi]
    linarith
  rw [Metric.tendsto_atTop]
  intro ε hε
  have hev : ∀ᶠ j in atTop, ‖(seqZ P ks x0 (φ (ψ j) + 1)).1 - p‖ ^ 2
      + (4 * B) * ‖(seqZ P ks x0 (φ (ψ j) + 1)).1 - p‖
      + 2 * T (seqZ P ks x0 (φ (ψ j) + 1)).1 (seqZ P ks x0 (φ (ψ j) + 1)).2 < ε ^ 2 :=
    (tendsto_order.mp hU).2 (ε ^ 2) (by positivity)
  obtain ⟨j, hj⟩ := hev.exists
  refine ⟨φ (ψ j) + 1, fun n hn => ?_⟩
  have h1 := norm_sq_le_Phi H hpC n
  have h2 := Phi_antitone H hpC hn
  have h3 := hPhiU (φ (ψ j) + 1)
  rw [dist_eq_norm]
  exact lt_of_pow_lt_pow_left₀ 2 hε.le (by linarith)

end Main

/-! ## the theorem, for the model-shaped loop -/
section Final
variable {κ : Type*}

/-- the variational inequality characterises the nearest point, with a Pythagoras gap: every
feasible `y` is farther from `x0` than `p` by at least `‖p − y‖` (in squares) -/
theorem pythagoras_of_vi {x0 p y : E} (h : ⟪x0 - p, y - p⟫ ≤ 0) :
    ‖x0 - p‖ ^ 2 + ‖p - y‖ ^ 2 ≤ ‖x0 - y‖ ^ 2 := by
  have e : x0 - y = (x0 - p) - (y - p) := by abel
  have h1 := norm_sub_sq_real (x0 - p) (y - p)
  rw [e, h1, norm_sub_rev p y]
  linarith

theorem nearest_of_vi {x0 p y : E} (h : ⟪x0 - p, y - p⟫ ≤ 0) : ‖x0 - p‖ ≤ ‖x0 - y‖ := by
  have h1 := pythagoras_of_vi h
  have h2 : 0 ≤ ‖p - y‖ ^ 2 := by positivity
  exact (pow_le_pow_iff_left₀ (norm_nonneg _) (norm_nonneg _) two_ne_zero).mp (by linarith)

/-- at most one feasible point satisfies the variational inequality -/
theorem vi_unique {D : Set E} {x0 p p' : E} (hp : p ∈ D) (hp' : p' ∈ D)
    (h : ∀ y ∈ D, ⟪x0 - p, y - p⟫ ≤ 0) (h' : ∀ y ∈ D, ⟪x0 - p', y - p'⟫ ≤ 0) : p = p' := by
  have h1 := pythagoras_of_vi (h p' hp')
  have h2 := pythagoras_of_vi (h' p hp)
  have h3 : ‖p - p'‖ ^ 2 ≤ 0 := by
    have : ‖p' - p‖ = ‖p - p'‖ := norm_sub_rev _ _
    rw [this] at h2
    linarith
  have h4 : ‖p - p'‖ = 0 := by
    have := sq_nonneg ‖p - p'‖
    exact pow_eq_zero_iff two_ne_zero |>.mp (le_antisymm h3 this)
  exact sub_eq_zero.mp (norm_eq_zero.mp h4)

/-- **Theorem A (Boyle–Dykstra), relative to a set `S` of admissible points.**
`ks` lists the group keys in visiting order, `P k` is the map and `C k` the closed set of key `k`.
`S` contains the start point and is closed under subtraction and under the maps; on `S` every map
lands in its set and satisfies the projection's variational inequality. If the sets have a common
point, the `w` component of the model-shaped loop `iterG` (visit = roll back, apply the map, record
the change; `n` passes from `(x0, zeros)`) converges to the point `p` of `⋂ C k` that satisfies the
variational inequality — the (unique) nearest point of `⋂ C k` to `x0` — and the distance of the
iterate to every `C k` tends to 0. -/
theorem dykstra_converges_on [FiniteDimensional ℝ E] (ks : List κ) (P : κ → E → E)
    (C : κ → Set E) (S : Set E) (x0 : E)
    (hsub : ∀ x ∈ S, ∀ y ∈ S, x - y ∈ S) (hx0 : x0 ∈ S)
    (hmap : ∀ k ∈ ks, ∀ x ∈ S, P k x ∈ S)
    (hlands : ∀ k ∈ ks, ∀ x ∈ S, P k x ∈ C k)
    (hvi : ∀ k ∈ ks, ∀ x ∈ S, ∀ y ∈ C k, ⟪x - P k x, y - P k x⟫ ≤ 0)
    (hclosed : ∀ k ∈ ks, IsClosed (C k)) (hne : ∃ z, ∀ k ∈ ks, z ∈ C k) :
    ∃ p : E, (∀ k ∈ ks, p ∈ C k) ∧
      (∀ y, (∀ k ∈ ks, y ∈ C k) → ⟪x0 - p, y - p⟫ ≤ 0) ∧
      (∀ y, (∀ k ∈ ks, y ∈ C k) → ‖x0 - p‖ ^ 2 + ‖p - y‖ ^ 2 ≤ ‖x0 - y‖ ^ 2) ∧
      Tendsto (fun n => (iterG (ks.map P) n (x0, ks.map (fun _ => (0 : E)))).1) atTop (𝓝 p) ∧
      ∀ k ∈ ks, Tendsto (fun n =>
        Metric.infDist (iterG (ks.map P) n (x0, ks.map (fun _ => (0 : E)))).1 (C k)) atTop (𝓝 0) := by
  obtain ⟨z, hz⟩ := hne
  have H : Setup P C S ks x0 :=
    ⟨hsub, fun k hk => ⟨hmap k hk, hlands k hk, hvi k hk⟩, hx0⟩
  obtain ⟨p, hpC, hpvi, hlim⟩ := seqZ_tendsto H hclosed hz
  have hlim' : Tendsto (fun n => (iterG (ks.map P) n (x0, ks.map (fun _ => (0 : E)))).1)
      atTop (𝓝 p) := by
    refine hlim.congr (fun n => ?_)
    rw [seqZ_proj]
  refine ⟨p, hpC, hpvi, fun y hy => pythagoras_of_vi (hpvi y hy), hlim', fun k hk => ?_⟩
  have hd : Tendsto (fun n => dist (iterG (ks.map P) n (x0, ks.map (fun _ => (0 : E)))).1 p)
      atTop (𝓝 0) := tendsto_iff_dist_tendsto_zero.mp hlim'
  exact squeeze_zero (fun n => Metric.infDist_nonneg)
    (fun n => Metric.infDist_le_dist_of_mem (hpC k hk)) hd

/-- **Theorem A, plain form** (`S = univ`): maps defined everywhere. -/
theorem dykstra_converges [FiniteDimensional ℝ E] (ks : List κ) (P : κ → E → E)
    (C : κ → Set E) (x0 : E)
    (hlands : ∀ k ∈ ks, ∀ x, P k x ∈ C k)
    (hvi : ∀ k ∈ ks, ∀ x, ∀ y ∈ C k, ⟪x - P k x, y - P k x⟫ ≤ 0)
    (hclosed : ∀ k ∈ ks, IsClosed (C k)) (hne : ∃ z, ∀ k ∈ ks, z ∈ C k) :
    ∃ p : E, (∀ k ∈ ks, p ∈ C k) ∧
      (∀ y, (∀ k ∈ ks, y ∈ C k) → ⟪x0 - p, y - p⟫ ≤ 0) ∧
      (∀ y, (∀ k ∈ ks, y ∈ C k) → ‖x0 - p‖ ^ 2 + ‖p - y‖ ^ 2 ≤ ‖x0 - y‖ ^ 2) ∧
      Tendsto (fun n => (iterG (ks.map P) n (x0, ks.map (fun _ => (0 : E)))).1) atTop (𝓝 p) ∧
      ∀ k ∈ ks, Tendsto (fun n =>
        Metric.infDist (iterG (ks.map P) n (x0, ks.map (fun _ => (0 : E)))).1 (C k)) atTop (𝓝 0) :=
  dykstra_converges_on ks P C Set.univ x0 (fun _ _ _ _ => Set.mem_univ _) (Set.mem_univ _)
    (fun _ _ _ _ => Set.mem_univ _) (fun k hk x _ => hlands k hk x)
    (fun k hk x _ => hvi k hk x) hclosed hne

/-- the limit in Theorem A is the unique feasible point satisfying the variational inequality;
in particular it is the unique nearest feasible point -/
theorem dykstra_limit_unique {ks : List κ} {C : κ → Set E} {x0 p p' : E}
    (hp : ∀ k ∈ ks, p ∈ C k) (hvi : ∀ y, (∀ k ∈ ks, y ∈ C k) → ⟪x0 - p, y - p⟫ ≤ 0)
    (hp' : ∀ k ∈ ks, p' ∈ C k) (hnear : ∀ y, (∀ k ∈ ks, y ∈ C k) → ‖x0 - p'‖ ≤ ‖x0 - y‖) :
    p' = p := by
  have h1 := pythagoras_of_vi (hvi p' hp')
  have h2 := hnear p hp
  have h3 : ‖x0 - p'‖ ^ 2 ≤ ‖x0 - p‖ ^ 2 := pow_le_pow_left₀ (norm_nonneg _) h2 2
  have h4 : ‖p - p'‖ ^ 2 ≤ 0 := by linarith
  have h5 : ‖p - p'‖ = 0 :=
    pow_eq_zero_iff two_ne_zero |>.mp (le_antisymm h4 (sq_nonneg _))
  exact (sub_eq_zero.mp (norm_eq_zero.mp h5)).symm

end Final

end Tfl.DykConv
