import Mathlib.Analysis.SpecialFunctions.Log.Basic
import Mathlib.Analysis.SpecialFunctions.Exp
/-!
# The geometric-mean reduction of `CDF` / `cdf_fn` over ℝ

`exp(mean(log(v + ε)))` is not computable over ℚ; its bounds and monotonicity are proved here for
arbitrary lists of reals. This file is imported by `Props/C15.lean` only — never by `Model/` or
`Driver/` (the native driver stays Mathlib-free).
-/
namespace Tfl.CondReal
open Real

/-- `tf.math.exp(tf.reduce_mean(tf.math.log(v + ε)))`
(= `exp(reduce_sum(log(v + ε)) / num_terms)` of the layer) -/
noncomputable def geoMean (ε : ℝ) (vs : List ℝ) : ℝ :=
  Real.exp ((vs.map (fun v => Real.log (v + ε))).sum / (vs.length : ℝ))

theorem sum_bounds (a b : ℝ) : ∀ l : List ℝ, (∀ v ∈ l, a ≤ v ∧ v ≤ b) →
    a * (l.length : ℝ) ≤ l.sum ∧ l.sum ≤ b * (l.length : ℝ)
  | [], _ => by simp
  | v :: l, h => by
    have ih := sum_bounds a b l (fun x hx => h x (by simp [hx]))
    have hv := h v (by simp)
    simp only [List.sum_cons, List.length_cons]
    push_cast
    constructor <;> nlinarith [ih.1, ih.2, hv.1, hv.2]

theorem mean_bounds (a b : ℝ) (l : List ℝ) (hne : l ≠ []) (h : ∀ v ∈ l, a ≤ v ∧ v ≤ b) :
    a ≤ l.sum / (l.length : ℝ) ∧ l.sum / (l.length : ℝ) ≤ b := by
  have hp : (0 : ℝ) < (l.length : ℝ) := by exact_mod_cast List.length_pos_iff.mpr hne
  obtain ⟨h1, h2⟩ := sum_bounds a b l h
  exact ⟨by rw [le_div_iff₀ hp]; exact h1, by rw [div_le_iff₀ hp]; exact h2⟩

/-- values in `[0, 1]` ⇒ geometric mean with stabiliser `ε > 0` in `[ε, 1 + ε]` -/
theorem geoMean_bounds (ε : ℝ) (hε : 0 < ε) (vs : List ℝ) (hne : vs ≠ [])
    (h : ∀ v ∈ vs, 0 ≤ v ∧ v ≤ 1) : ε ≤ geoMean ε vs ∧ geoMean ε vs ≤ 1 + ε := by
  have hne' : vs.map (fun v => Real.log (v + ε)) ≠ [] := by simpa using hne
  have hb := mean_bounds (Real.log ε) (Real.log (1 + ε)) _ hne' (by
    intro w hw
    simp only [List.mem_map] at hw
    obtain ⟨v, hv, rfl⟩ := hw
    obtain ⟨h0, h1⟩ := h v hv
    exact ⟨Real.log_le_log hε (by linarith), Real.log_le_log (by linarith) (by linarith)⟩)
  simp only [List.length_map] at hb
  unfold geoMean
  constructor
  · calc ε = Real.exp (Real.log ε) := (Real.exp_log hε).symm
      _ ≤ _ := Real.exp_le_exp.mpr hb.1
  · calc _ ≤ Real.exp (Real.log (1 + ε)) := Real.exp_le_exp.mpr hb.2
      _ = 1 + ε := Real.exp_log (by linarith)

theorem sum_le_of_forall₂ : ∀ (l l' : List ℝ), List.Forall₂ (· ≤ ·) l l' → l.sum ≤ l'.sum
  | _, _, .nil => le_rfl
  | _, _, .cons h t => by
    have := sum_le_of_forall₂ _ _ t
    simp only [List.sum_cons]; linarith

/-- entrywise larger non-negative values ⇒ larger geometric mean -/
theorem geoMean_mono (ε : ℝ) (hε : 0 < ε) (vs vs' : List ℝ) (h : List.Forall₂ (· ≤ ·) vs vs')
    (h0 : ∀ v ∈ vs, 0 ≤ v) : geoMean ε vs ≤ geoMean ε vs' := by
  unfold geoMean
  apply Real.exp_le_exp.mpr
  rw [← h.length_eq]
  apply div_le_div_of_nonneg_right _ (by positivity)
  apply sum_le_of_forall₂
  rw [List.forall₂_map_left_iff, List.forall₂_map_right_iff]
  -- pointwise: log is monotone on positives
  have : ∀ (l l' : List ℝ), List.Forall₂ (· ≤ ·) l l' → (∀ v ∈ l, 0 ≤ v) →
      List.Forall₂ (fun a b => Real.log (a + ε) ≤ Real.log (b + ε)) l l' := by
    intro l l' hl
    induction hl with
    | nil => intro _; exact .nil
    | @cons a b l₁ l₂ hab _ ih =>
      intro hpos
      have ha : 0 ≤ a := hpos a (by simp)
      exact .cons (Real.log_le_log (by linarith) (by linarith))
        (ih (fun v hv => hpos v (by simp [hv])))
  exact this vs vs' h h0

end Tfl.CondReal
