import TflModel.Model.Keypoints
import Mathlib.Data.Rat.Floor
import Mathlib.Data.List.Basic
import Mathlib.Data.List.Range
import Mathlib.Data.List.Perm.Subperm
import Mathlib.Data.List.Nodup
import Mathlib.Tactic.Linarith
import Mathlib.Tactic.FieldSimp
import Mathlib.Tactic.Ring
/-!
# Lemmas for C18 (keypoints)
-/
namespace Tfl.Keypoints
open Tfl

/-- rounding (whatever the direction at an exact tie) moves a value by at most one half -/
theorem roundDir_bounds (d : Int) (x : Rat) :
    x - 1 / 2 ≤ (roundDir d x : Rat) ∧ (roundDir d x : Rat) ≤ x + 1 / 2 := by
  have h1 := Rat.floor_le x
  have h2 := Rat.lt_floor_add_one x
  push_cast at h2
  unfold roundDir
  simp only
  split_ifs <;> push_cast <;> constructor <;> linarith

theorem roundDir_int (d : Int) (z : Int) : roundDir d (z : Rat) = z := by
  unfold roundDir
  simp only [Rat.floor_intCast, sub_self]
  norm_num

/-- strictly more than one apart ⇒ the rounded values are strictly ordered, for every choice of
tie directions -/
theorem roundDir_lt_of_gap (d e : Int) {x y : Rat} (h : x + 1 < y) : roundDir d x < roundDir e y := by
  have hx := (roundDir_bounds d x).2
  have hy := (roundDir_bounds e y).1
  have : (roundDir d x : Rat) < (roundDir e y : Rat) := by linarith
  exact_mod_cast this

/-- the virtual index of quantile `i` of `k` over `n` sorted values: `(n-1)·i/(k-1)` -/
def virt (n k i : Nat) : Rat := ((n : Rat) - 1) * (0 + (i : Rat) * (1 - 0) / ((k : Rat) - 1))

theorem getElem_nearestIdx (n k : Nat) (dirs : List Int) (hk : k ≠ 1) (i : Nat)
    (hi : i < (nearestIdx n (quantileGrid k) dirs).length) :
    (nearestIdx n (quantileGrid k) dirs)[i] = roundDir (dirs.getD i 0) (virt n k i) := by
  unfold nearestIdx quantileGrid linspace virt at *
  simp only [if_neg hk] at *
  simp only [List.getElem_map, List.getElem_zipIdx, List.getElem_range, Nat.zero_add]

theorem length_nearestIdx (n k : Nat) (dirs : List Int) (hk : k ≠ 1) :
    (nearestIdx n (quantileGrid k) dirs).length = k := by
  unfold nearestIdx quantileGrid linspace
  simp [if_neg hk]

theorem virt_lt (n k i j : Nat) (hk : 2 ≤ k) (hn : k < n) (hij : i < j) : virt n k i + 1 < virt n k j := by
  unfold virt
  have hk' : (0 : Rat) < (k : Rat) - 1 := by
    have : (2 : Rat) ≤ k := by exact_mod_cast hk
    linarith
  have hn' : (k : Rat) + 1 ≤ n := by exact_mod_cast hn
  have hij' : (i : Rat) + 1 ≤ j := by exact_mod_cast hij
  have hi0 : (0 : Rat) ≤ i := by exact_mod_cast Nat.zero_le i
  rw [zero_add, zero_add, sub_zero, mul_one, mul_one, ← sub_pos]
  have e : ((n : Rat) - 1) * ((j : Rat) / ((k : Rat) - 1)) - (((n : Rat) - 1) * ((i : Rat) / ((k : Rat) - 1)) + 1)
      = (((n : Rat) - 1) * ((j : Rat) - i) - ((k : Rat) - 1)) / ((k : Rat) - 1) := by
    field_simp
    ring
  rw [e]
  apply div_pos _ hk'
  nlinarith

theorem virt_eq (k i : Nat) (hk : 2 ≤ k) : virt k k i = ((i : Int) : Rat) := by
  unfold virt
  have hk' : ((k : Rat) - 1) ≠ 0 := by
    have : (2 : Rat) ≤ k := by exact_mod_cast hk
    intro h; linarith
  push_cast
  field_simp
  ring

theorem virt_zero (n k : Nat) : virt n k 0 = ((0 : Int) : Rat) := by
  unfold virt; simp

theorem virt_last (n k : Nat) (hk : 2 ≤ k) : virt n k (k - 1) = (((n : Int) - 1 : Int) : Rat) := by
  unfold virt
  have hk' : ((k : Rat) - 1) ≠ 0 := by
    have : (2 : Rat) ≤ k := by exact_mod_cast hk
    intro h; linarith
  have : ((k - 1 : Nat) : Rat) = (k : Rat) - 1 := by
    rw [Nat.cast_sub (by omega)]; simp
  rw [this]
  push_cast
  field_simp
  ring


/-! ### `np.unique` -/

theorem mem_insertU (x y : Rat) : ∀ l : List Rat, y ∈ insertU x l ↔ y = x ∨ y ∈ l
  | [] => by simp [insertU]
  | z :: zs => by
    unfold insertU
    split_ifs with h1 h2
    · simp
    · subst h2; simp
    · simp only [List.mem_cons, mem_insertU x y zs]
      tauto

theorem insertU_pairwise (x : Rat) : ∀ l : List Rat, l.Pairwise (· < ·) → (insertU x l).Pairwise (· < ·)
  | [], _ => by simp [insertU]
  | z :: zs, h => by
    unfold insertU
    have hz := List.pairwise_cons.mp h
    split_ifs with h1 h2
    · refine List.pairwise_cons.mpr ⟨?_, h⟩
      intro a ha
      rcases List.mem_cons.mp ha with rfl | ha
      · exact h1
      · exact lt_trans h1 (hz.1 a ha)
    · exact h
    · refine List.pairwise_cons.mpr ⟨?_, insertU_pairwise x zs hz.2⟩
      intro a ha
      rcases (mem_insertU x a zs).mp ha with rfl | ha
      · exact lt_of_le_of_ne (not_lt.mp h1) (fun h => h2 h.symm)
      · exact hz.1 a ha

theorem unique_pairwise : ∀ l : List Rat, (unique l).Pairwise (· < ·)
  | [] => by simp [unique]
  | x :: xs => by
    have := unique_pairwise xs
    unfold unique at this ⊢
    rw [List.foldr_cons]
    exact insertU_pairwise x _ this

theorem mem_unique (y : Rat) : ∀ l : List Rat, y ∈ unique l ↔ y ∈ l
  | [] => by simp [unique]
  | x :: xs => by
    have := mem_unique y xs
    unfold unique at this ⊢
    rw [List.foldr_cons, mem_insertU, this]; simp

/-! ### indexing -/

theorem mapM_pyIndex (vals : List Rat) : ∀ (idx : List Int), (∀ z ∈ idx, 0 ≤ z ∧ z < (vals.length : Int)) →
    idx.mapM (pyIndex vals) = .ok (idx.map (fun z => vals.getD z.toNat 0))
  | [], _ => rfl
  | z :: zs, h => by
    have hz := h z List.mem_cons_self
    have ih := mapM_pyIndex vals zs (fun w hw => h w (List.mem_cons_of_mem _ hw))
    rw [List.mapM_cons, ih]
    have : pyIndex vals z = .ok (vals.getD z.toNat 0) := by
      unfold pyIndex
      have hneg : ¬ z < 0 := by omega
      simp only [if_neg hneg, if_pos hz]
    rw [this]
    rfl

theorem pairwise_map_getD (vals : List Rat) (hv : vals.Pairwise (· < ·)) (idx : List Int)
    (hi : idx.Pairwise (· < ·)) (hr : ∀ z ∈ idx, 0 ≤ z ∧ z < (vals.length : Int)) :
    (idx.map (fun z => vals.getD z.toNat 0)).Pairwise (· < ·) := by
  rw [List.pairwise_map]
  refine hi.imp_of_mem ?_
  intro a b ha hb hab
  have h1 := hr a ha
  have h2 := hr b hb
  have ha' : a.toNat < vals.length := by omega
  have hb' : b.toNat < vals.length := by omega
  have hlt : a.toNat < b.toNat := by omega
  simp only [List.getD_eq_getElem?_getD, List.getElem?_eq_getElem ha', List.getElem?_eq_getElem hb', Option.getD_some]
  exact List.pairwise_iff_getElem.mp hv _ _ ha' hb' hlt


/-! ### the repair loop of `_weighted_quantile` -/

/-- number of positions of `todo` that are not the first use of their index -/
def reps : List Int → List Int → Nat
  | _, [] => 0
  | seen, v :: vs => if seen.contains v then reps seen vs + 1 else reps (v :: seen) vs

theorem length_firstUses_add_reps : ∀ (todo seen : List Int),
    (firstUses seen todo).length + reps seen todo = todo.length
  | [], _ => rfl
  | v :: vs, seen => by
    unfold firstUses reps
    split_ifs
    · have := length_firstUses_add_reps vs seen; simp only [List.length_cons]; omega
    · have := length_firstUses_add_reps vs (v :: seen); simp only [List.length_cons]; omega

theorem mem_firstUses : ∀ (todo seen : List Int) (z : Int), z ∈ todo → z ∈ seen ∨ z ∈ firstUses seen todo
  | v :: vs, seen, z, hz => by
    unfold firstUses
    rcases List.mem_cons.mp hz with rfl | hz
    · split_ifs with h
      · exact Or.inl (by simpa using h)
      · exact Or.inr List.mem_cons_self
    · split_ifs with h
      · exact mem_firstUses vs seen z hz
      · rcases mem_firstUses vs (v :: seen) z hz with h' | h'
        · rcases List.mem_cons.mp h' with rfl | h'
          · exact Or.inr List.mem_cons_self
          · exact Or.inl h'
        · exact Or.inr (List.mem_cons_of_mem _ h')

theorem firstUses_nodup : ∀ (todo seen : List Int),
    (firstUses seen todo).Nodup ∧ ∀ z ∈ firstUses seen todo, z ∉ seen
  | [], _ => by simp [firstUses]
  | v :: vs, seen => by
    unfold firstUses
    split_ifs with h
    · exact firstUses_nodup vs seen
    · obtain ⟨h1, h2⟩ := firstUses_nodup vs (v :: seen)
      refine ⟨List.nodup_cons.mpr ⟨fun hv => h2 v hv List.mem_cons_self, h1⟩, ?_⟩
      intro z hz
      rcases List.mem_cons.mp hz with rfl | hz
      · simpa using h
      · exact fun hs => h2 z hz (List.mem_cons_of_mem _ hs)

theorem findCand_some {n : Nat} {used : List Int} {v c : Int} (h : findCand n used v = some c) :
    0 ≤ c ∧ c < (n : Int) ∧ c ∉ used := by
  unfold findCand at h
  have := List.find?_some h
  have h2 : (0 ≤ c ∧ c < (n : Int)) ∧ c ∉ used := by simpa using this
  exact ⟨h2.1.1, h2.1.2, h2.2⟩

/-- the search order `±1, ±2, …, ±(n-1)` reaches every other in-range index -/
theorem findCand_none {n : Nat} {used : List Int} {v : Int} (hv : 0 ≤ v ∧ v < (n : Int))
    (h : findCand n used v = none) : ∀ c : Int, 0 ≤ c → c < (n : Int) → c ≠ v → c ∈ used := by
  intro c hc0 hcn hcv
  unfold findCand at h
  rw [List.find?_eq_none] at h
  by_contra hcu
  have hmem : c ∈ (List.range (n - 1)).flatMap fun (d : Nat) => [v - ((d : Int) + 1), v + ((d : Int) + 1)] := by
    rw [List.mem_flatMap]
    refine ⟨(c - v).natAbs - 1, List.mem_range.mpr (by omega), ?_⟩
    simp only [List.mem_cons, List.mem_nil_iff, or_false]
    omega
  have := h c hmem
  simp [hc0, hcn, hcu] at this

theorem length_le_of_range_subset {n : Nat} {used : List Int}
    (h : ∀ c : Int, 0 ≤ c → c < (n : Int) → c ∈ used) : n ≤ used.length := by
  have hnd : ((List.range n).map (fun i : Nat => (i : Int))).Nodup :=
    List.Nodup.map (fun a b hab => by exact_mod_cast hab) List.nodup_range
  have hsub : (List.range n).map (fun i : Nat => (i : Int)) ⊆ used := by
    intro c hc
    rw [List.mem_map] at hc
    obtain ⟨i, hi, rfl⟩ := hc
    exact h _ (by omega) (by exact_mod_cast List.mem_range.mp hi)
  have := (List.subperm_of_subset hnd hsub).length_le
  simpa using this

/-- invariant-carrying form of the repair specification -/
theorem repair_inv (n : Nat) : ∀ (todo seen used : List Int),
    (∀ v ∈ todo, 0 ≤ v ∧ v < (n : Int)) → (∀ v ∈ todo, v ∈ used) → used.Nodup →
    used.length + reps seen todo ≤ n →
    (repair n seen used todo).Nodup ∧
    (∀ x ∈ repair n seen used todo, (x ∈ todo ∧ x ∉ seen) ∨ x ∉ used) ∧
    (∀ x ∈ repair n seen used todo, 0 ≤ x ∧ x < (n : Int))
  | [], _, _, _, _, _, _ => by simp [repair]
  | v :: vs, seen, used, hr, hu, hnd, hlen => by
    have hvr := hr v List.mem_cons_self
    have hvu := hu v List.mem_cons_self
    unfold repair
    unfold reps at hlen
    split_ifs at hlen ⊢ with hs
    · -- a repeated index: a candidate exists by counting
      cases hc : findCand n used v with
      | none =>
        exfalso
        have hall : ∀ c : Int, 0 ≤ c → c < (n : Int) → c ∈ used := by
          intro c h0 h1
          by_cases hcv : c = v
          · rw [hcv]; exact hvu
          · exact findCand_none hvr hc c h0 h1 hcv
        have := length_le_of_range_subset hall
        omega
      | some c =>
        simp only
        obtain ⟨hc0, hcn, hcu⟩ := findCand_some hc
        obtain ⟨i1, i2, i3⟩ := repair_inv n vs seen (c :: used)
          (fun w hw => hr w (List.mem_cons_of_mem _ hw))
          (fun w hw => List.mem_cons_of_mem _ (hu w (List.mem_cons_of_mem _ hw)))
          (List.nodup_cons.mpr ⟨hcu, hnd⟩) (by simp only [List.length_cons]; omega)
        refine ⟨List.nodup_cons.mpr ⟨?_, i1⟩, ?_, ?_⟩
        · intro hmem
          rcases i2 c hmem with ⟨h1, _⟩ | h1
          · exact hcu (hu c (List.mem_cons_of_mem _ h1))
          · exact h1 List.mem_cons_self
        · intro x hx
          rcases List.mem_cons.mp hx with rfl | hx
          · exact Or.inr hcu
          · rcases i2 x hx with ⟨h1, h2⟩ | h1
            · exact Or.inl ⟨List.mem_cons_of_mem _ h1, h2⟩
            · exact Or.inr (fun h => h1 (List.mem_cons_of_mem _ h))
        · intro x hx
          rcases List.mem_cons.mp hx with rfl | hx
          · exact ⟨hc0, hcn⟩
          · exact i3 x hx
    · -- first use: kept
      have hs' : v ∉ seen := by simpa using hs
      obtain ⟨i1, i2, i3⟩ := repair_inv n vs (v :: seen) used
        (fun w hw => hr w (List.mem_cons_of_mem _ hw))
        (fun w hw => hu w (List.mem_cons_of_mem _ hw)) hnd hlen
      refine ⟨List.nodup_cons.mpr ⟨?_, i1⟩, ?_, ?_⟩
      · intro hmem
        rcases i2 v hmem with ⟨_, h2⟩ | h1
        · exact h2 List.mem_cons_self
        · exact h1 hvu
      · intro x hx
        rcases List.mem_cons.mp hx with rfl | hx
        · exact Or.inl ⟨List.mem_cons_self, hs'⟩
        · rcases i2 x hx with ⟨h1, h2⟩ | h1
          · exact Or.inl ⟨List.mem_cons_of_mem _ h1, fun h => h2 (List.mem_cons_of_mem _ h)⟩
          · exact Or.inr h1
      · intro x hx
        rcases List.mem_cons.mp hx with rfl | hx
        · exact hvr
        · exact i3 x hx

theorem length_repair (n : Nat) : ∀ (todo seen used : List Int), (repair n seen used todo).length = todo.length
  | [], _, _ => rfl
  | v :: vs, seen, used => by
    unfold repair
    split_ifs
    · cases findCand n used v <;> simp [length_repair n vs]
    · simp [length_repair n vs]

/-- every index that was present is still present (its first use is never touched) -/
theorem repair_keeps (n : Nat) : ∀ (todo seen used : List Int) (z : Int), z ∈ todo →
    z ∈ seen ∨ z ∈ repair n seen used todo
  | v :: vs, seen, used, z, hz => by
    unfold repair
    split_ifs with hs
    · have hvs : v ∈ seen := by simpa using hs
      rcases List.mem_cons.mp hz with rfl | hz
      · exact Or.inl hvs
      · cases findCand n used v with
        | none => exact (repair_keeps n vs seen used z hz).imp id (List.mem_cons_of_mem _)
        | some c => exact (repair_keeps n vs seen (c :: used) z hz).imp id (List.mem_cons_of_mem _)
    · rcases List.mem_cons.mp hz with rfl | hz
      · exact Or.inr List.mem_cons_self
      · rcases repair_keeps n vs (v :: seen) used z hz with h | h
        · rcases List.mem_cons.mp h with rfl | h
          · exact Or.inr List.mem_cons_self
          · exact Or.inl h
        · exact Or.inr (List.mem_cons_of_mem _ h)


/-! ### `np.sort` of the indices -/

theorem insertI_perm (x : Int) : ∀ l : List Int, (insertI x l).Perm (x :: l)
  | [] => by simp [insertI]
  | y :: ys => by
    unfold insertI
    split_ifs
    · exact List.Perm.refl _
    · exact ((insertI_perm x ys).cons y).trans (List.Perm.swap x y ys)

theorem insertI_sorted (x : Int) : ∀ l : List Int, l.Pairwise (· ≤ ·) → (insertI x l).Pairwise (· ≤ ·)
  | [], _ => by simp [insertI]
  | y :: ys, h => by
    unfold insertI
    have hy := List.pairwise_cons.mp h
    split_ifs with hxy
    · refine List.pairwise_cons.mpr ⟨?_, h⟩
      intro a ha
      rcases List.mem_cons.mp ha with rfl | ha
      · exact hxy
      · exact le_trans hxy (hy.1 a ha)
    · refine List.pairwise_cons.mpr ⟨?_, insertI_sorted x ys hy.2⟩
      intro a ha
      rcases List.mem_cons.mp ((insertI_perm x ys).subset ha) with rfl | ha
      · omega
      · exact hy.1 a ha

theorem sortI_perm : ∀ l : List Int, (sortI l).Perm l
  | [] => by simp [sortI]
  | x :: xs => by
    have ih := sortI_perm xs
    unfold sortI at ih ⊢
    rw [List.foldr_cons]
    exact (insertI_perm x _).trans (ih.cons x)

theorem sortI_sorted : ∀ l : List Int, (sortI l).Pairwise (· ≤ ·)
  | [] => by simp [sortI]
  | x :: xs => by
    have ih := sortI_sorted xs
    unfold sortI at ih ⊢
    rw [List.foldr_cons]
    exact insertI_sorted x _ ih

theorem sortI_strict (l : List Int) (h : l.Nodup) : (sortI l).Pairwise (· < ·) := by
  have h1 := sortI_sorted l
  have h2 : (sortI l).Nodup := (sortI_perm l).nodup_iff.mpr h
  exact (h1.and h2).imp (fun hab => lt_of_le_of_ne hab.1 hab.2)

/-! ### forced ends -/

theorem length_forceEnds (n : Nat) (idx : List Int) : (forceEnds n idx).length = idx.length := by
  simp [forceEnds]

theorem mem_forceEnds {n : Nat} {idx : List Int} {z : Int} (h : z ∈ forceEnds n idx) :
    z = 0 ∨ z = (n : Int) - 1 ∨ z ∈ idx := by
  unfold forceEnds at h
  rcases List.mem_or_eq_of_mem_set h with h | h
  · rcases List.mem_or_eq_of_mem_set h with h | h
    · exact Or.inr (Or.inr h)
    · exact Or.inl h
  · exact Or.inr (Or.inl h)

theorem forceEnds_contains (n : Nat) (idx : List Int) (hl : 2 ≤ idx.length) :
    (0 : Int) ∈ forceEnds n idx ∧ ((n : Int) - 1) ∈ forceEnds n idx := by
  unfold forceEnds
  constructor
  · have h0 : ((idx.set 0 0).set (idx.length - 1) ((n : Int) - 1))[0]'(by simp; omega) = 0 := by
      rw [List.getElem_set, if_neg (by omega), List.getElem_set, if_pos rfl]
    have := List.getElem_mem (l := (idx.set 0 0).set (idx.length - 1) ((n : Int) - 1)) (n := 0) (by simp; omega)
    rwa [h0] at this
  · exact List.mem_set (by simp; omega) _

/-! ### `np.interp` stays inside the index range -/

theorem lastLe_fold (x : Rat) : ∀ (l : List Rat) (s : Nat) (acc : Option Nat),
    ((l.zipIdx s).foldl (fun acc p => if p.1 ≤ x then some p.2 else acc) acc = acc ∧
        ∀ i (h : i < l.length), ¬ l[i] ≤ x) ∨
    ∃ j, ∃ h : j < l.length,
      (l.zipIdx s).foldl (fun acc p => if p.1 ≤ x then some p.2 else acc) acc = some (s + j) ∧ l[j] ≤ x ∧
      ∀ i (hi : i < l.length), j < i → ¬ l[i] ≤ x
  | [], s, acc => Or.inl ⟨rfl, fun i h => by simp at h⟩
  | a :: l, s, acc => by
    rw [List.zipIdx_cons, List.foldl_cons]
    simp only
    rcases lastLe_fold x l (s + 1) (if a ≤ x then some s else acc) with ⟨h1, h2⟩ | ⟨j, hj, h1, h2, h3⟩
    · by_cases ha : a ≤ x
      · right
        refine ⟨0, by simp, ?_, by simpa using ha, ?_⟩
        · rw [h1, if_pos ha]; rfl
        · intro i hi h0
          match i, hi, h0 with
          | i + 1, hi, _ => simpa using h2 i (by simpa using hi)
      · left
        refine ⟨by rw [h1, if_neg ha], ?_⟩
        intro i hi
        match i, hi with
        | 0, _ => simpa using ha
        | i + 1, hi => simpa using h2 i (by simpa using hi)
    · right
      refine ⟨j + 1, by simpa using hj, ?_, by simpa using h2, ?_⟩
      · rw [h1]; congr 1; omega
      · intro i hi hji
        match i, hi, hji with
        | i + 1, hi, hji => simpa using h3 i (by simpa using hi) (by omega)

theorem interpIdx_bounds (xp : List Rat) (x : Rat) (hn : 1 ≤ xp.length) :
    0 ≤ interpIdx xp x ∧ interpIdx xp x ≤ (xp.length : Rat) - 1 := by
  have hn' : (1 : Rat) ≤ (xp.length : Rat) := by exact_mod_cast hn
  unfold interpIdx lastLe
  rcases lastLe_fold x xp 0 none with ⟨h1, _⟩ | ⟨j, hj, h1, h2, h3⟩
  · rw [h1]; simp only; constructor <;> linarith
  · rw [h1]
    simp only [Nat.zero_add]
    have hj0 : (0 : Rat) ≤ (j : Rat) := by exact_mod_cast Nat.zero_le j
    have hjn : (j : Rat) + 1 ≤ (xp.length : Rat) := by exact_mod_cast hj
    split_ifs with hlast hax
    · constructor <;> linarith
    · constructor <;> linarith
    · have hj1 : j + 1 < xp.length := by omega
      have hjn1 : (j : Rat) + 2 ≤ (xp.length : Rat) := by exact_mod_cast hj1
      have ha : xp.getD j 0 = xp[j] := by simp [List.getD_eq_getElem?_getD, List.getElem?_eq_getElem hj]
      have hb : xp.getD (j + 1) 0 = xp[j + 1] := by
        simp [List.getD_eq_getElem?_getD, List.getElem?_eq_getElem hj1]
      rw [ha] at hax ⊢
      rw [hb]
      have hxb : x < xp[j + 1] := not_le.mp (h3 (j + 1) hj1 (by omega))
      have hax' : xp[j] < x := lt_of_le_of_ne h2 hax
      have hden : 0 < xp[j + 1] - xp[j] := by linarith
      have ht0 : 0 ≤ (x - xp[j]) / (xp[j + 1] - xp[j]) := div_nonneg (by linarith) hden.le
      have ht1 : (x - xp[j]) / (xp[j + 1] - xp[j]) ≤ 1 := by
        rw [div_le_one hden]; linarith
      constructor <;> linarith

theorem roundDir_in_range (d : Int) (y : Rat) (n : Nat) (h0 : 0 ≤ y) (h1 : y ≤ (n : Rat) - 1) :
    0 ≤ roundDir d y ∧ roundDir d y < (n : Int) := by
  obtain ⟨b1, b2⟩ := roundDir_bounds d y
  constructor
  · have : ((-1 : Int) : Rat) < (roundDir d y : Rat) := by push_cast; linarith
    have : (-1 : Int) < roundDir d y := by exact_mod_cast this
    omega
  · have : (roundDir d y : Rat) < ((n : Int) : Rat) := by push_cast; linarith
    exact_mod_cast this

theorem length_cumsum : ∀ (ws : List Rat) (acc : Rat), (cumsum acc ws).length = ws.length
  | [], _ => rfl
  | w :: ws, acc => by simp [cumsum, length_cumsum ws]

theorem weightedIdx_facts (ws qs : List Rat) (dirs : List Int) (hn : 1 ≤ ws.length) :
    (weightedIdx ws qs dirs).length = qs.length ∧
    ∀ z ∈ weightedIdx ws qs dirs, 0 ≤ z ∧ z < (ws.length : Int) := by
  unfold weightedIdx
  simp only
  refine ⟨by simp, ?_⟩
  intro z hz
  rw [List.mem_map] at hz
  obtain ⟨p, _, rfl⟩ := hz
  have hl : (List.zipWith (fun c w => (c - w / 2) / rsum ws) (cumsum 0 ws) ws).length = ws.length := by
    rw [List.length_zipWith, length_cumsum]; simp
  have := interpIdx_bounds (List.zipWith (fun c w => (c - w / 2) / rsum ws) (cumsum 0 ws) ws) p.1 (by rw [hl]; exact hn)
  rw [hl] at this
  exact roundDir_in_range _ _ _ this.1 this.2

/-! ### weighted de-duplication keeps the same distinct values -/

theorem map_fst_insertW (x w : Rat) : ∀ l : List (Rat × Rat × Nat),
    (insertW x w l).map (·.1) = insertU x (l.map (·.1))
  | [] => rfl
  | e :: es => by
    unfold insertW
    simp only [List.map_cons]
    unfold insertU
    split_ifs <;> simp [map_fst_insertW x w es]

theorem map_fst_uniqueW : ∀ vw : List (Rat × Rat), (uniqueW vw).map (·.1) = unique (vw.map (·.1))
  | [] => rfl
  | p :: ps => by
    have ih := map_fst_uniqueW ps
    unfold uniqueW unique at ih ⊢
    rw [List.foldr_cons, List.map_cons, List.foldr_cons, map_fst_insertW, ih]

end Tfl.Keypoints
