import TflModel.Model.Initializers
import TflModel.Lemmas.Idx
import TflModel.Lemmas.Kfl
import Mathlib.Tactic.Ring
import Mathlib.Tactic.FieldSimp
import Mathlib.Data.List.Perm.Basic
/-! Lemmas for C10: sorting, level orders, linspace profiles, sums over dimensions. -/
namespace Tfl.Init
open Tfl

/-! ### `isort` -/
theorem mem_insertSorted {x y : ℚ} {l : List ℚ} : y ∈ insertSorted x l ↔ y = x ∨ y ∈ l := by
  induction l with
  | nil => simp [insertSorted]
  | cons a r ih =>
    simp only [insertSorted]
    split
    · simp
    · simp only [List.mem_cons, ih]; tauto

theorem mem_isort {y : ℚ} {l : List ℚ} : y ∈ isort l ↔ y ∈ l := by
  induction l with
  | nil => simp [isort]
  | cons a r ih => simp only [isort, mem_insertSorted, ih, List.mem_cons]

theorem length_insertSorted (x : ℚ) (l : List ℚ) : (insertSorted x l).length = l.length + 1 := by
  induction l with
  | nil => rfl
  | cons a r ih => simp only [insertSorted]; split <;> simp [ih]

theorem length_isort (l : List ℚ) : (isort l).length = l.length := by
  induction l with
  | nil => rfl
  | cons a r ih => simp [isort, length_insertSorted, ih]

theorem pairwise_insertSorted (x : ℚ) (l : List ℚ) (h : l.Pairwise (· ≤ ·)) :
    (insertSorted x l).Pairwise (· ≤ ·) := by
  induction l with
  | nil => simp [insertSorted]
  | cons a r ih =>
    rw [List.pairwise_cons] at h
    simp only [insertSorted]
    split
    · rename_i hxa
      refine List.pairwise_cons.mpr ⟨?_, List.pairwise_cons.mpr h⟩
      intro b hb
      rcases List.mem_cons.mp hb with e | e
      · rw [e]; exact hxa
      · exact le_trans hxa (h.1 b e)
    · rename_i hxa
      refine List.pairwise_cons.mpr ⟨?_, ih h.2⟩
      intro b hb
      rcases mem_insertSorted.mp hb with e | e
      · rw [e]; exact le_of_lt (not_le.mp hxa)
      · exact h.1 b e

/-- `tf.sort` returns a non-decreasing list -/
theorem pairwise_isort (l : List ℚ) : (isort l).Pairwise (· ≤ ·) := by
  induction l with
  | nil => simp [isort]
  | cons a r ih => exact pairwise_insertSorted a _ ih

theorem getR_le_of_pairwise {l : List ℚ} (h : l.Pairwise (· ≤ ·)) {i j : Nat} (hij : i ≤ j) (hj : j < l.length) :
    getR l i ≤ getR l j := by
  have hi : i < l.length := lt_of_le_of_lt hij hj
  simp only [getR, List.getD_eq_getElem?_getD, List.getElem?_eq_getElem hi, List.getElem?_eq_getElem hj,
    Option.getD_some]
  rcases Nat.lt_or_eq_of_le hij with h1 | h1
  · exact List.pairwise_iff_getElem.mp h i j hi hj h1
  · subst h1; exact le_refl _

theorem getR_mem {l : List ℚ} {i : Nat} (hi : i < l.length) : getR l i ∈ l := by
  simp only [getR, List.getD_eq_getElem?_getD, List.getElem?_eq_getElem hi, Option.getD_some]
  exact List.getElem_mem hi

/-! ### level orders (random_monotonic_initializer) -/

/-- level of a vertex = sum of its coordinates -/
def level (idx : Idx) : Nat := sumNat idx

theorem level_setc_succ (idx : Idx) (d : Nat) (hd : d < idx.length) :
    level (setc idx d (coord idx d + 1)) = level idx + 1 := by
  induction idx generalizing d with
  | nil => simp at hd
  | cons a r ih =>
    cases d with
    | zero => simp [level, setc, coord, sumNat]; omega
    | succ d =>
      have := ih d (by simpa using hd)
      simp only [level, setc, coord, List.set_cons_succ, sumNat, List.getD_cons_succ] at this ⊢
      omega

/-- an order of parameter indices that lists every vertex of the box, level by level
(any permutation inside a level) -/
structure LevelOrder (sizes : List Nat) (order : List Idx) : Prop where
  complete : ∀ idx, InRange sizes idx → idx ∈ order
  sorted : order.Pairwise (fun a b => level a ≤ level b)

/-- decidable form, evaluated by the driver on every order the model builds from the real draws -/
def levelOrderB (sizes : List Nat) (order : List Idx) : Bool :=
  (allIdx sizes).all (order.contains ·) &&
  decide (order.Pairwise (fun a b => level a ≤ level b))

theorem levelOrderB_iff (sizes : List Nat) (order : List Idx) :
    levelOrderB sizes order = true ↔ LevelOrder sizes order := by
  simp only [levelOrderB, Bool.and_eq_true, List.all_eq_true, List.contains_iff_mem, decide_eq_true_eq]
  constructor
  · rintro ⟨h1, h2⟩; exact ⟨fun idx hi => h1 idx (mem_allIdx.mpr hi), h2⟩
  · rintro ⟨h1, h2⟩; exact ⟨fun idx hi => h1 idx (mem_allIdx.mp hi), h2⟩

theorem idxOf_lt_of_level_lt {order : List Idx} (hs : order.Pairwise (fun a b => level a ≤ level b))
    {a b : Idx} (ha : a ∈ order) (hb : b ∈ order) (hl : level a < level b) :
    order.idxOf a < order.idxOf b := by
  by_contra hcon
  have hle : order.idxOf b ≤ order.idxOf a := not_lt.mp hcon
  have hia : order.idxOf a < order.length := List.idxOf_lt_length_of_mem ha
  have hib : order.idxOf b < order.length := List.idxOf_lt_length_of_mem hb
  rcases Nat.lt_or_eq_of_le hle with h1 | h1
  · have := List.pairwise_iff_getElem.mp hs _ _ hib hia h1
    rw [List.getElem_idxOf hib, List.getElem_idxOf hia] at this
    omega
  · have e1 := List.getElem_idxOf hia
    have e2 := List.getElem_idxOf hib
    have : a = b := by rw [← e1, ← e2]; congr 1; exact h1.symm
    subst this; omega

/-- **core of C10-T2**: sorted values gathered through ANY level order are non-decreasing along EVERY axis -/
theorem rmWeights_monoAx (sizes : List Nat) (order : List Idx) (sample : List ℚ) (ho : LevelOrder sizes order)
    (hlen : order.length ≤ sample.length) (d : Nat) : MonoAx sizes d (rmWeights order sample) := by
  intro idx hr hd hlt
  have hin' : InRange sizes (setc idx d (coord idx d + 1)) := inRange_setc hr hlt
  have hm := ho.complete idx hr
  have hm' := ho.complete _ hin'
  have hlev := level_setc_succ idx d (by rw [hr.1]; exact hd)
  have hlt' := idxOf_lt_of_level_lt ho.sorted hm hm' (by omega)
  simp only [rmWeights]
  apply getR_le_of_pairwise (pairwise_isort sample) (le_of_lt hlt')
  rw [length_isort]
  exact lt_of_lt_of_le (List.idxOf_lt_length_of_mem hm') hlen

/-- … and lie in the sampling range -/
theorem rmWeights_range (sizes : List Nat) (order : List Idx) (sample : List ℚ) (ho : LevelOrder sizes order)
    (hlen : order.length ≤ sample.length) (lo hi : ℚ) (hs : ∀ v ∈ sample, lo ≤ v ∧ v ≤ hi)
    (idx : Idx) (hr : InRange sizes idx) : lo ≤ rmWeights order sample idx ∧ rmWeights order sample idx ≤ hi := by
  have hm := ho.complete idx hr
  have : getR (isort sample) (order.idxOf idx) ∈ sample :=
    mem_isort.mp (getR_mem (by rw [length_isort]; exact lt_of_lt_of_le (List.idxOf_lt_length_of_mem hm) hlen))
  exact hs _ this

/-! ### the BFS of `random_monotonic_initializer` produces a level order -/

theorem mem_children {sizes : List Nat} {v w : Idx} :
    w ∈ children sizes v ↔
      ∃ d, d < sizes.length ∧ coord v d + 1 < sizes.getD d 0 ∧ w = setc v d (coord v d + 1) := by
  simp only [children, List.mem_filterMap, List.mem_range]
  constructor
  · rintro ⟨d, hd, h⟩
    split at h
    · rename_i hc; exact ⟨d, hd, hc, by simpa using h.symm⟩
    · cases h
  · rintro ⟨d, hd, hc, rfl⟩
    exact ⟨d, hd, by rw [if_pos hc]⟩

theorem mem_nextLevel {sizes : List Nat} {last : List Idx} {w : Idx} :
    w ∈ nextLevel sizes last ↔ ∃ v ∈ last, w ∈ children sizes v := by
  simp [nextLevel, List.mem_eraseDups, List.mem_flatMap]

theorem exists_pos_coord : ∀ (w : Idx), 0 < level w → ∃ d, d < w.length ∧ 1 ≤ coord w d
  | [], h => by simp [level, sumNat] at h
  | a :: r, h => by
    by_cases ha : 1 ≤ a
    · exact ⟨0, by simp, by simpa [coord] using ha⟩
    · have hr : 0 < level r := by simp only [level, sumNat] at h ⊢; omega
      obtain ⟨d, hd, hc⟩ := exists_pos_coord r hr
      exact ⟨d + 1, by simpa using hd, by simpa [coord] using hc⟩

/-- every vertex of the box above level 0 is a child of a vertex of the box one level below -/
theorem exists_parent {sizes : List Nat} {w : Idx} (hw : InRange sizes w) {k : Nat} (hl : level w = k + 1) :
    ∃ v, InRange sizes v ∧ level v = k ∧ w ∈ children sizes v := by
  obtain ⟨d, hd, hc⟩ := exists_pos_coord w (by omega)
  have hdn : d < sizes.length := by rw [← hw.1]; exact hd
  have hlt := hw.2 d hdn
  refine ⟨setc w d (coord w d - 1), inRange_setc hw (by omega), ?_, ?_⟩
  · have h1 := level_setc_succ (setc w d (coord w d - 1)) d (by simpa using hd)
    rw [coord_setc_same _ hd, setc_setc_same, show coord w d - 1 + 1 = coord w d by omega,
      setc_coord_self hd] at h1
    omega
  · refine mem_children.mpr ⟨d, hdn, ?_, ?_⟩
    · rw [coord_setc_same _ hd]; omega
    · rw [coord_setc_same _ hd, setc_setc_same, show coord w d - 1 + 1 = coord w d by omega, setc_coord_self hd]

theorem children_spec {sizes : List Nat} {v w : Idx} (hv : InRange sizes v) (hw : w ∈ children sizes v) :
    InRange sizes w ∧ level w = level v + 1 := by
  obtain ⟨d, hd, hc, rfl⟩ := mem_children.mp hw
  exact ⟨inRange_setc hv hc, level_setc_succ v d (by rw [hv.1]; exact hd)⟩

/-- loop invariant: `last` is exactly level `k` of the box, `acc` lists levels `0..k` in level order -/
structure BfsInv (sizes : List Nat) (k : Nat) (last acc : List Idx) : Prop where
  last_in : ∀ v ∈ last, InRange sizes v ∧ level v = k
  last_all : ∀ v, InRange sizes v → level v = k → v ∈ last
  acc_all : ∀ v, InRange sizes v → level v ≤ k → v ∈ acc
  acc_sorted : acc.Pairwise (fun a b => level a ≤ level b)
  acc_le : ∀ v ∈ acc, level v ≤ k

theorem rmOrderLoop_levelOrder (sizes : List Nat) :
    ∀ (fuel k : Nat) (last : List Idx) (perms : List (List Idx)) (acc order : List Idx),
      BfsInv sizes k last acc → rmOrderLoop sizes fuel last perms acc = .ok order → LevelOrder sizes order := by
  intro fuel
  induction fuel with
  | zero => intro k last perms acc order _ h; simp [rmOrderLoop] at h
  | succ fuel ih =>
    intro k last perms acc order inv h
    simp only [rmOrderLoop] at h
    split at h
    · -- no further level: done
      rename_i hnl
      split at h
      · have : acc = order := by simpa using h
        subst this
        have hempty : nextLevel sizes last = [] := List.isEmpty_iff.mp hnl
        have none_above : ∀ m, ∀ v, InRange sizes v → level v = k + 1 + m → False := by
          intro m
          induction m with
          | zero =>
            intro v hv hl
            obtain ⟨p, hp, hpl, hc⟩ := exists_parent hv (k := k) (by omega)
            have : v ∈ nextLevel sizes last := mem_nextLevel.mpr ⟨p, inv.last_all p hp hpl, hc⟩
            rw [hempty] at this; cases this
          | succ m ihm =>
            intro v hv hl
            obtain ⟨p, hp, hpl, _⟩ := exists_parent hv (k := k + 1 + m) (by omega)
            exact ihm p hp hpl
        refine ⟨fun idx hi => inv.acc_all idx hi ?_, inv.acc_sorted⟩
        by_contra hcon
        exact none_above (level idx - (k + 1)) idx hi (by omega)
      · cases h
    · cases perms with
      | nil => cases h
      | cons p ps =>
        simp only at h
        split at h
        · rename_i hperm
          have hp : ∀ v, v ∈ p ↔ v ∈ nextLevel sizes last := fun v => (List.isPerm_iff.mp hperm).mem_iff
          apply ih (k + 1) p ps (acc ++ p) order _ h
          refine ⟨?_, ?_, ?_, ?_, ?_⟩
          · intro v hv
            obtain ⟨u, hu, hc⟩ := mem_nextLevel.mp ((hp v).mp hv)
            have := children_spec (inv.last_in u hu).1 hc
            exact ⟨this.1, by rw [this.2, (inv.last_in u hu).2]⟩
          · intro v hv hl
            obtain ⟨u, hu, hul, hc⟩ := exists_parent hv hl
            exact (hp v).mpr (mem_nextLevel.mpr ⟨u, inv.last_all u hu hul, hc⟩)
          · intro v hv hl
            rcases Nat.lt_or_eq_of_le hl with h1 | h1
            · exact List.mem_append_left _ (inv.acc_all v hv (by omega))
            · obtain ⟨u, hu, hul, hc⟩ := exists_parent hv h1
              exact List.mem_append_right _ ((hp v).mpr (mem_nextLevel.mpr ⟨u, inv.last_all u hu hul, hc⟩))
          · have hplev : ∀ v ∈ p, level v = k + 1 := by
              intro v hv
              obtain ⟨u, hu, hc⟩ := mem_nextLevel.mp ((hp v).mp hv)
              rw [(children_spec (inv.last_in u hu).1 hc).2, (inv.last_in u hu).2]
            refine List.pairwise_append.mpr ⟨inv.acc_sorted, ?_, ?_⟩
            · exact List.pairwise_iff_forall_sublist.mpr (by
                intro a b hab
                have ha := hplev a (hab.subset (by simp))
                have hb := hplev b (hab.subset (by simp))
                omega)
            · intro a ha b hb
              have := inv.acc_le a ha
              have := hplev b hb
              omega
          · intro v hv
            rcases List.mem_append.mp hv with h1 | h1
            · have := inv.acc_le v h1; omega
            · obtain ⟨u, hu, hc⟩ := mem_nextLevel.mp ((hp v).mp h1)
              rw [(children_spec (inv.last_in u hu).1 hc).2, (inv.last_in u hu).2]
        · cases h

theorem level_zeroIdx (sizes : List Nat) : level (zeroIdx sizes) = 0 := by
  induction sizes with
  | nil => rfl
  | cons a r ih => simp only [level, zeroIdx, List.map_cons, sumNat] at ih ⊢; omega

theorem eq_zeroIdx_of_level_zero : ∀ (sizes : List Nat) (v : Idx), v.length = sizes.length → level v = 0 →
    v = zeroIdx sizes
  | [], v, hl, _ => by simp at hl; subst hl; rfl
  | a :: r, [], hl, _ => by simp at hl
  | a :: r, x :: v, hl, h0 => by
    simp only [level, sumNat] at h0
    have hx : x = 0 := by omega
    have := eq_zeroIdx_of_level_zero r v (by simpa using hl) (by simp only [level]; omega)
    simp [zeroIdx, hx, this]

theorem inRange_zeroIdx (sizes : List Nat) (hpos : ∀ s ∈ sizes, 0 < s) : InRange sizes (zeroIdx sizes) := by
  refine ⟨by simp [zeroIdx], fun d hd => ?_⟩
  have : coord (zeroIdx sizes) d = 0 := by
    simp [coord, zeroIdx, List.getD_eq_getElem?_getD, hd]
  rw [this]
  have hm : sizes.getD d 0 ∈ sizes := by
    simp [List.getD_eq_getElem?_getD, List.getElem?_eq_getElem hd]
  exact hpos _ hm

/-- **C10-T2, BFS part**: whatever lists the shuffles return — as long as each is a permutation of the
level the loop computed, which is all `np.random.shuffle` can do — the parameter order produced by
the while loop of `random_monotonic_initializer` is a level order of the whole box. -/
theorem rmOrder_levelOrder (sizes : List Nat) (hpos : ∀ s ∈ sizes, 0 < s) (perms : List (List Idx))
    (order : List Idx) (h : rmOrder sizes perms = .ok order) : LevelOrder sizes order := by
  unfold rmOrder at h
  apply rmOrderLoop_levelOrder sizes _ 0 _ _ _ order _ h
  have hz := inRange_zeroIdx sizes hpos
  refine ⟨?_, ?_, ?_, by simp, ?_⟩
  · intro v hv; simp only [List.mem_singleton] at hv; subst hv; exact ⟨hz, level_zeroIdx sizes⟩
  · intro v hv hl; simp only [List.mem_singleton]; exact eq_zeroIdx_of_level_zero sizes v hv.1 hl
  · intro v hv hl; simp only [List.mem_singleton]; exact eq_zeroIdx_of_level_zero sizes v hv.1 (by omega)
  · intro v hv; simp only [List.mem_singleton] at hv; subst hv; rw [level_zeroIdx]

/-! ### list access helpers -/
theorem getR_append (a b : List ℚ) (k : Nat) :
    getR (a ++ b) k = if k < a.length then getR a k else getR b (k - a.length) := by
  simp only [getR, List.getD_eq_getElem?_getD]
  split
  · rename_i h; rw [List.getElem?_append_left h]
  · rename_i h; rw [List.getElem?_append_right (by omega)]

theorem getR_drop (l : List ℚ) (m k : Nat) : getR (l.drop m) k = getR l (m + k) := by
  simp [getR, List.getD_eq_getElem?_getD, List.getElem?_drop]

theorem getR_replicate0 (n k : Nat) : getR (List.replicate n 0) k = 0 := by
  simp only [getR, List.getD_eq_getElem?_getD]
  by_cases h : k < n
  · simp [h]
  · have : (List.replicate n (0 : ℚ))[k]? = none := by simp; omega
    rw [this]; rfl

theorem length_linspace (a b : ℚ) (num : Nat) : (linspace a b num).length = num := by
  unfold linspace; split
  · rename_i h; simp [h]
  · simp

theorem getR_linspace (a b : ℚ) (num i : Nat) (h1 : num ≠ 1) (hi : i < num) :
    getR (linspace a b num) i = a + (b - a) * (i : ℚ) / ((num : ℚ) - 1) := by
  unfold linspace
  rw [if_neg h1]
  simp [getR, List.getD_eq_getElem?_getD, hi]

/-! ### sums over dimensions -/
theorem rsum_append (a b : List ℚ) : rsum (a ++ b) = rsum a + rsum b := by
  induction a with
  | nil => simp [rsum]
  | cons x r ih => simp only [List.cons_append, rsum, ih]; ring

/-- `Σ_{d<n} f d` -/
def dsum (n : Nat) (f : Nat → ℚ) : ℚ := rsum ((List.range n).map f)

theorem dsum_succ (n : Nat) (f : Nat → ℚ) : dsum (n + 1) f = dsum n f + f n := by
  simp [dsum, List.range_succ, rsum_append, rsum]

theorem dsum_congr (n : Nat) (f g : Nat → ℚ) (h : ∀ d, d < n → f d = g d) : dsum n f = dsum n g := by
  induction n with
  | zero => rfl
  | succ n ih => rw [dsum_succ, dsum_succ, ih (fun d hd => h d (by omega)), h n (by omega)]

theorem dsum_le (n : Nat) (f g : Nat → ℚ) (h : ∀ d, d < n → f d ≤ g d) : dsum n f ≤ dsum n g := by
  induction n with
  | zero => exact le_refl _
  | succ n ih =>
    rw [dsum_succ, dsum_succ]
    exact add_le_add (ih (fun d hd => h d (by omega))) (h n (by omega))

/-- two summands lists that differ only at `d` -/
theorem dsum_sub_single (n : Nat) (f g : Nat → ℚ) (d : Nat) (hd : d < n) (h : ∀ e, e < n → e ≠ d → f e = g e) :
    dsum n f - dsum n g = f d - g d := by
  induction n with
  | zero => omega
  | succ n ih =>
    rw [dsum_succ, dsum_succ]
    by_cases hdn : d = n
    · subst hdn
      rw [dsum_congr d f g (fun e he => h e (by omega) (by omega))]; ring
    · rw [h n (by omega) (fun e => hdn e.symm)]
      have := ih (by omega) (fun e he hne => h e (by omega) hne)
      linarith

theorem dsum_indicator (n : Nat) (p : Nat → Bool) (r : ℚ) :
    dsum n (fun d => if p d then r else 0) = (((List.range n).filter p).length : ℚ) * r := by
  induction n with
  | zero => simp [dsum, rsum]
  | succ n ih =>
    rw [dsum_succ, ih, List.range_succ, List.filter_append]
    by_cases hp : p n
    · simp [hp]; ring
    · simp [hp]

/-! ### `linear_initializer` -/

theorem linearInit_eq (sizes : List Nat) (monos : List Bool) (unimods : List Int) (omin omax : ℚ) (idx : Idx) :
    linearInit sizes monos unimods omin omax idx =
      dsum sizes.length (fun d => contrib sizes monos unimods omin omax d (coord idx d)) + omin := rfl

/-- changing coordinate `d` changes the initial weight by the change of dimension `d`'s contribution
(the outer SUM over dimensions) -/
theorem linearInit_setc_sub (sizes : List Nat) (monos : List Bool) (unimods : List Int) (omin omax : ℚ)
    (idx : Idx) (hl : idx.length = sizes.length) (d : Nat) (hd : d < sizes.length) (v v' : Nat) :
    linearInit sizes monos unimods omin omax (setc idx d v) - linearInit sizes monos unimods omin omax (setc idx d v') =
      contrib sizes monos unimods omin omax d v - contrib sizes monos unimods omin omax d v' := by
  rw [linearInit_eq, linearInit_eq]
  have hdl : d < idx.length := by omega
  have := dsum_sub_single sizes.length
    (fun e => contrib sizes monos unimods omin omax e (coord (setc idx d v) e))
    (fun e => contrib sizes monos unimods omin omax e (coord (setc idx d v') e)) d hd
    (fun e _ hne => by simp only [coord_setc_ne _ (Ne.symm hne)])
  simp only [coord_setc_same _ hdl] at this
  linarith

/-- the contribution of a monotone dimension is linear: constant increments `dim_range / (size - 1)` -/
theorem contrib_mono_step (sizes : List Nat) (monos : List Bool) (unimods : List Int) (omin omax : ℚ) (d k : Nat)
    (hm : (effMonos sizes.length monos unimods).getD d false = true) (hs : k + 1 < sizes.getD d 0) :
    contrib sizes monos unimods omin omax d (k + 1) - contrib sizes monos unimods omin omax d k =
      dimRange sizes.length monos unimods omin omax / ((sizes.getD d 0 : ℚ) - 1) := by
  simp only [contrib, oneD, hm, if_true]
  rw [getR_linspace _ _ _ _ (by omega) hs, getR_linspace _ _ _ _ (by omega) (by omega)]
  have : ((sizes.getD d 0 : ℕ) : ℚ) - 1 ≠ 0 := by
    have : (2 : ℚ) ≤ (sizes.getD d 0 : ℕ) := by exact_mod_cast (by omega : 2 ≤ sizes.getD d 0)
    linarith
  field_simp
  push_cast
  ring

/-- an unconstrained dimension (in a layer that has constrained ones) contributes nothing -/
theorem contrib_free (sizes : List Nat) (monos : List Bool) (unimods : List Int) (omin omax : ℚ) (d k : Nat)
    (hm : (effMonos sizes.length monos unimods).getD d false = false) (hu : unimods.getD d 0 = 0) :
    contrib sizes monos unimods omin omax d k = 0 := by
  simp only [contrib, oneD, hm, hu]
  simp [getR_replicate0]

end Tfl.Init
