import TflModel.Model.Poset
import Mathlib.Data.List.Basic
import Mathlib.Data.List.Nodup
import Mathlib.Tactic.Linarith
import Mathlib.Tactic.Ring
import Mathlib.Algebra.Order.Field.Rat
/-! Lemmas about the partial-order sweeps of `internal_utils.py` (L6 of DESIGN.md). -/
namespace Tfl.Poset

theorem getV_set (w : List Rat) (i k : Nat) (v : Rat) :
    getV (w.set i v) k = if k = i ∧ i < w.length then v else getV w k := by
  unfold getV
  by_cases h : k = i
  · subst h
    by_cases hl : k < w.length
    · simp [List.getD, hl]
    · simp [List.getD, hl, List.set_eq_of_length_le (Nat.le_of_not_lt hl)]
  · have : i ≠ k := fun e => h e.symm
    simp [List.getD, h, List.getElem?_set_ne this]

theorem getV_of_le {w : List Rat} {k : Nat} (h : w.length ≤ k) : getV w k = 0 := by
  simp [getV, List.getD, List.getElem?_eq_none h]

theorem ratAbs_eq (x : Rat) : Rat.abs x = |x| := by
  unfold Rat.abs
  split
  · rename_i h; exact (abs_of_nonneg h).symm
  · rename_i h; exact (abs_of_neg (not_le.mp h)).symm

theorem set_getV_self (w : List Rat) (i : Nat) : w.set i (getV w i) = w := by
  apply List.ext_getElem?
  intro k
  by_cases h : i = k
  · subst h
    by_cases hl : i < w.length
    · simp [getV, List.getD, hl]
    · simp [List.set_eq_of_length_le (Nat.le_of_not_lt hl)]
  · simp [List.getElem?_set_ne h]

/-! ### the accumulators -/
theorem foldl_max_ge_init (w : List Rat) (l : List Nat) (a : Rat) :
    a ≤ l.foldl (fun m j => max m (getV w j)) a := by
  induction l generalizing a with
  | nil => simp
  | cons d l ih => exact le_trans (le_max_left _ _) (ih _)
theorem foldl_max_ge_mem (w : List Rat) (l : List Nat) (a : Rat) {j : Nat} (h : j ∈ l) :
    getV w j ≤ l.foldl (fun m j => max m (getV w j)) a := by
  induction l generalizing a with
  | nil => cases h
  | cons d l ih =>
    rcases List.mem_cons.mp h with e | e
    · subst e; exact le_trans (le_max_right _ _) (foldl_max_ge_init w l _)
    · exact ih _ e
theorem foldl_min_le_init (w : List Rat) (l : List Nat) (a : Rat) :
    l.foldl (fun m j => min m (getV w j)) a ≤ a := by
  induction l generalizing a with
  | nil => simp
  | cons d l ih => exact le_trans (ih _) (min_le_left _ _)
theorem foldl_min_le_mem (w : List Rat) (l : List Nat) (a : Rat) {j : Nat} (h : j ∈ l) :
    l.foldl (fun m j => min m (getV w j)) a ≤ getV w j := by
  induction l generalizing a with
  | nil => cases h
  | cons d l ih =>
    rcases List.mem_cons.mp h with e | e
    · subst e; exact le_trans (foldl_min_le_init w l _) (min_le_right _ _)
    · exact ih _ e
/-- a fold of `max` over values all `≤ a` returns `a` -/
theorem foldl_max_eq_init (w : List Rat) (l : List Nat) (a : Rat) (h : ∀ j ∈ l, getV w j ≤ a) :
    l.foldl (fun m j => max m (getV w j)) a = a := by
  induction l with
  | nil => rfl
  | cons d l ih =>
    simp only [List.foldl_cons]
    rw [max_eq_left (h d (List.mem_cons_self ..))]
    exact ih (fun j hj => h j (List.mem_cons_of_mem _ hj))
theorem foldl_min_eq_init (w : List Rat) (l : List Nat) (a : Rat) (h : ∀ j ∈ l, a ≤ getV w j) :
    l.foldl (fun m j => min m (getV w j)) a = a := by
  induction l with
  | nil => rfl
  | cons d l ih =>
    simp only [List.foldl_cons]
    rw [min_eq_left (h d (List.mem_cons_self ..))]
    exact ih (fun j hj => h j (List.mem_cons_of_mem _ hj))
/-- closure: a predicate closed under `max` holds for the fold -/
theorem foldl_max_closed (P : Rat → Prop) (hP : ∀ x y, P x → P y → P (max x y)) (w : List Rat)
    (l : List Nat) (a : Rat) (ha : P a) (h : ∀ j ∈ l, P (getV w j)) :
    P (l.foldl (fun m j => max m (getV w j)) a) := by
  induction l generalizing a with
  | nil => exact ha
  | cons d l ih =>
    exact ih _ (hP _ _ ha (h d (List.mem_cons_self ..))) (fun j hj => h j (List.mem_cons_of_mem _ hj))
theorem foldl_min_closed (P : Rat → Prop) (hP : ∀ x y, P x → P y → P (min x y)) (w : List Rat)
    (l : List Nat) (a : Rat) (ha : P a) (h : ∀ j ∈ l, P (getV w j)) :
    P (l.foldl (fun m j => min m (getV w j)) a) := by
  induction l generalizing a with
  | nil => exact ha
  | cons d l ih =>
    exact ih _ (hP _ _ ha (h d (List.mem_cons_self ..))) (fun j hj => h j (List.mem_cons_of_mem _ hj))

theorem mem_lessThan {cs : Pairs} {i j : Nat} : j ∈ lessThan cs i ↔ (i, j) ∈ cs := by
  simp only [lessThan, List.mem_map, List.mem_filter, beq_iff_eq]
  constructor
  · rintro ⟨⟨a, b⟩, ⟨hm, rfl⟩, rfl⟩; exact hm
  · intro h; exact ⟨(i, j), ⟨h, rfl⟩, rfl⟩
theorem mem_greaterThan {cs : Pairs} {i j : Nat} : i ∈ greaterThan cs j ↔ (i, j) ∈ cs := by
  simp only [greaterThan, List.mem_map, List.mem_filter, beq_iff_eq]
  constructor
  · rintro ⟨⟨a, b⟩, ⟨hm, rfl⟩, rfl⟩; exact hm
  · intro h; exact ⟨(i, j), ⟨h, rfl⟩, rfl⟩

theorem maxAt_ge_self (cs : Pairs) (w : List Rat) (i : Nat) : getV w i ≤ maxAt cs w i :=
  foldl_max_ge_init _ _ _
theorem maxAt_ge_pred (cs : Pairs) (w : List Rat) {j i : Nat} (h : (j, i) ∈ cs) :
    getV w j ≤ maxAt cs w i := foldl_max_ge_mem _ _ _ (mem_greaterThan.mpr h)
theorem minAt_le_self (cs : Pairs) (w : List Rat) (i : Nat) : minAt cs w i ≤ getV w i :=
  foldl_min_le_init _ _ _
theorem minAt_le_succ (cs : Pairs) (w : List Rat) {i j : Nat} (h : (i, j) ∈ cs) :
    minAt cs w i ≤ getV w j := foldl_min_le_mem _ _ _ (mem_lessThan.mpr h)

/-! ### one step -/
@[simp] theorem length_maxStep (cs : Pairs) (s : Rat) (w : List Rat) (i : Nat) :
    (maxStep cs s w i).length = w.length := by unfold maxStep; split <;> simp
@[simp] theorem length_minStep (cs : Pairs) (s : Rat) (w : List Rat) (i : Nat) :
    (minStep cs s w i).length = w.length := by unfold minStep; split <;> simp

theorem maxStep_other (cs : Pairs) (s : Rat) (w : List Rat) {i k : Nat} (h : k ≠ i) :
    getV (maxStep cs s w i) k = getV w k := by
  unfold maxStep; split
  · rfl
  · rw [getV_set]; simp [h]
theorem minStep_other (cs : Pairs) (s : Rat) (w : List Rat) {i k : Nat} (h : k ≠ i) :
    getV (minStep cs s w i) k = getV w k := by
  unfold minStep; split
  · rfl
  · rw [getV_set]; simp [h]

theorem maxStep_one_self (cs : Pairs) (w : List Rat) {i : Nat} (hi : i < w.length) :
    getV (maxStep cs 1 w i) i = maxAt cs w i := by
  unfold maxStep; split
  · rename_i h
    have : greaterThan cs i = [] := by simpa using h
    simp [maxAt, this]
  · rw [getV_set]; simp [hi]
theorem minStep_one_self (cs : Pairs) (w : List Rat) {i : Nat} (hi : i < w.length) :
    getV (minStep cs 1 w i) i = minAt cs w i := by
  unfold minStep; split
  · rename_i h
    have : lessThan cs i = [] := by simpa using h
    simp [minAt, this]
  · rw [getV_set]; simp [hi]

/-! ### generic sweep: processing nodes in an order compatible with the pairs establishes `rel`
on every pair (L6 core). `cs` lists pairs `(j, i)` = "`j` is processed before `i`". -/
theorem sweep_rel (cs : Pairs) (rel : Rat → Rat → Prop) (stp : List Rat → Nat → List Rat)
    (hlen : ∀ w a, (stp w a).length = w.length)
    (hother : ∀ w a k, k ≠ a → getV (stp w a) k = getV w k)
    (hpred : ∀ w a j, (j, a) ∈ cs → a < w.length → rel (getV w j) (getV (stp w a) a)) :
    ∀ (order done : List Nat) (w : List Rat), (done ++ order).Nodup →
      (∀ a ∈ order, a < w.length) →
      (∀ j i, (j, i) ∈ cs → i ∈ done → j ∈ done ∧ rel (getV w j) (getV w i)) →
      (∀ j i, (j, i) ∈ cs → i ∈ order →
          j ∈ done ∨ (∃ pre post, order = pre ++ i :: post ∧ j ∈ pre)) →
      ∀ j i, (j, i) ∈ cs → i ∈ done ++ order →
        rel (getV (order.foldl stp w) j) (getV (order.foldl stp w) i) := by
  intro order
  induction order with
  | nil =>
    intro done w _ _ hd _ j i hc hi
    simpa using (hd j i hc (by simpa using hi)).2
  | cons a rest ih =>
    intro done w hnd hin hd hord j i hc hi
    have hnd' : ((done ++ [a]) ++ rest).Nodup := by simpa [List.append_assoc] using hnd
    have ha_not_done : a ∉ done := by
      have := List.nodup_append.mp hnd
      intro h; exact (this.2.2 a h a (List.mem_cons_self ..)) rfl
    simp only [List.foldl_cons]
    apply ih (done ++ [a]) (stp w a) hnd'
    · intro b hb; rw [hlen]; exact hin b (List.mem_cons_of_mem _ hb)
    · intro j' i' hc' hi'
      rcases List.mem_append.mp hi' with h | h
      · obtain ⟨hj, hle⟩ := hd j' i' hc' h
        refine ⟨List.mem_append_left _ hj, ?_⟩
        have hj_ne : j' ≠ a := fun e => ha_not_done (e ▸ hj)
        have hi_ne : i' ≠ a := fun e => ha_not_done (e ▸ h)
        rw [hother _ _ _ hj_ne, hother _ _ _ hi_ne]; exact hle
      · have hia : i' = a := by simpa using h
        subst hia
        have hj : j' ∈ done := by
          rcases hord j' i' hc' (List.mem_cons_self ..) with h1 | ⟨pre, post, e, hp⟩
          · exact h1
          · exfalso
            cases pre with
            | nil => cases hp
            | cons x xs =>
              have hx : x = i' := by simpa using (List.cons.inj e).1.symm
              have : i' ∈ xs ++ i' :: post := by simp
              have e2 : rest = xs ++ i' :: post := by simpa using (List.cons.inj e).2
              have hdup := (List.nodup_append.mp hnd).2.1
              rw [List.nodup_cons] at hdup
              exact hdup.1 (e2 ▸ this)
        refine ⟨List.mem_append_left _ hj, ?_⟩
        have hj_ne : j' ≠ i' := fun e => ha_not_done (e ▸ hj)
        rw [hother _ _ _ hj_ne]
        exact hpred w i' j' hc' (hin i' (List.mem_cons_self ..))
    · intro j' i' hc' hi'
      rcases hord j' i' hc' (List.mem_cons_of_mem _ hi') with h1 | ⟨pre, post, e, hp⟩
      · exact Or.inl (List.mem_append_left _ h1)
      · cases pre with
        | nil => cases hp
        | cons x xs =>
          have hx : a = x := (List.cons.inj e).1
          have e2 : rest = xs ++ i' :: post := (List.cons.inj e).2
          rcases List.mem_cons.mp hp with h | h
          · exact Or.inl (by subst h; simp [hx])
          · exact Or.inr ⟨xs, post, e2, h⟩
    · exact hc
    · simpa [List.append_assoc] using hi

/-- Validity of a topological order as a proposition: no duplicates, and for every pair `(i, j)`
(`w i ≤ w j`) `i` occurs strictly before `j`. -/
def ValidOrder (cs : Pairs) (order : List Nat) : Prop :=
  order.Nodup ∧ ∀ i j, (i, j) ∈ cs → ∃ pre post, order = pre ++ j :: post ∧ i ∈ pre

theorem ValidOrder.mem_right {cs : Pairs} {order : List Nat} (h : ValidOrder cs order) {i j : Nat}
    (hc : (i, j) ∈ cs) : j ∈ order := by
  obtain ⟨pre, post, e, _⟩ := h.2 i j hc; rw [e]; simp
theorem ValidOrder.mem_left {cs : Pairs} {order : List Nat} (h : ValidOrder cs order) {i j : Nat}
    (hc : (i, j) ∈ cs) : i ∈ order := by
  obtain ⟨pre, post, e, hp⟩ := h.2 i j hc; rw [e]; exact List.mem_append_left _ hp

theorem length_foldl_maxStep (cs : Pairs) (s : Rat) (order : List Nat) (w : List Rat) :
    (order.foldl (maxStep cs s) w).length = w.length := by
  induction order generalizing w with
  | nil => rfl
  | cons a r ih => simp [ih]
theorem length_foldl_minStep (cs : Pairs) (s : Rat) (order : List Nat) (w : List Rat) :
    (order.foldl (minStep cs s) w).length = w.length := by
  induction order generalizing w with
  | nil => rfl
  | cons a r ih => simp [ih]
@[simp] theorem length_maxProjection (cs : Pairs) (o : List Nat) (s : Rat) (w : List Rat) :
    (maxProjection cs o s w).length = w.length := length_foldl_maxStep ..
@[simp] theorem length_minProjection (cs : Pairs) (o : List Nat) (s : Rat) (w : List Rat) :
    (minProjection cs o s w).length = w.length := length_foldl_minStep ..

/-- a full max sweep in a valid order makes every pair hold -/
theorem maxProjection_feasible (cs : Pairs) (order : List Nat) (w : List Rat)
    (hv : ValidOrder cs order) (hin : ∀ a ∈ order, a < w.length) :
    Feasible cs (maxProjection cs order 1 w) := by
  intro c hc
  obtain ⟨i, j⟩ := c
  have := sweep_rel cs (· ≤ ·) (maxStep cs 1) (fun w a => length_maxStep cs 1 w a)
    (fun w a k hk => maxStep_other cs 1 w hk)
    (fun w a j hj ha => by rw [maxStep_one_self cs w ha]; exact maxAt_ge_pred cs w hj)
    order [] w (by simpa using hv.1) hin (by simp)
    (fun j i hc _ => Or.inr (hv.2 j i hc)) i j hc (by simpa using hv.mem_right hc)
  exact this

theorem validOrder_reverse_split {cs : Pairs} {order : List Nat} (hv : ValidOrder cs order)
    {i j : Nat} (hc : (i, j) ∈ cs) :
    ∃ pre post, order.reverse = pre ++ i :: post ∧ j ∈ pre := by
  obtain ⟨pre, post, e, hp⟩ := hv.2 i j hc
  obtain ⟨p1, p2, e2⟩ := List.append_of_mem hp
  refine ⟨post.reverse ++ j :: p2.reverse, p1.reverse, ?_, by simp⟩
  rw [e, e2]; simp

/-- a full min sweep in reversed valid order makes every pair hold -/
theorem minProjection_feasible (cs : Pairs) (order : List Nat) (w : List Rat)
    (hv : ValidOrder cs order) (hin : ∀ a ∈ order, a < w.length) :
    Feasible cs (minProjection cs order 1 w) := by
  intro c hc
  obtain ⟨i, j⟩ := c
  -- in the reversed order the "predecessors" of `i` are its successors `j`
  have := sweep_rel (cs.map (fun c => (c.2, c.1))) (fun x y => y ≤ x) (minStep cs 1)
    (fun w a => length_minStep cs 1 w a)
    (fun w a k hk => minStep_other cs 1 w hk)
    (fun w a j hj ha => by
      have hj' : (a, j) ∈ cs := by
        obtain ⟨⟨x, y⟩, hm, e⟩ := List.mem_map.mp hj
        simp only [Prod.mk.injEq] at e; obtain ⟨rfl, rfl⟩ := e; exact hm
      show getV (minStep cs 1 w a) a ≤ getV w j
      rw [minStep_one_self cs w ha]; exact minAt_le_succ cs w hj')
    order.reverse [] w (by simpa using hv.1) (fun a ha => hin a (by simpa using ha)) (by simp)
    (fun j' i' hc' _ => by
      have hj' : (i', j') ∈ cs := by
        obtain ⟨⟨x, y⟩, hm, e⟩ := List.mem_map.mp hc'
        simp only [Prod.mk.injEq] at e; obtain ⟨rfl, rfl⟩ := e; exact hm
      exact Or.inr (validOrder_reverse_split hv hj'))
    j i (List.mem_map.mpr ⟨(i, j), hc, rfl⟩) (by simpa using hv.mem_left hc)
  exact this

/-! ### feasible vectors are fixed -/
theorem maxAt_eq_of_feasible {cs : Pairs} {w : List Rat} (h : Feasible cs w) (i : Nat) :
    maxAt cs w i = getV w i :=
  foldl_max_eq_init _ _ _ (fun j hj => h (j, i) (mem_greaterThan.mp hj))
theorem minAt_eq_of_feasible {cs : Pairs} {w : List Rat} (h : Feasible cs w) (i : Nat) :
    minAt cs w i = getV w i :=
  foldl_min_eq_init _ _ _ (fun j hj => h (i, j) (mem_lessThan.mp hj))
theorem maxStep_fix {cs : Pairs} {w : List Rat} (h : Feasible cs w) (s : Rat) (i : Nat) :
    maxStep cs s w i = w := by
  unfold maxStep; split
  · rfl
  · rw [maxAt_eq_of_feasible h]
    have : s * getV w i + (1 - s) * getV w i = getV w i := by ring
    rw [this, set_getV_self]
theorem minStep_fix {cs : Pairs} {w : List Rat} (h : Feasible cs w) (s : Rat) (i : Nat) :
    minStep cs s w i = w := by
  unfold minStep; split
  · rfl
  · rw [minAt_eq_of_feasible h]
    have : s * getV w i + (1 - s) * getV w i = getV w i := by ring
    rw [this, set_getV_self]
theorem maxProjection_fix {cs : Pairs} {w : List Rat} (h : Feasible cs w) (o : List Nat) (s : Rat) :
    maxProjection cs o s w = w := by
  unfold maxProjection
  induction o with
  | nil => rfl
  | cons a r ih => simp only [List.foldl_cons, maxStep_fix h]; exact ih
theorem minProjection_fix {cs : Pairs} {w : List Rat} (h : Feasible cs w) (o : List Nat) (s : Rat) :
    minProjection cs o s w = w := by
  unfold minProjection
  generalize o.reverse = r
  induction r with
  | nil => rfl
  | cons a r ih => simp only [List.foldl_cons, minStep_fix h]; exact ih

theorem avg2_self (w : List Rat) : avg2 w w = w := by
  unfold avg2
  induction w with
  | nil => rfl
  | cons x xs ih =>
    simp only [List.zipWith_cons_cons, ih]
    congr 1
    have : (x + x) / 2 = x := by ring
    exact this

theorem getV_avg2 (a b : List Rat) (h : a.length = b.length) (k : Nat) :
    getV (avg2 a b) k = (getV a k + getV b k) / 2 := by
  unfold avg2 getV
  induction a generalizing b k with
  | nil =>
    cases b with
    | nil => simp
    | cons y ys => simp at h
  | cons x xs ih =>
    cases b with
    | nil => simp at h
    | cons y ys =>
      cases k with
      | zero => simp
      | succ k =>
        simp only [List.zipWith_cons_cons, List.getD_cons_succ]
        exact ih ys (by simpa using h) k

end Tfl.Poset

namespace Tfl.Poset
theorem idxOf_cons (a : Nat) (l : List Nat) (x : Nat) :
    idxOf (a :: l) x = if a = x then 0 else idxOf l x + 1 := by
  simp [idxOf, List.findIdx_cons]

theorem idxOf_split {order : List Nat} {x : Nat} (h : x ∈ order) :
    order = order.take (idxOf order x) ++ x :: order.drop (idxOf order x + 1) := by
  induction order with
  | nil => cases h
  | cons a l ih =>
    rw [idxOf_cons]
    by_cases e : a = x
    · subst e; simp
    · simp only [e, if_false]
      have hx : x ∈ l := by
        rcases List.mem_cons.mp h with h | h
        · exact absurd h.symm e
        · exact h
      simp only [List.take_succ_cons, List.drop_succ_cons, List.cons_append]
      congr 1
      exact ih hx

theorem mem_take_of_idxOf_lt {order : List Nat} {i : Nat} {k : Nat} (hi : i ∈ order)
    (h : idxOf order i < k) : i ∈ order.take k := by
  induction order generalizing k with
  | nil => cases hi
  | cons a l ih =>
    rw [idxOf_cons] at h
    cases k with
    | zero => omega
    | succ k =>
      simp only [List.take_succ_cons, List.mem_cons]
      by_cases e : a = i
      · exact Or.inl e.symm
      · simp only [e, if_false] at h
        right
        have hx : i ∈ l := by
          rcases List.mem_cons.mp hi with h' | h'
          · exact absurd h'.symm e
          · exact h'
        exact ih hx (by omega)

/-- the decidable check evaluated by the driver implies the propositional validity -/
theorem validOrder_sound {cs : Pairs} {order : List Nat} (h : validOrder cs order = true) :
    ValidOrder cs order := by
  simp only [validOrder, Bool.and_eq_true, decide_eq_true_eq, List.all_eq_true,
    List.contains_iff_mem] at h
  refine ⟨h.1, fun i j hc => ?_⟩
  obtain ⟨⟨hi, hj⟩, hlt⟩ := h.2 (i, j) hc
  exact ⟨_, _, idxOf_split hj, mem_take_of_idxOf_lt hi hlt⟩
end Tfl.Poset

namespace Tfl.Poset
/-- `k` occurs in some pair -/
def IsNode (cs : Pairs) (k : Nat) : Prop := ∃ c ∈ cs, c.1 = k ∨ c.2 = k

/-- predicates on values preserved by everything the sweeps do -/
structure Closed (P : Rat → Prop) : Prop where
  max : ∀ x y, P x → P y → P (max x y)
  min : ∀ x y, P x → P y → P (min x y)
  conv : ∀ s x y, 0 ≤ s → s ≤ 1 → P x → P y → P (s * x + (1 - s) * y)

theorem closed_ge (lo : Rat) : Closed (fun x => lo ≤ x) where
  max := fun x y hx _ => le_trans hx (le_max_left _ _)
  min := fun x y hx hy => le_min hx hy
  conv := fun s x y h0 h1 hx hy => by
    have h2 : 0 ≤ 1 - s := by linarith
    nlinarith [mul_le_mul_of_nonneg_left hx h0, mul_le_mul_of_nonneg_left hy h2]
theorem closed_le (hi : Rat) : Closed (fun x => x ≤ hi) where
  max := fun x y hx hy => max_le hx hy
  min := fun x y hx _ => le_trans (min_le_left _ _) hx
  conv := fun s x y h0 h1 hx hy => by
    have h2 : 0 ≤ 1 - s := by linarith
    nlinarith [mul_le_mul_of_nonneg_left hx h0, mul_le_mul_of_nonneg_left hy h2]

/-- the invariant carried through every sweep: nodes satisfy `P`, non-nodes keep their value -/
def Inv (cs : Pairs) (P : Rat → Prop) (w0 w : List Rat) : Prop :=
  w.length = w0.length ∧ (∀ k, IsNode cs k → P (getV w k)) ∧ (∀ k, ¬ IsNode cs k → getV w k = getV w0 k)

theorem maxStep_inv {cs : Pairs} {P : Rat → Prop} (hP : Closed P) {w0 w : List Rat} {s : Rat}
    (h0 : 0 ≤ s) (h1 : s ≤ 1) (h : Inv cs P w0 w) (i : Nat) : Inv cs P w0 (maxStep cs s w i) := by
  refine ⟨by simpa using h.1, fun k hk => ?_, fun k hk => ?_⟩
  · by_cases e : k = i
    · subst e
      unfold maxStep; split
      · exact h.2.1 k hk
      · rw [getV_set]; split
        · apply hP.conv _ _ _ h0 h1 _ (h.2.1 k hk)
          exact foldl_max_closed P hP.max _ _ _ (h.2.1 k hk)
            (fun j hj => h.2.1 j ⟨(j, k), mem_greaterThan.mp hj, Or.inl rfl⟩)
        · exact h.2.1 k hk
    · rw [maxStep_other cs s w e]; exact h.2.1 k hk
  · by_cases e : k = i
    · subst e
      have : greaterThan cs k = [] := by
        rcases hg : greaterThan cs k with _ | ⟨j, t⟩
        · rfl
        · exact absurd ⟨(j, k), mem_greaterThan.mp (by rw [hg]; simp), Or.inr rfl⟩ hk
      simp only [maxStep, this, List.isEmpty_nil, if_true]; exact h.2.2 k hk
    · rw [maxStep_other cs s w e]; exact h.2.2 k hk

theorem minStep_inv {cs : Pairs} {P : Rat → Prop} (hP : Closed P) {w0 w : List Rat} {s : Rat}
    (h0 : 0 ≤ s) (h1 : s ≤ 1) (h : Inv cs P w0 w) (i : Nat) : Inv cs P w0 (minStep cs s w i) := by
  refine ⟨by simpa using h.1, fun k hk => ?_, fun k hk => ?_⟩
  · by_cases e : k = i
    · subst e
      unfold minStep; split
      · exact h.2.1 k hk
      · rw [getV_set]; split
        · apply hP.conv _ _ _ h0 h1 _ (h.2.1 k hk)
          exact foldl_min_closed P hP.min _ _ _ (h.2.1 k hk)
            (fun j hj => h.2.1 j ⟨(k, j), mem_lessThan.mp hj, Or.inr rfl⟩)
        · exact h.2.1 k hk
    · rw [minStep_other cs s w e]; exact h.2.1 k hk
  · by_cases e : k = i
    · subst e
      have : lessThan cs k = [] := by
        rcases hg : lessThan cs k with _ | ⟨j, t⟩
        · rfl
        · exact absurd ⟨(k, j), mem_lessThan.mp (by rw [hg]; simp), Or.inl rfl⟩ hk
      simp only [minStep, this, List.isEmpty_nil, if_true]; exact h.2.2 k hk
    · rw [minStep_other cs s w e]; exact h.2.2 k hk

theorem maxProjection_inv {cs : Pairs} {P : Rat → Prop} (hP : Closed P) {w0 : List Rat} {s : Rat}
    (h0 : 0 ≤ s) (h1 : s ≤ 1) (o : List Nat) {w : List Rat} (h : Inv cs P w0 w) :
    Inv cs P w0 (maxProjection cs o s w) := by
  unfold maxProjection
  induction o generalizing w with
  | nil => exact h
  | cons a r ih => exact ih (maxStep_inv hP h0 h1 h a)
theorem minProjection_inv {cs : Pairs} {P : Rat → Prop} (hP : Closed P) {w0 : List Rat} {s : Rat}
    (h0 : 0 ≤ s) (h1 : s ≤ 1) (o : List Nat) {w : List Rat} (h : Inv cs P w0 w) :
    Inv cs P w0 (minProjection cs o s w) := by
  unfold minProjection
  generalize o.reverse = r
  induction r generalizing w with
  | nil => exact h
  | cons a r ih => exact ih (minStep_inv hP h0 h1 h a)

@[simp] theorem length_approxProjectWith (cs : Pairs) (o : List Nat) (w : List Rat) :
    (approxProjectWith cs o w).length = w.length := by
  simp [approxProjectWith, avg2]

theorem approxProjectWith_inv {cs : Pairs} {P : Rat → Prop} (hP : Closed P) (o : List Nat)
    {w : List Rat} (h : ∀ k, IsNode cs k → P (getV w k)) : Inv cs P w (approxProjectWith cs o w) := by
  have hw : Inv cs P w w := ⟨rfl, h, fun _ _ => rfl⟩
  have half0 : (0 : Rat) ≤ 1 / 2 := by norm_num
  have half1 : (1 : Rat) / 2 ≤ 1 := by norm_num
  have ha := maxProjection_inv hP (by norm_num : (0 : Rat) ≤ 1) le_rfl o
    (minProjection_inv hP half0 half1 o hw)
  have hb := minProjection_inv hP (by norm_num : (0 : Rat) ≤ 1) le_rfl o
    (maxProjection_inv hP half0 half1 o hw)
  refine ⟨by simp, fun k hk => ?_, fun k hk => ?_⟩
  · simp only [approxProjectWith]
    rw [getV_avg2 _ _ (by rw [ha.1, hb.1])]
    have := hP.conv (1 / 2) _ _ half0 half1 (ha.2.1 k hk) (hb.2.1 k hk)
    have e : ∀ x y : Rat, (x + y) / 2 = 1 / 2 * x + (1 - 1 / 2) * y := by intro x y; ring
    rw [e]; exact this
  · simp only [approxProjectWith]
    rw [getV_avg2 _ _ (by rw [ha.1, hb.1]), ha.2.2 k hk, hb.2.2 k hk]; ring

/-- the averaged projection satisfies every pair (average of two feasible vectors) -/
theorem approxProjectWith_feasible (cs : Pairs) (order : List Nat) (w : List Rat)
    (hv : ValidOrder cs order) (hin : ∀ a ∈ order, a < w.length) :
    Feasible cs (approxProjectWith cs order w) := by
  intro c hc
  have ha := maxProjection_feasible cs order (minProjection cs order (1/2) w) hv (by simpa using hin) c hc
  have hb := minProjection_feasible cs order (maxProjection cs order (1/2) w) hv (by simpa using hin) c hc
  simp only [approxProjectWith]
  rw [getV_avg2 _ _ (by simp), getV_avg2 _ _ (by simp)]
  linarith

theorem approxProjectWith_fix {cs : Pairs} {w : List Rat} (h : Feasible cs w) (order : List Nat) :
    approxProjectWith cs order w = w := by
  simp only [approxProjectWith, minProjection_fix h, maxProjection_fix h, avg2_self]
end Tfl.Poset
