import TflModel.Model.PwlProj
import Mathlib.Tactic.Linarith
import Mathlib.Tactic.Ring
import Mathlib.Tactic.FieldSimp
import Mathlib.Algebra.Order.Field.Basic
/-!
# Lemmas for the PWLCalibration weight constraint (`Tfl.PwlProj`)

Key idea: every finalisation stage establishes its property from ANY input, and later stages
preserve what earlier ones established.
-/
namespace Tfl.PwlProj
open Tfl

/-! ### vocabulary of the property -/

/-- heights have the sign demanded by `monotonicity` (keypoint outputs are their running sums) -/
def MonoOk (mono : Int) (hs : List Rat) : Prop :=
  (mono = 1 → ∀ h ∈ hs, 0 ≤ h) ∧ (mono = -1 → ∀ h ∈ hs, h ≤ 0)

def InBounds (c : Cfg) (y : Rat) : Prop :=
  (c.minC ≠ .none → c.omin ≤ y) ∧ (c.maxC ≠ .none → y ≤ c.omax)

/-- every keypoint output lies within the configured bounds -/
def BoundsOk (c : Cfg) (b : Rat) (hs : List Rat) : Prop := ∀ y ∈ outputs b hs, InBounds c y

/-- consecutive slopes `height / length` are ordered by `le`, starting after `(hp, lp)` -/
def SlopesFrom (le : Rat → Rat → Prop) (hp lp : Rat) : List Rat → List Rat → Prop
  | h :: hs, l :: ls => le (hp / lp) (h / l) ∧ SlopesFrom le h l hs ls
  | _, _ => True

def Slopes (le : Rat → Rat → Prop) : List Rat → List Rat → Prop
  | h :: hs, l :: ls => SlopesFrom le h l hs ls
  | _, _ => True

/-- convex: slopes non-decreasing; concave: non-increasing -/
def ConvOk (conv : Int) (hs ls : List Rat) : Prop :=
  (conv = 1 → Slopes (fun a b => a ≤ b) hs ls) ∧ (conv = -1 → Slopes (fun a b => b ≤ a) hs ls)

def AllPos (ls : List Rat) : Prop := ∀ l ∈ ls, 0 < l

/-! ### running sums -/

theorem cumsumFrom_diffsFrom (s0 : Rat) (ss : List Rat) : cumsumFrom s0 (diffsFrom s0 ss) = ss := by
  induction ss generalizing s0 with
  | nil => rfl
  | cons s ss ih =>
    simp only [diffsFrom, cumsumFrom]
    have : s0 + (s - s0) = s := by ring
    rw [this, ih]

theorem diffsFrom_cumsumFrom (b : Rat) (hs : List Rat) : diffsFrom b (cumsumFrom b hs) = hs := by
  induction hs generalizing b with
  | nil => rfl
  | cons h hs ih =>
    simp only [cumsumFrom, diffsFrom, ih]
    have : b + h - b = h := by ring
    rw [this]

@[simp] theorem length_cumsumFrom (b : Rat) (hs : List Rat) : (cumsumFrom b hs).length = hs.length := by
  induction hs generalizing b with
  | nil => rfl
  | cons h hs ih => simp [cumsumFrom, ih]

@[simp] theorem length_diffsFrom (b : Rat) (ss : List Rat) : (diffsFrom b ss).length = ss.length := by
  induction ss generalizing b with
  | nil => rfl
  | cons h hs ih => simp [diffsFrom, ih]

theorem outputs_cons (b h : Rat) (hs : List Rat) : outputs b (h :: hs) = b :: outputs (b + h) hs := rfl
theorem outputs_nil (b : Rat) : outputs b [] = [b] := rfl

theorem rsum_nonneg (hs : List Rat) (h0 : ∀ h ∈ hs, 0 ≤ h) : 0 ≤ rsum hs := by
  induction hs with
  | nil => simp [rsum]
  | cons h hs ih =>
    simp only [rsum]
    have := h0 h (by simp)
    have := ih (fun x hx => h0 x (by simp [hx]))
    linarith

/-- with non-negative heights every output lies between the bias and bias + total -/
theorem outputs_between (b : Rat) (hs : List Rat) (h0 : ∀ h ∈ hs, 0 ≤ h) :
    ∀ y ∈ outputs b hs, b ≤ y ∧ y ≤ b + rsum hs := by
  induction hs generalizing b with
  | nil => intro y hy; simp [outputs_nil, rsum] at hy ⊢; subst hy; exact ⟨le_rfl, le_rfl⟩
  | cons h hs ih =>
    have hh : 0 ≤ h := h0 h (by simp)
    have h0' : ∀ x ∈ hs, 0 ≤ x := fun x hx => h0 x (by simp [hx])
    have hr := rsum_nonneg hs h0'
    intro y hy
    rw [outputs_cons] at hy
    simp only [rsum]
    rcases List.mem_cons.mp hy with e | hy
    · subst e; constructor <;> linarith
    · have := ih (b + h) h0' y hy
      constructor <;> linarith [this.1, this.2]

/-! ### `_approximately_project_bounds_only` -/

/-- the clip applied to every cumulative sum -/
def clipB (omin omax : Rat) (minC maxC : BCT) (x : Rat) : Rat :=
  let y := if minC = .bound then max x omin else x
  if maxC = .bound then min y omax else y

/-- fused form of `diffs ∘ map f ∘ cumsum` -/
def clipDiffs (f : Rat → Rat) (prev : Rat) : List Rat → List Rat
  | [] => []
  | h :: hs => (f (prev + h) - f prev) :: clipDiffs f (prev + h) hs

theorem diffs_map_cumsum (f : Rat → Rat) (b : Rat) (hs : List Rat) :
    diffsFrom (f b) ((cumsumFrom b hs).map f) = clipDiffs f b hs := by
  induction hs generalizing b with
  | nil => rfl
  | cons h hs ih => simp only [cumsumFrom, List.map_cons, diffsFrom, clipDiffs, ih]

theorem outputs_clipDiffs (f : Rat → Rat) (b : Rat) (hs : List Rat) :
    outputs (f b) (clipDiffs f b hs) = (outputs b hs).map f := by
  rw [← diffs_map_cumsum]
  simp only [outputs, List.map_cons, cumsumFrom_diffsFrom]

@[simp] theorem length_clipDiffs (f : Rat → Rat) (b : Rat) (hs : List Rat) :
    (clipDiffs f b hs).length = hs.length := by
  induction hs generalizing b with
  | nil => rfl
  | cons h hs ih => simp [clipDiffs, ih]

theorem clipDiffs_id (b : Rat) (hs : List Rat) : clipDiffs id b hs = hs := by
  induction hs generalizing b with
  | nil => rfl
  | cons h hs ih => simp only [clipDiffs, id, ih]; congr 1; ring

theorem approxProjectBoundsOnly_eq (b : Rat) (hs : List Rat) (omin omax : Rat) (minC maxC : BCT)
    (h1 : minC ≠ .clamped) (h2 : maxC ≠ .clamped) :
    approxProjectBoundsOnly b hs omin omax minC maxC =
      .ok (clipB omin omax minC maxC b, clipDiffs (clipB omin omax minC maxC) b hs) := by
  unfold approxProjectBoundsOnly
  have hc : ¬ (minC = .clamped ∨ maxC = .clamped) := by rintro (h | h) <;> contradiction
  rw [if_neg hc]
  have key : ∀ f : Rat → Rat, (List.map f (outputs b hs)).headD 0 = f b ∧
      (List.map f (outputs b hs)).tail = (cumsumFrom b hs).map f := by
    intro f; simp [outputs]
  cases minC <;> cases maxC <;> simp only [reduceCtorEq, and_self, and_true, true_and, if_true, if_false,
    ne_eq, not_true_eq_false, not_false_eq_true] at h1 h2 ⊢
  · -- none / none : identity
    have : clipB omin omax .none .none = id := by funext x; simp [clipB]
    rw [this, clipDiffs_id]; rfl
  · have hf : clipB omin omax .none .bound = fun s => min s omax := by funext x; simp [clipB]
    rw [hf, (key _).1, (key _).2, ← diffs_map_cumsum]
  · have hf : clipB omin omax .bound .none = fun s => max s omin := by funext x; simp [clipB]
    rw [hf, (key _).1, (key _).2, ← diffs_map_cumsum]
  · have hf : clipB omin omax .bound .bound = (fun s => min s omax) ∘ (fun s => max s omin) := by
      funext x; simp [clipB]
    rw [hf, List.map_map, (key _).1, (key _).2, ← diffs_map_cumsum]

theorem clipB_mono (omin omax : Rat) (minC maxC : BCT) {x y : Rat} (h : x ≤ y) :
    clipB omin omax minC maxC x ≤ clipB omin omax minC maxC y := by
  unfold clipB
  by_cases h1 : minC = .bound <;> by_cases h2 : maxC = .bound <;> simp only [h1, h2, if_true, if_false]
  · exact min_le_min (max_le_max h le_rfl) le_rfl
  · exact max_le_max h le_rfl
  · exact min_le_min h le_rfl
  · exact h

theorem clipDiffs_nonneg (f : Rat → Rat) (hf : ∀ x y, x ≤ y → f x ≤ f y) (b : Rat) (hs : List Rat)
    (h0 : ∀ h ∈ hs, 0 ≤ h) : ∀ x ∈ clipDiffs f b hs, 0 ≤ x := by
  induction hs generalizing b with
  | nil => intro x hx; simp [clipDiffs] at hx
  | cons h hs ih =>
    intro x hx
    simp only [clipDiffs, List.mem_cons] at hx
    rcases hx with e | hx
    · have := hf b (b + h) (by linarith [h0 h (by simp)]); rw [e]; linarith
    · exact ih (b + h) (fun y hy => h0 y (by simp [hy])) x hx

theorem clipDiffs_nonpos (f : Rat → Rat) (hf : ∀ x y, x ≤ y → f x ≤ f y) (b : Rat) (hs : List Rat)
    (h0 : ∀ h ∈ hs, h ≤ 0) : ∀ x ∈ clipDiffs f b hs, x ≤ 0 := by
  induction hs generalizing b with
  | nil => intro x hx; simp [clipDiffs] at hx
  | cons h hs ih =>
    intro x hx
    simp only [clipDiffs, List.mem_cons] at hx
    rcases hx with e | hx
    · have := hf (b + h) b (by linarith [h0 h (by simp)]); rw [e]; linarith
    · exact ih (b + h) (fun y hy => h0 y (by simp [hy])) x hx

theorem clipDiffs_fix (f : Rat → Rat) (b : Rat) (hs : List Rat)
    (hfix : ∀ y ∈ outputs b hs, f y = y) : clipDiffs f b hs = hs := by
  induction hs generalizing b with
  | nil => rfl
  | cons h hs ih =>
    rw [outputs_cons] at hfix
    have e1 : f b = b := hfix b (by simp)
    have e2 : f (b + h) = b + h := hfix (b + h) (by simp [outputs])
    simp only [clipDiffs, e1, e2]
    rw [ih (b + h) (fun y hy => hfix y (by simp [hy]))]
    congr 1; ring

theorem clipB_bounds (omin omax : Rat) (minC maxC : BCT)
    (hb : minC = .bound → maxC = .bound → omin ≤ omax) (x : Rat) :
    (minC = .bound → omin ≤ clipB omin omax minC maxC x) ∧
    (maxC = .bound → clipB omin omax minC maxC x ≤ omax) := by
  unfold clipB
  by_cases h1 : minC = .bound <;> by_cases h2 : maxC = .bound <;> simp only [h1, h2, if_true, if_false]
  · exact ⟨fun _ => le_min (le_max_right _ _) (hb h1 h2), fun _ => min_le_right _ _⟩
  · exact ⟨fun _ => le_max_right _ _, fun h => (by cases h)⟩
  · exact ⟨fun h => (by cases h), fun _ => min_le_right _ _⟩
  · exact ⟨fun h => (by cases h), fun h => (by cases h)⟩

theorem clipB_fix (omin omax : Rat) (minC maxC : BCT) (x : Rat)
    (h1 : minC = .bound → omin ≤ x) (h2 : maxC = .bound → x ≤ omax) :
    clipB omin omax minC maxC x = x := by
  unfold clipB
  by_cases e1 : minC = .bound <;> by_cases e2 : maxC = .bound <;> simp only [e1, e2, if_true, if_false]
  · rw [max_eq_left (h1 e1)]; exact min_eq_left (h2 e2)
  · exact max_eq_left (h1 e1)
  · exact min_eq_left (h2 e2)

/-! ### `_project_monotonicity` -/

@[simp] theorem length_projectMonotonicity (hs : List Rat) (m : Int) :
    (projectMonotonicity hs m).length = hs.length := by
  unfold projectMonotonicity; split_ifs <;> simp

theorem projectMonotonicity_ok (hs : List Rat) (m : Int) : MonoOk m (projectMonotonicity hs m) := by
  unfold projectMonotonicity MonoOk
  constructor
  · intro h1 x hx
    have h0 : m ≠ 0 := by omega
    simp only [if_neg h0, if_pos h1, List.mem_map] at hx
    obtain ⟨a, _, rfl⟩ := hx
    exact le_max_right _ _
  · intro h1 x hx
    have h0 : m ≠ 0 := by omega
    have h2 : m ≠ 1 := by omega
    simp only [if_neg h0, if_neg h2, List.mem_map] at hx
    obtain ⟨a, _, rfl⟩ := hx
    exact min_le_right _ _

theorem map_fix {α} (f : α → α) (l : List α) (h : ∀ x ∈ l, f x = x) : l.map f = l := by
  induction l with
  | nil => rfl
  | cons a l ih => simp [h a (by simp), ih (fun x hx => h x (by simp [hx]))]

theorem projectMonotonicity_fix (hs : List Rat) (m : Int) (hm : m = 0 ∨ m = 1 ∨ m = -1)
    (h : MonoOk m hs) : projectMonotonicity hs m = hs := by
  unfold projectMonotonicity
  rcases hm with rfl | rfl | rfl
  · simp
  · simp only [one_ne_zero, if_false, if_true]
    exact map_fix _ _ (fun x hx => max_eq_left (h.1 rfl x hx))
  · have : ¬ ((-1 : Int) = 0) := by omega
    have h2 : ¬ ((-1 : Int) = 1) := by omega
    simp only [this, h2, if_false]
    exact map_fix _ _ (fun x hx => min_eq_left (h.2 rfl x hx))

/-! ### `_approximately_project_convexity` -/

@[simp] theorem length_approxConvFrom (c : Int) (hp lp : Rat) (hs ls : List Rat) :
    (approxConvFrom c hp lp hs ls).length = hs.length := by
  induction hs generalizing hp lp ls with
  | nil => simp [approxConvFrom]
  | cons h hs ih => cases ls with
    | nil => simp [approxConvFrom]
    | cons l ls => simp [approxConvFrom, ih]

@[simp] theorem length_approxProjectConvexity (hs ls : List Rat) (c : Int) :
    (approxProjectConvexity hs ls c).length = hs.length := by
  unfold approxProjectConvexity
  split_ifs
  · rfl
  · cases hs with
    | nil => rfl
    | cons h hs => cases ls with
      | nil => rfl
      | cons l ls => simp

theorem approxConvFrom_convex (hp lp : Rat) (hlp : 0 < lp) (hs ls : List Rat) (hl : AllPos ls) :
    SlopesFrom (fun a b => a ≤ b) hp lp (approxConvFrom 1 hp lp hs ls) ls := by
  induction hs generalizing hp lp ls with
  | nil => simp [approxConvFrom, SlopesFrom]
  | cons h hs ih => cases ls with
    | nil => simp [approxConvFrom, SlopesFrom]
    | cons l ls =>
      have hlpos : 0 < l := hl l (by simp)
      simp only [approxConvFrom, if_true, SlopesFrom]
      refine ⟨?_, ih _ _ hlpos ls (fun x hx => hl x (by simp [hx]))⟩
      rw [div_le_div_iff₀ hlp hlpos]
      have : hp * (l / lp) * lp = hp * l := by field_simp
      have h2 := le_max_right h (hp * (l / lp))
      nlinarith

theorem approxConvFrom_concave (c : Int) (hc : c ≠ 1) (hp lp : Rat) (hlp : 0 < lp) (hs ls : List Rat)
    (hl : AllPos ls) :
    SlopesFrom (fun a b => b ≤ a) hp lp (approxConvFrom c hp lp hs ls) ls := by
  induction hs generalizing hp lp ls with
  | nil => simp [approxConvFrom, SlopesFrom]
  | cons h hs ih => cases ls with
    | nil => simp [approxConvFrom, SlopesFrom]
    | cons l ls =>
      have hlpos : 0 < l := hl l (by simp)
      simp only [approxConvFrom, if_neg hc, SlopesFrom]
      refine ⟨?_, ih _ _ hlpos ls (fun x hx => hl x (by simp [hx]))⟩
      rw [div_le_div_iff₀ hlpos hlp]
      have : hp * (l / lp) * lp = hp * l := by field_simp
      have h2 := min_le_right h (hp * (l / lp))
      nlinarith

theorem approxProjectConvexity_ok (hs ls : List Rat) (c : Int) (hl : AllPos ls) :
    ConvOk c (approxProjectConvexity hs ls c) ls := by
  unfold ConvOk approxProjectConvexity
  constructor
  · rintro rfl
    simp only [one_ne_zero, if_false]
    cases hs with
    | nil => simp [Slopes]
    | cons h hs => cases ls with
      | nil => simp [Slopes]
      | cons l ls =>
        exact approxConvFrom_convex h l (hl l (by simp)) hs ls (fun x hx => hl x (by simp [hx]))
  · rintro rfl
    have h0 : ¬ ((-1 : Int) = 0) := by omega
    simp only [h0, if_false]
    cases hs with
    | nil => simp [Slopes]
    | cons h hs => cases ls with
      | nil => simp [Slopes]
      | cons l ls =>
        exact approxConvFrom_concave (-1) (by omega) h l (hl l (by simp)) hs ls
          (fun x hx => hl x (by simp [hx]))

theorem approxConvFrom_nonneg (c : Int) (hp lp : Rat) (hlp : 0 < lp) (hp0 : 0 ≤ hp) (hs ls : List Rat)
    (hl : AllPos ls) (h0 : ∀ h ∈ hs, 0 ≤ h) : ∀ x ∈ approxConvFrom c hp lp hs ls, 0 ≤ x := by
  induction hs generalizing hp lp ls with
  | nil => intro x hx; simp [approxConvFrom] at hx
  | cons h hs ih => cases ls with
    | nil => simpa [approxConvFrom] using h0
    | cons l ls =>
      have hlpos : 0 < l := hl l (by simp)
      have hh : 0 ≤ h := h0 h (by simp)
      have ht : 0 ≤ hp * (l / lp) := mul_nonneg hp0 (div_pos hlpos hlp).le
      have hnew : 0 ≤ (if c = 1 then max h (hp * (l / lp)) else min h (hp * (l / lp))) := by
        split_ifs
        · exact le_trans hh (le_max_left _ _)
        · exact le_min hh ht
      intro x hx
      simp only [approxConvFrom, List.mem_cons] at hx
      rcases hx with e | hx
      · rw [e]; exact hnew
      · exact ih _ _ hlpos hnew ls (fun y hy => hl y (by simp [hy])) (fun y hy => h0 y (by simp [hy])) x hx

theorem approxConvFrom_nonpos (c : Int) (hp lp : Rat) (hlp : 0 < lp) (hp0 : hp ≤ 0) (hs ls : List Rat)
    (hl : AllPos ls) (h0 : ∀ h ∈ hs, h ≤ 0) : ∀ x ∈ approxConvFrom c hp lp hs ls, x ≤ 0 := by
  induction hs generalizing hp lp ls with
  | nil => intro x hx; simp [approxConvFrom] at hx
  | cons h hs ih => cases ls with
    | nil => simpa [approxConvFrom] using h0
    | cons l ls =>
      have hlpos : 0 < l := hl l (by simp)
      have hh : h ≤ 0 := h0 h (by simp)
      have ht : hp * (l / lp) ≤ 0 := mul_nonpos_of_nonpos_of_nonneg hp0 (div_pos hlpos hlp).le
      have hnew : (if c = 1 then max h (hp * (l / lp)) else min h (hp * (l / lp))) ≤ 0 := by
        split_ifs
        · exact max_le hh ht
        · exact le_trans (min_le_left _ _) hh
      intro x hx
      simp only [approxConvFrom, List.mem_cons] at hx
      rcases hx with e | hx
      · rw [e]; exact hnew
      · exact ih _ _ hlpos hnew ls (fun y hy => hl y (by simp [hy])) (fun y hy => h0 y (by simp [hy])) x hx

/-- the sequential convexity fix keeps the sign of the heights -/
theorem approxProjectConvexity_mono (hs ls : List Rat) (c m : Int) (hl : AllPos ls)
    (hm : MonoOk m hs) : MonoOk m (approxProjectConvexity hs ls c) := by
  unfold approxProjectConvexity
  split_ifs
  · exact hm
  · cases hs with
    | nil => exact hm
    | cons h hs => cases ls with
      | nil => exact hm
      | cons l ls =>
        have hlp : 0 < l := hl l (by simp)
        have hl' : AllPos ls := fun x hx => hl x (by simp [hx])
        refine ⟨fun e x hx => ?_, fun e x hx => ?_⟩
        · have h0 := hm.1 e
          rcases List.mem_cons.mp hx with e' | hx
          · rw [e']; exact h0 h (by simp)
          · exact approxConvFrom_nonneg c h l hlp (h0 h (by simp)) hs ls hl'
              (fun y hy => h0 y (by simp [hy])) x hx
        · have h0 := hm.2 e
          rcases List.mem_cons.mp hx with e' | hx
          · rw [e']; exact h0 h (by simp)
          · exact approxConvFrom_nonpos c h l hlp (h0 h (by simp)) hs ls hl'
              (fun y hy => h0 y (by simp [hy])) x hx

theorem approxConvFrom_fix_convex (hp lp : Rat) (hlp : 0 < lp) (hs ls : List Rat) (hl : AllPos ls)
    (h : SlopesFrom (fun a b => a ≤ b) hp lp hs ls) : approxConvFrom 1 hp lp hs ls = hs := by
  induction hs generalizing hp lp ls with
  | nil => simp [approxConvFrom]
  | cons x hs ih => cases ls with
    | nil => simp [approxConvFrom]
    | cons l ls =>
      have hlpos : 0 < l := hl l (by simp)
      simp only [SlopesFrom] at h
      have h1 := h.1
      rw [div_le_div_iff₀ hlp hlpos] at h1
      have e : hp * (l / lp) * lp = hp * l := by field_simp
      have : hp * (l / lp) ≤ x := by
        by_contra hc
        have hc := not_le.mp hc
        nlinarith
      simp only [approxConvFrom, if_true, max_eq_left this]
      rw [ih x l hlpos ls (fun y hy => hl y (by simp [hy])) h.2]

theorem approxConvFrom_fix_concave (c : Int) (hc : c ≠ 1) (hp lp : Rat) (hlp : 0 < lp) (hs ls : List Rat)
    (hl : AllPos ls) (h : SlopesFrom (fun a b => b ≤ a) hp lp hs ls) :
    approxConvFrom c hp lp hs ls = hs := by
  induction hs generalizing hp lp ls with
  | nil => simp [approxConvFrom]
  | cons x hs ih => cases ls with
    | nil => simp [approxConvFrom]
    | cons l ls =>
      have hlpos : 0 < l := hl l (by simp)
      simp only [SlopesFrom] at h
      have h1 := h.1
      rw [div_le_div_iff₀ hlpos hlp] at h1
      have e : hp * (l / lp) * lp = hp * l := by field_simp
      have : x ≤ hp * (l / lp) := by
        by_contra hc'
        have hc' := not_le.mp hc'
        nlinarith
      simp only [approxConvFrom, if_neg hc, min_eq_left this]
      rw [ih x l hlpos ls (fun y hy => hl y (by simp [hy])) h.2]

theorem approxProjectConvexity_fix (hs ls : List Rat) (c : Int) (hc : c = 0 ∨ c = 1 ∨ c = -1)
    (hl : AllPos ls) (h : ConvOk c hs ls) : approxProjectConvexity hs ls c = hs := by
  unfold approxProjectConvexity
  rcases hc with rfl | rfl | rfl
  · simp
  · simp only [one_ne_zero, if_false]
    cases hs with
    | nil => rfl
    | cons x hs => cases ls with
      | nil => rfl
      | cons l ls =>
        simp only
        rw [approxConvFrom_fix_convex x l (hl l (by simp)) hs ls (fun y hy => hl y (by simp [hy])) (h.1 rfl)]
  · have h0 : ¬ ((-1 : Int) = 0) := by omega
    simp only [h0, if_false]
    cases hs with
    | nil => rfl
    | cons x hs => cases ls with
      | nil => rfl
      | cons l ls =>
        simp only
        rw [approxConvFrom_fix_concave (-1) (by omega) x l (hl l (by simp)) hs ls
          (fun y hy => hl y (by simp [hy])) (h.2 rfl)]

/-! ### scaling heights by a non-negative factor -/

theorem scale_mono (hs : List Rat) (m : Int) (f : Rat) (hf : 0 ≤ f) (h : MonoOk m hs) :
    MonoOk m (hs.map (fun x => x * f)) := by
  refine ⟨fun e x hx => ?_, fun e x hx => ?_⟩
  · obtain ⟨a, ha, rfl⟩ := List.mem_map.mp hx
    exact mul_nonneg (h.1 e a ha) hf
  · obtain ⟨a, ha, rfl⟩ := List.mem_map.mp hx
    exact mul_nonpos_of_nonpos_of_nonneg (h.2 e a ha) hf

theorem scale_slopesFrom (le : Rat → Rat → Prop) (f : Rat)
    (hle : ∀ a b, le a b → le (a * f) (b * f)) (hp lp : Rat) (hs ls : List Rat)
    (h : SlopesFrom le hp lp hs ls) : SlopesFrom le (hp * f) lp (hs.map (fun x => x * f)) ls := by
  induction hs generalizing hp lp ls with
  | nil => simp [SlopesFrom]
  | cons x hs ih => cases ls with
    | nil => simp [SlopesFrom]
    | cons l ls =>
      simp only [List.map_cons, SlopesFrom] at h ⊢
      refine ⟨?_, ih x l ls h.2⟩
      have := hle _ _ h.1
      rwa [div_mul_eq_mul_div, div_mul_eq_mul_div] at this

theorem scale_conv (hs ls : List Rat) (c : Int) (f : Rat) (hf : 0 ≤ f) (h : ConvOk c hs ls) :
    ConvOk c (hs.map (fun x => x * f)) ls := by
  refine ⟨fun e => ?_, fun e => ?_⟩
  · have := h.1 e
    cases hs with
    | nil => simp [Slopes]
    | cons x hs => cases ls with
      | nil => simp [Slopes]
      | cons l ls =>
        exact scale_slopesFrom _ f (fun a b hab => mul_le_mul_of_nonneg_right hab hf) x l hs ls this
  · have := h.2 e
    cases hs with
    | nil => simp [Slopes]
    | cons x hs => cases ls with
      | nil => simp [Slopes]
      | cons l ls =>
        exact scale_slopesFrom (fun a b => b ≤ a) f (fun a b hab => mul_le_mul_of_nonneg_right hab hf) x l hs ls this

theorem rsum_map_mul (hs : List Rat) (f : Rat) : rsum (hs.map (fun x => x * f)) = rsum hs * f := by
  induction hs with
  | nil => simp [rsum]
  | cons x xs ih => simp only [List.map_cons, rsum, ih]; ring

/-! ### `_squeeze_by_scaling` -/

theorem cumsumFrom_vneg (b : Rat) (hs : List Rat) :
    cumsumFrom (-b) (vneg hs) = vneg (cumsumFrom b hs) := by
  induction hs generalizing b with
  | nil => rfl
  | cons h hs ih =>
    simp only [vneg, List.map_cons, cumsumFrom] at ih ⊢
    have : -b + -h = -(b + h) := by ring
    rw [this, ih]

theorem outputs_vneg (b : Rat) (hs : List Rat) : outputs (-b) (vneg hs) = vneg (outputs b hs) := by
  simp only [outputs, cumsumFrom_vneg]; rfl

theorem vneg_vneg (hs : List Rat) : vneg (vneg hs) = hs := by
  simp [vneg, List.map_map]

theorem mem_vneg {x : Rat} {hs : List Rat} : x ∈ vneg hs ↔ -x ∈ hs := by
  constructor
  · intro h
    obtain ⟨a, ha, rfl⟩ := List.mem_map.mp h
    simpa using ha
  · intro h
    exact List.mem_map.mpr ⟨-x, h, by simp⟩

theorem rsum_vneg (hs : List Rat) : rsum (vneg hs) = - rsum hs := by
  induction hs with
  | nil => simp [vneg, rsum]
  | cons x xs ih => simp only [vneg, List.map_cons, rsum] at ih ⊢; rw [ih]; ring

/-- the factor of the increasing squeeze -/
def squeezeFactor (bias : Rat) (heights : List Rat) (omin omax : Rat) (minC : BCT) : Rat :=
  let bias := min (if minC ≠ .none then max bias omin else bias) omax
  if omax - bias < rsum heights then (omax - bias) / rsum heights else 1

theorem squeezeFactor_range (b : Rat) (hs : List Rat) (omin omax : Rat) (minC : BCT) :
    0 ≤ squeezeFactor b hs omin omax minC ∧ squeezeFactor b hs omin omax minC ≤ 1 := by
  unfold squeezeFactor
  simp only
  set b' := min (if minC ≠ .none then max b omin else b) omax with hb'
  have hd : 0 ≤ omax - b' := by have := min_le_right (if minC ≠ .none then max b omin else b) omax; linarith
  split_ifs with h
  · have hpos : 0 < rsum hs := lt_of_le_of_lt hd h
    exact ⟨div_nonneg hd hpos.le, by rw [div_le_one hpos]; exact h.le⟩
  · exact ⟨by norm_num, le_rfl⟩

theorem squeezeInc_eq (b : Rat) (hs : List Rat) (omin omax : Rat) (minC maxC : BCT) (h : maxC ≠ .none) :
    squeezeInc b hs omin omax minC maxC =
      (min (if minC ≠ .none then max b omin else b) omax,
        hs.map (fun x => x * squeezeFactor b hs omin omax minC)) := by
  unfold squeezeInc squeezeFactor
  simp only [if_neg h]
  by_cases hd : omax - min (if minC ≠ .none then max b omin else b) omax < rsum hs
  · simp only [hd, decide_true, if_true]
  · simp only [hd, decide_false, Bool.false_eq_true, if_false]

theorem squeezeInc_none (b : Rat) (hs : List Rat) (omin omax : Rat) (minC : BCT) :
    squeezeInc b hs omin omax minC .none = (if minC ≠ .none then max b omin else b, hs) := by
  simp [squeezeInc]

/-- heights of the squeezed column are the old ones times one factor in `[0, 1]` -/
theorem squeezeInc_heights (b : Rat) (hs : List Rat) (omin omax : Rat) (minC maxC : BCT) :
    ∃ f : Rat, 0 ≤ f ∧ f ≤ 1 ∧ (squeezeInc b hs omin omax minC maxC).2 = hs.map (fun x => x * f) := by
  by_cases h : maxC = .none
  · subst h
    exact ⟨1, by norm_num, le_rfl, by rw [squeezeInc_none]; simp⟩
  · rw [squeezeInc_eq _ _ _ _ _ _ h]
    exact ⟨_, (squeezeFactor_range b hs omin omax minC).1, (squeezeFactor_range b hs omin omax minC).2, rfl⟩

theorem squeezeInc_bounds (b : Rat) (hs : List Rat) (omin omax : Rat) (minC maxC : BCT)
    (h0 : ∀ h ∈ hs, 0 ≤ h) (hb : minC ≠ .none → maxC ≠ .none → omin ≤ omax) :
    ∀ y ∈ outputs (squeezeInc b hs omin omax minC maxC).1 (squeezeInc b hs omin omax minC maxC).2,
      (minC ≠ .none → omin ≤ y) ∧ (maxC ≠ .none → y ≤ omax) := by
  by_cases h : maxC = .none
  · subst h
    rw [squeezeInc_none]
    intro y hy
    have := outputs_between _ hs h0 y hy
    refine ⟨fun hm => ?_, fun hx => absurd rfl hx⟩
    simp only [if_pos hm] at this
    exact le_trans (le_max_right _ _) this.1
  · rw [squeezeInc_eq _ _ _ _ _ _ h]
    intro y hy
    have hr := squeezeFactor_range b hs omin omax minC
    have h0' : ∀ x ∈ hs.map (fun x => x * squeezeFactor b hs omin omax minC), 0 ≤ x := by
      intro x hx
      obtain ⟨a, ha, rfl⟩ := List.mem_map.mp hx
      exact mul_nonneg (h0 a ha) hr.1
    have hbt := outputs_between _ _ h0' y hy
    rw [rsum_map_mul] at hbt
    refine ⟨fun hm => ?_, fun _ => ?_⟩
    · refine le_trans ?_ hbt.1
      simp only [if_pos hm]
      exact le_min (le_max_right _ _) (hb hm h)
    · refine le_trans hbt.2 ?_
      unfold squeezeFactor
      simp only
      set b' := min (if minC ≠ .none then max b omin else b) omax with hb'
      split_ifs with hd
      · have hd0 : 0 ≤ omax - b' := by
          have := min_le_right (if minC ≠ .none then max b omin else b) omax; linarith
        have hpos : 0 < rsum hs := lt_of_le_of_lt hd0 hd
        have : rsum hs * ((omax - b') / rsum hs) = omax - b' := by field_simp
        linarith
      · have := not_lt.mp hd; linarith

theorem squeezeInc_fix (b : Rat) (hs : List Rat) (omin omax : Rat) (minC maxC : BCT)
    (h0 : ∀ h ∈ hs, 0 ≤ h) (h1 : minC ≠ .none → omin ≤ b) (h2 : maxC ≠ .none → b + rsum hs ≤ omax) :
    squeezeInc b hs omin omax minC maxC = (b, hs) := by
  have e1 : (if minC ≠ .none then max b omin else b) = b := by
    split_ifs with hm
    · exact max_eq_left (h1 hm)
    · rfl
  by_cases h : maxC = .none
  · subst h; rw [squeezeInc_none, e1]
  · rw [squeezeInc_eq _ _ _ _ _ _ h]
    have hr := rsum_nonneg hs h0
    have hbo : b ≤ omax := by linarith [h2 h]
    have e2 : min b omax = b := min_eq_left hbo
    have hf : squeezeFactor b hs omin omax minC = 1 := by
      unfold squeezeFactor
      simp only [e1, e2]
      rw [if_neg]
      linarith [h2 h]
    rw [e1, e2, hf]
    simp

/-- `_squeeze_by_scaling` scales the heights by one factor in `[0,1]` (both directions) -/
theorem squeezeByScaling_heights (b : Rat) (hs : List Rat) (m : Int) (omin omax : Rat) (minC maxC : BCT) :
    ∃ f : Rat, 0 ≤ f ∧ f ≤ 1 ∧
      (squeezeByScaling b hs m omin omax minC maxC).2 = hs.map (fun x => x * f) := by
  unfold squeezeByScaling
  split_ifs with hm
  · obtain ⟨f, h0, h1, e⟩ := squeezeInc_heights (-b) (vneg hs) (-omax) (-omin) maxC minC
    refine ⟨f, h0, h1, ?_⟩
    show vneg (squeezeInc (-b) (vneg hs) (-omax) (-omin) maxC minC).2 = _
    rw [e]
    simp only [vneg, List.map_map]
    apply List.map_congr_left
    intro x _
    simp
  · exact squeezeInc_heights b hs omin omax minC maxC

/-- from monotone heights the squeeze puts every output into the bounds -/
theorem squeezeByScaling_bounds (b : Rat) (hs : List Rat) (m : Int) (hm1 : m = 1 ∨ m = -1)
    (omin omax : Rat) (minC maxC : BCT)
    (hmono : MonoOk m hs) (hb : minC ≠ .none → maxC ≠ .none → omin ≤ omax) :
    ∀ y ∈ outputs (squeezeByScaling b hs m omin omax minC maxC).1
        (squeezeByScaling b hs m omin omax minC maxC).2,
      (minC ≠ .none → omin ≤ y) ∧ (maxC ≠ .none → y ≤ omax) := by
  unfold squeezeByScaling
  rcases hm1 with rfl | rfl
  · have : ¬ ((1 : Int) = -1) := by omega
    simp only [this, if_false]
    exact squeezeInc_bounds b hs omin omax minC maxC (hmono.1 rfl) hb
  · simp only [if_true]
    intro y hy
    have hy' : -y ∈ outputs (squeezeInc (-b) (vneg hs) (-omax) (-omin) maxC minC).1
        (squeezeInc (-b) (vneg hs) (-omax) (-omin) maxC minC).2 := by
      rw [outputs_vneg] at hy
      exact mem_vneg.mp hy
    have h0 : ∀ h ∈ vneg hs, 0 ≤ h := by
      intro h hh
      have := hmono.2 rfl (-h) (mem_vneg.mp hh)
      linarith
    have := squeezeInc_bounds (-b) (vneg hs) (-omax) (-omin) maxC minC h0
      (fun h1 h2 => by have := hb h2 h1; linarith) (-y) hy'
    exact ⟨fun h => by have := this.2 h; linarith, fun h => by have := this.1 h; linarith⟩

/-! ### `_finalize_constraints`: from ANY input -/

/-- what `verify_hyperparameters` / `canonicalize_*` guarantee about a configuration -/
structure CfgOk (c : Cfg) : Prop where
  mono : c.mono = 0 ∨ c.mono = 1 ∨ c.mono = -1
  conv : c.conv = 0 ∨ c.conv = 1 ∨ c.conv = -1
  bnd : c.minC ≠ .none → c.maxC ≠ .none → c.omin ≤ c.omax

theorem monoOk_zero (hs : List Rat) : MonoOk 0 hs :=
  ⟨fun h => by omega, fun h => by omega⟩
theorem convOk_zero (hs ls : List Rat) : ConvOk 0 hs ls :=
  ⟨fun h => by omega, fun h => by omega⟩

/-- `CLAMPED` is treated as `BOUND` by the final clip -/
def unclamp (t : BCT) : BCT := if t = .clamped then .bound else t
theorem unclamp_bound (t : BCT) : unclamp t = .bound ↔ t ≠ .none := by cases t <;> simp [unclamp]
theorem unclamp_ne_clamped (t : BCT) : unclamp t ≠ .clamped := by cases t <;> simp [unclamp]

/-- heights after the first two finalisation stages -/
def finalHeights (c : Cfg) (lengths heights : List Rat) : List Rat :=
  let heights := if c.mono ≠ 0 then projectMonotonicity heights c.mono else heights
  if c.conv ≠ 0 then approxProjectConvexity heights lengths c.conv else heights

theorem finalHeights_spec (c : Cfg) (L hs : List Rat) (hl : AllPos L) :
    (finalHeights c L hs).length = hs.length ∧ MonoOk c.mono (finalHeights c L hs) ∧
      ConvOk c.conv (finalHeights c L hs) L := by
  unfold finalHeights
  simp only
  generalize hg : (if c.mono ≠ 0 then projectMonotonicity hs c.mono else hs) = g
  have h1 : MonoOk c.mono g := by
    rw [← hg]
    split_ifs with h
    · exact projectMonotonicity_ok hs c.mono
    · have : c.mono = 0 := by simpa using h
      rw [this]; exact monoOk_zero hs
  have l1 : g.length = hs.length := by
    rw [← hg]; split_ifs <;> simp
  by_cases hc : c.conv ≠ 0
  · rw [if_pos hc]
    exact ⟨by simp [l1], approxProjectConvexity_mono _ L c.conv c.mono hl h1,
      approxProjectConvexity_ok _ L c.conv hl⟩
  · rw [if_neg hc]
    have : c.conv = 0 := by simpa using hc
    exact ⟨l1, h1, by rw [this]; exact convOk_zero _ _⟩

theorem finalize_eq (c : Cfg) (L : List Rat) (b : Rat) (hs : List Rat) :
    finalize c L b hs =
      if c.minC ≠ .none ∨ c.maxC ≠ .none then
        if c.mono ≠ 0 ∧ c.conv ≠ 0 then
          .ok (squeezeByScaling b (finalHeights c L hs) c.mono c.omin c.omax c.minC c.maxC)
        else
          .ok (clipB c.omin c.omax (unclamp c.minC) (unclamp c.maxC) b,
            clipDiffs (clipB c.omin c.omax (unclamp c.minC) (unclamp c.maxC)) b (finalHeights c L hs))
      else .ok (b, finalHeights c L hs) := by
  unfold finalize
  show (if c.minC ≠ .none ∨ c.maxC ≠ .none then
        if c.mono ≠ 0 ∧ c.conv ≠ 0 then
          Except.ok (squeezeByScaling b (finalHeights c L hs) c.mono c.omin c.omax c.minC c.maxC)
        else approxProjectBoundsOnly b (finalHeights c L hs) c.omin c.omax (unclamp c.minC) (unclamp c.maxC)
      else Except.ok (b, finalHeights c L hs)) = _
  rw [approxProjectBoundsOnly_eq _ _ _ _ _ _ (unclamp_ne_clamped _) (unclamp_ne_clamped _)]

/-- **Finalisation from any input.** Whatever `(bias, heights)` the Dykstra loop hands over,
the result is monotone exactly, within the bounds, and (with monotonicity, or without bounds)
convex/concave exactly. -/
theorem finalize_spec (c : Cfg) (hc : CfgOk c) (L : List Rat) (hl : AllPos L) (b : Rat) (hs : List Rat)
    (r : Rat × List Rat) (h : finalize c L b hs = .ok r) :
    r.2.length = hs.length ∧ MonoOk c.mono r.2 ∧ BoundsOk c r.1 r.2 ∧
      ((c.mono ≠ 0 ∨ (c.minC = .none ∧ c.maxC = .none)) → ConvOk c.conv r.2 L) := by
  obtain ⟨hlen, hmono, hconv⟩ := finalHeights_spec c L hs hl
  rw [finalize_eq] at h
  split_ifs at h with h1 h2
  · -- squeeze
    simp only [Except.ok.injEq] at h
    subst h
    have hm1 : c.mono = 1 ∨ c.mono = -1 := by
      rcases hc.mono with e | e | e
      · exact absurd e h2.1
      · exact Or.inl e
      · exact Or.inr e
    obtain ⟨f, hf0, _, hf⟩ := squeezeByScaling_heights b (finalHeights c L hs) c.mono c.omin c.omax c.minC c.maxC
    refine ⟨by rw [hf]; simpa using hlen, by rw [hf]; exact scale_mono _ _ f hf0 hmono, ?_,
      fun _ => by rw [hf]; exact scale_conv _ _ _ f hf0 hconv⟩
    intro y hy
    exact squeezeByScaling_bounds b _ c.mono hm1 c.omin c.omax c.minC c.maxC hmono hc.bnd y hy
  · -- cumulative-sum clip
    simp only [Except.ok.injEq] at h
    subst h
    have hmon := fun x y (hxy : x ≤ y) => clipB_mono c.omin c.omax (unclamp c.minC) (unclamp c.maxC) hxy
    refine ⟨by simpa using hlen, ⟨fun e => clipDiffs_nonneg _ hmon b _ (hmono.1 e),
      fun e => clipDiffs_nonpos _ hmon b _ (hmono.2 e)⟩, ?_, ?_⟩
    · intro y hy
      simp only [outputs_clipDiffs] at hy
      obtain ⟨a, _, rfl⟩ := List.mem_map.mp hy
      have := clipB_bounds c.omin c.omax (unclamp c.minC) (unclamp c.maxC)
        (fun e1 e2 => hc.bnd ((unclamp_bound _).mp e1) ((unclamp_bound _).mp e2)) a
      exact ⟨fun e => this.1 ((unclamp_bound _).mpr e), fun e => this.2 ((unclamp_bound _).mpr e)⟩
    · rintro (hm | ⟨e1, e2⟩)
      · have : c.conv = 0 := by
          by_contra hne
          exact h2 ⟨hm, hne⟩
        rw [this]; exact convOk_zero _ _
      · rcases h1 with h1 | h1
        · exact absurd e1 h1
        · exact absurd e2 h1
  · simp only [Except.ok.injEq] at h
    subst h
    have hn : c.minC = .none ∧ c.maxC = .none := by
      constructor <;> by_contra hne
      · exact h1 (Or.inl hne)
      · exact h1 (Or.inr hne)
    refine ⟨hlen, hmono, ?_, fun _ => hconv⟩
    intro y _
    exact ⟨fun e => absurd hn.1 e, fun e => absurd hn.2 e⟩

/-! ### vectors, `_project_convexity`, `_project_bounds_considering_monotonicity`: lengths -/

theorem vsub_zeros (hs : List Rat) : vsub hs (zeros hs.length) = hs := by
  induction hs with
  | nil => rfl
  | cons h hs ih =>
    simp only [vsub, zeros, List.length_cons, List.replicate_succ, List.zipWith_cons_cons] at ih ⊢
    rw [ih]; simp

theorem vsub_self (hs : List Rat) : vsub hs hs = zeros hs.length := by
  induction hs with
  | nil => rfl
  | cons h hs ih =>
    simp only [vsub, zeros, List.length_cons, List.replicate_succ, List.zipWith_cons_cons] at ih ⊢
    rw [ih]; simp

theorem length_vsub (a b : List Rat) : (vsub a b).length = min a.length b.length := by
  simp [vsub]

@[simp] theorem length_zeros (n : Nat) : (zeros n).length = n := by simp [zeros]

theorem length_convPairs (c : Int) (hs ls : List Rat) : (convPairs c hs ls).length = hs.length := by
  fun_induction convPairs c hs ls with
  | case1 h0 h1 hs l0 l1 ls base p0 p1 ih => simp [ih]
  | case2 hs ls _ => rfl

theorem length_projectConvexity (hs ls : List Rat) (c : Int) (g : Nat) (r : List Rat)
    (h : projectConvexity hs ls c g = .ok r) : r.length = hs.length := by
  unfold projectConvexity at h
  split_ifs at h
  · cases h; rfl
  · cases h; exact length_convPairs _ _ _
  · cases hs with
    | nil => simp at h; cases h; rfl
    | cons x xs => cases ls with
      | nil => simp at h; cases h; rfl
      | cons l ls => simp at h; cases h; simp [length_convPairs]

theorem length_projectBoundsInc (b : Rat) (hs : List Rat) (omin omax : Rat) (minC maxC : BCT) :
    (projectBoundsInc b hs omin omax minC maxC).2.length = hs.length := by
  unfold projectBoundsInc
  by_cases h : maxC ≠ .none
  · rw [if_pos h]; simp
  · rw [if_neg h]; cases minC <;> rfl

theorem length_pbcm (b : Rat) (hs : List Rat) (m : Int) (omin omax : Rat) (minC maxC : BCT)
    (r : Rat × List Rat) (h : projectBoundsConsideringMonotonicity b hs m omin omax minC maxC = .ok r) :
    r.2.length = hs.length := by
  unfold projectBoundsConsideringMonotonicity at h
  split_ifs at h
  · cases h; simp [vneg, length_projectBoundsInc]
  · cases h; exact length_projectBoundsInc _ _ _ _ _ _

theorem length_approxProjectBoundsOnly (b : Rat) (hs : List Rat) (omin omax : Rat) (minC maxC : BCT)
    (r : Rat × List Rat) (h : approxProjectBoundsOnly b hs omin omax minC maxC = .ok r) :
    r.2.length = hs.length := by
  by_cases h1 : minC = .clamped
  · simp [approxProjectBoundsOnly, h1] at h
  by_cases h2 : maxC = .clamped
  · simp [approxProjectBoundsOnly, h2] at h
  rw [approxProjectBoundsOnly_eq _ _ _ _ _ _ h1 h2] at h
  cases h; simp

/-! ### the Dykstra body keeps the shapes and counts its projections -/

/-- all `last_change` entries have the shape of `heights` -/
def WF (n : Nat) (st : State) : Prop :=
  st.heights.length = n ∧ st.lc.hBounds.length = n ∧ st.lc.hMono.length = n ∧
    st.lc.hConv0.length = n ∧ st.lc.hConv1.length = n

def hasBounds (c : Cfg) : Prop := c.minC ≠ .none ∨ c.maxC ≠ .none
instance (c : Cfg) : Decidable (hasBounds c) := by unfold hasBounds; infer_instance

/-- `num_projections` as counted by the first run of the body -/
def numProjections (c : Cfg) (n : Nat) : Nat :=
  (if hasBounds c then 1 else 0) + (if c.mono ≠ 0 then 1 else 0) +
    (if c.conv ≠ 0 ∧ 2 ≤ n then 1 else 0) + (if c.conv ≠ 0 ∧ 3 ≤ n then 1 else 0)

theorem wf_init (b : Rat) (hs : List Rat) : WF hs.length (initState b hs) := by
  simp [WF, initState]

theorem stepBounds_spec (c : Cfg) (n : Nat) (st st' : State) (hw : WF n st)
    (h : stepBounds c st = .ok st') :
    WF n st' ∧ st'.counter = st.counter + (if hasBounds c then 1 else 0) := by
  unfold stepBounds at h
  obtain ⟨w1, w2, w3, w4, w5⟩ := hw
  have lrh : (vsub st.heights st.lc.hBounds).length = n := by rw [length_vsub, w1, w2]; simp
  by_cases hb : c.minC ≠ .none ∨ c.maxC ≠ .none
  · rw [if_pos hb] at h
    dsimp only at h
    have hb' : hasBounds c := hb
    rw [if_pos hb']
    by_cases hm : c.mono ≠ 0
    · rw [if_pos hm] at h
      cases hp : projectBoundsConsideringMonotonicity (st.bias - st.lc.biasBounds)
          (vsub st.heights st.lc.hBounds) c.mono c.omin c.omax c.minC c.maxC with
      | error e => rw [hp] at h; cases h
      | ok r =>
        rw [hp] at h
        simp only [Except.map, Except.ok.injEq] at h
        subst h
        have := length_pbcm _ _ _ _ _ _ _ _ hp
        refine ⟨⟨by simp [this, lrh], by simp [length_vsub, this, lrh], w3, w4, w5⟩, rfl⟩
    · rw [if_neg hm] at h
      cases hp : approxProjectBoundsOnly (st.bias - st.lc.biasBounds)
          (vsub st.heights st.lc.hBounds) c.omin c.omax c.minC c.maxC with
      | error e => rw [hp] at h; cases h
      | ok r =>
        rw [hp] at h
        simp only [Except.map, Except.ok.injEq] at h
        subst h
        have := length_approxProjectBoundsOnly _ _ _ _ _ _ _ hp
        refine ⟨⟨by simp [this, lrh], by simp [length_vsub, this, lrh], w3, w4, w5⟩, rfl⟩
  · rw [if_neg hb] at h
    have hb' : ¬ hasBounds c := hb
    rw [if_neg hb']
    cases h
    exact ⟨⟨w1, w2, w3, w4, w5⟩, rfl⟩

theorem stepMono_spec (c : Cfg) (n : Nat) (st : State) (hw : WF n st) :
    WF n (stepMono c st) ∧ (stepMono c st).counter = st.counter + (if c.mono ≠ 0 then 1 else 0) ∧
      (stepMono c st).bias = st.bias := by
  unfold stepMono
  obtain ⟨w1, w2, w3, w4, w5⟩ := hw
  by_cases hm : c.mono ≠ 0
  · simp only [if_pos hm]
    have lrh : (vsub st.heights st.lc.hMono).length = n := by rw [length_vsub, w1, w3]; simp
    exact ⟨⟨by simp [lrh], w2, by simp [length_vsub, lrh], w4, w5⟩, trivial, trivial⟩
  · simp only [if_neg hm]
    exact ⟨⟨w1, w2, w3, w4, w5⟩, rfl, trivial⟩

theorem stepConv0_spec (c : Cfg) (L : List Rat) (n : Nat) (st st' : State) (hw : WF n st)
    (h : stepConv0 c L st = .ok st') :
    WF n st' ∧ st'.counter = st.counter + (if c.conv ≠ 0 ∧ 2 ≤ n then 1 else 0) ∧ st'.bias = st.bias := by
  unfold stepConv0 at h
  obtain ⟨w1, w2, w3, w4, w5⟩ := hw
  rw [w1] at h
  by_cases hc : c.conv ≠ 0 ∧ 2 ≤ n
  · rw [if_pos hc] at h ⊢
    dsimp only at h
    have lrh : (vsub st.heights st.lc.hConv0).length = n := by rw [length_vsub, w1, w4]; simp
    cases hp : projectConvexity (vsub st.heights st.lc.hConv0) L c.conv 0 with
    | error e => rw [hp] at h; cases h
    | ok r =>
      rw [hp] at h
      simp only [Except.map, Except.ok.injEq] at h
      subst h
      have := length_projectConvexity _ _ _ _ _ hp
      exact ⟨⟨by simp [this, lrh], w2, w3, by simp [length_vsub, this, lrh], w5⟩, rfl, rfl⟩
  · rw [if_neg hc] at h ⊢
    cases h
    exact ⟨⟨w1, w2, w3, w4, w5⟩, rfl, rfl⟩

theorem stepConv1_spec (c : Cfg) (L : List Rat) (n : Nat) (st st' : State) (hw : WF n st)
    (h : stepConv1 c L st = .ok st') :
    WF n st' ∧ st'.counter = st.counter + (if c.conv ≠ 0 ∧ 3 ≤ n then 1 else 0) ∧ st'.bias = st.bias := by
  unfold stepConv1 at h
  obtain ⟨w1, w2, w3, w4, w5⟩ := hw
  rw [w1] at h
  by_cases hc : c.conv ≠ 0 ∧ 3 ≤ n
  · rw [if_pos hc] at h ⊢
    dsimp only at h
    have lrh : (vsub st.heights st.lc.hConv1).length = n := by rw [length_vsub, w1, w5]; simp
    cases hp : projectConvexity (vsub st.heights st.lc.hConv1) L c.conv 1 with
    | error e => rw [hp] at h; cases h
    | ok r =>
      rw [hp] at h
      simp only [Except.map, Except.ok.injEq] at h
      subst h
      have := length_projectConvexity _ _ _ _ _ hp
      exact ⟨⟨by simp [this, lrh], w2, w3, w4, by simp [length_vsub, this, lrh]⟩, rfl, rfl⟩
  · rw [if_neg hc] at h ⊢
    cases h
    exact ⟨⟨w1, w2, w3, w4, w5⟩, rfl, rfl⟩

/-- decomposition of one run of the body into its four steps -/
theorem body_steps (c : Cfg) (L : List Rat) (st st' : State) (h : body c L st = .ok st') :
    ∃ s1 s3, stepBounds c st = .ok s1 ∧ stepConv0 c L (stepMono c s1) = .ok s3 ∧
      stepConv1 c L s3 = .ok st' := by
  unfold body at h
  simp only [bind, Except.bind] at h
  cases h1 : stepBounds c st with
  | error e => rw [h1] at h; cases h
  | ok s1 =>
    rw [h1] at h
    simp only at h
    cases h3 : stepConv0 c L (stepMono c s1) with
    | error e => rw [h3] at h; cases h
    | ok s3 =>
      rw [h3] at h
      exact ⟨s1, s3, rfl, h3, h⟩

theorem body_spec (c : Cfg) (L : List Rat) (n : Nat) (st st' : State) (hw : WF n st)
    (h : body c L st = .ok st') :
    WF n st' ∧ st'.counter = st.counter + numProjections c n := by
  obtain ⟨s1, s3, h1, h3, h4⟩ := body_steps c L st st' h
  obtain ⟨w1, c1⟩ := stepBounds_spec c n st s1 hw h1
  obtain ⟨w2, c2, _⟩ := stepMono_spec c n s1 w1
  obtain ⟨w3, c3, _⟩ := stepConv0_spec c L n _ s3 w2 h3
  obtain ⟨w4, c4, _⟩ := stepConv1_spec c L n s3 st' w3 h4
  refine ⟨w4, ?_⟩
  unfold numProjections
  omega

theorem whileLoop_wf (c : Cfg) (L : List Rat) (lim n : Nat) (fuel : Nat) (st st' : State)
    (hw : WF n st) (h : whileLoop c L lim fuel st = .ok st') : WF n st' := by
  induction fuel generalizing st with
  | zero => simp only [whileLoop, Except.ok.injEq] at h; subst h; exact hw
  | succ k ih =>
    simp only [whileLoop] at h
    split_ifs at h
    · cases hb : body c L st with
      | error e => rw [hb] at h; cases h
      | ok s =>
        rw [hb] at h
        exact ih s (body_spec c L n st s hw hb).1 h
    · cases h; exact hw

/-- the two ways `project_all_constraints` produces its result -/
theorem projectAll_cases (c : Cfg) (L : List Rat) (it : Nat) (b : Rat) (hs : List Rat)
    (out : Rat × List Rat) (h : projectAll c L it b hs = .ok out) :
    (numProjections c hs.length ≤ 1 ∧ ∃ st1, body c L (initState b hs) = .ok st1 ∧
        out = (st1.bias, st1.heights)) ∨
    (2 ≤ numProjections c hs.length ∧ ∃ st, WF hs.length st ∧
        whileLoop c L (it * numProjections c hs.length) (it * numProjections c hs.length)
          (initState b hs) = .ok st ∧
        finalize c L st.bias st.heights = .ok out) := by
  unfold projectAll at h
  cases hb : body c L (initState b hs) with
  | error e => rw [hb] at h; cases h
  | ok st1 =>
    rw [hb] at h
    have hc := (body_spec c L hs.length _ st1 (wf_init b hs) hb).2
    have hc0 : st1.counter = numProjections c hs.length := by simpa [initState] using hc
    simp only [hc0] at h
    split_ifs at h with hle
    · left
      cases h
      exact ⟨hle, st1, rfl, rfl⟩
    · right
      cases hw : whileLoop c L (it * numProjections c hs.length) (it * numProjections c hs.length)
          (initState b hs) with
      | error e => rw [hw] at h; cases h
      | ok st =>
        rw [hw] at h
        exact ⟨by omega, st, whileLoop_wf c L _ _ _ _ st (wf_init b hs) hw, rfl, h⟩

/-! ### the `num_projections <= 1` shortcut -/

theorem stepBounds_off (c : Cfg) (st : State) (h : ¬ hasBounds c) : stepBounds c st = .ok st := by
  have h' : ¬ (c.minC ≠ .none ∨ c.maxC ≠ .none) := h
  unfold stepBounds; rw [if_neg h']
theorem stepMono_off (c : Cfg) (st : State) (h : c.mono = 0) : stepMono c st = st := by
  unfold stepMono; simp [h]
theorem stepConv0_off (c : Cfg) (L : List Rat) (st : State) (h : ¬ (c.conv ≠ 0 ∧ 2 ≤ st.heights.length)) :
    stepConv0 c L st = .ok st := by
  unfold stepConv0; rw [if_neg h]
theorem stepConv1_off (c : Cfg) (L : List Rat) (st : State) (h : ¬ (c.conv ≠ 0 ∧ 3 ≤ st.heights.length)) :
    stepConv1 c L st = .ok st := by
  unfold stepConv1; rw [if_neg h]

theorem convOk_short (c : Int) (hs ls : List Rat) (h : hs.length ≤ 1) : ConvOk c hs ls := by
  unfold ConvOk
  match hs, ls with
  | [], _ => simp [Slopes]
  | [x], [] => simp [Slopes]
  | [x], l :: ls => simp [Slopes, SlopesFrom]
  | _ :: _ :: _, _ => simp at h

/-- exact projection of one pair of adjacent heights is convex / concave -/
theorem convPair_ok (c : Int) (h0 h1 l0 l1 : Rat) (p0 : 0 < l0) (p1 : 0 < l1) :
    ConvOk c (convPairs c [h0, h1] [l0, l1]) [l0, l1] := by
  have hs : 0 < l0 + l1 := by linarith
  have e0 : l0 * ((h0 + h1) / (l0 + l1)) / l0 = (h0 + h1) / (l0 + l1) := by field_simp
  have e1 : l1 * ((h0 + h1) / (l0 + l1)) / l1 = (h0 + h1) / (l0 + l1) := by field_simp
  refine ⟨fun e => ?_, fun e => ?_⟩
  · subst e
    simp only [convPairs, if_true, Slopes, SlopesFrom, and_true]
    calc min h0 (l0 * ((h0 + h1) / (l0 + l1))) / l0
        ≤ l0 * ((h0 + h1) / (l0 + l1)) / l0 := div_le_div_of_nonneg_right (min_le_right _ _) p0.le
      _ = l1 * ((h0 + h1) / (l0 + l1)) / l1 := by rw [e0, e1]
      _ ≤ max h1 (l1 * ((h0 + h1) / (l0 + l1))) / l1 := div_le_div_of_nonneg_right (le_max_right _ _) p1.le
  · subst e
    have hne : ¬ ((-1 : Int) = 1) := by omega
    simp only [convPairs, if_neg hne, Slopes, SlopesFrom, and_true]
    calc min h1 (l1 * ((h0 + h1) / (l0 + l1))) / l1
        ≤ l1 * ((h0 + h1) / (l0 + l1)) / l1 := div_le_div_of_nonneg_right (min_le_right _ _) p1.le
      _ = l0 * ((h0 + h1) / (l0 + l1)) / l0 := by rw [e0, e1]
      _ ≤ max h0 (l0 * ((h0 + h1) / (l0 + l1))) / l0 := div_le_div_of_nonneg_right (le_max_right _ _) p0.le

theorem boundsOk_of_none (c : Cfg) (h : ¬ hasBounds c) (b : Rat) (hs : List Rat) : BoundsOk c b hs := by
  intro y _
  refine ⟨fun e => absurd (Or.inl e) h, fun e => absurd (Or.inr e) h⟩

theorem shortcut_spec (c : Cfg) (hc : CfgOk c) (L : List Rat) (hl : AllPos L) (b : Rat) (hs : List Rat)
    (st1 : State) (hn : numProjections c hs.length ≤ 1) (hb : body c L (initState b hs) = .ok st1) :
    st1.heights.length = hs.length ∧ MonoOk c.mono st1.heights ∧ BoundsOk c st1.bias st1.heights ∧
      ((c.mono ≠ 0 ∨ ¬ hasBounds c) → ConvOk c.conv st1.heights L) := by
  have hwf := (body_spec c L hs.length _ st1 (wf_init b hs) hb).1
  obtain ⟨s1, s3, h1, h3, h4⟩ := body_steps c L _ st1 hb
  refine ⟨hwf.1, ?_⟩
  by_cases hB : hasBounds c
  · -- only the bounds projection ran
    have hm : c.mono = 0 := by
      by_contra hne
      have : c.mono ≠ 0 := hne
      unfold numProjections at hn
      rw [if_pos hB, if_pos this] at hn
      split_ifs at hn <;> omega
    have hc0 : ¬ (c.conv ≠ 0 ∧ 2 ≤ hs.length) := by
      intro h
      unfold numProjections at hn
      rw [if_pos hB, if_pos h] at hn
      split_ifs at hn <;> omega
    have hc1 : ¬ (c.conv ≠ 0 ∧ 3 ≤ hs.length) := fun h => hc0 ⟨h.1, by omega⟩
    have l1 := (stepBounds_spec c hs.length _ s1 (wf_init b hs) h1).1.1
    rw [stepMono_off c s1 hm, stepConv0_off c L s1 (by rw [l1]; exact hc0)] at h3
    cases h3
    rw [stepConv1_off c L s1 (by rw [l1]; exact hc1)] at h4
    cases h4
    unfold stepBounds at h1
    have hB' : c.minC ≠ .none ∨ c.maxC ≠ .none := hB
    rw [if_pos hB'] at h1
    simp only [hm, ne_eq, not_true_eq_false, if_false, initState, sub_zero, vsub_zeros] at h1
    have n1 : c.minC ≠ .clamped := by
      intro e; simp [approxProjectBoundsOnly, e, Except.map] at h1
    have n2 : c.maxC ≠ .clamped := by
      intro e; simp [approxProjectBoundsOnly, e, Except.map] at h1
    rw [approxProjectBoundsOnly_eq _ _ _ _ _ _ n1 n2] at h1
    simp only [Except.map, Except.ok.injEq] at h1
    subst h1
    refine ⟨by rw [hm]; exact monoOk_zero _, ?_, fun h => ?_⟩
    · intro y hy
      simp only [outputs_clipDiffs] at hy
      obtain ⟨a, _, rfl⟩ := List.mem_map.mp hy
      have hbd1 : ∀ t : BCT, t ≠ .clamped → (t = .bound ↔ t ≠ .none) := by
        intro t; cases t <;> simp
      have := clipB_bounds c.omin c.omax c.minC c.maxC
        (fun e1 e2 => hc.bnd ((hbd1 _ n1).mp e1) ((hbd1 _ n2).mp e2)) a
      exact ⟨fun e => this.1 ((hbd1 _ n1).mpr e), fun e => this.2 ((hbd1 _ n2).mpr e)⟩
    · rcases h with h | h
      · exact absurd hm h
      · exact absurd hB h
  · rw [stepBounds_off c _ hB] at h1
    cases h1
    by_cases hm : c.mono = 0
    · rw [stepMono_off c _ hm] at h3
      by_cases hc0 : c.conv ≠ 0 ∧ 2 ≤ hs.length
      · -- only the group-0 convexity projection ran: exactly two heights
        have hc1 : ¬ (c.conv ≠ 0 ∧ 3 ≤ hs.length) := by
          intro h
          unfold numProjections at hn
          rw [if_pos hc0, if_pos h] at hn
          split_ifs at hn <;> omega
        have hlen2 : hs.length = 2 := by
          have := hc0.2
          have : ¬ 3 ≤ hs.length := fun h => hc1 ⟨hc0.1, h⟩
          omega
        have l3 := (stepConv0_spec c L hs.length _ s3 (wf_init b hs) h3).1.1
        rw [stepConv1_off c L s3 (by rw [l3]; exact hc1)] at h4
        cases h4
        unfold stepConv0 at h3
        have hc0' : c.conv ≠ 0 ∧ 2 ≤ (initState b hs).heights.length := hc0
        rw [if_pos hc0'] at h3
        simp only [initState, vsub_zeros] at h3
        refine ⟨by rw [hm]; exact monoOk_zero _, boundsOk_of_none c hB _ _, fun _ => ?_⟩
        match hs, hlen2 with
        | [h0, h1], _ =>
          unfold projectConvexity at h3
          have hcv : ¬ (c.conv ≠ 0 ∧ c.conv ≠ 1 ∧ c.conv ≠ -1) := by
            rcases hc.conv with e | e | e <;> simp [e]
          rw [if_neg hcv] at h3
          by_cases hL : L.length ≠ [h0, h1].length
          · rw [if_pos hL] at h3; simp [Except.map] at h3
          · rw [if_neg hL] at h3
            have hL2 : L.length = 2 := by simpa using hL
            match L, hL2 with
            | [l0, l1], _ =>
              have hg : ¬ ((0 : Nat) ≠ 0 ∧ (0 : Nat) ≠ 1) := by simp
              have hcz : ¬ (c.conv = 0 ∨ [h0, h1].length = 1) := by
                simp [hc0.1]
              rw [if_neg hg, if_neg hcz, if_pos rfl] at h3
              simp only [Except.map, Except.ok.injEq] at h3
              subst h3
              exact convPair_ok c.conv h0 h1 l0 l1 (hl l0 (by simp)) (hl l1 (by simp))
      · rw [stepConv0_off c L _ (by simpa [initState] using hc0)] at h3
        cases h3
        have hc1 : ¬ (c.conv ≠ 0 ∧ 3 ≤ hs.length) := fun h => hc0 ⟨h.1, by omega⟩
        rw [stepConv1_off c L _ (by simpa [initState] using hc1)] at h4
        cases h4
        refine ⟨by rw [hm]; exact monoOk_zero _, boundsOk_of_none c hB _ _, fun _ => ?_⟩
        simp only [initState]
        by_cases hcz : c.conv = 0
        · rw [hcz]; exact convOk_zero _ _
        · exact convOk_short _ _ _ (by
            have : ¬ 2 ≤ hs.length := fun h => hc0 ⟨hcz, h⟩
            omega)
    · -- only the monotonicity projection ran
      have hm' : c.mono ≠ 0 := hm
      have hc0 : ¬ (c.conv ≠ 0 ∧ 2 ≤ hs.length) := by
        intro h
        unfold numProjections at hn
        rw [if_pos hm', if_pos h] at hn
        split_ifs at hn <;> omega
      have hc1 : ¬ (c.conv ≠ 0 ∧ 3 ≤ hs.length) := fun h => hc0 ⟨h.1, by omega⟩
      have l2 := (stepMono_spec c hs.length _ (wf_init b hs)).1.1
      rw [stepConv0_off c L _ (by rw [l2]; exact hc0)] at h3
      cases h3
      rw [stepConv1_off c L _ (by rw [l2]; exact hc1)] at h4
      cases h4
      have e : (stepMono c (initState b hs)).heights = projectMonotonicity hs c.mono := by
        simp [stepMono, hm', initState, vsub_zeros]
      have eb : (stepMono c (initState b hs)).bias = b := by
        simp [stepMono, hm', initState]
      rw [e, eb]
      refine ⟨projectMonotonicity_ok _ _, boundsOk_of_none c hB _ _, fun _ => ?_⟩
      by_cases hcz : c.conv = 0
      · rw [hcz]; exact convOk_zero _ _
      · exact convOk_short _ _ _ (by
          have : ¬ 2 ≤ hs.length := fun h => hc0 ⟨hcz, h⟩
          simp; omega)

/-! ### the whole constraint -/

/-- everything `project_all_constraints` guarantees for ANY kernel, ANY iteration count -/
theorem projectAll_spec (c : Cfg) (hc : CfgOk c) (L : List Rat) (hl : AllPos L) (it : Nat) (b : Rat)
    (hs : List Rat) (out : Rat × List Rat) (h : projectAll c L it b hs = .ok out) :
    out.2.length = hs.length ∧ MonoOk c.mono out.2 ∧ BoundsOk c out.1 out.2 ∧
      ((c.mono ≠ 0 ∨ ¬ hasBounds c) → ConvOk c.conv out.2 L) := by
  rcases projectAll_cases c L it b hs out h with ⟨hn, st1, hb, rfl⟩ | ⟨_, st, hw, _, hf⟩
  · exact shortcut_spec c hc L hl b hs st1 hn hb
  · obtain ⟨h1, h2, h3, h4⟩ := finalize_spec c hc L hl st.bias st.heights out hf
    refine ⟨by rw [h1]; exact hw.1, h2, h3, fun h => h4 ?_⟩
    rcases h with h | h
    · exact Or.inl h
    · right
      constructor <;> by_contra hne
      · exact h (Or.inl hne)
      · exact h (Or.inr hne)

/-- non-negative heights: keypoint outputs are sorted -/
theorem outputs_pairwise (b : Rat) (hs : List Rat) (h0 : ∀ h ∈ hs, 0 ≤ h) :
    (outputs b hs).Pairwise (fun x y => x ≤ y) := by
  induction hs generalizing b with
  | nil => simp [outputs_nil]
  | cons h hs ih =>
    rw [outputs_cons]
    have h0' : ∀ x ∈ hs, 0 ≤ x := fun x hx => h0 x (by simp [hx])
    refine List.Pairwise.cons (fun y hy => ?_) (ih (b + h) h0')
    have := (outputs_between (b + h) hs h0' y hy).1
    linarith [h0 h (by simp)]

theorem outputs_pairwise_neg (b : Rat) (hs : List Rat) (h0 : ∀ h ∈ hs, h ≤ 0) :
    (outputs b hs).Pairwise (fun x y => y ≤ x) := by
  have h1 : ∀ h ∈ vneg hs, 0 ≤ h := by
    intro h hh
    have := h0 (-h) (mem_vneg.mp hh)
    linarith
  have := outputs_pairwise (-b) (vneg hs) h1
  rw [outputs_vneg, vneg, List.pairwise_map] at this
  exact this.imp (fun h => by linarith)

/-! ### clamps: the near end -/

theorem projectBoundsInc_bias_clamped (b : Rat) (hs : List Rat) (omin omax : Rat) (maxC : BCT) :
    (projectBoundsInc b hs omin omax .clamped maxC).1 = omin := by
  unfold projectBoundsInc
  by_cases h : maxC ≠ .none
  · rw [if_pos h]
  · rw [if_neg h]

theorem stepBounds_bias_near (c : Cfg) (st st' : State) (h : stepBounds c st = .ok st') :
    (c.mono = 1 → c.minC = .clamped → st'.bias = c.omin) ∧
    (c.mono = -1 → c.maxC = .clamped → st'.bias = c.omax) := by
  unfold stepBounds at h
  constructor
  · intro hm hcl
    have hb : c.minC ≠ .none ∨ c.maxC ≠ .none := Or.inl (by rw [hcl]; simp)
    have hm0 : c.mono ≠ 0 := by omega
    have hm1 : ¬ c.mono = -1 := by omega
    rw [if_pos hb] at h
    simp only [if_pos hm0, projectBoundsConsideringMonotonicity, if_neg hm1, if_pos hm, Except.map,
      Except.ok.injEq] at h
    subst h
    simp only [hcl]
    exact projectBoundsInc_bias_clamped _ _ _ _ _
  · intro hm hcl
    have hb : c.minC ≠ .none ∨ c.maxC ≠ .none := Or.inr (by rw [hcl]; simp)
    have hm0 : c.mono ≠ 0 := by omega
    rw [if_pos hb] at h
    simp only [if_pos hm0, projectBoundsConsideringMonotonicity, if_pos hm, Except.map,
      Except.ok.injEq] at h
    subst h
    simp only [hcl]
    rw [projectBoundsInc_bias_clamped]
    ring

theorem body_bias_near (c : Cfg) (L : List Rat) (n : Nat) (st st' : State) (hw : WF n st)
    (h : body c L st = .ok st') :
    (c.mono = 1 → c.minC = .clamped → st'.bias = c.omin) ∧
    (c.mono = -1 → c.maxC = .clamped → st'.bias = c.omax) := by
  obtain ⟨s1, s3, h1, h3, h4⟩ := body_steps c L st st' h
  obtain ⟨w1, _⟩ := stepBounds_spec c n st s1 hw h1
  obtain ⟨w2, _, b2⟩ := stepMono_spec c n s1 w1
  obtain ⟨w3, _, b3⟩ := stepConv0_spec c L n _ s3 w2 h3
  obtain ⟨_, _, b4⟩ := stepConv1_spec c L n s3 st' w3 h4
  have e : st'.bias = s1.bias := by rw [b4, b3, b2]
  rw [e]
  exact stepBounds_bias_near c st s1 h1

theorem whileLoop_inv (c : Cfg) (L : List Rat) (lim n : Nat) (P : State → Prop)
    (hP : ∀ s s', WF n s → body c L s = .ok s' → P s') (fuel : Nat) (st st' : State) (hw : WF n st)
    (h0 : P st) (h : whileLoop c L lim fuel st = .ok st') : P st' := by
  induction fuel generalizing st with
  | zero => simp only [whileLoop, Except.ok.injEq] at h; subst h; exact h0
  | succ k ih =>
    simp only [whileLoop] at h
    split_ifs at h
    · cases hb : body c L st with
      | error e => rw [hb] at h; cases h
      | ok s =>
        rw [hb] at h
        exact ih s (body_spec c L n st s hw hb).1 (hP st s hw hb) h
    · cases h; exact h0

/-- after at least one iteration every state of the loop satisfies what each body run establishes -/
theorem whileLoop_after_one (c : Cfg) (L : List Rat) (lim n : Nat) (P : State → Prop)
    (hP : ∀ s s', WF n s → body c L s = .ok s' → P s') (fuel : Nat) (st st' : State) (hw : WF n st)
    (hf : 0 < fuel) (hlim : st.counter < lim) (h : whileLoop c L lim fuel st = .ok st') : P st' := by
  cases fuel with
  | zero => omega
  | succ k =>
    simp only [whileLoop, if_pos hlim] at h
    cases hb : body c L st with
    | error e => rw [hb] at h; cases h
    | ok s =>
      rw [hb] at h
      exact whileLoop_inv c L lim n P hP k s st' (body_spec c L n st s hw hb).1 (hP st s hw hb) h

/-! ### feasible ⇒ unchanged -/

/-- the kernel already satisfies monotonicity, convexity and bounds -/
def Feasible (c : Cfg) (L : List Rat) (b : Rat) (hs : List Rat) : Prop :=
  MonoOk c.mono hs ∧ ConvOk c.conv hs L ∧ BoundsOk c b hs

theorem first_mem_outputs (b : Rat) (hs : List Rat) : b ∈ outputs b hs := by simp [outputs]

theorem last_mem_outputs (b : Rat) (hs : List Rat) : b + rsum hs ∈ outputs b hs := by
  induction hs generalizing b with
  | nil => simp [outputs_nil, rsum]
  | cons h hs ih =>
    rw [outputs_cons]
    have : b + rsum (h :: hs) = (b + h) + rsum hs := by simp only [rsum]; ring
    rw [this]
    exact List.mem_cons_of_mem _ (ih (b + h))

theorem finalHeights_fix (c : Cfg) (hc : CfgOk c) (L : List Rat) (hl : AllPos L) (hs : List Rat)
    (hm : MonoOk c.mono hs) (hcv : ConvOk c.conv hs L) : finalHeights c L hs = hs := by
  unfold finalHeights
  have e1 : (if c.mono ≠ 0 then projectMonotonicity hs c.mono else hs) = hs := by
    split_ifs
    · exact projectMonotonicity_fix hs c.mono hc.mono hm
    · rfl
  simp only [e1]
  split_ifs
  · exact approxProjectConvexity_fix hs L c.conv hc.conv hl hcv
  · rfl

theorem squeezeByScaling_fix (b : Rat) (hs : List Rat) (m : Int) (hm1 : m = 1 ∨ m = -1)
    (omin omax : Rat) (minC maxC : BCT) (hmono : MonoOk m hs)
    (h1 : minC ≠ .none → omin ≤ b ∧ omin ≤ b + rsum hs)
    (h2 : maxC ≠ .none → b ≤ omax ∧ b + rsum hs ≤ omax) :
    squeezeByScaling b hs m omin omax minC maxC = (b, hs) := by
  unfold squeezeByScaling
  rcases hm1 with rfl | rfl
  · have : ¬ ((1 : Int) = -1) := by omega
    rw [if_neg this]
    exact squeezeInc_fix b hs omin omax minC maxC (hmono.1 rfl) (fun h => (h1 h).1) (fun h => (h2 h).2)
  · rw [if_pos rfl]
    have h0 : ∀ h ∈ vneg hs, 0 ≤ h := by
      intro h hh
      have := hmono.2 rfl (-h) (mem_vneg.mp hh)
      linarith
    have := squeezeInc_fix (-b) (vneg hs) (-omax) (-omin) maxC minC h0
      (fun h => by have := (h2 h).1; linarith)
      (fun h => by rw [rsum_vneg]; have := (h1 h).2; linarith)
    rw [this]
    simp [vneg_vneg]

/-- **the finalisation is the identity on a feasible kernel** -/
theorem finalize_fix (c : Cfg) (hc : CfgOk c) (L : List Rat) (hl : AllPos L) (b : Rat) (hs : List Rat)
    (hf : Feasible c L b hs) : finalize c L b hs = .ok (b, hs) := by
  obtain ⟨hm, hcv, hb⟩ := hf
  rw [finalize_eq, finalHeights_fix c hc L hl hs hm hcv]
  split_ifs with h1 h2
  · have hm1 : c.mono = 1 ∨ c.mono = -1 := by
      rcases hc.mono with e | e | e
      · exact absurd e h2.1
      · exact Or.inl e
      · exact Or.inr e
    rw [squeezeByScaling_fix b hs c.mono hm1 c.omin c.omax c.minC c.maxC hm
      (fun h => ⟨(hb b (first_mem_outputs b hs)).1 h, (hb _ (last_mem_outputs b hs)).1 h⟩)
      (fun h => ⟨(hb b (first_mem_outputs b hs)).2 h, (hb _ (last_mem_outputs b hs)).2 h⟩)]
  · have hfix : ∀ y ∈ outputs b hs, clipB c.omin c.omax (unclamp c.minC) (unclamp c.maxC) y = y := by
      intro y hy
      exact clipB_fix _ _ _ _ _ (fun e => (hb y hy).1 ((unclamp_bound _).mp e))
        (fun e => (hb y hy).2 ((unclamp_bound _).mp e))
    rw [hfix b (first_mem_outputs b hs), clipDiffs_fix _ b hs hfix]
  · rfl

/-! ### the Dykstra steps are the identity on a feasible kernel (zero `last_change`) -/

theorem map_add_zero (hs : List Rat) : hs.map (fun h => h + 0) = hs := by
  induction hs with
  | nil => rfl
  | cons h hs ih => simp

/-- clamps are met: the end point demanded by the direction sits on the clamped bound -/
def ClampInc (b : Rat) (hs : List Rat) (omin omax : Rat) (minC maxC : BCT) : Prop :=
  (minC = .clamped → b = omin) ∧ (maxC = .clamped → b + rsum hs = omax)

theorem projectBoundsInc_fix (b : Rat) (hs : List Rat) (omin omax : Rat) (minC maxC : BCT)
    (h1 : minC ≠ .none → omin ≤ b) (h2 : maxC ≠ .none → b + rsum hs ≤ omax)
    (hcl : ClampInc b hs omin omax minC maxC) :
    projectBoundsInc b hs omin omax minC maxC = (b, hs) := by
  unfold projectBoundsInc
  have hn : (0 : Rat) ≤ (hs.length : Rat) := by positivity
  have hn1 : (0 : Rat) < (hs.length : Rat) + 1 := by positivity
  by_cases hx : maxC ≠ .none
  · rw [if_pos hx]
    have hgap : 0 ≤ omax - (b + rsum hs) := by linarith [h2 hx]
    have hd : (if maxC ≠ .clamped then min ((omax - (b + rsum hs)) / (hs.length : Rat)) 0
        else (omax - (b + rsum hs)) / (hs.length : Rat)) = 0 := by
      split_ifs with hc
      · exact min_eq_right (div_nonneg hgap hn)
      · have : maxC = .clamped := by simpa using hc
        rw [show omax - (b + rsum hs) = 0 by linarith [hcl.2 this]]; simp
    have hbd : (if maxC ≠ .clamped then min ((omax - (b + rsum hs)) / ((hs.length : Rat) + 1)) 0
        else (omax - (b + rsum hs)) / ((hs.length : Rat) + 1)) = 0 := by
      split_ifs with hc
      · exact min_eq_right (div_nonneg hgap hn1.le)
      · have : maxC = .clamped := by simpa using hc
        rw [show omax - (b + rsum hs) = 0 by linarith [hcl.2 this]]; simp
    cases minC with
    | clamped =>
      have e : omin = b := (hcl.1 rfl).symm
      simp only [e]
      rw [hd, map_add_zero]
    | bound =>
      simp only
      rw [hbd, add_zero, max_eq_left (h1 (by simp)), hd, map_add_zero]
    | none =>
      simp only
      rw [hbd, add_zero, map_add_zero]
  · rw [if_neg hx]
    cases minC with
    | clamped => simp only [(hcl.1 rfl).symm]
    | bound => simp only [max_eq_left (h1 (by simp))]
    | none => rfl

/-- clamps requested by the configuration are met (and not requested without monotonicity,
which the code rejects) -/
def ClampOk (c : Cfg) (b : Rat) (hs : List Rat) : Prop :=
  (c.mono = 1 → ClampInc b hs c.omin c.omax c.minC c.maxC) ∧
  (c.mono = -1 → (c.maxC = .clamped → b = c.omax) ∧ (c.minC = .clamped → b + rsum hs = c.omin)) ∧
  (c.mono = 0 → c.minC ≠ .clamped ∧ c.maxC ≠ .clamped)

/-- loop state with all `last_change` entries zero -/
def zst (k : Nat) (b : Rat) (hs : List Rat) : State :=
  ⟨k, b, hs, ⟨0, zeros hs.length, zeros hs.length, zeros hs.length, zeros hs.length⟩⟩

theorem initState_eq (b : Rat) (hs : List Rat) : initState b hs = zst 0 b hs := rfl

theorem pbcm_fix (c : Cfg) (hc : CfgOk c) (hm : c.mono ≠ 0) (b : Rat) (hs : List Rat)
    (hb : BoundsOk c b hs) (hcl : ClampOk c b hs) :
    projectBoundsConsideringMonotonicity b hs c.mono c.omin c.omax c.minC c.maxC = .ok (b, hs) := by
  have hf := hb b (first_mem_outputs b hs)
  have hl := hb _ (last_mem_outputs b hs)
  unfold projectBoundsConsideringMonotonicity
  rcases hc.mono with e | e | e
  · exact absurd e hm
  · have hne : ¬ c.mono = -1 := by omega
    rw [if_neg hne, if_pos e, projectBoundsInc_fix b hs c.omin c.omax c.minC c.maxC hf.1 hl.2 (hcl.1 e)]
  · rw [if_pos e]
    have := projectBoundsInc_fix (-b) (vneg hs) (-c.omax) (-c.omin) c.maxC c.minC
      (fun h => by have := hf.2 h; linarith)
      (fun h => by rw [rsum_vneg]; have := hl.1 h; linarith)
      ⟨fun h => by rw [(hcl.2.1 e).1 h], fun h => by rw [rsum_vneg]; have := (hcl.2.1 e).2 h; linarith⟩
    rw [this]
    simp [vneg_vneg]

theorem stepBounds_fix (c : Cfg) (hc : CfgOk c) (k : Nat) (b : Rat) (hs : List Rat)
    (hb : BoundsOk c b hs) (hcl : ClampOk c b hs) :
    stepBounds c (zst k b hs) = .ok (zst (k + (if hasBounds c then 1 else 0)) b hs) := by
  unfold stepBounds
  by_cases hB : c.minC ≠ .none ∨ c.maxC ≠ .none
  · have hB' : hasBounds c := hB
    rw [if_pos hB, if_pos hB']
    simp only [zst, sub_zero, vsub_zeros]
    have hr : (if c.mono ≠ 0 then projectBoundsConsideringMonotonicity b hs c.mono c.omin c.omax c.minC c.maxC
        else approxProjectBoundsOnly b hs c.omin c.omax c.minC c.maxC) = .ok (b, hs) := by
      split_ifs with hm
      · exact pbcm_fix c hc hm b hs hb hcl
      · have hm0 : c.mono = 0 := by simpa using hm
        obtain ⟨n1, n2⟩ := hcl.2.2 hm0
        rw [approxProjectBoundsOnly_eq _ _ _ _ _ _ n1 n2]
        have hbd : ∀ t : BCT, t ≠ .clamped → (t = .bound → t ≠ .none) := by
          intro t _ e; rw [e]; simp
        have hfix : ∀ y ∈ outputs b hs, clipB c.omin c.omax c.minC c.maxC y = y := fun y hy =>
          clipB_fix _ _ _ _ _ (fun e => (hb y hy).1 (hbd _ n1 e)) (fun e => (hb y hy).2 (hbd _ n2 e))
        rw [hfix b (first_mem_outputs b hs), clipDiffs_fix _ b hs hfix]
    rw [hr]
    simp only [Except.map, sub_self, vsub_self]
  · have hB' : ¬ hasBounds c := hB
    rw [if_neg hB, if_neg hB']
    rfl

theorem stepMono_fix (c : Cfg) (hc : CfgOk c) (k : Nat) (b : Rat) (hs : List Rat)
    (hm : MonoOk c.mono hs) :
    stepMono c (zst k b hs) = zst (k + (if c.mono ≠ 0 then 1 else 0)) b hs := by
  unfold stepMono
  by_cases h : c.mono ≠ 0
  · rw [if_pos h, if_pos h]
    simp only [zst, vsub_zeros, projectMonotonicity_fix hs c.mono hc.mono hm, vsub_self]
  · rw [if_neg h, if_neg h]; rfl

theorem slopes_of_from (le : Rat → Rat → Prop) (hp lp : Rat) (hs ls : List Rat)
    (h : SlopesFrom le hp lp hs ls) : Slopes le hs ls := by
  cases hs with
  | nil => simp [Slopes]
  | cons x xs => cases ls with
    | nil => simp [Slopes]
    | cons l ls => exact h.2

theorem convPairs_fix (c : Int) (hc : c = 1 ∨ c = -1) (hs ls : List Rat) (hl : AllPos ls)
    (h : ConvOk c hs ls) : convPairs c hs ls = hs := by
  fun_induction convPairs c hs ls with
  | case1 h0 h1 hs l0 l1 ls base p0 p1 ih =>
    have q0 : 0 < l0 := hl l0 (by simp)
    have q1 : 0 < l1 := hl l1 (by simp)
    have hl' : AllPos ls := fun x hx => hl x (by simp [hx])
    have hsum : 0 < l0 + l1 := by linarith
    have e0 : p0 * (l0 + l1) = l0 * (h0 + h1) := by simp only [p0, base]; field_simp
    have e1 : p1 * (l0 + l1) = l1 * (h0 + h1) := by simp only [p1, base]; field_simp
    rcases hc with rfl | rfl
    · have hh := h.1 rfl
      simp only [Slopes, SlopesFrom] at hh
      have h01 := hh.1
      rw [div_le_div_iff₀ q0 q1] at h01
      have a0 : h0 ≤ p0 := by
        by_contra hcn; have := not_le.mp hcn; nlinarith
      have a1 : p1 ≤ h1 := by
        by_contra hcn; have := not_le.mp hcn; nlinarith
      simp only [if_true, min_eq_left a0, max_eq_left a1]
      rw [ih hl' ⟨fun _ => slopes_of_from _ _ _ _ _ hh.2, fun e => by omega⟩]
    · have hh := h.2 rfl
      simp only [Slopes, SlopesFrom] at hh
      have h01 := hh.1
      rw [div_le_div_iff₀ q1 q0] at h01
      have hne : ¬ ((-1 : Int) = 1) := by omega
      have a0 : p0 ≤ h0 := by
        by_contra hcn; have := not_le.mp hcn; nlinarith
      have a1 : h1 ≤ p1 := by
        by_contra hcn; have := not_le.mp hcn; nlinarith
      simp only [if_neg hne, max_eq_left a0, min_eq_left a1]
      rw [ih hl' ⟨fun e => by omega, fun _ => slopes_of_from _ _ _ _ _ hh.2⟩]
  | case2 hs ls _ => rfl

theorem projectConvexity_fix (hs ls : List Rat) (c : Int) (hc : c = 0 ∨ c = 1 ∨ c = -1) (g : Nat)
    (hg : g = 0 ∨ g = 1) (hlen : ls.length = hs.length) (hl : AllPos ls) (h : ConvOk c hs ls) :
    projectConvexity hs ls c g = .ok hs := by
  unfold projectConvexity
  have h1 : ¬ (c ≠ 0 ∧ c ≠ 1 ∧ c ≠ -1) := by omega
  have h2 : ¬ (ls.length ≠ hs.length) := by simpa using hlen
  have h3 : ¬ (g ≠ 0 ∧ g ≠ 1) := by omega
  rw [if_neg h1, if_neg h2, if_neg h3]
  split_ifs with h4 h5
  · rfl
  · have hc1 : c = 1 ∨ c = -1 := by omega
    rw [convPairs_fix c hc1 hs ls hl h]
  · have hc1 : c = 1 ∨ c = -1 := by omega
    cases hs with
    | nil => rfl
    | cons x xs => cases ls with
      | nil => rfl
      | cons l ls =>
        simp only
        have : ConvOk c xs ls :=
          ⟨fun e => slopes_of_from _ _ _ _ _ (h.1 e), fun e => slopes_of_from _ _ _ _ _ (h.2 e)⟩
        rw [convPairs_fix c hc1 xs ls (fun y hy => hl y (by simp [hy])) this]

theorem stepConv0_fix (c : Cfg) (hc : CfgOk c) (L : List Rat) (hl : AllPos L) (k : Nat) (b : Rat)
    (hs : List Rat) (hlen : L.length = hs.length) (h : ConvOk c.conv hs L) :
    stepConv0 c L (zst k b hs) = .ok (zst (k + (if c.conv ≠ 0 ∧ 2 ≤ hs.length then 1 else 0)) b hs) := by
  unfold stepConv0
  by_cases hcv : c.conv ≠ 0 ∧ 2 ≤ hs.length
  · have hcv' : c.conv ≠ 0 ∧ 2 ≤ (zst k b hs).heights.length := hcv
    rw [if_pos hcv', if_pos hcv]
    simp only [zst, vsub_zeros, projectConvexity_fix hs L c.conv hc.conv 0 (Or.inl rfl) hlen hl h,
      Except.map, vsub_self]
  · have hcv' : ¬ (c.conv ≠ 0 ∧ 2 ≤ (zst k b hs).heights.length) := hcv
    rw [if_neg hcv', if_neg hcv]; rfl

theorem stepConv1_fix (c : Cfg) (hc : CfgOk c) (L : List Rat) (hl : AllPos L) (k : Nat) (b : Rat)
    (hs : List Rat) (hlen : L.length = hs.length) (h : ConvOk c.conv hs L) :
    stepConv1 c L (zst k b hs) = .ok (zst (k + (if c.conv ≠ 0 ∧ 3 ≤ hs.length then 1 else 0)) b hs) := by
  unfold stepConv1
  by_cases hcv : c.conv ≠ 0 ∧ 3 ≤ hs.length
  · have hcv' : c.conv ≠ 0 ∧ 3 ≤ (zst k b hs).heights.length := hcv
    rw [if_pos hcv', if_pos hcv]
    simp only [zst, vsub_zeros, projectConvexity_fix hs L c.conv hc.conv 1 (Or.inr rfl) hlen hl h,
      Except.map, vsub_self]
  · have hcv' : ¬ (c.conv ≠ 0 ∧ 3 ≤ (zst k b hs).heights.length) := hcv
    rw [if_neg hcv', if_neg hcv]; rfl

/-- one run of the body on a feasible kernel with zero `last_change`: nothing moves, every
`last_change` stays zero, the counter advances -/
theorem body_fix (c : Cfg) (hc : CfgOk c) (L : List Rat) (hl : AllPos L) (k : Nat) (b : Rat)
    (hs : List Rat) (hlen : c.conv ≠ 0 → L.length = hs.length) (hf : Feasible c L b hs)
    (hcl : ClampOk c b hs) :
    body c L (zst k b hs) = .ok (zst (k + numProjections c hs.length) b hs) := by
  obtain ⟨hm, hcv, hb⟩ := hf
  unfold body
  simp only [bind, Except.bind]
  rw [stepBounds_fix c hc k b hs hb hcl]
  simp only
  rw [stepMono_fix c hc _ b hs hm]
  by_cases h0 : c.conv = 0
  · have n0 : ¬ (c.conv ≠ 0 ∧ 2 ≤ (zst (k + (if hasBounds c then 1 else 0) + if c.mono ≠ 0 then 1 else 0) b hs).heights.length) :=
      fun h => h.1 h0
    rw [stepConv0_off c L _ n0]
    simp only
    have n1 : ¬ (c.conv ≠ 0 ∧ 3 ≤ (zst (k + (if hasBounds c then 1 else 0) + if c.mono ≠ 0 then 1 else 0) b hs).heights.length) :=
      fun h => h.1 h0
    rw [stepConv1_off c L _ n1]
    unfold numProjections
    have e1 : ¬ (c.conv ≠ 0 ∧ 2 ≤ hs.length) := fun h => h.1 h0
    have e2 : ¬ (c.conv ≠ 0 ∧ 3 ≤ hs.length) := fun h => h.1 h0
    rw [if_neg e1, if_neg e2]
    congr 2
    omega
  · rw [stepConv0_fix c hc L hl _ b hs (hlen h0) hcv]
    simp only
    rw [stepConv1_fix c hc L hl _ b hs (hlen h0) hcv]
    unfold numProjections
    congr 2
    omega

theorem whileLoop_fix (c : Cfg) (hc : CfgOk c) (L : List Rat) (hl : AllPos L) (lim : Nat) (b : Rat)
    (hs : List Rat) (hlen : c.conv ≠ 0 → L.length = hs.length) (hf : Feasible c L b hs)
    (hcl : ClampOk c b hs) (fuel k : Nat) :
    ∃ k', whileLoop c L lim fuel (zst k b hs) = .ok (zst k' b hs) := by
  induction fuel generalizing k with
  | zero => exact ⟨k, rfl⟩
  | succ f ih =>
    simp only [whileLoop]
    split_ifs
    · rw [body_fix c hc L hl k b hs hlen hf hcl]
      exact ih _
    · exact ⟨k, rfl⟩

/-- **feasible ⇒ unchanged**, for the whole `project_all_constraints` -/
theorem projectAll_fix (c : Cfg) (hc : CfgOk c) (L : List Rat) (hl : AllPos L) (it : Nat) (b : Rat)
    (hs : List Rat) (hlen : c.conv ≠ 0 → L.length = hs.length) (hf : Feasible c L b hs)
    (hcl : ClampOk c b hs) : projectAll c L it b hs = .ok (b, hs) := by
  unfold projectAll
  rw [initState_eq, body_fix c hc L hl 0 b hs hlen hf hcl]
  simp only
  split_ifs
  · rfl
  · obtain ⟨k', hk⟩ := whileLoop_fix c hc L hl (it * (zst (0 + numProjections c hs.length) b hs).counter) b hs hlen hf hcl
      (it * (zst (0 + numProjections c hs.length) b hs).counter) 0
    rw [hk]
    exact finalize_fix c hc L hl b hs hf

/-! ### far-end clamp: list arithmetic -/

theorem vsub_replicate (z : List Rat) (d : Rat) :
    vsub z (List.replicate z.length d) = z.map (fun x => x - d) := by
  induction z with
  | nil => rfl
  | cons x xs ih =>
    simp only [vsub, List.length_cons, List.replicate_succ, List.zipWith_cons_cons, List.map_cons] at ih ⊢
    rw [ih]

theorem vsub_map_add_self (r : List Rat) (d : Rat) :
    vsub (r.map (fun x => x + d)) r = List.replicate r.length d := by
  induction r with
  | nil => rfl
  | cons x xs ih =>
    simp only [vsub, List.map_cons, List.zipWith_cons_cons, List.length_cons, List.replicate_succ] at ih ⊢
    rw [ih]
    congr 1
    ring

theorem rsum_map_add (r : List Rat) (d : Rat) :
    rsum (r.map (fun x => x + d)) = rsum r + (r.length : Rat) * d := by
  induction r with
  | nil => simp [rsum]
  | cons x xs ih =>
    simp only [List.map_cons, rsum, ih, List.length_cons]
    push_cast
    ring

theorem rsum_map_sub (r : List Rat) (d : Rat) :
    rsum (r.map (fun x => x - d)) = rsum r - (r.length : Rat) * d := by
  induction r with
  | nil => simp [rsum]
  | cons x xs ih =>
    simp only [List.map_cons, rsum, ih, List.length_cons]
    push_cast
    ring

theorem rsum_map_max_ge (y : List Rat) : rsum y ≤ rsum (y.map (fun h => max h 0)) := by
  induction y with
  | nil => simp [rsum]
  | cons x xs ih =>
    simp only [List.map_cons, rsum]
    have := le_max_left x 0
    linarith

theorem rsum_map_min_le (y : List Rat) : rsum (y.map (fun h => min h 0)) ≤ rsum y := by
  induction y with
  | nil => simp [rsum]
  | cons x xs ih =>
    simp only [List.map_cons, rsum]
    have := min_le_left x 0
    linarith

/-- telescoping: the last clipped output -/
theorem clipDiffs_last (f : Rat → Rat) (b : Rat) (hs : List Rat) :
    f b + rsum (clipDiffs f b hs) = f (b + rsum hs) := by
  induction hs generalizing b with
  | nil => simp [clipDiffs, rsum]
  | cons h hs ih =>
    simp only [clipDiffs, rsum]
    have := ih (b + h)
    have e : b + (h + rsum hs) = b + h + rsum hs := by ring
    rw [e, ← this]
    ring

/-- relation between the last MONOTONICITY change and the heights after it (increasing case):
the change is non-negative and where it is positive the height is zero -/
def RelM (m z : Rat) : Prop := 0 ≤ m ∧ (0 < m → z = 0)

theorem relM_after_mono (y : List Rat) :
    List.Forall₂ RelM (vsub (y.map (fun h => max h 0)) y) (y.map (fun h => max h 0)) := by
  induction y with
  | nil => exact List.Forall₂.nil
  | cons x xs ih =>
    simp only [vsub, List.map_cons, List.zipWith_cons_cons] at ih ⊢
    refine List.Forall₂.cons ⟨?_, fun hpos => ?_⟩ ih
    · have := le_max_left x 0; linarith
    · have hx : x < 0 := by
        by_contra hc
        have := max_eq_left (not_lt.mp hc)
        rw [this] at hpos
        linarith
      exact max_eq_right hx.le

theorem relM_zeros (z : List Rat) : List.Forall₂ RelM (zeros z.length) z := by
  induction z with
  | nil => exact List.Forall₂.nil
  | cons x xs ih =>
    simp only [zeros, List.length_cons, List.replicate_succ] at ih ⊢
    exact List.Forall₂.cons ⟨le_rfl, fun h => absurd h (lt_irrefl 0)⟩ ih

/-- the MONOTONICITY step after a uniform shift `z ↦ z - δ + hd` with `hd ≤ δ` does not lower
the sum of heights -/
theorem rsum_after_mono_ge (lcM z : List Rat) (δ hd : Rat) (hrel : List.Forall₂ RelM lcM z)
    (hd_le : hd ≤ δ) :
    rsum (z.map (fun x => x - δ + hd)) ≤
      rsum ((vsub (z.map (fun x => x - δ + hd)) lcM).map (fun h => max h 0)) := by
  induction hrel with
  | nil => simp [vsub, rsum]
  | @cons m x ms xs hmx _ ih =>
    simp only [vsub, List.map_cons, List.zipWith_cons_cons, rsum] at ih ⊢
    have hel : x - δ + hd ≤ max (x - δ + hd - m) 0 := by
      rcases lt_or_eq_of_le hmx.1 with hpos | h0
      · have := hmx.2 hpos
        rw [this]
        have : (0 : Rat) - δ + hd ≤ 0 := by linarith
        exact le_trans this (le_max_right _ _)
      · rw [← h0, sub_zero]; exact le_max_left _ _
    linarith

/-! ### far-end clamp: the BOUNDS projection with `output_max` clamped (increasing form) -/

/-- with the upper bound clamped the BOUNDS projection shifts every height by one amount `hd`
and puts the far end exactly on `output_max` -/
theorem projectBoundsInc_clamped_max (rb : Rat) (r : List Rat) (hr : r ≠ []) (omin omax : Rat)
    (minC : BCT) :
    ∃ hd : Rat,
      (projectBoundsInc rb r omin omax minC .clamped).2 = r.map (fun x => x + hd) ∧
      (projectBoundsInc rb r omin omax minC .clamped).1 +
        rsum (projectBoundsInc rb r omin omax minC .clamped).2 = omax ∧
      (minC = .clamped → (projectBoundsInc rb r omin omax minC .clamped).1 = omin ∧
        hd = (omax - (omin + rsum r)) / (r.length : Rat)) ∧
      (minC = .none → (projectBoundsInc rb r omin omax minC .clamped).1 = rb + hd ∧
        hd = (omax - (rb + rsum r)) / ((r.length : Rat) + 1)) ∧
      (minC = .bound →
        (projectBoundsInc rb r omin omax minC .clamped).1 =
          max (rb + (omax - (rb + rsum r)) / ((r.length : Rat) + 1)) omin ∧
        hd = (omax - ((projectBoundsInc rb r omin omax minC .clamped).1 + rsum r)) / (r.length : Rat)) := by
  have hlen : 0 < r.length := List.length_pos_of_ne_nil hr
  have hN : (0 : Rat) < (r.length : Rat) := by exact_mod_cast hlen
  have hN1 : (0 : Rat) < (r.length : Rat) + 1 := by linarith
  have hx : (BCT.clamped) ≠ BCT.none := by simp
  have hcc : ¬ (BCT.clamped ≠ BCT.clamped) := by simp
  unfold projectBoundsInc
  rw [if_pos hx]
  simp only [if_neg hcc]
  cases minC with
  | clamped =>
    refine ⟨(omax - (omin + rsum r)) / (r.length : Rat), rfl, ?_, fun _ => ⟨rfl, rfl⟩,
      fun h => (by cases h), fun h => (by cases h)⟩
    simp only [rsum_map_add]
    field_simp
    ring
  | bound =>
    refine ⟨(omax - (max (rb + (omax - (rb + rsum r)) / ((r.length : Rat) + 1)) omin + rsum r)) /
      (r.length : Rat), rfl, ?_, fun h => (by cases h), fun h => (by cases h), fun _ => ⟨rfl, rfl⟩⟩
    simp only [rsum_map_add]
    field_simp
    ring
  | none =>
    refine ⟨(omax - (rb + rsum r)) / ((r.length : Rat) + 1), rfl, ?_, fun h => (by cases h),
      fun _ => ⟨rfl, rfl⟩, fun h => (by cases h)⟩
    simp only [rsum_map_add]
    field_simp
    ring

/-- without convexity the body is the BOUNDS step followed by the MONOTONICITY step -/
theorem body_conv0 (c : Cfg) (L : List Rat) (st : State) (hcv : c.conv = 0) :
    body c L st = (stepBounds c st).map (stepMono c) := by
  unfold body
  simp only [bind, Except.bind]
  cases h1 : stepBounds c st with
  | error e => rfl
  | ok s1 =>
    simp only [Except.map]
    rw [stepConv0_off c L _ (fun h => h.1 hcv)]
    simp only
    rw [stepConv1_off c L _ (fun h => h.1 hcv)]

/-- explicit result of one body run for an increasing calibrator with bounds, no convexity -/
theorem body_inc_fields (c : Cfg) (L : List Rat) (st st' : State) (hm : c.mono = 1) (hcv : c.conv = 0)
    (hB : hasBounds c) (h : body c L st = .ok st') :
    st'.bias = (projectBoundsInc (st.bias - st.lc.biasBounds) (vsub st.heights st.lc.hBounds)
        c.omin c.omax c.minC c.maxC).1 ∧
    st'.heights = (vsub (projectBoundsInc (st.bias - st.lc.biasBounds) (vsub st.heights st.lc.hBounds)
        c.omin c.omax c.minC c.maxC).2 st.lc.hMono).map (fun h => max h 0) ∧
    st'.lc.biasBounds = (projectBoundsInc (st.bias - st.lc.biasBounds) (vsub st.heights st.lc.hBounds)
        c.omin c.omax c.minC c.maxC).1 - (st.bias - st.lc.biasBounds) ∧
    st'.lc.hBounds = vsub (projectBoundsInc (st.bias - st.lc.biasBounds) (vsub st.heights st.lc.hBounds)
        c.omin c.omax c.minC c.maxC).2 (vsub st.heights st.lc.hBounds) ∧
    st'.lc.hMono = vsub ((vsub (projectBoundsInc (st.bias - st.lc.biasBounds)
        (vsub st.heights st.lc.hBounds) c.omin c.omax c.minC c.maxC).2 st.lc.hMono).map (fun h => max h 0))
        (vsub (projectBoundsInc (st.bias - st.lc.biasBounds) (vsub st.heights st.lc.hBounds)
        c.omin c.omax c.minC c.maxC).2 st.lc.hMono) := by
  rw [body_conv0 c L st hcv] at h
  have hB' : c.minC ≠ .none ∨ c.maxC ≠ .none := hB
  have hm0 : c.mono ≠ 0 := by omega
  have hm1 : ¬ c.mono = -1 := by omega
  unfold stepBounds at h
  rw [if_pos hB'] at h
  simp only [if_pos hm0, projectBoundsConsideringMonotonicity, if_neg hm1, if_pos hm, Except.map,
    Except.ok.injEq] at h
  subst h
  refine ⟨?_, ?_, ?_, ?_, ?_⟩ <;> simp [stepMono, projectMonotonicity, hm]

/-! ### far-end clamp: the Dykstra invariant (increasing calibrator, `output_max` clamped) -/

/-- shape facts every iteration re-establishes: complementarity of the last MONOTONICITY change,
the rolled-back bias is always the original bias `rb0`, the last BOUNDS change of the heights is
one uniform shift `δ` -/
def FarCore (rb0 : Rat) (st : State) (δ : Rat) : Prop :=
  List.Forall₂ RelM st.lc.hMono st.heights ∧ st.bias - st.lc.biasBounds = rb0 ∧
    st.lc.hBounds = List.replicate st.heights.length δ

/-- the far end is at or above `output_max`, and the bias has the form the BOUNDS step gives it -/
def FarBias (c : Cfg) (rb0 : Rat) (st : State) (δ : Rat) : Prop :=
  c.omax ≤ st.bias + rsum st.heights ∧
    (c.minC = .clamped → st.bias = c.omin) ∧
    (c.minC = .none → st.bias = rb0 + δ) ∧
    (c.minC = .bound → st.bias = c.omin ∨ st.bias = rb0 + δ)

/-- invariant after at least one iteration -/
def FarInv (c : Cfg) (rb0 : Rat) (st : State) : Prop := ∃ δ, FarCore rb0 st δ ∧ FarBias c rb0 st δ

/-- what holds before an iteration: the invariant, or the initial state (no MONOTONICITY change yet) -/
def FarPre (c : Cfg) (rb0 : Rat) (st : State) : Prop :=
  ∃ δ, FarCore rb0 st δ ∧ (FarBias c rb0 st δ ∨ st.lc.hMono = zeros st.heights.length)

theorem farInv_pre {c : Cfg} {rb0 : Rat} {st : State} (h : FarInv c rb0 st) : FarPre c rb0 st := by
  obtain ⟨δ, h1, h2⟩ := h
  exact ⟨δ, h1, Or.inl h2⟩

theorem farPre_init (c : Cfg) (b : Rat) (hs : List Rat) : FarPre c b (initState b hs) :=
  ⟨0, ⟨relM_zeros hs, by simp [initState], rfl⟩, Or.inr rfl⟩

/-- **one Dykstra iteration establishes / preserves the far-end invariant** -/
theorem far_step (c : Cfg) (L : List Rat) (rb0 : Rat) (n : Nat) (hn : 0 < n) (st st' : State)
    (hm : c.mono = 1) (hcv : c.conv = 0) (hmax : c.maxC = .clamped) (hw : WF n st)
    (hpre : FarPre c rb0 st) (h : body c L st = .ok st') : FarInv c rb0 st' := by
  have hB : hasBounds c := Or.inr (by rw [hmax]; simp)
  obtain ⟨e_bias, e_heights, e_lcb, e_lch, e_lcm⟩ := body_inc_fields c L st st' hm hcv hB h
  obtain ⟨δ, ⟨hrel, hrb, hlcB⟩, hdisj⟩ := hpre
  obtain ⟨w1, w2, w3, _, _⟩ := hw
  -- the rolled-back point
  rw [hrb] at e_bias e_heights e_lcb e_lch e_lcm
  have hrh : vsub st.heights st.lc.hBounds = st.heights.map (fun x => x - δ) := by
    rw [hlcB, vsub_replicate]
  rw [hrh, hmax] at e_bias e_heights e_lcb e_lch e_lcm
  set r := st.heights.map (fun x => x - δ) with hr_def
  have hrlen : r.length = n := by simp [hr_def, w1]
  have hrne : r ≠ [] := by
    intro e; rw [e] at hrlen; simp at hrlen; omega
  have hN : (0 : Rat) < (r.length : Rat) := by rw [hrlen]; exact_mod_cast hn
  have hN1 : (0 : Rat) < (r.length : Rat) + 1 := by linarith
  obtain ⟨hd, hp2, hpsum, hcl, hno, hbo⟩ := projectBoundsInc_clamped_max rb0 r hrne c.omin c.omax c.minC
  set p := projectBoundsInc rb0 r c.omin c.omax c.minC .clamped with hp_def
  have hrsum : rsum r = rsum st.heights - (r.length : Rat) * δ := by
    rw [hr_def, rsum_map_sub]; simp
  have hp2' : p.2 = st.heights.map (fun x => x - δ + hd) := by
    rw [hp2, hr_def, List.map_map]; rfl
  have hp2len : p.2.length = n := by rw [hp2]; simp [hrlen]
  -- bias form after this BOUNDS step
  have hform : (c.minC = .clamped → p.1 = c.omin) ∧ (c.minC = .none → p.1 = rb0 + hd) ∧
      (c.minC = .bound → p.1 = c.omin ∨ p.1 = rb0 + hd) := by
    refine ⟨fun e => (hcl e).1, fun e => (hno e).1, fun e => ?_⟩
    obtain ⟨e1, e2⟩ := hbo e
    by_cases hle : rb0 + (c.omax - (rb0 + rsum r)) / ((r.length : Rat) + 1) ≤ c.omin
    · left; rw [e1]; exact max_eq_right hle
    · right
      have hmx : p.1 = rb0 + (c.omax - (rb0 + rsum r)) / ((r.length : Rat) + 1) := by
        rw [e1]; exact max_eq_left (not_le.mp hle).le
      have : hd = (c.omax - (rb0 + rsum r)) / ((r.length : Rat) + 1) := by
        rw [e2, hmx]
        field_simp
        ring
      rw [hmx, this]
  -- the sum does not drop in the MONOTONICITY step
  have hkey : rsum p.2 ≤ rsum ((vsub p.2 st.lc.hMono).map (fun h => max h 0)) := by
    rcases hdisj with ⟨hfar, fcl, fno, fbo⟩ | hz
    · have hd_le : hd ≤ δ := by
        cases hmc : c.minC with
        | clamped =>
          have hb := fcl hmc
          rw [(hcl hmc).2, div_le_iff₀ hN, hrsum]
          rw [hb] at hfar
          nlinarith
        | none =>
          have hb := fno hmc
          rw [(hno hmc).2, div_le_iff₀ hN1, hrsum]
          rw [hb] at hfar
          nlinarith
        | bound =>
          obtain ⟨e1, e2⟩ := hbo hmc
          rw [e2, div_le_iff₀ hN, hrsum]
          have hge1 : c.omin ≤ p.1 := by rw [e1]; exact le_max_right _ _
          have hge2 : rb0 + (c.omax - (rb0 + rsum r)) / ((r.length : Rat) + 1) ≤ p.1 := by
            rw [e1]; exact le_max_left _ _
          have hfarp : c.omax ≤ p.1 + rsum st.heights := by
            rcases fbo hmc with hb | hb
            · rw [hb] at hfar; linarith
            · rw [hb] at hfar
              have hbd : (c.omax - (rb0 + rsum r)) / ((r.length : Rat) + 1) * ((r.length : Rat) + 1) =
                  c.omax - (rb0 + rsum r) := by field_simp
              rw [hrsum] at hbd hge2
              nlinarith
          nlinarith
      rw [hp2']
      exact rsum_after_mono_ge _ _ δ hd hrel hd_le
    · rw [hz, show st.heights.length = p.2.length from w1.trans hp2len.symm, vsub_zeros]
      exact rsum_map_max_ge _
  have hlen' : st'.heights.length = n := by
    rw [e_heights]; simp [length_vsub, hp2len, w3]
  refine ⟨hd, ⟨?_, ?_, ?_⟩, ?_, ?_, ?_, ?_⟩
  · rw [e_lcm, e_heights]; exact relM_after_mono _
  · rw [e_bias, e_lcb]; ring
  · rw [e_lch, hlen', hp2, vsub_map_add_self, hrlen]
  · rw [e_bias, e_heights]; linarith
  · intro e; rw [e_bias]; exact hform.1 e
  · intro e; rw [e_bias]; exact hform.2.1 e
  · intro e; rw [e_bias]; exact hform.2.2 e

theorem whileLoop_inv' (c : Cfg) (L : List Rat) (lim n : Nat) (Q : State → Prop)
    (hQ : ∀ s s', WF n s → Q s → body c L s = .ok s' → Q s') (fuel : Nat) (st st' : State)
    (hw : WF n st) (h0 : Q st) (h : whileLoop c L lim fuel st = .ok st') : Q st' := by
  induction fuel generalizing st with
  | zero => simp only [whileLoop, Except.ok.injEq] at h; subst h; exact h0
  | succ k ih =>
    simp only [whileLoop] at h
    split_ifs at h
    · cases hb : body c L st with
      | error e => rw [hb] at h; cases h
      | ok s =>
        rw [hb] at h
        exact ih s (body_spec c L n st s hw hb).1 (hQ st s hw h0 hb) h
    · cases h; exact h0

/-- after at least one iteration of the loop the far-end invariant holds -/
theorem whileLoop_far (c : Cfg) (L : List Rat) (rb0 : Rat) (n : Nat) (hn : 0 < n)
    (hm : c.mono = 1) (hcv : c.conv = 0) (hmax : c.maxC = .clamped) (lim fuel : Nat) (st st' : State)
    (hw : WF n st) (hpre : FarPre c rb0 st) (hf : 0 < fuel) (hlim : st.counter < lim)
    (h : whileLoop c L lim fuel st = .ok st') : FarInv c rb0 st' := by
  cases fuel with
  | zero => omega
  | succ k =>
    simp only [whileLoop, if_pos hlim] at h
    cases hb : body c L st with
    | error e => rw [hb] at h; cases h
    | ok s =>
      rw [hb] at h
      have h1 : FarInv c rb0 s := far_step c L rb0 n hn st s hm hcv hmax hw hpre hb
      exact whileLoop_inv' c L lim n (FarInv c rb0)
        (fun s s' hws hq hbs => far_step c L rb0 n hn s s' hm hcv hmax hws (farInv_pre hq) hbs)
        k s st' (body_spec c L n st s hw hb).1 h1 h

theorem clipB_of_ge_max (omin omax : Rat) (minC : BCT) (x : Rat) (h : omax ≤ x) :
    clipB omin omax minC .bound x = omax := by
  unfold clipB
  simp only [if_true]
  split_ifs
  · exact min_eq_right (le_trans h (le_max_left _ _))
  · exact min_eq_right h

theorem clipB_of_le_min (omin omax : Rat) (maxC : BCT) (x : Rat) (h : x ≤ omin)
    (hb : maxC = .bound → omin ≤ omax) : clipB omin omax .bound maxC x = omin := by
  unfold clipB
  simp only [if_true, max_eq_right h]
  split_ifs with hx
  · exact min_eq_left (hb hx)
  · rfl

/-- the loop result handed to the finalisation, when at least two projection sets exist -/
theorem projectAll_loop (c : Cfg) (L : List Rat) (it : Nat) (b : Rat) (hs : List Rat)
    (out : Rat × List Rat) (hnp : 2 ≤ numProjections c hs.length)
    (h : projectAll c L it b hs = .ok out) :
    ∃ st, WF hs.length st ∧
      whileLoop c L (it * numProjections c hs.length) (it * numProjections c hs.length)
        (initState b hs) = .ok st ∧ finalize c L st.bias st.heights = .ok out := by
  rcases projectAll_cases c L it b hs out h with ⟨hn, _⟩ | ⟨_, st, hw, hwl, hf⟩
  · omega
  · exact ⟨st, hw, hwl, hf⟩

/-- **far end, increasing calibrator, `clamp_max`:** for iterations ≥ 1 without convexity the last
keypoint output equals `output_max` exactly -/
theorem far_end_inc (c : Cfg) (L : List Rat) (it : Nat) (hit : 1 ≤ it) (b : Rat) (hs : List Rat)
    (hne : hs ≠ []) (hm : c.mono = 1) (hcv : c.conv = 0) (hmax : c.maxC = .clamped)
    (out : Rat × List Rat) (h : projectAll c L it b hs = .ok out) :
    out.1 + rsum out.2 = c.omax := by
  have hB : hasBounds c := Or.inr (by rw [hmax]; simp)
  have hm0 : c.mono ≠ 0 := by omega
  have hnp : 2 ≤ numProjections c hs.length := by
    unfold numProjections; rw [if_pos hB, if_pos hm0]; omega
  obtain ⟨st, hw, hwl, hf⟩ := projectAll_loop c L it b hs out hnp h
  have hn : 0 < hs.length := List.length_pos_of_ne_nil hne
  have hpos : 0 < it * numProjections c hs.length := Nat.mul_pos (by omega) (by omega)
  obtain ⟨δ, _, hfar, _⟩ := whileLoop_far c L b hs.length hn hm hcv hmax _ _ _ st (wf_init b hs)
    (farPre_init c b hs) hpos (by simpa [initState] using hpos) hwl
  rw [finalize_eq] at hf
  have hB' : c.minC ≠ .none ∨ c.maxC ≠ .none := hB
  have h2 : ¬ (c.mono ≠ 0 ∧ c.conv ≠ 0) := fun hh => hh.2 hcv
  rw [if_pos hB', if_neg h2] at hf
  cases hf
  simp only
  rw [clipDiffs_last]
  have hfh : finalHeights c L st.heights = st.heights.map (fun h => max h 0) := by
    simp [finalHeights, hm, hcv, projectMonotonicity]
  have hu : unclamp c.maxC = .bound := by rw [hmax]; rfl
  rw [hu, hfh]
  exact clipB_of_ge_max _ _ _ _ (le_trans hfar (by linarith [rsum_map_max_ge st.heights]))

/-! ### far-end clamp: the decreasing calibrator is the mirror image of the increasing one -/

def reflCfg (c : Cfg) : Cfg := ⟨-c.mono, c.conv, -c.omax, -c.omin, c.maxC, c.minC⟩
def reflChanges (l : Changes) : Changes :=
  ⟨-l.biasBounds, vneg l.hBounds, vneg l.hMono, vneg l.hConv0, vneg l.hConv1⟩
def reflSt (s : State) : State := ⟨s.counter, -s.bias, vneg s.heights, reflChanges s.lc⟩

theorem vneg_vsub (a b : List Rat) : vneg (vsub a b) = vsub (vneg a) (vneg b) := by
  induction a generalizing b with
  | nil => simp [vsub, vneg]
  | cons x xs ih => cases b with
    | nil => simp [vsub, vneg]
    | cons y ys =>
      simp only [vsub, vneg, List.zipWith_cons_cons, List.map_cons] at ih ⊢
      rw [ih ys]
      congr 1
      ring

theorem map_max_vneg (y : List Rat) :
    (vneg y).map (fun h => max h 0) = vneg (y.map (fun h => min h 0)) := by
  induction y with
  | nil => rfl
  | cons x xs ih =>
    simp only [vneg, List.map_cons] at ih ⊢
    rw [ih]
    congr 1
    rcases le_total x 0 with h | h
    · rw [min_eq_left h, max_eq_left (by linarith)]
    · rw [min_eq_right h, max_eq_right (by linarith)]; simp

@[simp] theorem length_vneg (a : List Rat) : (vneg a).length = a.length := by simp [vneg]

theorem vneg_zeros (n : Nat) : vneg (zeros n) = zeros n := by simp [vneg, zeros]

theorem reflSt_init (b : Rat) (hs : List Rat) : reflSt (initState b hs) = initState (-b) (vneg hs) := by
  simp [reflSt, reflChanges, initState, vneg_zeros]

theorem stepBounds_refl (c : Cfg) (st : State) (hm : c.mono = -1) :
    stepBounds (reflCfg c) (reflSt st) = (stepBounds c st).map reflSt := by
  have hm' : (reflCfg c).mono = 1 := by simp [reflCfg, hm]
  have h10 : (reflCfg c).mono ≠ 0 := by omega
  have h1n : ¬ (reflCfg c).mono = -1 := by omega
  have hc0 : c.mono ≠ 0 := by omega
  have e1 : (reflSt st).bias - (reflSt st).lc.biasBounds = -(st.bias - st.lc.biasBounds) := by
    simp only [reflSt, reflChanges]; ring
  have e2 : vsub (reflSt st).heights (reflSt st).lc.hBounds = vneg (vsub st.heights st.lc.hBounds) := by
    simp only [reflSt, reflChanges]; exact (vneg_vsub _ _).symm
  unfold stepBounds
  by_cases hB : c.minC ≠ .none ∨ c.maxC ≠ .none
  · have hB2 : (reflCfg c).minC ≠ .none ∨ (reflCfg c).maxC ≠ .none := hB.symm
    rw [if_pos hB, if_pos hB2]
    simp only [if_pos h10, if_pos hc0, e1, e2, projectBoundsConsideringMonotonicity, if_neg h1n, if_pos hm',
      if_pos hm, Except.map]
    simp only [reflCfg, reflSt, reflChanges, neg_neg, vneg_vneg, Except.ok.injEq, State.mk.injEq,
      Changes.mk.injEq, true_and, and_true]
    refine ⟨?_, ?_⟩
    · ring
    · simp only [vneg_vsub, vneg_vneg]
  · have hB2 : ¬ ((reflCfg c).minC ≠ .none ∨ (reflCfg c).maxC ≠ .none) := fun h => hB h.symm
    rw [if_neg hB, if_neg hB2]
    rfl

theorem stepMono_refl (c : Cfg) (s : State) (hm : c.mono = -1) :
    stepMono (reflCfg c) (reflSt s) = reflSt (stepMono c s) := by
  have hm' : (reflCfg c).mono = 1 := by simp [reflCfg, hm]
  have h10 : (reflCfg c).mono ≠ 0 := by omega
  have hc0 : c.mono ≠ 0 := by omega
  have hc1 : ¬ c.mono = 1 := by omega
  unfold stepMono
  rw [if_pos h10, if_pos hc0]
  simp only [projectMonotonicity, if_neg h10, if_pos hm', if_neg hc0, if_neg hc1]
  simp only [reflSt, reflChanges, State.mk.injEq, Changes.mk.injEq, true_and, and_true]
  rw [← vneg_vsub, map_max_vneg, ← vneg_vsub]
  exact ⟨rfl, rfl⟩

theorem body_refl (c : Cfg) (L : List Rat) (st : State) (hm : c.mono = -1) (hcv : c.conv = 0) :
    body (reflCfg c) L (reflSt st) = (body c L st).map reflSt := by
  rw [body_conv0 c L st hcv, body_conv0 (reflCfg c) L (reflSt st) hcv, stepBounds_refl c st hm]
  cases stepBounds c st with
  | error e => rfl
  | ok s1 => simp only [Except.map, stepMono_refl c s1 hm]

theorem whileLoop_refl (c : Cfg) (L : List Rat) (hm : c.mono = -1) (hcv : c.conv = 0) (lim fuel : Nat)
    (st st' : State) (h : whileLoop c L lim fuel st = .ok st') :
    whileLoop (reflCfg c) L lim fuel (reflSt st) = .ok (reflSt st') := by
  induction fuel generalizing st with
  | zero => simp only [whileLoop, Except.ok.injEq] at h ⊢; rw [h]
  | succ k ih =>
    simp only [whileLoop] at h ⊢
    have hcnt : (reflSt st).counter = st.counter := rfl
    rw [hcnt]
    split_ifs at h ⊢ with hlt
    · rw [body_refl c L st hm hcv]
      cases hb : body c L st with
      | error e => rw [hb] at h; cases h
      | ok s =>
        rw [hb] at h
        simp only [Except.map]
        exact ih s h
    · cases h; rfl

/-- **far end, decreasing calibrator, `clamp_min`:** for iterations ≥ 1 without convexity the last
keypoint output equals `output_min` exactly -/
theorem far_end_dec (c : Cfg) (hc : CfgOk c) (L : List Rat) (it : Nat) (hit : 1 ≤ it) (b : Rat)
    (hs : List Rat) (hne : hs ≠ []) (hm : c.mono = -1) (hcv : c.conv = 0) (hmin : c.minC = .clamped)
    (out : Rat × List Rat) (h : projectAll c L it b hs = .ok out) :
    out.1 + rsum out.2 = c.omin := by
  have hB : hasBounds c := Or.inl (by rw [hmin]; simp)
  have hm0 : c.mono ≠ 0 := by omega
  have hnp : 2 ≤ numProjections c hs.length := by
    unfold numProjections; rw [if_pos hB, if_pos hm0]; omega
  obtain ⟨st, hw, hwl, hf⟩ := projectAll_loop c L it b hs out hnp h
  have hn : 0 < (vneg hs).length := by simpa using List.length_pos_of_ne_nil hne
  have hpos : 0 < it * numProjections c hs.length := Nat.mul_pos (by omega) (by omega)
  have hwl' := whileLoop_refl c L hm hcv _ _ _ st hwl
  rw [reflSt_init] at hwl'
  obtain ⟨δ, _, hfar, _⟩ := whileLoop_far (reflCfg c) L (-b) (vneg hs).length hn
    (by simp [reflCfg, hm]) hcv hmin _ _ _ (reflSt st) (wf_init (-b) (vneg hs))
    (farPre_init (reflCfg c) (-b) (vneg hs)) hpos (by simpa [initState] using hpos) hwl'
  have hfar' : st.bias + rsum st.heights ≤ c.omin := by
    simp only [reflSt, reflCfg, rsum_vneg] at hfar
    linarith
  rw [finalize_eq] at hf
  have hB' : c.minC ≠ .none ∨ c.maxC ≠ .none := hB
  have h2 : ¬ (c.mono ≠ 0 ∧ c.conv ≠ 0) := fun hh => hh.2 hcv
  rw [if_pos hB', if_neg h2] at hf
  cases hf
  simp only
  rw [clipDiffs_last]
  have hfh : finalHeights c L st.heights = st.heights.map (fun h => min h 0) := by
    have h1 : ¬ ((-1 : Int) = 0) := by omega
    have h2 : ¬ ((-1 : Int) = 1) := by omega
    simp [finalHeights, hm, hcv, projectMonotonicity, h1, h2]
  have hu : unclamp c.minC = .bound := by rw [hmin]; rfl
  rw [hu, hfh]
  exact clipB_of_le_min _ _ _ _ (le_trans (by linarith [rsum_map_min_le st.heights]) hfar')
    (fun e => hc.bnd (by rw [hmin]; simp) ((unclamp_bound _).mp e))

/-! ### totality: when does `project_all_constraints` return at all?

The only `raise` reachable from `project_all_constraints` for a `CfgOk` configuration whose lengths match
the kernel is `_approximately_project_bounds_only`'s "Clamping is not implemented for non monotonic
functions" (finding F-C16-m). `ClampNeedsMono` is the exact negation of that case. -/

/-- **the precise exclusion of F-C16-m**: a clamped bound is requested only together with monotonicity -/
def ClampNeedsMono (c : Cfg) : Prop := c.mono = 0 → c.minC ≠ .clamped ∧ c.maxC ≠ .clamped

instance (c : Cfg) : Decidable (ClampNeedsMono c) := by unfold ClampNeedsMono; infer_instance

theorem projectConvexity_total (hs L : List Rat) (cv : Int) (g : Nat) (hcv : cv = 0 ∨ cv = 1 ∨ cv = -1)
    (hl : L.length = hs.length) (hg : g = 0 ∨ g = 1) : ∃ r, projectConvexity hs L cv g = .ok r := by
  unfold projectConvexity
  have h1 : ¬ (cv ≠ 0 ∧ cv ≠ 1 ∧ cv ≠ -1) := by omega
  have h2 : ¬ (L.length ≠ hs.length) := by omega
  have h3 : ¬ (g ≠ 0 ∧ g ≠ 1) := by omega
  rw [if_neg h1, if_neg h2, if_neg h3]
  split_ifs
  · exact ⟨_, rfl⟩
  · exact ⟨_, rfl⟩
  · split <;> exact ⟨_, rfl⟩

theorem approxProjectBoundsOnly_total (b : Rat) (hs : List Rat) (omin omax : Rat) (minC maxC : BCT)
    (h1 : minC ≠ .clamped) (h2 : maxC ≠ .clamped) :
    ∃ r, approxProjectBoundsOnly b hs omin omax minC maxC = .ok r := by
  unfold approxProjectBoundsOnly
  have : ¬ (minC = .clamped ∨ maxC = .clamped) := by tauto
  rw [if_neg this]
  split_ifs <;> exact ⟨_, rfl⟩

theorem pbcm_total (b : Rat) (hs : List Rat) (m : Int) (hm : m = 1 ∨ m = -1) (omin omax : Rat)
    (minC maxC : BCT) : ∃ r, projectBoundsConsideringMonotonicity b hs m omin omax minC maxC = .ok r := by
  unfold projectBoundsConsideringMonotonicity
  rcases hm with e | e
  · subst e; simp
  · subst e; simp

theorem stepBounds_total (c : Cfg) (hc : CfgOk c) (hcl : ClampNeedsMono c) (st : State) :
    ∃ s, stepBounds c st = .ok s := by
  unfold stepBounds
  split_ifs with hB hm
  · have hm1 : c.mono = 1 ∨ c.mono = -1 := by
      rcases hc.mono with e | e | e
      · exact absurd e hm
      · exact Or.inl e
      · exact Or.inr e
    obtain ⟨r, hr⟩ := pbcm_total (st.bias - st.lc.biasBounds) (vsub st.heights st.lc.hBounds) c.mono hm1
      c.omin c.omax c.minC c.maxC
    simp only [hr, Except.map]
    exact ⟨_, rfl⟩
  · have hm0 : c.mono = 0 := by simpa using hm
    obtain ⟨a, b⟩ := hcl hm0
    obtain ⟨r, hr⟩ := approxProjectBoundsOnly_total (st.bias - st.lc.biasBounds)
      (vsub st.heights st.lc.hBounds) c.omin c.omax c.minC c.maxC a b
    simp only [hr, Except.map]
    exact ⟨_, rfl⟩
  · exact ⟨_, rfl⟩

theorem stepConv0_total (c : Cfg) (hc : CfgOk c) (L : List Rat) (n : Nat)
    (hlen : c.conv ≠ 0 → 2 ≤ n → L.length = n) (st : State) (hw : WF n st) :
    ∃ s, stepConv0 c L st = .ok s := by
  unfold stepConv0
  split_ifs with h
  · have hl : L.length = (vsub st.heights st.lc.hConv0).length := by
      rw [length_vsub, hw.1, hw.2.2.2.1]; simp; exact hlen h.1 (by rw [← hw.1]; exact h.2)
    obtain ⟨r, hr⟩ := projectConvexity_total _ L c.conv 0 hc.conv hl (Or.inl rfl)
    simp only [hr, Except.map]; exact ⟨_, rfl⟩
  · exact ⟨_, rfl⟩

theorem stepConv1_total (c : Cfg) (hc : CfgOk c) (L : List Rat) (n : Nat)
    (hlen : c.conv ≠ 0 → 2 ≤ n → L.length = n) (st : State) (hw : WF n st) :
    ∃ s, stepConv1 c L st = .ok s := by
  unfold stepConv1
  split_ifs with h
  · have hl : L.length = (vsub st.heights st.lc.hConv1).length := by
      rw [length_vsub, hw.1, hw.2.2.2.2]; simp; exact hlen h.1 (by rw [← hw.1]; omega)
    obtain ⟨r, hr⟩ := projectConvexity_total _ L c.conv 1 hc.conv hl (Or.inr rfl)
    simp only [hr, Except.map]; exact ⟨_, rfl⟩
  · exact ⟨_, rfl⟩

theorem body_total (c : Cfg) (hc : CfgOk c) (hcl : ClampNeedsMono c) (L : List Rat) (n : Nat)
    (hlen : c.conv ≠ 0 → 2 ≤ n → L.length = n) (st : State) (hw : WF n st) :
    ∃ s, body c L st = .ok s := by
  obtain ⟨s1, h1⟩ := stepBounds_total c hc hcl st
  have w1 := (stepBounds_spec c n st s1 hw h1).1
  have w2 := (stepMono_spec c n s1 w1).1
  obtain ⟨s3, h3⟩ := stepConv0_total c hc L n hlen _ w2
  have w3 := (stepConv0_spec c L n _ s3 w2 h3).1
  obtain ⟨s4, h4⟩ := stepConv1_total c hc L n hlen s3 w3
  refine ⟨s4, ?_⟩
  unfold body
  simp only [bind, Except.bind, h1, h3, h4]

theorem whileLoop_total (c : Cfg) (hc : CfgOk c) (hcl : ClampNeedsMono c) (L : List Rat) (n : Nat)
    (hlen : c.conv ≠ 0 → 2 ≤ n → L.length = n) (lim fuel : Nat) (st : State) (hw : WF n st) :
    ∃ s, whileLoop c L lim fuel st = .ok s := by
  induction fuel generalizing st with
  | zero => exact ⟨st, rfl⟩
  | succ k ih =>
    simp only [whileLoop]
    split_ifs
    · obtain ⟨s, hs⟩ := body_total c hc hcl L n hlen st hw
      rw [hs]
      exact ih s (body_spec c L n st s hw hs).1
    · exact ⟨st, rfl⟩

/-- **totality of `project_all_constraints`**: for a `CfgOk` configuration that requests no clamp
without monotonicity (`ClampNeedsMono`, the exact exclusion of F-C16-m) and whose `lengths` match the
kernel whenever the convexity projection reads them, the projection RETURNS — any kernel, any
iteration count. -/
theorem projectAll_total (c : Cfg) (hc : CfgOk c) (hcl : ClampNeedsMono c) (L : List Rat) (it : Nat)
    (b : Rat) (hs : List Rat) (hlen : c.conv ≠ 0 → 2 ≤ hs.length → L.length = hs.length) :
    ∃ out, projectAll c L it b hs = .ok out := by
  unfold projectAll
  obtain ⟨s1, h1⟩ := body_total c hc hcl L hs.length hlen _ (wf_init b hs)
  rw [h1]
  simp only
  split_ifs
  · exact ⟨_, rfl⟩
  · obtain ⟨s, h⟩ := whileLoop_total c hc hcl L hs.length hlen (it * s1.counter) (it * s1.counter) _
      (wf_init b hs)
    rw [h]
    simp only
    rw [finalize_eq]
    split_ifs <;> exact ⟨_, rfl⟩

/-- **and the exclusion is exact (F-C16-m):** a clamped bound without monotonicity makes the very first
BOUNDS projection raise `ValueError` ("Clamping is not implemented for non monotonic functions"),
whatever the kernel, the lengths and the iteration count. -/
theorem projectAll_clamp_without_mono (c : Cfg) (hm : c.mono = 0)
    (hcl : c.minC = .clamped ∨ c.maxC = .clamped) (L : List Rat) (it : Nat) (b : Rat) (hs : List Rat) :
    projectAll c L it b hs = .error .valueError := by
  have hB : c.minC ≠ .none ∨ c.maxC ≠ .none := by
    rcases hcl with e | e
    · left; rw [e]; simp
    · right; rw [e]; simp
  have hb : ∀ st, stepBounds c st = .error .valueError := by
    intro st
    unfold stepBounds
    have hm' : ¬ (c.mono ≠ 0) := by simp [hm]
    have ha : ∀ rb rh, approxProjectBoundsOnly rb rh c.omin c.omax c.minC c.maxC = .error .valueError := by
      intro rb rh
      unfold approxProjectBoundsOnly
      rw [if_pos hcl]
    simp only [if_pos hB, if_neg hm', ha, Except.map]
  unfold projectAll body
  simp only [bind, Except.bind, hb]

/-- for `CfgOk` configurations with kernel-matching lengths: the projection returns **iff** no clamp is
requested without monotonicity -/
theorem projectAll_ok_iff (c : Cfg) (hc : CfgOk c) (L : List Rat) (it : Nat) (b : Rat) (hs : List Rat)
    (hlen : c.conv ≠ 0 → 2 ≤ hs.length → L.length = hs.length) :
    (∃ out, projectAll c L it b hs = .ok out) ↔ ClampNeedsMono c := by
  constructor
  · rintro ⟨out, h⟩ hm
    constructor <;> intro e
    · rw [projectAll_clamp_without_mono c hm (Or.inl e)] at h; cases h
    · rw [projectAll_clamp_without_mono c hm (Or.inr e)] at h; cases h
  · intro hcl
    exact projectAll_total c hc hcl L it b hs hlen

end Tfl.PwlProj
