import TflModel.Lemmas.EdgeworthW
import Mathlib.Tactic.FieldSimp
import Mathlib.Tactic.Positivity
/-! C01-T4: `_approximately_project_bounds` is a positive affine map that lands in the bounds;
the final clip is then the identity (and in general a monotone map). -/
namespace Tfl.Lat
open Tfl

theorem rmax_ge_init (x : ℚ) (l : List ℚ) : x ≤ rmax x l := by
  induction l generalizing x with
  | nil => exact le_rfl
  | cons y ys ih => exact le_trans (le_max_left _ _) (ih _)
theorem rmax_ge_mem (x : ℚ) (l : List ℚ) {y : ℚ} (h : y ∈ l) : y ≤ rmax x l := by
  induction l generalizing x with
  | nil => cases h
  | cons z zs ih =>
    rcases List.mem_cons.mp h with e | e
    · subst e; exact le_trans (le_max_right _ _) (rmax_ge_init _ _)
    · exact ih _ e
theorem rmin_le_init (x : ℚ) (l : List ℚ) : rmin x l ≤ x := by
  induction l generalizing x with
  | nil => exact le_rfl
  | cons y ys ih => exact le_trans (ih _) (min_le_left _ _)
theorem rmin_le_mem (x : ℚ) (l : List ℚ) {y : ℚ} (h : y ∈ l) : rmin x l ≤ y := by
  induction l generalizing x with
  | nil => cases h
  | cons z zs ih =>
    rcases List.mem_cons.mp h with e | e
    · subst e
      show rmin (min x y) zs ≤ y
      exact le_trans (rmin_le_init _ _) (min_le_right _ _)
    · exact ih _ e
theorem rmax_le (h : ℚ) (x : ℚ) (l : List ℚ) (hx : x ≤ h) (hl : ∀ y ∈ l, y ≤ h) : rmax x l ≤ h := by
  induction l generalizing x with
  | nil => exact hx
  | cons z zs ih =>
    show rmax (max x z) zs ≤ h
    exact ih _ (max_le hx (hl z (List.mem_cons_self ..))) (fun y hy => hl y (List.mem_cons_of_mem _ hy))
theorem le_rmin (l0 : ℚ) (x : ℚ) (l : List ℚ) (hx : l0 ≤ x) (hl : ∀ y ∈ l, l0 ≤ y) : l0 ≤ rmin x l := by
  induction l generalizing x with
  | nil => exact hx
  | cons z zs ih =>
    show l0 ≤ rmin (min x z) zs
    exact ih _ (le_min hx (hl z (List.mem_cons_self ..))) (fun y hy => hl y (List.mem_cons_of_mem _ hy))
theorem rmax_congr (x y : ℚ) (l l' : List ℚ) (h1 : x = y) (h2 : l = l') : rmax x l = rmax y l' := by
  rw [h1, h2]

theorem le_boxMax {sizes : List Nat} (w : W) {idx : Idx} (h : InRange sizes idx) : w idx ≤ boxMax sizes w := by
  have hm := mem_allIdx.mpr h
  unfold boxMax
  cases hl : allIdx sizes with
  | nil => rw [hl] at hm; cases hm
  | cons i is =>
    rw [hl] at hm
    rcases List.mem_cons.mp hm with e | e
    · subst e; exact rmax_ge_init _ _
    · exact rmax_ge_mem _ _ (List.mem_map.mpr ⟨idx, e, rfl⟩)
theorem boxMin_le {sizes : List Nat} (w : W) {idx : Idx} (h : InRange sizes idx) : boxMin sizes w ≤ w idx := by
  have hm := mem_allIdx.mpr h
  unfold boxMin
  cases hl : allIdx sizes with
  | nil => rw [hl] at hm; cases hm
  | cons i is =>
    rw [hl] at hm
    rcases List.mem_cons.mp hm with e | e
    · subst e; exact rmin_le_init _ _
    · exact rmin_le_mem _ _ (List.mem_map.mpr ⟨idx, e, rfl⟩)

theorem boxMax_congr {sizes : List Nat} {f g : W} (h : AgreeOn sizes f g) : boxMax sizes f = boxMax sizes g := by
  unfold boxMax
  cases hl : allIdx sizes with
  | nil => rfl
  | cons i is =>
    have hi : f i = g i := h i (mem_allIdx.mp (by rw [hl]; exact List.mem_cons_self ..))
    have hs : is.map f = is.map g :=
      List.map_congr_left (fun x hx => h x (mem_allIdx.mp (by rw [hl]; exact List.mem_cons_of_mem _ hx)))
    simp only [hi, hs]
theorem boxMin_congr {sizes : List Nat} {f g : W} (h : AgreeOn sizes f g) : boxMin sizes f = boxMin sizes g := by
  unfold boxMin
  cases hl : allIdx sizes with
  | nil => rfl
  | cons i is =>
    have hi : f i = g i := h i (mem_allIdx.mp (by rw [hl]; exact List.mem_cons_self ..))
    have hs : is.map f = is.map g :=
      List.map_congr_left (fun x hx => h x (mem_allIdx.mp (by rw [hl]; exact List.mem_cons_of_mem _ hx)))
    simp only [hi, hs]

/-- `g = s • f + b` with `s > 0` -/
def AffinePos (f g : W) : Prop := ∃ s b : ℚ, 0 < s ∧ ∀ idx, g idx = s * f idx + b

theorem AffinePos.mono {sizes : List Nat} {d : Nat} {f g : W} (h : AffinePos f g) (hf : MonoAx sizes d f) :
    MonoAx sizes d g := by
  obtain ⟨s, b, hs, e⟩ := h
  intro idx hr hd hlt
  rw [e, e]
  have := hf idx hr hd hlt
  nlinarith [mul_le_mul_of_nonneg_left this hs.le]

theorem AffinePos.eviol_scale {f g : W} (h : AffinePos f g) (m c i j : Nat) (b : Idx) :
    ∃ s : ℚ, 0 < s ∧ eviol g m c i j b = s * eviol f m c i j b := by
  obtain ⟨s, b', hs, e⟩ := h
  exact ⟨s, hs, by simp only [Tfl.Lat.eviol, gat, e]; ring⟩

theorem AffinePos.edgeOK {sizes : List Nat} {tr : Trust} {f g : W} (h : AffinePos f g)
    (hf : EdgeOK sizes tr f) : EdgeOK sizes tr g := by
  intro idx hr i j hi hj
  obtain ⟨s, hs, e⟩ := h.eviol_scale tr.main tr.cond i j idx
  have := hf idx hr i j hi hj
  rw [e]
  split
  · rename_i hp; simp only [hp, if_true] at this; exact mul_nonpos_of_nonneg_of_nonpos hs.le this
  · rename_i hp; simp only [hp, if_false] at this; exact mul_nonneg hs.le this

/-- bounds configured with `output_min < output_max` (what `verify_hyperparameters` enforces) -/
def BoundsWF (lo hi : Option ℚ) : Prop := ∀ l h, lo = some l → hi = some h → l < h

theorem approxBounds_affine (sizes : List Nat) (lo hi : Option ℚ) (hb : BoundsWF lo hi) (w : W) :
    AffinePos w (approxBounds sizes lo hi w) := by
  unfold approxBounds boundsCoeffs
  cases lo <;> cases hi <;> simp only
  · exact ⟨1, 0, by norm_num, fun idx => by ring⟩
  · rename_i h
    exact ⟨1, -max (boxMax sizes w - h) 0, by norm_num, fun idx => by ring⟩
  · rename_i l
    exact ⟨1, max (l - boxMin sizes w) 0, by norm_num, fun idx => by ring⟩
  · rename_i l h
    have hlt := hb l h rfl rfl
    have h1 : 0 ≤ max (boxMax sizes w - h) 0 := le_max_right _ _
    have h2 : 0 ≤ max (l - boxMin sizes w) 0 := le_max_right _ _
    have hD : 0 < h + max (boxMax sizes w - h) 0 - (l - max (l - boxMin sizes w) 0) := by linarith
    refine ⟨(h - l) / (h + max (boxMax sizes w - h) 0 - (l - max (l - boxMin sizes w) 0)),
      (max (l - boxMin sizes w) 0 - l) *
        ((h - l) / (h + max (boxMax sizes w - h) 0 - (l - max (l - boxMin sizes w) 0))) + l,
      div_pos (by linarith) hD, fun idx => ?_⟩
    ring

/-- after the bounds projection every vertex of the box lies within the bounds -/
theorem approxBounds_in (sizes : List Nat) (lo hi : Option ℚ) (hb : BoundsWF lo hi) (w : W)
    {idx : Idx} (hr : InRange sizes idx) :
    (∀ l, lo = some l → l ≤ approxBounds sizes lo hi w idx) ∧
    (∀ h, hi = some h → approxBounds sizes lo hi w idx ≤ h) := by
  have hmx := le_boxMax w hr
  have hmn := boxMin_le w hr
  unfold approxBounds boundsCoeffs
  cases lo <;> cases hi <;> simp only
  · exact ⟨fun _ h => (by cases h), fun _ h => (by cases h)⟩
  · rename_i h
    have key : (w idx + -max (boxMax sizes w - h) 0) * 1 + 0 ≤ h := by
      have := le_max_left (boxMax sizes w - h) 0
      linarith
    exact ⟨fun _ e => (by cases e), fun h' e => (by cases e; exact key)⟩
  · rename_i l
    have key : l ≤ (w idx + max (l - boxMin sizes w) 0) * 1 + 0 := by
      have := le_max_left (l - boxMin sizes w) 0
      linarith
    exact ⟨fun l' e => (by cases e; exact key), fun _ e => (by cases e)⟩
  · rename_i l h
    have hlt := hb l h rfl rfl
    set maxV := max (boxMax sizes w - h) 0 with hmaxV
    set minV := max (l - boxMin sizes w) 0 with hminV
    have h1 : 0 ≤ maxV := le_max_right _ _
    have h2 : 0 ≤ minV := le_max_right _ _
    have h3 : boxMax sizes w - h ≤ maxV := le_max_left _ _
    have h4 : l - boxMin sizes w ≤ minV := le_max_left _ _
    have hD : 0 < h + maxV - (l - minV) := by linarith
    have hx0 : 0 ≤ w idx + (minV - l) := by linarith
    have hx1 : w idx + (minV - l) ≤ h + maxV - (l - minV) := by linarith
    have hs : 0 < (h - l) / (h + maxV - (l - minV)) := div_pos (by linarith) hD
    have k1 : l ≤ (w idx + (minV - l)) * ((h - l) / (h + maxV - (l - minV))) + l := by
      have := mul_nonneg hx0 hs.le
      linarith
    have k2 : (w idx + (minV - l)) * ((h - l) / (h + maxV - (l - minV))) + l ≤ h := by
      have : (w idx + (minV - l)) * ((h - l) / (h + maxV - (l - minV))) ≤ h - l := by
        rw [mul_div_assoc', div_le_iff₀ hD]
        nlinarith
      linarith
    exact ⟨fun l' e => (by cases e; exact k1), fun h' e => (by cases e; exact k2)⟩

/-- feasible ⇒ unchanged for the bounds projection -/
theorem approxBounds_fix (sizes : List Nat) (lo hi : Option ℚ) (hb : BoundsWF lo hi) (w : W)
    (hne : allIdx sizes ≠ [])
    (hlo : ∀ l, lo = some l → ∀ idx, InRange sizes idx → l ≤ w idx)
    (hhi : ∀ h, hi = some h → ∀ idx, InRange sizes idx → w idx ≤ h) :
    approxBounds sizes lo hi w = w := by
  -- the extrema are attained inside the box
  have hmx : ∀ h, hi = some h → boxMax sizes w ≤ h := by
    intro h e
    unfold boxMax
    cases hl : allIdx sizes with
    | nil => exact absurd hl hne
    | cons i is =>
      show rmax (w i) (is.map w) ≤ h
      refine rmax_le h _ _ (hhi h e i (mem_allIdx.mp (by rw [hl]; exact List.mem_cons_self ..))) ?_
      intro y hy
      obtain ⟨x, hx, rfl⟩ := List.mem_map.mp hy
      exact hhi h e x (mem_allIdx.mp (by rw [hl]; exact List.mem_cons_of_mem _ hx))
  have hmn : ∀ l, lo = some l → l ≤ boxMin sizes w := by
    intro l e
    unfold boxMin
    cases hl : allIdx sizes with
    | nil => exact absurd hl hne
    | cons i is =>
      show l ≤ rmin (w i) (is.map w)
      refine le_rmin l _ _ (hlo l e i (mem_allIdx.mp (by rw [hl]; exact List.mem_cons_self ..))) ?_
      intro y hy
      obtain ⟨x, hx, rfl⟩ := List.mem_map.mp hy
      exact hlo l e x (mem_allIdx.mp (by rw [hl]; exact List.mem_cons_of_mem _ hx))
  funext idx
  unfold approxBounds boundsCoeffs
  cases lo <;> cases hi <;> simp only
  · ring
  · rename_i h
    rw [max_eq_right (show boxMax sizes w - h ≤ 0 by linarith [hmx h rfl])]; ring
  · rename_i l
    rw [max_eq_right (show l - boxMin sizes w ≤ 0 by linarith [hmn l rfl])]; ring
  · rename_i l h
    have hlt := hb l h rfl rfl
    rw [max_eq_right (show boxMax sizes w - h ≤ 0 by linarith [hmx h rfl]),
      max_eq_right (show l - boxMin sizes w ≤ 0 by linarith [hmn l rfl])]
    have : h + 0 - (l - 0) ≠ 0 := by linarith
    field_simp
    ring

theorem approxBounds_local (sizes : List Nat) (lo hi : Option ℚ) :
    Local sizes (approxBounds sizes lo hi) := by
  intro f g h idx hr
  simp only [approxBounds, boxMax_congr h, boxMin_congr h, h idx hr]

/-! ### the final clip -/
theorem clipBounds_mono {sizes : List Nat} {d : Nat} (lo hi : Option ℚ) {w : W} (hw : MonoAx sizes d w) :
    MonoAx sizes d (clipBounds lo hi w) := by
  intro idx hr hd hlt
  have := hw idx hr hd hlt
  unfold clipBounds
  cases lo <;> cases hi <;> simp only
  · exact this
  · exact min_le_min this le_rfl
  · exact max_le_max this le_rfl
  · exact min_le_min (max_le_max this le_rfl) le_rfl

theorem clipBounds_in (lo hi : Option ℚ) (hb : BoundsWF lo hi) (w : W) (idx : Idx) :
    (∀ l, lo = some l → l ≤ clipBounds lo hi w idx) ∧ (∀ h, hi = some h → clipBounds lo hi w idx ≤ h) := by
  unfold clipBounds
  cases lo <;> cases hi <;> simp only
  · exact ⟨fun _ h => (by cases h), fun _ h => (by cases h)⟩
  · exact ⟨fun _ h => (by cases h), fun h e => (by cases e; exact min_le_right _ _)⟩
  · exact ⟨fun l e => (by cases e; exact le_max_right _ _), fun _ h => (by cases h)⟩
  · rename_i l h
    have key : l ≤ min (max (w idx) l) h := le_min (le_max_right _ _) (hb l h rfl rfl).le
    exact ⟨fun l' e => (by cases e; exact key), fun h' e => (by cases e; exact min_le_right _ _)⟩

theorem clipBounds_fix (lo hi : Option ℚ) (w : W) (idx : Idx) (h1 : ∀ l, lo = some l → l ≤ w idx)
    (h2 : ∀ h, hi = some h → w idx ≤ h) : clipBounds lo hi w idx = w idx := by
  unfold clipBounds
  cases lo <;> cases hi <;> simp only
  · exact min_eq_left (h2 _ rfl)
  · exact max_eq_left (h1 _ rfl)
  · rw [max_eq_left (h1 _ rfl)]; exact min_eq_left (h2 _ rfl)

theorem clipBounds_local (sizes : List Nat) (lo hi : Option ℚ) : Local sizes (clipBounds lo hi) := by
  intro f g h idx hr
  simp only [clipBounds, h idx hr]

end Tfl.Lat
