import TflModel.Model.Verify
import TflModel.Lemmas.TopoSort
import Mathlib.Logic.Relation
/-!
# The round-based cycle check of `categorical_calibration_lib.verify_hyperparameters` (fix 66006cc)

`Tfl.Verify.kahnStep` / `kahnAcyclic` (Model/Verify.lean) are the Python loop

```
remaining = set(pairs)
while remaining:
  has_smaller = {j for (_, j) in remaining}
  resolved = {(i, j) for (i, j) in remaining if i not in has_smaller}
  if not resolved: raise ValueError
  remaining -= resolved
```
on the list of pairs. Proved here, for pairs over any type with a lawful `==`:

* `kahnAcyclic_fuel` : every fuel `≥ length` gives the same answer — each successful round drops at
  least one pair, so the fuel `length` of the model never runs out (the model IS the unbounded loop);
* `kahnAcyclic_sound` : an accepted pair list has no cycle `x → … → x` (every pair that is reachable
  from a cycle has a predecessor pair, so it and the whole cycle survive every round, and a
  successful run ends with the empty list);
* `kahnAcyclic_complete` : a pair list without a cycle is accepted (a non-empty acyclic list has a
  pair whose smaller bucket is nobody's larger bucket: walk backwards along predecessors, a walk
  longer than the list repeats a pair and closes a cycle), so the check rejects EXACTLY the
  cyclic pair sets: `kahnAcyclic_iff`;
* `acyclic_map` : acyclicity is transported along a map of the buckets that is injective on the
  buckets that occur — the bridge from the rational indices of the validation model to the `Nat`
  indices of the projection model (`Tfl.Poset.Acyclic`).
-/
namespace Tfl.Verify
open Relation

section graph
variable {α : Type}

/-- `(i, j)` is a listed pair -/
def PEdge (ps : List (α × α)) (i j : α) : Prop := (i, j) ∈ ps

/-- no non-empty path `x → … → x` along the listed pairs (`Tfl.Poset.Acyclic` for any bucket type) -/
def PAcyclic (ps : List (α × α)) : Prop := ∀ x, ¬ TransGen (PEdge ps) x x

/-- `x` occurs in a listed pair -/
def PNode (ps : List (α × α)) (x : α) : Prop := ∃ p ∈ ps, p.1 = x ∨ p.2 = x

theorem pacyclic_nat_iff (cs : Tfl.Poset.Pairs) : PAcyclic cs ↔ Tfl.Poset.Acyclic cs := Iff.rfl

theorem pacyclic_nil : PAcyclic ([] : List (α × α)) := by
  intro x hx
  obtain ⟨b, _, hb⟩ := TransGen.tail'_iff.mp hx
  cases hb

theorem pacyclic_of_subset {ps qs : List (α × α)} (hsub : ∀ p ∈ qs, p ∈ ps) (h : PAcyclic ps) : PAcyclic qs := by
  intro x hx
  have key : ∀ a b, TransGen (PEdge qs) a b → TransGen (PEdge ps) a b := by
    intro a b hab
    induction hab with
    | single e => exact .single (hsub _ e)
    | tail _ e ih => exact ih.tail (hsub _ e)
  exact h x (key x x hx)

/-- a non-empty pair list without cycles has a pair whose smaller bucket is nobody's larger bucket
(a minimal element of the finite, transitive, irreflexive reachability order on the pairs) -/
theorem exists_source {ps : List (α × α)} (hne : ps ≠ []) (h : PAcyclic ps) :
    ∃ p ∈ ps, ∀ c, (c, p.1) ∉ ps := by
  classical
  let S := { p // p ∈ ps }
  let r : S → S → Prop := fun a b => TransGen (PEdge ps) a.1.1 b.1.1
  have wf : WellFounded r := by
    have : IsTrans S r := ⟨fun _ _ _ h1 h2 => h1.trans h2⟩
    have : Std.Irrefl r := ⟨fun a => h a.1.1⟩
    exact Finite.wellFounded_of_trans_of_irrefl _
  obtain ⟨p0, hp0⟩ := List.exists_mem_of_ne_nil ps hne
  obtain ⟨m, _, hm⟩ := wf.has_min Set.univ ⟨⟨p0, hp0⟩, Set.mem_univ _⟩
  refine ⟨m.1, m.2, fun c hc => ?_⟩
  exact hm ⟨(c, m.1.1), hc⟩ (Set.mem_univ _) (TransGen.single hc)

/-- acyclicity is transported along a map of the buckets that is injective on the occurring ones -/
theorem pacyclic_map {β : Type} (f : α → β) {ps : List (α × α)}
    (hinj : ∀ a b, PNode ps a → PNode ps b → f a = f b → a = b) (h : PAcyclic ps) :
    PAcyclic (ps.map (fun p => (f p.1, f p.2))) := by
  have lift : ∀ x y, TransGen (PEdge (ps.map (fun p => (f p.1, f p.2)))) x y →
      ∃ a b, f a = x ∧ f b = y ∧ PNode ps a ∧ PNode ps b ∧ TransGen (PEdge ps) a b := by
    intro x y hxy
    induction hxy with
    | single e =>
      obtain ⟨p, hp, hpe⟩ := List.mem_map.mp e
      simp only [Prod.mk.injEq] at hpe
      exact ⟨p.1, p.2, hpe.1, hpe.2, ⟨p, hp, Or.inl rfl⟩, ⟨p, hp, Or.inr rfl⟩, TransGen.single hp⟩
    | tail _ e ih =>
      obtain ⟨a, b, ha, hb, hna, hnb, hab⟩ := ih
      obtain ⟨p, hp, hpe⟩ := List.mem_map.mp e
      simp only [Prod.mk.injEq] at hpe
      have hb1 : p.1 = b := hinj _ _ ⟨p, hp, Or.inl rfl⟩ hnb (hpe.1.trans hb.symm)
      refine ⟨a, p.2, ha, hpe.2, hna, ⟨p, hp, Or.inr rfl⟩, hab.tail ?_⟩
      show (b, p.2) ∈ ps
      rw [← hb1]; exact hp
  intro x hx
  obtain ⟨a, b, ha, hb, hna, hnb, hab⟩ := lift x x hx
  have : a = b := hinj a b hna hnb (ha.trans hb.symm)
  subst this
  exact h a hab

end graph

variable {α : Type} [BEq α] [LawfulBEq α]

theorem mem_kahnStep {ps : List (α × α)} {p : α × α} :
    p ∈ kahnStep ps ↔ p ∈ ps ∧ ∃ c, (c, p.1) ∈ ps := by
  simp only [kahnStep, List.mem_filter, List.any_eq_true, beq_iff_eq]
  constructor
  · rintro ⟨hp, q, hq, e⟩
    exact ⟨hp, q.1, by rw [← e]; exact hq⟩
  · rintro ⟨hp, c, hc⟩
    exact ⟨hp, (c, p.1), hc, rfl⟩

theorem kahnStep_subset (ps : List (α × α)) : ∀ p ∈ kahnStep ps, p ∈ ps :=
  fun _ hp => (mem_kahnStep.mp hp).1

omit [LawfulBEq α] in
theorem kahnStep_length_le (ps : List (α × α)) : (kahnStep ps).length ≤ ps.length :=
  List.length_filter_le _ _

/-! ## the fuel of the model suffices -/

omit [LawfulBEq α] in
theorem kahnAcyclic_fuel_eq : ∀ (f1 f2 : Nat) (ps : List (α × α)), ps.length ≤ f1 → ps.length ≤ f2 →
    kahnAcyclic f1 ps = kahnAcyclic f2 ps := by
  intro f1
  induction f1 with
  | zero =>
    intro f2 ps h1 _
    have : ps = [] := List.eq_nil_of_length_eq_zero (Nat.le_zero.mp h1)
    subst this
    cases f2 <;> simp [kahnAcyclic]
  | succ f1 ih =>
    intro f2 ps h1 h2
    cases f2 with
    | zero =>
      have : ps = [] := List.eq_nil_of_length_eq_zero (Nat.le_zero.mp h2)
      subst this
      simp [kahnAcyclic]
    | succ f2 =>
      simp only [kahnAcyclic]
      by_cases hl : (kahnStep ps).length = ps.length
      · simp [hl]
      · have hlt : (kahnStep ps).length < ps.length := lt_of_le_of_ne (kahnStep_length_le ps) hl
        rw [ih f2 (kahnStep ps) (by omega) (by omega)]

omit [LawfulBEq α] in
/-- **the model is the unbounded Python loop**: any fuel `≥ length` gives the answer of the fuel
`length` the model uses (every round that does not raise drops at least one pair) -/
theorem kahnAcyclic_fuel (f : Nat) (ps : List (α × α)) (h : ps.length ≤ f) :
    kahnAcyclic f ps = kahnAcyclic ps.length ps :=
  kahnAcyclic_fuel_eq f ps.length ps h le_rfl

/-! ## soundness: accepted ⇒ acyclic -/

omit [BEq α] [LawfulBEq α] in
/-- on a cycle through `x`, every bucket reachable from `x` is the larger bucket of some pair -/
theorem pred_of_reachable {ps : List (α × α)} {x a : α} (hc : TransGen (PEdge ps) x x)
    (ha : ReflTransGen (PEdge ps) x a) : ∃ c, (c, a) ∈ ps := by
  rcases ReflTransGen.cases_tail ha with e | ⟨c, _, hca⟩
  · subst e
    obtain ⟨b, _, hb⟩ := TransGen.tail'_iff.mp hc
    exact ⟨b, hb⟩
  · exact ⟨c, hca⟩

/-- every path that starts on a cycle survives a round -/
theorem reach_kahnStep {ps : List (α × α)} {x : α} (hc : TransGen (PEdge ps) x x) :
    ∀ y, ReflTransGen (PEdge ps) x y → ReflTransGen (PEdge (kahnStep ps)) x y := by
  intro y hy
  induction hy with
  | refl => exact .refl
  | tail hab e ih =>
    refine ih.tail ?_
    exact mem_kahnStep.mpr ⟨e, pred_of_reachable hc hab⟩

/-- a cycle survives a round: the pairs on it (and behind it) are never resolved -/
theorem cycle_kahnStep {ps : List (α × α)} {x : α} (hc : TransGen (PEdge ps) x x) :
    TransGen (PEdge (kahnStep ps)) x x := by
  obtain ⟨b, hxb, hbx⟩ := TransGen.tail'_iff.mp hc
  exact TransGen.tail' (reach_kahnStep hc b hxb) (mem_kahnStep.mpr ⟨hbx, pred_of_reachable hc hxb⟩)

/-- **soundness of the cycle check**, for every fuel: a run that ends with `remaining` empty
started from a pair list without cycles -/
theorem kahnAcyclic_sound : ∀ (fuel : Nat) (ps : List (α × α)), kahnAcyclic fuel ps = true → PAcyclic ps := by
  intro fuel
  induction fuel with
  | zero =>
    intro ps h
    simp only [kahnAcyclic, List.isEmpty_iff] at h
    subst h
    exact pacyclic_nil
  | succ fuel ih =>
    intro ps h
    simp only [kahnAcyclic, Bool.or_eq_true, List.isEmpty_iff, Bool.and_eq_true] at h
    rcases h with h | ⟨_, h⟩
    · subst h; exact pacyclic_nil
    · exact fun x hx => ih _ h x (cycle_kahnStep hx)

/-! ## completeness: acyclic ⇒ accepted -/

/-- a round on a non-empty acyclic pair list resolves something -/
theorem kahnStep_length_lt {ps : List (α × α)} (hne : ps ≠ []) (h : PAcyclic ps) :
    (kahnStep ps).length < ps.length := by
  obtain ⟨p, hp, hsrc⟩ := exists_source hne h
  refine List.length_filter_lt_length_iff_exists.mpr ⟨p, hp, ?_⟩
  intro hany
  obtain ⟨q, hq, e⟩ := List.any_eq_true.mp hany
  exact hsrc q.1 (by rw [← beq_iff_eq.mp e]; exact hq)

/-- **completeness of the cycle check**: a pair list without cycles is accepted -/
theorem kahnAcyclic_complete : ∀ (fuel : Nat) (ps : List (α × α)), ps.length ≤ fuel → PAcyclic ps →
    kahnAcyclic fuel ps = true := by
  intro fuel
  induction fuel with
  | zero =>
    intro ps hl _
    have : ps = [] := List.eq_nil_of_length_eq_zero (Nat.le_zero.mp hl)
    subst this
    simp [kahnAcyclic]
  | succ fuel ih =>
    intro ps hl h
    by_cases hne : ps = []
    · subst hne; simp [kahnAcyclic]
    · have hlt := kahnStep_length_lt hne h
      simp only [kahnAcyclic, Bool.or_eq_true, Bool.and_eq_true, bne_iff_ne, ne_eq]
      exact Or.inr ⟨ne_of_lt hlt, ih _ (by omega) (pacyclic_of_subset (kahnStep_subset ps) h)⟩

/-- the round-based check accepts EXACTLY the pair lists without cycles -/
theorem kahnAcyclic_iff (ps : List (α × α)) : kahnAcyclic ps.length ps = true ↔ PAcyclic ps :=
  ⟨kahnAcyclic_sound _ ps, kahnAcyclic_complete _ ps le_rfl⟩

end Tfl.Verify
