import TflModel.Lemmas.TrapezoidFold
import TflModel.Lemmas.EdgeworthOther
/-! C01-T3 with Edgeworth trusts present but no MATCHING Edgeworth trust (`maxBehind` mode): one
iteration translates all vertices behind grid point (0, jn) down by one scalar and all vertices
behind (M-1, jn) up by one scalar. -/
namespace Tfl.Lat
open Tfl
variable {sizes : List Nat}

/-- in `maxBehind` mode an iteration is exactly two `bump`s -/
theorem trapStep_mb_eq (bs : List Idx) (m c M N : Nat) (pos : Bool) (s : TrapState) (j : Nat) :
    (trapStep bs m c M N pos .maxBehind s j).w =
      bump m c (M - 1) (jn N pos j)
        (maxOver bs (rhsDiff (bump m c 0 (jn N pos j) (- maxOver bs (lhsDiff s.w m c N pos j)) s.w) m c M N pos j))
        (bump m c 0 (jn N pos j) (- maxOver bs (lhsDiff s.w m c N pos j)) s.w) := by
  have h1 : (fun idx => if coord idx m = 0 ∧ coord idx c = jn N pos j then
        s.w idx - trapAmount .maxBehind (lhsDiff s.w m c N pos j idx)
          (trapScalar .maxBehind bs (lhsDiff s.w m c N pos j) s.lhs) else s.w idx) =
      bump m c 0 (jn N pos j) (- maxOver bs (lhsDiff s.w m c N pos j)) s.w := by
    funext idx
    simp only [bump, trapAmount, trapScalar]
    split <;> ring
  simp only [trapStep]
  rw [h1]
  funext idx
  simp only [bump, trapAmount, trapScalar, sub_eq_add_neg]

/-- translating everything behind one grid point keeps every order constraint along an axis that
is not a grid axis -/
theorem bump_axisLe_behind {m c a k e : Nat} {V : ℚ} {P : Idx → Prop} (hem : e ≠ m) (hec : e ≠ c) {w : W}
    (h : AxisLe sizes e P w) : AxisLe sizes e P (bump m c a k V w) := by
  intro idx hr hp hlt
  have := h idx hr hp hlt
  simp only [bump, coord_setc_ne _ hem, coord_setc_ne _ hec]
  split <;> linarith
theorem bump_axisGe_behind {m c a k e : Nat} {V : ℚ} {P : Idx → Prop} (hem : e ≠ m) (hec : e ≠ c) {w : W}
    (h : AxisGe sizes e P w) : AxisGe sizes e P (bump m c a k V w) := by
  intro idx hr hp hlt
  have := h idx hr hp hlt
  simp only [bump, coord_setc_ne _ hem, coord_setc_ne _ hec]
  split <;> linarith

/-- lowering row 0 / raising row M-1 keeps monotonicity along the main axis -/
theorem bump_row0_mono_main {m c k : Nat} {V : ℚ} (hV : V ≤ 0) (hm : m < sizes.length) {w : W}
    (h : MonoAx sizes m w) : MonoAx sizes m (bump m c 0 k V w) := by
  intro idx hr hd hlt
  have hl : m < idx.length := by rw [hr.1]; exact hm
  have h0 := h idx hr hd hlt
  simp only [bump, coord_setc_same _ hl]
  have : ¬ (coord idx m + 1 = 0 ∧ coord (setc idx m (coord idx m + 1)) c = k) := by omega
  simp only [this, if_false]
  split <;> linarith
theorem bump_rowM_mono_main {m c k : Nat} {V : ℚ} (hV : 0 ≤ V) (hm : m < sizes.length) {w : W}
    (h : MonoAx sizes m w) : MonoAx sizes m (bump m c (sizes.getD m 0 - 1) k V w) := by
  intro idx hr hd hlt
  have hl : m < idx.length := by rw [hr.1]; exact hm
  have h0 := h idx hr hd hlt
  simp only [bump, coord_setc_same _ hl]
  have : ¬ (coord idx m = sizes.getD m 0 - 1 ∧ coord idx c = k) := by omega
  simp only [this, if_false]
  split <;> linarith

theorem maxOver_nonneg' (bs : List Idx) (f : Idx → ℚ) : 0 ≤ maxOver bs f := maxOver_nonneg bs f

/-- one `maxBehind` iteration, closed form -/
def mbStep (bs : List Idx) (m c M N : Nat) (pos : Bool) (j : Nat) (w : W) : W :=
  bump m c (M - 1) (jn N pos j)
    (maxOver bs (rhsDiff (bump m c 0 (jn N pos j) (- maxOver bs (lhsDiff w m c N pos j)) w) m c M N pos j))
    (bump m c 0 (jn N pos j) (- maxOver bs (lhsDiff w m c N pos j)) w)

/-- monotonicity along every axis other than the conditional one is kept -/
theorem mbStep_mono (tr : Trust) (hwf : TrustWF sizes tr) (j : Nat) {d : Nat} (hd : d < sizes.length)
    (hdc : d ≠ tr.cond) {w : W} (h : MonoAx sizes d w) :
    MonoAx sizes d (mbStep (allIdx sizes) tr.main tr.cond (sizes.getD tr.main 0) (sizes.getD tr.cond 0) tr.pos j w) := by
  unfold mbStep
  by_cases e1 : d = tr.main
  · subst e1
    have hneg : - maxOver (allIdx sizes) (lhsDiff w tr.main tr.cond (sizes.getD tr.cond 0) tr.pos j) ≤ 0 := by
      have := maxOver_nonneg (allIdx sizes) (lhsDiff w tr.main tr.cond (sizes.getD tr.cond 0) tr.pos j)
      linarith
    exact bump_rowM_mono_main (maxOver_nonneg _ _) hwf.1 (bump_row0_mono_main hneg hwf.1 h)
  · rw [monoAx_iff_axisLe _ _ hd] at h ⊢
    exact bump_axisLe_behind e1 hdc (bump_axisLe_behind e1 hdc h)

/-- every Edgeworth trust on another grid is kept -/
theorem mbStep_edgeOK (tr tr' : Trust) (hwf : TrustWF sizes tr) (hwf' : TrustWF sizes tr')
    (hc : Compatible tr tr') (j : Nat) {w : W} (h : EdgeOK sizes tr' w) :
    EdgeOK sizes tr' (mbStep (allIdx sizes) tr.main tr.cond (sizes.getD tr.main 0) (sizes.getD tr.cond 0) tr.pos j w) := by
  have step : ∀ (a k : Nat) (V : ℚ) (w : W), EdgeOK sizes tr' w →
      EdgeOK sizes tr' (bump tr.main tr.cond a k V w) := by
    intro a k V w hw idx hr i j hi hj
    rw [eviol_bump_other (by rw [hr.1]; exact hwf.1) (by rw [hr.1]; exact hwf.2.1)
      (by rw [hr.1]; exact hwf'.1) (by rw [hr.1]; exact hwf'.2.1) hwf'.2.2 hc.1 hc.2.1 hc.2.2]
    exact hw idx hr i j hi hj
  unfold mbStep
  exact step _ _ _ _ (step _ _ _ _ h)

/-- trapezoid trusts with a different conditional axis are kept -/
theorem mbStep_trapOK_other (tr tr' : Trust) (hc1 : tr'.cond ≠ tr.main) (hc2 : tr'.cond ≠ tr.cond) (j : Nat)
    {w : W} (h : TrapOK sizes tr' w) :
    TrapOK sizes tr' (mbStep (allIdx sizes) tr.main tr.cond (sizes.getD tr.main 0) (sizes.getD tr.cond 0) tr.pos j w) := by
  unfold mbStep TrapOK at *
  split
  · rename_i hp; simp only [hp, if_true] at h
    exact ⟨bump_axisGe_behind hc1 hc2 (bump_axisGe_behind hc1 hc2 h.1),
      bump_axisLe_behind hc1 hc2 (bump_axisLe_behind hc1 hc2 h.2)⟩
  · rename_i hp; simp only [hp] at h
    exact ⟨bump_axisLe_behind hc1 hc2 (bump_axisLe_behind hc1 hc2 h.1),
      bump_axisGe_behind hc1 hc2 (bump_axisGe_behind hc1 hc2 h.2)⟩

theorem mbStep_off_column (bs : List Idx) (m c M N : Nat) (pos : Bool) (j : Nat) (w : W) {idx : Idx}
    (h : coord idx c ≠ jn N pos j) : mbStep bs m c M N pos j w idx = w idx := by
  simp [mbStep, bump, h]

theorem mbStep_pair_keep (tr : Trust) (hwf : TrustWF sizes tr) (j : Nat) {w : W} {p : Nat}
    (h1 : jn (sizes.getD tr.cond 0) tr.pos j ≠ p) (h2 : jn (sizes.getD tr.cond 0) tr.pos j ≠ p + 1)
    (h : PairOK sizes tr w p) :
    PairOK sizes tr (mbStep (allIdx sizes) tr.main tr.cond (sizes.getD tr.main 0) (sizes.getD tr.cond 0) tr.pos j w) p := by
  have key : ∀ idx, InRange sizes idx → coord idx tr.cond = p →
      mbStep (allIdx sizes) tr.main tr.cond (sizes.getD tr.main 0) (sizes.getD tr.cond 0) tr.pos j w idx = w idx ∧
      mbStep (allIdx sizes) tr.main tr.cond (sizes.getD tr.main 0) (sizes.getD tr.cond 0) tr.pos j w
          (setc idx tr.cond (coord idx tr.cond + 1)) = w (setc idx tr.cond (coord idx tr.cond + 1)) := by
    intro idx hr hc
    have hl : tr.cond < idx.length := by rw [hr.1]; exact hwf.2.1
    refine ⟨mbStep_off_column _ _ _ _ _ _ _ _ (by omega), mbStep_off_column _ _ _ _ _ _ _ _ ?_⟩
    rw [coord_setc_same _ hl]; omega
  unfold PairOK at *
  split
  · rename_i hp; simp only [hp, if_true] at h
    refine ⟨fun idx hr hP hlt => ?_, fun idx hr hP hlt => ?_⟩
    · rw [(key idx hr hP.2).1, (key idx hr hP.2).2]; exact h.1 idx hr hP hlt
    · rw [(key idx hr hP.2).1, (key idx hr hP.2).2]; exact h.2 idx hr hP hlt
  · rename_i hp; simp only [hp] at h
    refine ⟨fun idx hr hP hlt => ?_, fun idx hr hP hlt => ?_⟩
    · rw [(key idx hr hP.2).1, (key idx hr hP.2).2]; exact h.1 idx hr hP hlt
    · rw [(key idx hr hP.2).1, (key idx hr hP.2).2]; exact h.2 idx hr hP hlt

end Tfl.Lat

namespace Tfl.Lat
open Tfl
variable {sizes : List Nat}

theorem gat_bump_row0_other {m c k : Nat} {V : ℚ} (w : W) {r : Nat} (hr0 : r ≠ 0) {b : Idx} (hg : GridOK m c b)
    (y : Nat) : gat (bump m c 0 k V w) m c r y b = gat w m c r y b := by
  simp only [gat, bump, coord_grid_m hg, hr0, false_and, if_false]

/-- values of one `maxBehind` iteration: two scalars `U`, `R` dominate the violations, the step
subtracts `U` at (row 0, column jn), adds `R` at (row M-1, column jn) and touches nothing else -/
theorem mbStep_values (tr : Trust) (hwf : TrustWF sizes tr) (hM : 2 ≤ sizes.getD tr.main 0) (j : Nat) (w : W) :
    ∃ U R : ℚ,
      (∀ b, InRange sizes b → lhsDiff w tr.main tr.cond (sizes.getD tr.cond 0) tr.pos j b ≤ U) ∧
      (∀ b, InRange sizes b →
        rhsDiff w tr.main tr.cond (sizes.getD tr.main 0) (sizes.getD tr.cond 0) tr.pos j b ≤ R) ∧
      (∀ idx, coord idx tr.main = 0 → coord idx tr.cond = jn (sizes.getD tr.cond 0) tr.pos j →
        mbStep (allIdx sizes) tr.main tr.cond (sizes.getD tr.main 0) (sizes.getD tr.cond 0) tr.pos j w idx = w idx - U) ∧
      (∀ idx, coord idx tr.main = sizes.getD tr.main 0 - 1 →
        coord idx tr.cond = jn (sizes.getD tr.cond 0) tr.pos j →
        mbStep (allIdx sizes) tr.main tr.cond (sizes.getD tr.main 0) (sizes.getD tr.cond 0) tr.pos j w idx = w idx + R) ∧
      (∀ idx, coord idx tr.cond ≠ jn (sizes.getD tr.cond 0) tr.pos j →
        mbStep (allIdx sizes) tr.main tr.cond (sizes.getD tr.main 0) (sizes.getD tr.cond 0) tr.pos j w idx = w idx) := by
  have hM0 : sizes.getD tr.main 0 - 1 ≠ 0 := by omega
  refine ⟨maxOver (allIdx sizes) (lhsDiff w tr.main tr.cond (sizes.getD tr.cond 0) tr.pos j),
    maxOver (allIdx sizes) (rhsDiff (bump tr.main tr.cond 0 (jn (sizes.getD tr.cond 0) tr.pos j)
      (- maxOver (allIdx sizes) (lhsDiff w tr.main tr.cond (sizes.getD tr.cond 0) tr.pos j)) w)
      tr.main tr.cond (sizes.getD tr.main 0) (sizes.getD tr.cond 0) tr.pos j),
    fun b hb => le_maxOver _ _ (mem_allIdx.mpr hb), ?_, ?_, ?_, fun idx h => mbStep_off_column _ _ _ _ _ _ _ _ h⟩
  · intro b hb
    have := le_maxOver (allIdx sizes)
      (rhsDiff (bump tr.main tr.cond 0 (jn (sizes.getD tr.cond 0) tr.pos j)
        (- maxOver (allIdx sizes) (lhsDiff w tr.main tr.cond (sizes.getD tr.cond 0) tr.pos j)) w)
        tr.main tr.cond (sizes.getD tr.main 0) (sizes.getD tr.cond 0) tr.pos j) (mem_allIdx.mpr hb)
    have hg := gridOK_of_inRange hwf hb
    simpa only [rhsDiff, gat_bump_row0_other w hM0 hg] using this
  · intro idx h0 hc
    have : ¬ ((0 : Nat) = sizes.getD tr.main 0 - 1) := by omega
    simp only [mbStep, bump, h0, hc, this, false_and, if_false, true_and, if_true]
    ring
  · intro idx h0 hc
    simp only [mbStep, bump, h0, hc, hM0, false_and, if_false, true_and, if_true]

/-- the iteration establishes the inequalities of its own pair of layers (maxBehind mode) -/
theorem mbStep_pair_establish (tr : Trust) (hwf : TrustWF sizes tr) (hM : 2 ≤ sizes.getD tr.main 0) {j : Nat}
    (hj : j + 1 < sizes.getD tr.cond 0) (w : W) :
    PairOK sizes tr (mbStep (allIdx sizes) tr.main tr.cond (sizes.getD tr.main 0) (sizes.getD tr.cond 0) tr.pos j w)
      (if tr.pos then j else sizes.getD tr.cond 0 - 2 - j) := by
  have hne : tr.main ≠ tr.cond := hwf.2.2
  obtain ⟨U, R, hU, hR, v0, vM, voff⟩ := mbStep_values tr hwf hM j w
  unfold PairOK
  cases hp : tr.pos
  · -- direction −1: pair index jn = N-2-j, jc = jn + 1
    simp only [hp] at hU hR v0 vM voff
    simp only [Bool.false_eq_true, if_false]
    have hjn : jn (sizes.getD tr.cond 0) false j = sizes.getD tr.cond 0 - 2 - j := by simp [jn]
    have hjc : jc (sizes.getD tr.cond 0) false j = (sizes.getD tr.cond 0 - 2 - j) + 1 := by
      simp only [jc, Bool.false_eq_true, if_false]; omega
    refine ⟨fun idx hr hP hlt => ?_, fun idx hr hP hlt => ?_⟩
    · have hl : tr.cond < idx.length := by rw [hr.1]; exact hwf.2.1
      have hg := gridOK_of_inRange hwf hr
      rw [v0 idx hP.1 (by rw [hjn]; exact hP.2), voff _ (by rw [coord_setc_same _ hl, hjn]; omega)]
      have := hU idx hr
      simp only [lhsDiff, hjn, hjc] at this
      have e1 : gat w tr.main tr.cond 0 (sizes.getD tr.cond 0 - 2 - j) idx = w idx := by
        unfold gat; rw [setc_eq_self hg.1 hP.1, setc_eq_self hg.2.1 hP.2]
      have e2 : gat w tr.main tr.cond 0 (sizes.getD tr.cond 0 - 2 - j + 1) idx =
          w (setc idx tr.cond (coord idx tr.cond + 1)) := by
        unfold gat; rw [setc_eq_self hg.1 hP.1, hP.2]
      rw [e1, e2] at this
      linarith
    · have hl : tr.cond < idx.length := by rw [hr.1]; exact hwf.2.1
      have hg := gridOK_of_inRange hwf hr
      rw [vM idx hP.1 (by rw [hjn]; exact hP.2), voff _ (by rw [coord_setc_same _ hl, hjn]; omega)]
      have := hR idx hr
      simp only [rhsDiff, hjn, hjc] at this
      have e1 : gat w tr.main tr.cond (sizes.getD tr.main 0 - 1) (sizes.getD tr.cond 0 - 2 - j) idx = w idx := by
        unfold gat; rw [setc_eq_self hg.1 hP.1, setc_eq_self hg.2.1 hP.2]
      have e2 : gat w tr.main tr.cond (sizes.getD tr.main 0 - 1) (sizes.getD tr.cond 0 - 2 - j + 1) idx =
          w (setc idx tr.cond (coord idx tr.cond + 1)) := by
        unfold gat; rw [setc_eq_self hg.1 hP.1, hP.2]
      rw [e1, e2] at this
      linarith
  · -- direction +1: pair index jc = j, jn = j + 1
    simp only [hp] at hU hR v0 vM voff
    simp only [if_true]
    have hjn : jn (sizes.getD tr.cond 0) true j = j + 1 := by simp [jn]
    have hjc : jc (sizes.getD tr.cond 0) true j = j := by simp [jc]
    refine ⟨fun idx hr hP hlt => ?_, fun idx hr hP hlt => ?_⟩
    · have hl : tr.cond < idx.length := by rw [hr.1]; exact hwf.2.1
      have hg := gridOK_of_inRange hwf hr
      rw [voff idx (by rw [hjn, hP.2]; omega),
        v0 _ (by rw [coord_setc_ne _ (Ne.symm hne)]; exact hP.1) (by rw [coord_setc_same _ hl, hjn, hP.2])]
      have := hU idx hr
      simp only [lhsDiff, hjn, hjc] at this
      have e1 : gat w tr.main tr.cond 0 j idx = w idx := by
        unfold gat; rw [setc_eq_self hg.1 hP.1, setc_eq_self hg.2.1 hP.2]
      have e2 : gat w tr.main tr.cond 0 (j + 1) idx = w (setc idx tr.cond (coord idx tr.cond + 1)) := by
        unfold gat; rw [setc_eq_self hg.1 hP.1, hP.2]
      rw [e1, e2] at this
      linarith
    · have hl : tr.cond < idx.length := by rw [hr.1]; exact hwf.2.1
      have hg := gridOK_of_inRange hwf hr
      rw [voff idx (by rw [hjn, hP.2]; omega),
        vM _ (by rw [coord_setc_ne _ (Ne.symm hne)]; exact hP.1) (by rw [coord_setc_same _ hl, hjn, hP.2])]
      have := hR idx hr
      simp only [rhsDiff, hjn, hjc] at this
      have e1 : gat w tr.main tr.cond (sizes.getD tr.main 0 - 1) j idx = w idx := by
        unfold gat; rw [setc_eq_self hg.1 hP.1, setc_eq_self hg.2.1 hP.2]
      have e2 : gat w tr.main tr.cond (sizes.getD tr.main 0 - 1) (j + 1) idx =
          w (setc idx tr.cond (coord idx tr.cond + 1)) := by
        unfold gat; rw [setc_eq_self hg.1 hP.1, hP.2]
      rw [e1, e2] at this
      linarith

end Tfl.Lat

namespace Tfl.Lat
open Tfl
variable {sizes : List Nat}

/-- iterating a closed-form step over `j = 0 … k-1` -/
def iterF (F : Nat → W → W) (w : W) (k : Nat) : W := (List.range k).foldl (fun v j => F j v) w
theorem iterF_succ (F : Nat → W → W) (w : W) (k : Nat) : iterF F w (k + 1) = F k (iterF F w k) := by
  simp [iterF, List.range_succ, List.foldl_append]

theorem iterF_keeps (F : Nat → W → W) (N : Nat) (Q : W → Prop)
    (hstep : ∀ j v, j + 1 < N → Q v → Q (F j v)) (w : W) (hw : Q w) :
    ∀ k, k ≤ N - 1 → Q (iterF F w k) := by
  intro k
  induction k with
  | zero => intro _; exact hw
  | succ k ih => intro hk; rw [iterF_succ]; exact hstep k _ (by omega) (ih (by omega))

/-- abstract form of the pair accumulation: each iteration establishes its own pair and keeps the
pairs that do not contain the modified column -/
theorem iterF_pairs (tr : Trust) (F : Nat → W → W)
    (hest : ∀ j v, j + 1 < sizes.getD tr.cond 0 →
      PairOK sizes tr (F j v) (if tr.pos then j else sizes.getD tr.cond 0 - 2 - j))
    (hkeep : ∀ j v p, jn (sizes.getD tr.cond 0) tr.pos j ≠ p → jn (sizes.getD tr.cond 0) tr.pos j ≠ p + 1 →
      PairOK sizes tr v p → PairOK sizes tr (F j v) p) (w : W) :
    ∀ k, k ≤ sizes.getD tr.cond 0 - 1 → ∀ p, p + 1 < sizes.getD tr.cond 0 →
      doneAfter (sizes.getD tr.cond 0) tr.pos k p → PairOK sizes tr (iterF F w k) p := by
  intro k
  induction k with
  | zero =>
    intro _ p hp hd
    unfold doneAfter at hd
    cases hpos : tr.pos
    · simp only [hpos, Bool.false_eq_true, if_false] at hd; omega
    · simp only [hpos, if_true] at hd; omega
  | succ k ih =>
    intro hk p hp hd
    rw [iterF_succ]
    have hkN : k + 1 < sizes.getD tr.cond 0 := by omega
    have hest' := hest k (iterF F w k) hkN
    unfold doneAfter at hd
    by_cases hpos : tr.pos = true
    · simp only [hpos, if_true] at hd hest'
      by_cases e : p = k
      · rw [e]; exact hest'
      · exact hkeep k _ p (by simp only [jn, hpos, if_true]; omega) (by simp only [jn, hpos, if_true]; omega)
          (ih (by omega) p hp (by simp only [doneAfter, hpos, if_true]; omega))
    · have hpos' : tr.pos = false := by simpa using hpos
      simp only [hpos', Bool.false_eq_true, if_false] at hd hest'
      by_cases e : p = sizes.getD tr.cond 0 - 2 - k
      · rw [e]; exact hest'
      · exact hkeep k _ p (by simp only [jn, hpos', Bool.false_eq_true, if_false]; omega)
          (by simp only [jn, hpos', Bool.false_eq_true, if_false]; omega)
          (ih (by omega) p hp (by simp only [doneAfter, hpos', Bool.false_eq_true, if_false]; omega))

/-- in `maxBehind` mode the loop is the iteration of `mbStep` -/
theorem trapezoidOne_mb (ew : List Trust) (tr : Trust) (hmode : trapMode ew tr = .maxBehind) (w : W) :
    trapezoidOne sizes ew tr w =
      iterF (mbStep (allIdx sizes) tr.main tr.cond (sizes.getD tr.main 0) (sizes.getD tr.cond 0) tr.pos) w
        (sizes.getD tr.cond 0 - 1) := by
  simp only [trapezoidOne, hmode]
  have key : ∀ k, ((List.range k).foldl
      (trapStep (allIdx sizes) tr.main tr.cond (sizes.getD tr.main 0) (sizes.getD tr.cond 0) tr.pos .maxBehind)
      ⟨w, 0, 0⟩).w =
      iterF (mbStep (allIdx sizes) tr.main tr.cond (sizes.getD tr.main 0) (sizes.getD tr.cond 0) tr.pos) w k := by
    intro k
    induction k with
    | zero => rfl
    | succ k ih =>
      rw [iterF_succ, List.range_succ, List.foldl_append]
      simp only [List.foldl_cons, List.foldl_nil]
      rw [trapStep_mb_eq, ih]
      rfl
  exact key _

/-- **C01-T3 (`maxBehind` mode: Edgeworth trusts present, none matching this trust).** The projection
of one trapezoid trust establishes it from ANY input, keeps monotonicity along every axis except
possibly its conditional axis, keeps every Edgeworth trust on another grid and every trapezoid
trust with another conditional axis. -/
theorem trapezoidOne_mb_spec (ew : List Trust) (tr : Trust) (hmode : trapMode ew tr = .maxBehind)
    (hwf : TrustWF sizes tr) (hM : 2 ≤ sizes.getD tr.main 0) (w : W) :
    TrapOK sizes tr (trapezoidOne sizes ew tr w) ∧
    (∀ d, d < sizes.length → d ≠ tr.cond → MonoAx sizes d w → MonoAx sizes d (trapezoidOne sizes ew tr w)) ∧
    (∀ tr', TrustWF sizes tr' → Compatible tr tr' → EdgeOK sizes tr' w →
      EdgeOK sizes tr' (trapezoidOne sizes ew tr w)) ∧
    (∀ tr', tr'.cond ≠ tr.main → tr'.cond ≠ tr.cond → TrapOK sizes tr' w →
      TrapOK sizes tr' (trapezoidOne sizes ew tr w)) := by
  rw [trapezoidOne_mb ew tr hmode]
  refine ⟨?_, fun d hd hdc hm => ?_, fun tr' hwf' hc he => ?_, fun tr' h1 h2 ht => ?_⟩
  · apply trapOK_of_pairs
    intro p hp
    apply iterF_pairs tr _ (fun j v hj => mbStep_pair_establish tr hwf hM hj v)
      (fun j v p h1 h2 h => mbStep_pair_keep tr hwf j h1 h2 h) w _ le_rfl p hp
    unfold doneAfter
    cases tr.pos
    · simp only [Bool.false_eq_true, if_false]; omega
    · simp only [if_true]; omega
  · exact iterF_keeps _ (sizes.getD tr.cond 0) (MonoAx sizes d)
      (fun j v _ hv => mbStep_mono tr hwf j hd hdc hv) w hm _ le_rfl
  · exact iterF_keeps _ (sizes.getD tr.cond 0) (EdgeOK sizes tr')
      (fun j v _ hv => mbStep_edgeOK tr tr' hwf hwf' hc j hv) w he _ le_rfl
  · exact iterF_keeps _ (sizes.getD tr.cond 0) (TrapOK sizes tr')
      (fun j v _ hv => mbStep_trapOK_other tr tr' h1 h2 j hv) w ht _ le_rfl

end Tfl.Lat

namespace Tfl.Lat
open Tfl
variable {sizes : List Nat}

/-- the whole trapezoid stage when every trapezoid trust is in `maxBehind` mode -/
theorem approxTrapezoid_mb_spec (ew : List Trust) (hew : ∀ e ∈ ew, TrustWF sizes e) :
    ∀ (trs : List Trust),
      (∀ tr ∈ trs, trapMode ew tr = .maxBehind ∧ TrustWF sizes tr ∧ 2 ≤ sizes.getD tr.main 0 ∧
        ∀ e ∈ ew, Compatible tr e) →
      (∀ a ∈ trs, ∀ b ∈ trs, b.cond ≠ a.main) →
      trs.Pairwise (fun a b => a.cond ≠ b.cond) →
      ∀ (w : W) (done : List Trust),
        (∀ a ∈ done, ∀ b ∈ trs, a.cond ≠ b.main ∧ a.cond ≠ b.cond) →
        (∀ tr ∈ done, TrapOK sizes tr w) → (∀ e ∈ ew, EdgeOK sizes e w) →
        (∀ tr, tr ∈ done ∨ tr ∈ trs → TrapOK sizes tr (approxTrapezoid sizes ew trs w)) ∧
        (∀ e ∈ ew, EdgeOK sizes e (approxTrapezoid sizes ew trs w)) ∧
        (∀ d, d < sizes.length → (∀ tr ∈ trs, d ≠ tr.cond) → MonoAx sizes d w →
          MonoAx sizes d (approxTrapezoid sizes ew trs w)) := by
  intro trs
  induction trs with
  | nil =>
    intro _ _ _ w done _ hd he
    exact ⟨fun tr h => (by rcases h with h | h; exact hd tr h; cases h), he, fun d _ _ h => h⟩
  | cons t r ih =>
    intro hwf hroles hdist w done hcomp hd he
    rw [List.pairwise_cons] at hdist
    obtain ⟨hmode, hwt, hM, hce⟩ := hwf t (List.mem_cons_self ..)
    obtain ⟨h1, h2, h3, h4⟩ := trapezoidOne_mb_spec (sizes := sizes) ew t hmode hwt hM w
    have := ih (fun x hx => hwf x (List.mem_cons_of_mem _ hx))
      (fun a ha b hb => hroles a (List.mem_cons_of_mem _ ha) b (List.mem_cons_of_mem _ hb)) hdist.2
      (trapezoidOne sizes ew t w) (done ++ [t])
      (fun a ha b hb => by
        rcases List.mem_append.mp ha with h | h
        · exact hcomp a h b (List.mem_cons_of_mem _ hb)
        · simp at h; subst h
          exact ⟨hroles b (List.mem_cons_of_mem _ hb) a (List.mem_cons_self ..), hdist.1 b hb⟩)
      (fun x hx => by
        rcases List.mem_append.mp hx with h | h
        · exact h4 x (hcomp x h t (List.mem_cons_self ..)).1 (hcomp x h t (List.mem_cons_self ..)).2 (hd x h)
        · simp at h; subst h; exact h1)
      (fun e hee => h3 e (hew e hee) (hce e hee) (he e hee))
    refine ⟨fun tr htr => ?_, this.2.1, fun d hd' hnc hm => ?_⟩
    · apply this.1
      rcases htr with h | h
      · exact Or.inl (List.mem_append_left _ h)
      · rcases List.mem_cons.mp h with e | e
        · exact Or.inl (by simp [e])
        · exact Or.inr e
    · exact this.2.2 d hd' (fun tr htr => hnc tr (List.mem_cons_of_mem _ htr))
        (h2 d hd' (hnc t (List.mem_cons_self ..)) hm)

end Tfl.Lat
