import TflModel.Lemmas.Trapezoid
/-! The `for j` loop of the per-element trapezoid projection (no Edgeworth trusts configured). -/
namespace Tfl.Lat
open Tfl
variable {sizes : List Nat}

/-- the loop state after the first `k` iterations -/
def trapLoop (sizes : List Nat) (tr : Trust) (w : W) (k : Nat) : TrapState :=
  (List.range k).foldl
    (trapStep (allIdx sizes) tr.main tr.cond (sizes.getD tr.main 0) (sizes.getD tr.cond 0) tr.pos .perElement)
    ⟨w, 0, 0⟩

theorem trapLoop_succ (tr : Trust) (w : W) (k : Nat) :
    trapLoop sizes tr w (k + 1) =
      trapStep (allIdx sizes) tr.main tr.cond (sizes.getD tr.main 0) (sizes.getD tr.cond 0) tr.pos .perElement
        (trapLoop sizes tr w k) k := by
  simp [trapLoop, List.range_succ, List.foldl_append]

theorem trapezoidOne_pe (tr : Trust) (w : W) :
    trapezoidOne sizes [] tr w = (trapLoop sizes tr w (sizes.getD tr.cond 0 - 1)).w := by
  simp [trapezoidOne, trapLoop, trapMode]

/-- any property of kernels that respects agreement on the box and is kept by every closed-form
iteration is kept by the whole loop -/
theorem trapLoop_keeps (tr : Trust) (hwf : TrustWF sizes tr) (hM : 2 ≤ sizes.getD tr.main 0)
    (Q : W → Prop) (hcongr : ∀ f g, AgreeOn sizes f g → Q f → Q g)
    (hstep : ∀ j v, j + 1 < sizes.getD tr.cond 0 → Q v →
      Q (peStep tr.main tr.cond (sizes.getD tr.main 0) (jn (sizes.getD tr.cond 0) tr.pos j)
        (jc (sizes.getD tr.cond 0) tr.pos j) v))
    (w : W) (hw : Q w) : ∀ k, k ≤ sizes.getD tr.cond 0 - 1 → Q (trapLoop sizes tr w k).w := by
  intro k
  induction k with
  | zero => intro _; exact hw
  | succ k ih =>
    intro hk
    rw [trapLoop_succ]
    exact hcongr _ _ (peStep_agree tr hwf hM _ k).symm (hstep k _ (by omega) (ih (by omega)))

/-- pairs already processed after `k` iterations -/
def doneAfter (N : Nat) (pos : Bool) (k p : Nat) : Prop := if pos then p < k else N - 1 - k ≤ p

theorem trapLoop_pairs (tr : Trust) (hwf : TrustWF sizes tr) (hM : 2 ≤ sizes.getD tr.main 0) (w : W) :
    ∀ k, k ≤ sizes.getD tr.cond 0 - 1 → ∀ p, p + 1 < sizes.getD tr.cond 0 →
      doneAfter (sizes.getD tr.cond 0) tr.pos k p → PairOK sizes tr (trapLoop sizes tr w k).w p := by
  intro k
  induction k with
  | zero =>
    intro _ p hp hd
    unfold doneAfter at hd
    cases hpos : tr.pos
    · simp only [hpos, Bool.false_eq_true, if_false] at hd; omega
    · simp only [hpos, if_true] at hd; omega
  | succ k ih =>
    intro hk p hp hd
    rw [trapLoop_succ]
    refine PairOK.congr (peStep_agree tr hwf hM _ k).symm ?_
    have hkN : k + 1 < sizes.getD tr.cond 0 := by omega
    have hest := peStep_pair_establish tr hwf hM hkN (trapLoop sizes tr w k).w
    unfold doneAfter at hd
    cases hpos : tr.pos
    · -- direction −1: the new pair is N-2-k, older pairs are above it
      simp only [hpos, Bool.false_eq_true, if_false] at hd hest
      by_cases e : p = sizes.getD tr.cond 0 - 2 - k
      · rw [e]; simpa [hpos] using hest
      · have hold : PairOK sizes tr (trapLoop sizes tr w k).w p :=
          ih (by omega) p hp (by simp only [doneAfter, hpos, Bool.false_eq_true, if_false]; omega)
        have := peStep_pair_keep tr hwf (sizes.getD tr.main 0) (jn (sizes.getD tr.cond 0) tr.pos k)
          (jc (sizes.getD tr.cond 0) tr.pos k) (p := p)
          (by simp only [jn, hpos, Bool.false_eq_true, if_false]; omega)
          (by simp only [jn, hpos, Bool.false_eq_true, if_false]; omega) hold
        simpa only [hpos] using this
    · simp only [hpos, if_true] at hd hest
      by_cases e : p = k
      · rw [e]; simpa [hpos] using hest
      · have hold : PairOK sizes tr (trapLoop sizes tr w k).w p :=
          ih (by omega) p hp (by simp only [doneAfter, hpos, if_true]; omega)
        have := peStep_pair_keep tr hwf (sizes.getD tr.main 0) (jn (sizes.getD tr.cond 0) tr.pos k)
          (jc (sizes.getD tr.cond 0) tr.pos k) (p := p)
          (by simp only [jn, hpos, if_true]; omega) (by simp only [jn, hpos, if_true]; omega) hold
        simpa only [hpos] using this

/-- **C01-T3 (no Edgeworth trusts).** The per-element trapezoid projection of one trust establishes
that trust from ANY input, keeps monotonicity along every axis and keeps the trapezoid inequalities
of every other trust (also one sharing the conditional axis). -/
theorem trapezoidOne_pe_spec (tr : Trust) (hwf : TrustWF sizes tr) (hM : 2 ≤ sizes.getD tr.main 0)
    (hN : 1 ≤ sizes.getD tr.cond 0) (w : W) :
    TrapOK sizes tr (trapezoidOne sizes [] tr w) ∧
    (∀ d, d < sizes.length → MonoAx sizes d w → MonoAx sizes d (trapezoidOne sizes [] tr w)) ∧
    (∀ tr', TrustWF sizes tr' → tr'.cond ≠ tr.main → tr'.main ≠ tr.cond → TrapOK sizes tr' w →
      TrapOK sizes tr' (trapezoidOne sizes [] tr w)) := by
  rw [trapezoidOne_pe]
  refine ⟨?_, fun d hd hm => ?_, fun tr' hwf' h1 h2 ht => ?_⟩
  · apply trapOK_of_pairs
    intro p hp
    apply trapLoop_pairs tr hwf hM w _ le_rfl p hp
    unfold doneAfter
    cases tr.pos
    · simp only [Bool.false_eq_true, if_false]; omega
    · simp only [if_true]; omega
  · exact trapLoop_keeps tr hwf hM (MonoAx sizes d) (fun f g hfg hf => hf.congr hfg)
      (fun j v hj hv => peStep_mono tr hwf hj hd hv) w hm _ le_rfl
  · exact trapLoop_keeps tr hwf hM (TrapOK sizes tr') (fun f g hfg hf => hf.congr hfg)
      (fun j v hj hv => peStep_trapOK_other tr tr' hwf hwf' h1 h2 hj hv) w ht _ le_rfl

/-- affine maps with positive slope keep the trapezoid inequalities -/
theorem AffinePos_axisLe {e : Nat} {P : Idx → Prop} {f g : W} (h : ∃ s b : ℚ, 0 < s ∧ ∀ idx, g idx = s * f idx + b)
    (hf : AxisLe sizes e P f) : AxisLe sizes e P g := by
  obtain ⟨s, b, hs, hg⟩ := h
  intro idx hr hp hlt
  rw [hg, hg]
  have := hf idx hr hp hlt
  nlinarith [mul_le_mul_of_nonneg_left this hs.le]
theorem AffinePos_axisGe {e : Nat} {P : Idx → Prop} {f g : W} (h : ∃ s b : ℚ, 0 < s ∧ ∀ idx, g idx = s * f idx + b)
    (hf : AxisGe sizes e P f) : AxisGe sizes e P g := by
  obtain ⟨s, b, hs, hg⟩ := h
  intro idx hr hp hlt
  rw [hg, hg]
  have := hf idx hr hp hlt
  nlinarith [mul_le_mul_of_nonneg_left this hs.le]
theorem AffinePos_trapOK {tr : Trust} {f g : W} (h : ∃ s b : ℚ, 0 < s ∧ ∀ idx, g idx = s * f idx + b)
    (hf : TrapOK sizes tr f) : TrapOK sizes tr g := by
  unfold TrapOK at *
  split
  · rename_i hp; simp only [hp, if_true] at hf; exact ⟨AffinePos_axisGe h hf.1, AffinePos_axisLe h hf.2⟩
  · rename_i hp; simp only [hp] at hf; exact ⟨AffinePos_axisLe h hf.1, AffinePos_axisGe h hf.2⟩

end Tfl.Lat

namespace Tfl.Lat
open Tfl
variable {sizes : List Nat}

/-- the whole trapezoid stage without Edgeworth trusts: every listed trust holds afterwards and
monotonicity along every axis is kept (no main feature is a conditional feature) -/
theorem approxTrapezoid_pe_spec :
    ∀ (trs : List Trust), (∀ tr ∈ trs, TrustWF sizes tr ∧ 2 ≤ sizes.getD tr.main 0 ∧ 1 ≤ sizes.getD tr.cond 0) →
      (∀ a ∈ trs, ∀ b ∈ trs, b.cond ≠ a.main) →
      ∀ (w : W) (done : List Trust), (∀ tr ∈ done, TrustWF sizes tr) →
        (∀ a ∈ done, ∀ b ∈ trs, a.cond ≠ b.main ∧ a.main ≠ b.cond) →
        (∀ tr ∈ done, TrapOK sizes tr w) →
        (∀ tr, tr ∈ done ∨ tr ∈ trs → TrapOK sizes tr (approxTrapezoid sizes [] trs w)) ∧
        (∀ d, d < sizes.length → MonoAx sizes d w → MonoAx sizes d (approxTrapezoid sizes [] trs w)) := by
  intro trs
  induction trs with
  | nil =>
    intro _ _ w done _ _ hd
    exact ⟨fun tr h => (by rcases h with h | h; exact hd tr h; cases h), fun d _ h => h⟩
  | cons t r ih =>
    intro hwf hmc w done hdwf hcomp hd
    obtain ⟨hwt, hM, hN⟩ := hwf t (List.mem_cons_self ..)
    obtain ⟨h1, h2, h3⟩ := trapezoidOne_pe_spec t hwt hM hN w
    have := ih (fun x hx => hwf x (List.mem_cons_of_mem _ hx))
      (fun a ha b hb => hmc a (List.mem_cons_of_mem _ ha) b (List.mem_cons_of_mem _ hb))
      (trapezoidOne sizes [] t w) (done ++ [t])
      (fun x hx => by
        rcases List.mem_append.mp hx with h | h
        · exact hdwf x h
        · simp at h; subst h; exact hwt)
      (fun a ha b hb => by
        rcases List.mem_append.mp ha with h | h
        · exact hcomp a h b (List.mem_cons_of_mem _ hb)
        · simp at h; subst h
          exact ⟨hmc b (List.mem_cons_of_mem _ hb) a (List.mem_cons_self ..),
            (hmc a (List.mem_cons_self ..) b (List.mem_cons_of_mem _ hb)).symm⟩)
      (fun x hx => by
        rcases List.mem_append.mp hx with h | h
        · exact h3 x (hdwf x h) (hcomp x h t (List.mem_cons_self ..)).1 (hcomp x h t (List.mem_cons_self ..)).2 (hd x h)
        · simp at h; subst h; exact h1)
    refine ⟨fun tr htr => ?_, fun d hd' hm => ?_⟩
    · apply this.1
      rcases htr with h | h
      · exact Or.inl (List.mem_append_left _ h)
      · rcases List.mem_cons.mp h with e | e
        · exact Or.inl (by simp [e])
        · exact Or.inr e
    · exact this.2 d hd' (h2 d hd' hm)

end Tfl.Lat
