import TflModel.Lemmas.Linear
/-! Lemmas about `Tfl.Linear.call` (the clipped affine function) used by `Props/C20.lean`. -/
namespace Tfl.Linear
open Tfl Tfl.Poset

/-- bound of input `i` (`none` = the `∓inf` fill of `Linear.build`) -/
def getO (l : List (Option Rat)) (i : Nat) : Option Rat := l.getD i none

theorem getO_tail (l : List (Option Rat)) (i : Nat) : getO l.tail i = getO l (i + 1) := by
  cases l <;> simp [getO]

theorem headD_eq_getO (l : List (Option Rat)) : l.head?.getD none = getO l 0 := by
  cases l <;> simp [getO]

/-! ### `clipBV` -/

theorem clipBV_mono (lo hi : Option Rat) {x y : Rat} (h : x ≤ y) : clipBV x lo hi ≤ clipBV y lo hi := by
  unfold clipBV
  cases lo <;> cases hi <;> simp only
  · exact h
  · exact min_le_min h le_rfl
  · exact max_le_max h le_rfl
  · exact min_le_min (max_le_max h le_rfl) le_rfl

theorem clipBV_le_hi (lo : Option Rat) (h x : Rat) : clipBV x lo (some h) ≤ h := by
  unfold clipBV; exact min_le_right _ _

theorem clipBV_ge_lo (l : Rat) (hi : Option Rat) (x : Rat) (hb : ∀ h, hi = some h → l ≤ h) :
    l ≤ clipBV x (some l) hi := by
  unfold clipBV
  cases hi <;> simp only
  · exact le_max_right _ _
  · exact le_min (le_max_right _ _) (hb _ rfl)

theorem clipBV_id (lo hi : Option Rat) (x : Rat) (h1 : ∀ l, lo = some l → l ≤ x)
    (h2 : ∀ h, hi = some h → x ≤ h) : clipBV x lo hi = x := by
  unfold clipBV
  cases lo <;> cases hi <;> simp only
  · exact min_eq_left (h2 _ rfl)
  · exact max_eq_left (h1 _ rfl)
  · rw [max_eq_left (h1 _ rfl)]; exact min_eq_left (h2 _ rfl)

/-! ### `clipInputs`, `dot` -/

theorem length_clipInputs (x : List Rat) (los his : List (Option Rat)) :
    (clipInputs x los his).length = x.length := by
  induction x generalizing los his with
  | nil => rfl
  | cons a xs ih => simp [clipInputs, ih]

theorem getV_clipInputs (x : List Rat) (los his : List (Option Rat)) {i : Nat} (hi : i < x.length) :
    getV (clipInputs x los his) i = clipBV (getV x i) (getO los i) (getO his i) := by
  induction x generalizing los his i with
  | nil => simp at hi
  | cons a xs ih => cases i with
    | zero => simp [clipInputs, getV, headD_eq_getO]
    | succ i =>
      have := ih los.tail his.tail (i := i) (by simpa using hi)
      simpa [clipInputs, getV, getO_tail] using this

theorem clipInputs_set (x : List Rat) (los his : List (Option Rat)) (i : Nat) (v : Rat) :
    clipInputs (x.set i v) los his =
      (clipInputs x los his).set i (clipBV v (getO los i) (getO his i)) := by
  induction x generalizing los his i with
  | nil => simp [clipInputs]
  | cons a xs ih => cases i with
    | zero => simp [clipInputs, headD_eq_getO]
    | succ i => simp [clipInputs, ih, getO_tail]

theorem dot_set (k xs : List Rat) (i : Nat) (v : Rat) (hi : i < xs.length) :
    dot k (xs.set i v) = dot k xs + getV k i * (v - getV xs i) := by
  induction k generalizing xs i with
  | nil => cases xs <;> simp [dot, getV]
  | cons a ks ih => cases xs with
    | nil => simp at hi
    | cons b bs => cases i with
      | zero => simp only [List.set_cons_zero, dot, getV, List.getD_cons_zero]; ring
      | succ i =>
        have := ih bs i (by simpa using hi)
        simp only [List.set_cons_succ, dot, getV, List.getD_cons_succ] at this ⊢
        rw [this]; ring

/-- changing one input changes the output by `kernel_i` times the change of the clipped input -/
theorem call_set (k : List Rat) (b : Option Rat) (los his : List (Option Rat)) (x : List Rat)
    (i : Nat) (v : Rat) (hi : i < x.length) :
    call k b los his (x.set i v) = call k b los his x +
      getV k i * (clipBV v (getO los i) (getO his i) - clipBV (getV x i) (getO los i) (getO his i)) := by
  unfold call
  rw [clipInputs_set, dot_set _ _ _ _ (by rw [length_clipInputs]; exact hi), getV_clipInputs _ _ _ hi]
  ring

theorem call_set_of_le (k : List Rat) (b : Option Rat) (los his : List (Option Rat)) (x : List Rat)
    (i : Nat) (v : Rat) (hi : x.length ≤ i) : call k b los his (x.set i v) = call k b los his x := by
  rw [List.set_eq_of_length_le hi]

/-- the index form of the dot product: `Σ_{i < n} k_i · c_i` -/
theorem dot_eq_rsum (k c : List Rat) :
    dot k c = rsum ((List.range c.length).map (fun i => getV k i * getV c i)) := by
  induction c generalizing k with
  | nil => cases k <;> simp [dot, rsum]
  | cons y ys ih => cases k with
    | nil =>
      simp only [dot, getV, List.getD_nil, zero_mul]
      have : ∀ l : List Nat, rsum (l.map (fun _ => (0 : Rat))) = 0 := by
        intro l; induction l with
        | nil => rfl
        | cons a l ih => simp only [List.map_cons, rsum, ih, add_zero]
      exact (this _).symm
    | cons a ks =>
      simp only [dot, List.length_cons, List.range_succ_eq_map, List.map_cons, List.map_map, rsum]
      rw [ih ks]
      simp [getV, Function.comp_def]

/-- a convex combination lies between any bounds of its entries -/
theorem dot_between (k c : List Rat) (m M : Rat) (hlen : k.length = c.length)
    (hk : ∀ i, 0 ≤ getV k i) (hc : ∀ i, i < c.length → m ≤ getV c i ∧ getV c i ≤ M) :
    m * rsum k ≤ dot k c ∧ dot k c ≤ M * rsum k := by
  induction k generalizing c with
  | nil => cases c <;> simp [dot, rsum]
  | cons a ks ih => cases c with
    | nil => simp at hlen
    | cons y ys =>
      have h0 := hc 0 (by simp)
      simp only [getV, List.getD_cons_zero] at h0
      have ha : 0 ≤ a := by simpa [getV] using hk 0
      have := ih ys (by simpa using hlen) (fun i => by simpa [getV] using hk (i + 1))
        (fun i hi => by simpa [getV] using hc (i + 1) (by simpa using hi))
      simp only [dot, rsum]
      constructor
      · nlinarith [this.1, mul_le_mul_of_nonneg_left h0.1 ha]
      · nlinarith [this.2, mul_le_mul_of_nonneg_left h0.2 ha]

/-- input range used by the range-dominance scaling: `max - min` when both are given, else 1 -/
def rangeOf : Option Rat → Option Rat → Rat
  | some l, some h => h - l
  | _, _ => 1

/-- `scalingsAll` (the scalings of `assert_constraints`) entry-wise -/
theorem scalingsAll_spec (ms : List Int) (los his : List (Option Rat)) {i : Nat} (hi : i < ms.length) :
    getV (scalingsAll ms los his) i =
      (if getM ms i = -1 then -1 else 1) * rangeOf (getO los i) (getO his i) := by
  induction ms generalizing los his i with
  | nil => simp at hi
  | cons m ms ih => cases i with
    | zero =>
      rcases los with _ | ⟨_ | l, ls⟩ <;> rcases his with _ | ⟨_ | h, hs⟩ <;>
        simp [scalingsAll, getV, getM, getO, rangeOf]
    | succ i =>
      have := ih los.tail his.tail (i := i) (by simpa using hi)
      simpa [scalingsAll, getV, getM, getO_tail] using this

theorem scalingsFrom_length (rd : Pairs) (ms : List Int) : ∀ (k : Nat) (los his : List (Option Rat)),
    (scalingsFrom rd k ms los his).length = ms.length := by
  induction ms with
  | nil => intro k los his; rfl
  | cons m ms ih => intro k los his; simp [scalingsFrom, ih]

theorem scalings_length (ms : List Int) (rd : Pairs) (los his : List (Option Rat)) :
    (scalings ms rd los his).length = ms.length := scalingsFrom_length rd ms 0 los his

theorem scalingsFrom_spec (rd : Pairs) (ms : List Int) : ∀ (k : Nat) (los his : List (Option Rat)) {i : Nat},
    i < ms.length →
    getV (scalingsFrom rd k ms los his) i =
      (if getM ms i = -1 then -1 else 1) *
        (if inPairs rd (k + i) then rangeOf (getO los i) (getO his i) else 1) := by
  induction ms with
  | nil => intro k los his i hi; simp at hi
  | cons m ms ih =>
    intro k los his i hi
    cases i with
    | zero =>
      rcases los with _ | ⟨_ | l, ls⟩ <;> rcases his with _ | ⟨_ | h, hs⟩ <;>
        simp [scalingsFrom, getV, getM, getO, rangeOf]
    | succ i =>
      have := ih (k + 1) los.tail his.tail (i := i) (by simpa using hi)
      have e : k + 1 + i = k + (i + 1) := by omega
      rw [e] at this
      simpa [scalingsFrom, getV, getM, getO_tail] using this

/-- `scalings` (the scalings of `project`, fix 44c9e89) entry-wise: the range only on the dimensions
of the range-dominance pairs -/
theorem scalings_spec (ms : List Int) (rd : Pairs) (los his : List (Option Rat)) {i : Nat} (hi : i < ms.length) :
    getV (scalings ms rd los his) i =
      (if getM ms i = -1 then -1 else 1) *
        (if inPairs rd i then rangeOf (getO los i) (getO his i) else 1) := by
  have := scalingsFrom_spec rd ms 0 los his hi
  simpa [scalings] using this

theorem inPairs_of_mem {rd : Pairs} {c : Nat × Nat} (hc : c ∈ rd) : inPairs rd c.1 = true ∧ inPairs rd c.2 = true := by
  simp only [inPairs, List.any_eq_true, Bool.or_eq_true, beq_iff_eq]
  exact ⟨⟨c, hc, Or.inl rfl⟩, ⟨c, hc, Or.inr rfl⟩⟩

/-- on the dimensions of the range-dominance pairs `project` and `assert_constraints` use the same
scalings -/
theorem scalings_eq_all (ms : List Int) (rd : Pairs) (los his : List (Option Rat)) {i : Nat}
    (hi : i < ms.length) (hp : inPairs rd i = true) :
    getV (scalings ms rd los his) i = getV (scalingsAll ms los his) i := by
  rw [scalings_spec ms rd los his hi, scalingsAll_spec ms los his hi, hp]; simp

/-- a dimension outside every range-dominance pair is scaled by `±1` -/
theorem scalings_outside (ms : List Int) (rd : Pairs) (los his : List (Option Rat)) {i : Nat}
    (hi : i < ms.length) (hp : inPairs rd i = false) :
    getV (scalings ms rd los his) i = (if getM ms i = -1 then -1 else 1) := by
  rw [scalings_spec ms rd los his hi, hp]; simp

end Tfl.Linear
