import TflModel.Lemmas.LatticeMono
import TflModel.Lemmas.EdgeworthOther
import TflModel.Lemmas.Bounds
/-! The executable (table) versions agree, on every vertex of the box, with the function-level
definitions the theorems are about: each step is local, and tabulation is the identity on the box. -/
namespace Tfl.Lat
open Tfl

theorem local_foldl {α : Type} {sizes : List Nat} (S : W → α → W) (l : List α)
    (h : ∀ a ∈ l, Local sizes (fun w => S w a)) : Local sizes (fun w => l.foldl S w) := by
  induction l with
  | nil => intro f g hfg; exact hfg
  | cons a r ih =>
    intro f g hfg
    simp only [List.foldl_cons]
    exact ih (fun x hx => h x (List.mem_cons_of_mem _ hx)) _ _ (h a (List.mem_cons_self ..) f g hfg)

theorem foldl_runStage_agree' {α : Type} {sizes : List Nat} (S : W → α → W) (l : List α)
    (hS : ∀ a ∈ l, Local sizes (fun w => S w a)) :
    ∀ {t : Table} {f : W}, AgreeOn sizes t.get f →
      AgreeOn sizes (l.foldl (fun t a => runStage sizes (fun w => S w a) t) t).get (l.foldl S f) := by
  induction l with
  | nil => intro t f h; exact h
  | cons a l ih =>
    intro t f h
    exact ih (fun x hx => hS x (List.mem_cons_of_mem _ hx)) (runStage_agree (hS a (List.mem_cons_self ..)) h)

/-! ### monotonicity -/
theorem approxMonoT_agree (sizes : List Nat) (mono : List Bool) {t : Table} {f : W}
    (h : AgreeOn sizes t.get f) : AgreeOn sizes (approxMonoT sizes mono t).get (approxMono sizes mono f) := by
  unfold approxMonoT approxMono
  have hd : ∀ d ∈ monoDims sizes mono, d < sizes.length := fun d hd => (mem_monoDims.mp hd).1
  have hmx := foldl_runStage_agree' (sizes := sizes) (fun w d => cummaxAx w d) (monoDims sizes mono)
    (fun d hd' => cummaxAx_local sizes (hd d hd')) h
  have hhalf : AgreeOn sizes
      (tabulate sizes (fun idx => (t.get idx +
        ((monoDims sizes mono).foldl (fun acc d => runStage sizes (fun w => cummaxAx w d) acc) t).get idx) / 2)).get
      (fun idx => (f idx + ((monoDims sizes mono).foldl (fun acc d => cummaxAx acc d) f) idx) / 2) := by
    intro idx hr
    rw [get_tabulate' _ hr, h idx hr, hmx idx hr]
  exact foldl_runStage_agree' (sizes := sizes) (fun w d => cumminAx w d (sizes.getD d 0)) (monoDims sizes mono)
    (fun d hd' => cumminAx_local sizes (hd d hd')) hhalf

/-! ### Edgeworth -/
theorem gat_agree {sizes : List Nat} {f g : W} (h : AgreeOn sizes f g) {m c i j : Nat} {b : Idx}
    (hb : InRange sizes b) (hi : i < sizes.getD m 0) (hj : j < sizes.getD c 0) :
    gat f m c i j b = gat g m c i j b :=
  h _ (inRange_setc (inRange_setc hb hi) hj)

theorem eviol_agree {sizes : List Nat} {f g : W} (h : AgreeOn sizes f g) {m c i j : Nat} {b : Idx}
    (hb : InRange sizes b) (hi : i + 1 < sizes.getD m 0) (hj : j + 1 < sizes.getD c 0) :
    eviol f m c i j b = eviol g m c i j b := by
  simp only [eviol, gat_agree h hb hi hj, gat_agree h hb (Nat.lt_of_succ_lt hi) hj,
    gat_agree h hb hi (Nat.lt_of_succ_lt hj), gat_agree h hb (Nat.lt_of_succ_lt hi) (Nat.lt_of_succ_lt hj)]

theorem estepPos_local (sizes : List Nat) (m c : Nat) (p : Nat × Nat) (hi : p.1 + 1 < sizes.getD m 0)
    (hj : p.2 + 1 < sizes.getD c 0) : Local sizes (fun w => estepPos (allIdx sizes) m c w p) := by
  intro f g h idx hr
  have : maxOver (allIdx sizes) (eviol f m c p.1 p.2) = maxOver (allIdx sizes) (eviol g m c p.1 p.2) :=
    maxOver_congr _ _ _ (fun b hb => eviol_agree h (mem_allIdx.mp hb) hi hj)
  simp only [estepPos, this, h idx hr]
theorem estepNeg_local (sizes : List Nat) (m c : Nat) (p : Nat × Nat) (hi : p.1 + 1 < sizes.getD m 0)
    (hj : p.2 + 1 < sizes.getD c 0) : Local sizes (fun w => estepNeg (allIdx sizes) m c w p) := by
  intro f g h idx hr
  have : maxOver (allIdx sizes) (fun b => - eviol f m c p.1 p.2 b) =
      maxOver (allIdx sizes) (fun b => - eviol g m c p.1 p.2 b) :=
    maxOver_congr _ _ _ (fun b hb => by rw [eviol_agree h (mem_allIdx.mp hb) hi hj])
  simp only [estepNeg, this, h idx hr]

theorem estepPosT_eq (sizes : List Nat) (m c : Nat) (t : Table) (p : Nat × Nat) :
    estepPosT sizes m c t p = runStage sizes (fun w => estepPos (allIdx sizes) m c w p) t := rfl
theorem estepNegT_eq (sizes : List Nat) (m c : Nat) (t : Table) (p : Nat × Nat) :
    estepNegT sizes m c t p = runStage sizes (fun w => estepNeg (allIdx sizes) m c w p) t := rfl

theorem edgeworthOneT_agree (sizes : List Nat) (tr : Trust) {t : Table} {f : W}
    (h : AgreeOn sizes t.get f) : AgreeOn sizes (edgeworthOneT sizes tr t).get (edgeworthOne sizes tr f) := by
  unfold edgeworthOneT edgeworthOne
  cases tr.pos
  · simp only [Bool.false_eq_true, if_false]
    have : (fun t p => estepNegT sizes tr.main tr.cond t p) =
        (fun t p => runStage sizes (fun w => estepNeg (allIdx sizes) tr.main tr.cond w p) t) := by
      funext t p; rfl
    rw [show estepNegT sizes tr.main tr.cond = fun t p => estepNegT sizes tr.main tr.cond t p from rfl, this]
    exact foldl_runStage_agree' (sizes := sizes) (fun w p => estepNeg (allIdx sizes) tr.main tr.cond w p) _
      (fun p hp => estepNeg_local sizes _ _ p (mem_pairsLex_rev hp).1 (mem_pairsLex_rev hp).2) h
  · simp only [if_true]
    have : (fun t p => estepPosT sizes tr.main tr.cond t p) =
        (fun t p => runStage sizes (fun w => estepPos (allIdx sizes) tr.main tr.cond w p) t) := by
      funext t p; rfl
    rw [show estepPosT sizes tr.main tr.cond = fun t p => estepPosT sizes tr.main tr.cond t p from rfl, this]
    exact foldl_runStage_agree' (sizes := sizes) (fun w p => estepPos (allIdx sizes) tr.main tr.cond w p) _
      (fun p hp => estepPos_local sizes _ _ p (mem_pairsLex.mp (by simpa using hp)).1
        (mem_pairsLex.mp (by simpa using hp)).2) h

theorem approxEdgeworthT_agree (sizes : List Nat) (trs : List Trust) :
    ∀ {t : Table} {f : W}, AgreeOn sizes t.get f →
      AgreeOn sizes (approxEdgeworthT sizes trs t).get (approxEdgeworth sizes trs f) := by
  unfold approxEdgeworthT approxEdgeworth
  induction trs with
  | nil => intro t f h; exact h
  | cons tr r ih => intro t f h; exact ih (edgeworthOneT_agree sizes tr h)

theorem approxBoundsT_agree (sizes : List Nat) (lo hi : Option ℚ) {t : Table} {f : W}
    (h : AgreeOn sizes t.get f) : AgreeOn sizes (approxBoundsT sizes lo hi t).get (approxBounds sizes lo hi f) :=
  (agreeOn_tabulate sizes _).trans (approxBounds_local sizes lo hi _ _ h)

end Tfl.Lat

namespace Tfl.Lat
open Tfl


theorem trapScalar_congr (mode : TrapMode) (bs : List Idx) (f g : Idx → ℚ) (prior : ℚ)
    (h : ∀ b ∈ bs, f b = g b) : trapScalar mode bs f prior = trapScalar mode bs g prior := by
  unfold trapScalar
  cases mode <;> simp only [maxOver_congr bs f g h]

/-- one loop iteration of the trapezoid projection: table version agrees with the function version -/
theorem trapStepT_agree (sizes : List Nat) (m c : Nat) (pos : Bool) (mode : TrapMode) {j : Nat}
    (hM : 0 < sizes.getD m 0) (hj : j + 1 < sizes.getD c 0) (s : TrapStateT) (S : TrapState)
    (hw : AgreeOn sizes s.t.get S.w) (hl : s.lhs = S.lhs) (hr : s.rhs = S.rhs) :
    AgreeOn sizes (trapStepT sizes m c (sizes.getD m 0) (sizes.getD c 0) pos mode s j).t.get
        (trapStep (allIdx sizes) m c (sizes.getD m 0) (sizes.getD c 0) pos mode S j).w ∧
      (trapStepT sizes m c (sizes.getD m 0) (sizes.getD c 0) pos mode s j).lhs =
        (trapStep (allIdx sizes) m c (sizes.getD m 0) (sizes.getD c 0) pos mode S j).lhs ∧
      (trapStepT sizes m c (sizes.getD m 0) (sizes.getD c 0) pos mode s j).rhs =
        (trapStep (allIdx sizes) m c (sizes.getD m 0) (sizes.getD c 0) pos mode S j).rhs := by
  set M := sizes.getD m 0
  set N := sizes.getD c 0
  have hjn := jn_lt pos hj
  have hjc := jc_lt pos hj
  have hl1 : ∀ b, InRange sizes b → lhsDiff s.t.get m c N pos j b = lhsDiff S.w m c N pos j b := by
    intro b hb
    simp only [lhsDiff, gat_agree hw hb hM hjn, gat_agree hw hb hM hjc]
  have hlU : trapScalar mode (allIdx sizes) (lhsDiff s.t.get m c N pos j) s.lhs =
      trapScalar mode (allIdx sizes) (lhsDiff S.w m c N pos j) S.lhs := by
    rw [hl]; exact trapScalar_congr _ _ _ _ _ (fun b hb => hl1 b (mem_allIdx.mp hb))
  -- first half-step
  have h1 : AgreeOn sizes
      (tabulate sizes (fun idx =>
        if coord idx m = 0 ∧ coord idx c = jn N pos j then
          s.t.get idx - trapAmount mode (lhsDiff s.t.get m c N pos j idx)
            (trapScalar mode (allIdx sizes) (lhsDiff s.t.get m c N pos j) s.lhs)
        else s.t.get idx)).get
      (fun idx =>
        if coord idx m = 0 ∧ coord idx c = jn N pos j then
          S.w idx - trapAmount mode (lhsDiff S.w m c N pos j idx)
            (trapScalar mode (allIdx sizes) (lhsDiff S.w m c N pos j) S.lhs)
        else S.w idx) := by
    intro idx hidx
    rw [get_tabulate' _ hidx]
    simp only [hw idx hidx, hl1 idx hidx, hlU]
  have hM1 : M - 1 < M := by omega
  have hr1 : ∀ (f g : W), AgreeOn sizes f g → ∀ b, InRange sizes b →
      rhsDiff f m c M N pos j b = rhsDiff g m c M N pos j b := by
    intro f g hfg b hb
    simp only [rhsDiff, gat_agree hfg hb hM1 hjn, gat_agree hfg hb hM1 hjc]
  have hrU := trapScalar_congr mode (allIdx sizes) _ _ S.rhs
    (fun b hb => hr1 _ _ h1 b (mem_allIdx.mp hb))
  refine ⟨?_, hlU, ?_⟩
  · intro idx hidx
    simp only [trapStepT, trapStep]
    rw [get_tabulate' _ hidx]
    simp only [h1 idx hidx, hr1 _ _ h1 idx hidx, hr, hrU]
  · simp only [trapStepT, trapStep]
    rw [hr]; exact hrU

theorem trapezoidOneT_agree (sizes : List Nat) (edgeworth : List Trust) (tr : Trust)
    (hM : 0 < sizes.getD tr.main 0) {t : Table} {f : W} (h : AgreeOn sizes t.get f) :
    AgreeOn sizes (trapezoidOneT sizes edgeworth tr t).get (trapezoidOne sizes edgeworth tr f) := by
  unfold trapezoidOneT trapezoidOne
  have key : ∀ (js : List Nat), (∀ j ∈ js, j + 1 < sizes.getD tr.cond 0) →
      ∀ (s : TrapStateT) (S : TrapState), AgreeOn sizes s.t.get S.w → s.lhs = S.lhs → s.rhs = S.rhs →
      AgreeOn sizes
        (js.foldl (trapStepT sizes tr.main tr.cond (sizes.getD tr.main 0) (sizes.getD tr.cond 0) tr.pos
          (trapMode edgeworth tr)) s).t.get
        (js.foldl (trapStep (allIdx sizes) tr.main tr.cond (sizes.getD tr.main 0) (sizes.getD tr.cond 0) tr.pos
          (trapMode edgeworth tr)) S).w := by
    intro js
    induction js with
    | nil => intro _ s S hw _ _; exact hw
    | cons j r ih =>
      intro hjs s S hw hl hr
      simp only [List.foldl_cons]
      obtain ⟨a, b, c⟩ := trapStepT_agree sizes tr.main tr.cond tr.pos (trapMode edgeworth tr) hM
        (hjs j (List.mem_cons_self ..)) s S hw hl hr
      exact ih (fun x hx => hjs x (List.mem_cons_of_mem _ hx)) _ _ a b c
  exact key _ (fun j hj => by have := List.mem_range.mp hj; omega) ⟨t, 0, 0⟩ ⟨f, 0, 0⟩ h rfl rfl

theorem approxTrapezoidT_agree (sizes : List Nat) (edgeworth trs : List Trust)
    (hM : ∀ tr ∈ trs, 0 < sizes.getD tr.main 0) :
    ∀ {t : Table} {f : W}, AgreeOn sizes t.get f →
      AgreeOn sizes (approxTrapezoidT sizes edgeworth trs t).get (approxTrapezoid sizes edgeworth trs f) := by
  unfold approxTrapezoidT approxTrapezoid
  induction trs with
  | nil => intro t f h; exact h
  | cons tr r ih =>
    intro t f h
    exact ih (fun x hx => hM x (List.mem_cons_of_mem _ hx))
      (trapezoidOneT_agree sizes edgeworth tr (hM tr (List.mem_cons_self ..)) h)

/-- **model-internal tie**: the executable `finalizeT` computes, on every vertex of the box, exactly
the function-level `finalize` the theorems are about. -/
theorem finalizeT_agree (c : Cfg) (hM : ∀ tr ∈ c.trapezoid, 0 < c.sizes.getD tr.main 0) {t : Table} {f : W}
    (h : AgreeOn c.sizes t.get f) : AgreeOn c.sizes (finalizeT c t).get (finalize c f) := by
  unfold finalizeT finalize
  split
  · exact h
  · split
    · exact approxMonoT_agree _ _ h
    · exact approxBoundsT_agree _ _ _
        (approxTrapezoidT_agree _ _ _ hM (approxEdgeworthT_agree _ _ (approxMonoT_agree _ _ h)))

end Tfl.Lat
