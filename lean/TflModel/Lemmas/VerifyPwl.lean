import TflModel.Lemmas.VerifyLinear
/-!
# What `pwl_calibration_lib.verify_hyperparameters` guarantees about the piece lengths, the
monotonicity / convexity codes and the bounds (C16-T1 for PWL; used by Props/C16.lean and
Props/C04Accepted.lean)

* `lengthsLoop_pos` / `verifyPwl_lengths_pos`: list lengths handed to `PWLCalibrationConstraints`
  are all positive (fix e215d06: `all(length > 0 for length in lengths)`);
* `strictlyIncreasing_lengths` / `verifyPwl_keypoints_pos`: the piece lengths `k[i+1] - k[i]` of
  accepted (strictly increasing) keypoints are all positive;
* `verifyPwl_codes`: the canonical monotonicity and convexity are `None` or -1, 0, 1.
-/
namespace Tfl.Verify
open Tfl

theorem strictlyIncreasing_lengths : ∀ (ks : List Rat), strictlyIncreasing ks = true →
    ∀ d ∈ pieceLengths ks, 0 < d := by
  intro ks
  induction ks with
  | nil => intro _ d hd; simp [pieceLengths] at hd
  | cons a rest ih =>
    cases rest with
    | nil => intro _ d hd; simp [pieceLengths] at hd
    | cons b rest' =>
      intro h d hd
      simp only [strictlyIncreasing, Bool.and_eq_true, decide_eq_true_eq] at h
      simp only [pieceLengths, List.tail_cons, List.zipWith_cons_cons, List.mem_cons] at hd
      rcases hd with e | e
      · subst e; linarith [h.1]
      · exact ih h.2 d (by simpa [pieceLengths] using e)

/-- `all(length > 0 for length in lengths)` accepted ⇒ every length is positive -/
theorem lengthsLoop_pos : ∀ (xs : List Item) (rs : List Rat), lengthsLoop xs = .ok rs → ∀ d ∈ rs, 0 < d := by
  intro xs
  induction xs with
  | nil =>
    intro rs h d hd
    simp only [lengthsLoop, Except.ok.injEq] at h
    subst h; cases hd
  | cons it rest ih =>
    intro rs h d hd
    cases it with
    | s t ys => simp [lengthsLoop, ve] at h
    | a x =>
      simp only [lengthsLoop] at h
      split at h
      · rename_i r _
        split at h
        · rename_i hr
          simp only [bind, Except.bind] at h
          split at h
          · cases h
          · rename_i rs' hrs
            simp only [pure, Except.pure, Except.ok.injEq] at h
            subst h
            rcases List.mem_cons.mp hd with e | e
            · subst e; exact hr
            · exact ih rs' hrs d e
        · cases h
      · cases h

theorem parseLengths_pos {v : Val} {o : Option (List Rat)} (h : parseLengths v = .ok o) :
    ∀ ls, o = some ls → ∀ d ∈ ls, 0 < d := by
  intro ls hls
  unfold parseLengths at h
  split at h
  · simp only [Except.ok.injEq] at h; subst h; cases hls
  · simp only [bind, Except.bind] at h
    split at h
    · cases h
    · split at h
      · cases h
      · rename_i rs hrs
        simp only [pure, Except.pure, Except.ok.injEq] at h
        subst h
        cases hls
        exact lengthsLoop_pos _ _ hrs

theorem parseKeypoints_inc {v : Val} {o : Option (List Rat)} (h : parseKeypoints v = .ok o) :
    ∀ ks, o = some ks → strictlyIncreasing ks = true := by
  intro ks hks
  unfold parseKeypoints at h
  split at h
  · simp only [Except.ok.injEq] at h; subst h; cases hks
  · simp only [bind, Except.bind] at h
    split at h
    · cases h
    · split at h
      · cases h
      · split at h
        · cases h
        · split at h
          · cases h
          · split at h
            · cases h
            · rename_i hsi
              simp only [pure, Except.pure, Except.ok.injEq] at h
              subst h
              cases hks
              simpa using hsi

/-- the canonical convexity is `None` or one of the numbers -1, 0, 1 -/
theorem canonConvexity_num {it : Item} {a : Atom} (h : canonConvexity it = .ok a) :
    a.num = none ∨ a.num = some (-1) ∨ a.num = some 0 ∨ a.num = some 1 := by
  unfold canonConvexity at h
  split at h
  · cases h; exact Or.inl rfl
  · rename_i x _
    split at h
    · rename_i r hr
      split at h
      · rename_i hr3
        cases h
        rw [hr]
        rcases hr3 with e | e | e <;> subst e <;> simp
      · cases h
    · split at h
      · cases h; simp [Atom.num]
      · cases h; simp [Atom.num]
      · cases h; simp [Atom.num]
      · cases h
  · cases h

/-- the integer code of a canonical monotonicity / convexity (`None` ↦ 0) is -1, 0 or 1 -/
theorem monoOf_code {a : Atom} (h : a.num = none ∨ a.num = some (-1) ∨ a.num = some 0 ∨ a.num = some 1) :
    monoOf a = 0 ∨ monoOf a = 1 ∨ monoOf a = -1 := by
  have fm1 : ((-1 : Int) : Rat).floor = -1 := Rat.floor_intCast (-1)
  have f1 : ((1 : Int) : Rat).floor = 1 := Rat.floor_intCast 1
  have f0 : ((0 : Int) : Rat).floor = 0 := Rat.floor_intCast 0
  rcases h with e | e | e | e
  · left; simp only [monoOf, e]
  · right; right; simp only [monoOf, e]; exact_mod_cast fm1
  · left; simp only [monoOf, e]; exact_mod_cast f0
  · right; left; simp only [monoOf, e]; exact_mod_cast f1

/-- everything `verifyPwl` establishes about an accepted configuration -/
theorem verifyPwl_spec {kp omin omax mono conv cyc kpt lengths : Val} {c : PwlCfg}
    (h : verifyPwl kp omin omax mono conv cyc kpt lengths = .ok c) :
    (∀ ks, c.keypoints = some ks → ∀ d ∈ pieceLengths ks, 0 < d) ∧
    (∀ ls, c.lengths = some ls → ∀ d ∈ ls, 0 < d) ∧
    (∀ l h', c.lo = some l → c.hi = some h' → l ≤ h') ∧
    (monoOf c.mono = 0 ∨ monoOf c.mono = 1 ∨ monoOf c.mono = -1) ∧
    (monoOf c.conv = 0 ∨ monoOf c.conv = 1 ∨ monoOf c.conv = -1) := by
  simp only [verifyPwl, bind, Except.bind] at h
  split at h
  · cases h
  · rename_i k hk
    split at h
    · cases h
    · rename_i lo _
      split at h
      · cases h
      · rename_i hi _
        split at h
        · cases h
        · rename_i hb
          split at h
          · cases h
          · rename_i m hm
            split at h
            · cases h
            · rename_i cv hcv
              split at h
              · cases h
              · split at h
                · cases h
                · rename_i ls hls
                  split at h
                  · cases h
                  · simp only [pure, Except.pure, Except.ok.injEq] at h
                    subst h
                    refine ⟨fun ks hks => strictlyIncreasing_lengths ks (parseKeypoints_inc hk ks hks),
                      parseLengths_pos hls, hiLtLo_false (by simpa using hb),
                      monoOf_code (canonMonotonicity_num hm), monoOf_code (canonConvexity_num hcv)⟩

/-! ### inversion of `verifyPwl` / `pwlCalibration` (used by Props/C04Accepted.lean, Props/C05Accepted.lean) -/

/-- every check of `verifyPwl` passed, and the result is assembled from the parsed pieces -/
theorem verifyPwl_inv {kp omin omax mono conv cyc kpt lengths : Val} {c : PwlCfg}
    (h : verifyPwl kp omin omax mono conv cyc kpt lengths = .ok c) :
    ∃ k lo hi m cv ls, parseKeypoints kp = .ok k ∧ boundOf omin = .ok lo ∧ boundOf omax = .ok hi ∧
      hiLtLo lo hi = false ∧ canonMonotonicity true mono.toItem = .ok m ∧ canonConvexity conv.toItem = .ok cv ∧
      (cyc.truthy && (m.truthy || cv.truthy)) = false ∧ parseLengths lengths = .ok ls ∧
      c = ⟨k, lo, hi, m, cv, cyc.truthy, ls⟩ := by
  simp only [verifyPwl, bind, Except.bind] at h
  split at h
  · cases h
  · rename_i k hk
    split at h
    · cases h
    · rename_i lo hlo
      split at h
      · cases h
      · rename_i hi hhi
        split at h
        · cases h
        · rename_i hb
          split at h
          · cases h
          · rename_i m hm
            split at h
            · cases h
            · rename_i cv hcv
              split at h
              · cases h
              · rename_i hcyc
                split at h
                · cases h
                · rename_i ls hls
                  split at h
                  · cases h
                  · simp only [pure, Except.pure, Except.ok.injEq] at h
                    exact ⟨k, lo, hi, m, cv, ls, hk, hlo, hhi, by simpa using hb, hm, hcv, by simpa using hcyc,
                      hls, h.symm⟩

/-- a falsy canonical code (`None`, `0`, `0.0`) is the integer code 0 -/
theorem monoOf_of_not_truthy {a : Atom} (h : a.truthy = false) : monoOf a = 0 := by
  cases a with
  | none => rfl
  | int i =>
    have : i = 0 := by simpa [Atom.truthy] using h
    subst this
    simp only [monoOf, Atom.num]
    exact_mod_cast Rat.floor_intCast 0
  | flt r =>
    have : r = 0 := by simpa [Atom.truthy] using h
    subst this
    simp only [monoOf, Atom.num]
    exact_mod_cast Rat.floor_intCast 0
  | str t e => simp [Atom.truthy] at h

/-- `is_cyclic` is accepted only without monotonicity and convexity -/
theorem verifyPwl_cyclic {kp omin omax mono conv cyc kpt lengths : Val} {c : PwlCfg}
    (h : verifyPwl kp omin omax mono conv cyc kpt lengths = .ok c) (hc : c.cyclic = true) :
    monoOf c.mono = 0 ∧ monoOf c.conv = 0 := by
  obtain ⟨k, lo, hi, m, cv, ls, -, -, -, -, -, -, hcyc, -, rfl⟩ := verifyPwl_inv h
  simp only at hc ⊢
  rw [hc] at hcyc
  simp only [Bool.true_and, Bool.or_eq_false_iff] at hcyc
  exact ⟨monoOf_of_not_truthy hcyc.1, monoOf_of_not_truthy hcyc.2⟩

/-- accepted keypoints: at least two, strictly increasing -/
theorem parseKeypoints_two {v : Val} {o : Option (List Rat)} (h : parseKeypoints v = .ok o) :
    ∀ ks, o = some ks → 2 ≤ ks.length := by
  intro ks hks
  unfold parseKeypoints at h
  split at h
  · simp only [Except.ok.injEq] at h; subst h; cases hks
  · simp only [bind, Except.bind] at h
    split at h
    · cases h
    · rename_i n hn
      split at h
      · cases h
      · rename_i hn2
        split at h
        · cases h
        · rename_i xs hxs
          split at h
          · cases h
          · rename_i ys hys
            split at h
            · cases h
            · simp only [pure, Except.pure, Except.ok.injEq] at h
              subst h
              cases hks
              have hl := mapE_length hys
              have hnx : n = xs.length := by
                cases v with
                | a x => cases x <;> simp [Val.len, te, oe] at hn hxs
                | s t zs =>
                  simp only [Val.len, Val.iter, Except.ok.injEq] at hn hxs
                  rw [← hn, ← hxs]
              omega

theorem parseKeypoints_some {v : Val} {o : Option (List Rat)} (h : parseKeypoints v = .ok o)
    (hv : v.isNone = false) : ∃ ks, o = some ks := by
  unfold parseKeypoints at h
  rw [if_neg (by simp [hv])] at h
  simp only [bind, Except.bind] at h
  split at h
  · cases h
  · split at h
    · cases h
    · split at h
      · cases h
      · split at h
        · cases h
        · split at h
          · cases h
          · simp only [pure, Except.pure, Except.ok.injEq] at h
            exact ⟨_, h.symm⟩

theorem verifyPwl_keypoints {kp omin omax mono conv cyc kpt lengths : Val} {c : PwlCfg}
    (h : verifyPwl kp omin omax mono conv cyc kpt lengths = .ok c) (ks : List Rat)
    (hk : c.keypoints = some ks) : 2 ≤ ks.length ∧ strictlyIncreasing ks = true := by
  obtain ⟨k, lo, hi, m, cv, ls, hkp, -, -, -, -, -, -, -, rfl⟩ := verifyPwl_inv h
  exact ⟨parseKeypoints_two hkp ks hk, parseKeypoints_inc hkp ks hk⟩

/-- the number of pieces -/
theorem length_pieceLengths (ks : List Rat) : (pieceLengths ks).length = ks.length - 1 := by
  unfold pieceLengths
  rw [List.length_zipWith, List.length_tail]
  omega

/-- `PWLCalibration.__init__` accepted: the lib verification passed on the same arguments, and
`input_keypoints` is not `None` -/
theorem pwlCalibration_inv {r : RawPwl} {c : PwlCfg} (h : pwlCalibration r = .ok c) :
    verifyPwl r.kp r.omin r.omax r.mono r.conv r.cyclic r.kptype = .ok c ∧ r.kp.isNone = false := by
  simp only [pwlCalibration, bind, Except.bind] at h
  split at h
  · cases h
  · rename_i c' hc'
    split at h
    · cases h
    · split at h
      · cases h
      · split at h
        · cases h
        · rename_i hk
          split at h
          · cases h
          · split at h
            · cases h
            · split at h
              · cases h
              · simp only [pure, Except.pure, Except.ok.injEq] at h
                subst h; exact ⟨hc', by simpa using hk⟩

end Tfl.Verify
