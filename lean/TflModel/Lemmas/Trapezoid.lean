import TflModel.Lemmas.EdgeworthW
/-! C01-T3 (no Edgeworth trusts configured): the per-element trapezoid projection.

One loop iteration lowers every vertex of (row 0, column `jn`) to the min of itself and its
neighbour in column `jc`, and raises every vertex of (row M-1, column `jn`) to the max of itself
and that neighbour (`jc = jn ∓ 1`). Such half-steps preserve every order constraint between
parallel conditional-lines and every monotone / antitone constraint within a line. -/
namespace Tfl.Lat
open Tfl

def minHalf (m c r jn jc : Nat) (w : W) : W := fun idx =>
  if coord idx m = r ∧ coord idx c = jn then min (w idx) (w (setc idx c jc)) else w idx
def maxHalf (m c r jn jc : Nat) (w : W) : W := fun idx =>
  if coord idx m = r ∧ coord idx c = jn then max (w idx) (w (setc idx c jc)) else w idx

/-- non-decreasing along axis `e` on the part of the box selected by `P` -/
def AxisLe (sizes : List Nat) (e : Nat) (P : Idx → Prop) (w : W) : Prop :=
  ∀ idx, InRange sizes idx → P idx → coord idx e + 1 < sizes.getD e 0 →
    w idx ≤ w (setc idx e (coord idx e + 1))
/-- non-increasing along axis `e` on the part of the box selected by `P` -/
def AxisGe (sizes : List Nat) (e : Nat) (P : Idx → Prop) (w : W) : Prop :=
  ∀ idx, InRange sizes idx → P idx → coord idx e + 1 < sizes.getD e 0 →
    w (setc idx e (coord idx e + 1)) ≤ w idx

theorem monoAx_iff_axisLe (sizes : List Nat) (d : Nat) (hd : d < sizes.length) (w : W) :
    MonoAx sizes d w ↔ AxisLe sizes d (fun _ => True) w :=
  ⟨fun h idx hr _ hlt => h idx hr hd hlt, fun h idx hr _ hlt => h idx hr trivial hlt⟩

/-- `P` does not look at coordinate `a` -/
def Indep (P : Idx → Prop) (a : Nat) : Prop := ∀ idx v, P (setc idx a v) ↔ P idx

section halves
variable {sizes : List Nat} {m c r jn jc : Nat}

/-! #### constraints along an axis other than the grid axes -/
theorem minHalf_axisLe_other {e : Nat} {P : Idx → Prop} (hc : c < sizes.length) (he : e < sizes.length)
    (hem : e ≠ m) (hec : e ≠ c) (hP : Indep P c) (hjc : jc < sizes.getD c 0) {w : W}
    (h : AxisLe sizes e P w) : AxisLe sizes e P (minHalf m c r jn jc w) := by
  intro idx hr hp hlt
  have hY : InRange sizes (setc idx e (coord idx e + 1)) := inRange_setc hr hlt
  simp only [minHalf, coord_setc_ne _ hem, coord_setc_ne _ hec]
  split
  · have hX' : InRange sizes (setc idx c jc) := inRange_setc hr hjc
    have h2 := h (setc idx c jc) hX' ((hP idx jc).mpr hp) (by rwa [coord_setc_ne _ (Ne.symm hec)])
    rw [coord_setc_ne _ (Ne.symm hec), setc_comm _ _ _ (Ne.symm hec)] at h2
    exact min_le_min (h idx hr hp hlt) h2
  · exact h idx hr hp hlt
theorem maxHalf_axisLe_other {e : Nat} {P : Idx → Prop} (hc : c < sizes.length) (he : e < sizes.length)
    (hem : e ≠ m) (hec : e ≠ c) (hP : Indep P c) (hjc : jc < sizes.getD c 0) {w : W}
    (h : AxisLe sizes e P w) : AxisLe sizes e P (maxHalf m c r jn jc w) := by
  intro idx hr hp hlt
  simp only [maxHalf, coord_setc_ne _ hem, coord_setc_ne _ hec]
  split
  · have hX' : InRange sizes (setc idx c jc) := inRange_setc hr hjc
    have h2 := h (setc idx c jc) hX' ((hP idx jc).mpr hp) (by rwa [coord_setc_ne _ (Ne.symm hec)])
    rw [coord_setc_ne _ (Ne.symm hec), setc_comm _ _ _ (Ne.symm hec)] at h2
    exact max_le_max (h idx hr hp hlt) h2
  · exact h idx hr hp hlt
theorem minHalf_axisGe_other {e : Nat} {P : Idx → Prop} (hc : c < sizes.length) (he : e < sizes.length)
    (hem : e ≠ m) (hec : e ≠ c) (hP : Indep P c) (hjc : jc < sizes.getD c 0) {w : W}
    (h : AxisGe sizes e P w) : AxisGe sizes e P (minHalf m c r jn jc w) := by
  intro idx hr hp hlt
  simp only [minHalf, coord_setc_ne _ hem, coord_setc_ne _ hec]
  split
  · have hX' : InRange sizes (setc idx c jc) := inRange_setc hr hjc
    have h2 := h (setc idx c jc) hX' ((hP idx jc).mpr hp) (by rwa [coord_setc_ne _ (Ne.symm hec)])
    rw [coord_setc_ne _ (Ne.symm hec), setc_comm _ _ _ (Ne.symm hec)] at h2
    exact min_le_min (h idx hr hp hlt) h2
  · exact h idx hr hp hlt
theorem maxHalf_axisGe_other {e : Nat} {P : Idx → Prop} (hc : c < sizes.length) (he : e < sizes.length)
    (hem : e ≠ m) (hec : e ≠ c) (hP : Indep P c) (hjc : jc < sizes.getD c 0) {w : W}
    (h : AxisGe sizes e P w) : AxisGe sizes e P (maxHalf m c r jn jc w) := by
  intro idx hr hp hlt
  simp only [maxHalf, coord_setc_ne _ hem, coord_setc_ne _ hec]
  split
  · have hX' : InRange sizes (setc idx c jc) := inRange_setc hr hjc
    have h2 := h (setc idx c jc) hX' ((hP idx jc).mpr hp) (by rwa [coord_setc_ne _ (Ne.symm hec)])
    rw [coord_setc_ne _ (Ne.symm hec), setc_comm _ _ _ (Ne.symm hec)] at h2
    exact max_le_max (h idx hr hp hlt) h2
  · exact h idx hr hp hlt

/-! #### monotonicity along the main axis: row 0 only goes down, row M-1 only goes up -/
theorem minHalf_le (w : W) (idx : Idx) : minHalf m c r jn jc w idx ≤ w idx := by
  simp only [minHalf]; split
  · exact min_le_left _ _
  · exact le_rfl
theorem le_maxHalf (w : W) (idx : Idx) : w idx ≤ maxHalf m c r jn jc w idx := by
  simp only [maxHalf]; split
  · exact le_max_left _ _
  · exact le_rfl

theorem minHalf_mono_main (hm : m < sizes.length) {w : W} (h : MonoAx sizes m w) :
    MonoAx sizes m (minHalf m c 0 jn jc w) := by
  intro idx hr hd hlt
  have hl : m < idx.length := by rw [hr.1]; exact hm
  have h0 := h idx hr hd hlt
  have hn : ¬ (coord (setc idx m (coord idx m + 1)) m = 0 ∧ coord (setc idx m (coord idx m + 1)) c = jn) := by
    rw [coord_setc_same _ hl]; omega
  calc minHalf m c 0 jn jc w idx ≤ w idx := minHalf_le w idx
    _ ≤ w (setc idx m (coord idx m + 1)) := h0
    _ = minHalf m c 0 jn jc w (setc idx m (coord idx m + 1)) := by simp only [minHalf, hn, if_false]
theorem maxHalf_mono_main (hm : m < sizes.length) {w : W} (h : MonoAx sizes m w) :
    MonoAx sizes m (maxHalf m c (sizes.getD m 0 - 1) jn jc w) := by
  intro idx hr hd hlt
  have h0 := h idx hr hd hlt
  have hn : ¬ (coord idx m = sizes.getD m 0 - 1 ∧ coord idx c = jn) := by omega
  calc maxHalf m c (sizes.getD m 0 - 1) jn jc w idx = w idx := by simp only [maxHalf, hn, if_false]
    _ ≤ w (setc idx m (coord idx m + 1)) := h0
    _ ≤ maxHalf m c (sizes.getD m 0 - 1) jn jc w (setc idx m (coord idx m + 1)) := le_maxHalf w _

/-! #### constraints within a conditional line: `jc` is the neighbour column of `jn` -/
theorem minHalf_axisLe_line {P : Idx → Prop} (hc : c < sizes.length) (hmc : m ≠ c)
    (hadj : jc + 1 = jn ∨ jn + 1 = jc) (hjc : jc < sizes.getD c 0) (hjn : jn < sizes.getD c 0)
    (hP : Indep P c) {w : W} (h : AxisLe sizes c P w) : AxisLe sizes c P (minHalf m c r jn jc w) := by
  intro idx hr hp hlt
  have hl : c < idx.length := by rw [hr.1]; exact hc
  have h0 := h idx hr hp hlt
  simp only [minHalf, coord_setc_same _ hl, coord_setc_ne _ (Ne.symm hmc), setc_setc_same]
  by_cases hrow : coord idx m = r
  · simp only [hrow, true_and]
    by_cases e1 : coord idx c = jn
    · -- left end of the pair is lowered: still below the right end
      have e2 : ¬ jn + 1 = jn := by omega
      simp only [e1, e2, if_true, if_false]
      rw [e1] at h0
      exact le_trans (min_le_left _ _) h0
    · by_cases e2 : coord idx c + 1 = jn
      · simp only [e1, e2, if_true, if_false]
        rcases hadj with ha | ha
        · -- jc = jn - 1 = coord idx c : the neighbour is `idx` itself
          have : setc idx c jc = idx := setc_eq_self hl (by omega)
          rw [this]; rw [e2] at h0; exact le_min h0 le_rfl
        · -- jc = jn + 1: two steps up the line
          have hin : InRange sizes (setc idx c jn) := inRange_setc hr hjn
          have h1 := h (setc idx c jn) hin ((hP idx jn).mpr hp) (by rw [coord_setc_same _ hl]; omega)
          rw [coord_setc_same _ hl, setc_setc_same, ha] at h1
          rw [e2] at h0
          exact le_min h0 (le_trans h0 h1)
      · simp only [e1, e2, if_false]; exact h0
  · simp only [hrow, false_and, if_false]; exact h0

theorem maxHalf_axisLe_line {P : Idx → Prop} (hc : c < sizes.length) (hmc : m ≠ c)
    (hadj : jc + 1 = jn ∨ jn + 1 = jc) (hjc : jc < sizes.getD c 0) (hjn : jn < sizes.getD c 0)
    (hP : Indep P c) {w : W} (h : AxisLe sizes c P w) : AxisLe sizes c P (maxHalf m c r jn jc w) := by
  intro idx hr hp hlt
  have hl : c < idx.length := by rw [hr.1]; exact hc
  have h0 := h idx hr hp hlt
  simp only [maxHalf, coord_setc_same _ hl, coord_setc_ne _ (Ne.symm hmc), setc_setc_same]
  by_cases hrow : coord idx m = r
  · simp only [hrow, true_and]
    by_cases e1 : coord idx c = jn
    · have e2 : ¬ jn + 1 = jn := by omega
      simp only [e1, e2, if_true, if_false]
      rw [e1] at h0
      rcases hadj with ha | ha
      · -- jc = jn - 1: the neighbour is below, which is below `idx`
        have hk : 1 ≤ jn := by omega
        have hin : InRange sizes (setc idx c jc) := inRange_setc hr hjc
        have h1 := h (setc idx c jc) hin ((hP idx jc).mpr hp) (by rw [coord_setc_same _ hl]; omega)
        rw [coord_setc_same _ hl, setc_setc_same, ha] at h1
        have h1' : w (setc idx c jc) ≤ w idx := by
          have : setc idx c jn = idx := setc_eq_self hl e1
          rw [this] at h1; exact h1
        exact max_le h0 (le_trans h1' h0)
      · -- jc = jn + 1: the neighbour is the right end itself
        rw [ha] at h0 ⊢; exact max_le h0 le_rfl
    · by_cases e2 : coord idx c + 1 = jn
      · simp only [e1, e2, if_true, if_false]
        rw [e2] at h0
        exact le_trans h0 (le_max_left _ _)
      · simp only [e1, e2, if_false]; exact h0
  · simp only [hrow, false_and, if_false]; exact h0

theorem minHalf_axisGe_line {P : Idx → Prop} (hc : c < sizes.length) (hmc : m ≠ c)
    (hadj : jc + 1 = jn ∨ jn + 1 = jc) (hjc : jc < sizes.getD c 0) (hjn : jn < sizes.getD c 0)
    (hP : Indep P c) {w : W} (h : AxisGe sizes c P w) : AxisGe sizes c P (minHalf m c r jn jc w) := by
  intro idx hr hp hlt
  have hl : c < idx.length := by rw [hr.1]; exact hc
  have h0 := h idx hr hp hlt
  simp only [minHalf, coord_setc_same _ hl, coord_setc_ne _ (Ne.symm hmc), setc_setc_same]
  by_cases hrow : coord idx m = r
  · simp only [hrow, true_and]
    by_cases e1 : coord idx c = jn
    · have e2 : ¬ jn + 1 = jn := by omega
      simp only [e1, e2, if_true, if_false]
      rw [e1] at h0
      rcases hadj with ha | ha
      · -- jc = jn - 1: neighbour above in value (line non-increasing)
        have hin : InRange sizes (setc idx c jc) := inRange_setc hr hjc
        have h1 := h (setc idx c jc) hin ((hP idx jc).mpr hp) (by rw [coord_setc_same _ hl]; omega)
        rw [coord_setc_same _ hl, setc_setc_same, ha] at h1
        have h1' : w idx ≤ w (setc idx c jc) := by
          have : setc idx c jn = idx := setc_eq_self hl e1
          rw [this] at h1; exact h1
        exact le_min h0 (le_trans h0 h1')
      · rw [ha] at h0 ⊢; exact le_min h0 le_rfl
    · by_cases e2 : coord idx c + 1 = jn
      · simp only [e1, e2, if_true, if_false]
        rw [e2] at h0
        exact le_trans (min_le_left _ _) h0
      · simp only [e1, e2, if_false]; exact h0
  · simp only [hrow, false_and, if_false]; exact h0

theorem maxHalf_axisGe_line {P : Idx → Prop} (hc : c < sizes.length) (hmc : m ≠ c)
    (hadj : jc + 1 = jn ∨ jn + 1 = jc) (hjc : jc < sizes.getD c 0) (hjn : jn < sizes.getD c 0)
    (hP : Indep P c) {w : W} (h : AxisGe sizes c P w) : AxisGe sizes c P (maxHalf m c r jn jc w) := by
  intro idx hr hp hlt
  have hl : c < idx.length := by rw [hr.1]; exact hc
  have h0 := h idx hr hp hlt
  simp only [maxHalf, coord_setc_same _ hl, coord_setc_ne _ (Ne.symm hmc), setc_setc_same]
  by_cases hrow : coord idx m = r
  · simp only [hrow, true_and]
    by_cases e1 : coord idx c = jn
    · have e2 : ¬ jn + 1 = jn := by omega
      simp only [e1, e2, if_true, if_false]
      rw [e1] at h0
      exact le_trans h0 (le_max_left _ _)
    · by_cases e2 : coord idx c + 1 = jn
      · simp only [e1, e2, if_true, if_false]
        rcases hadj with ha | ha
        · have : setc idx c jc = idx := setc_eq_self hl (by omega)
          rw [this]; rw [e2] at h0; exact max_le h0 le_rfl
        · have hin : InRange sizes (setc idx c jn) := inRange_setc hr hjn
          have h1 := h (setc idx c jn) hin ((hP idx jn).mpr hp) (by rw [coord_setc_same _ hl]; omega)
          rw [coord_setc_same _ hl, setc_setc_same, ha] at h1
          rw [e2] at h0
          exact max_le h0 (le_trans h1 h0)
      · simp only [e1, e2, if_false]; exact h0
  · simp only [hrow, false_and, if_false]; exact h0
end halves

end Tfl.Lat

namespace Tfl.Lat
open Tfl

theorem AxisLe.congr {sizes : List Nat} {e : Nat} {P : Idx → Prop} {f g : W} (h : AgreeOn sizes f g)
    (hf : AxisLe sizes e P f) : AxisLe sizes e P g := by
  intro idx hr hp hlt
  rw [← h idx hr, ← h _ (inRange_setc hr hlt)]
  exact hf idx hr hp hlt
theorem AxisGe.congr {sizes : List Nat} {e : Nat} {P : Idx → Prop} {f g : W} (h : AgreeOn sizes f g)
    (hf : AxisGe sizes e P f) : AxisGe sizes e P g := by
  intro idx hr hp hlt
  rw [← h idx hr, ← h _ (inRange_setc hr hlt)]
  exact hf idx hr hp hlt

/-- the trapezoid inequalities of one trust: on the low-main side the kernel is non-increasing
(direction +) / non-decreasing (direction −) along the conditional axis, on the high-main side the
other way round -/
def TrapOK (sizes : List Nat) (tr : Trust) (w : W) : Prop :=
  if tr.pos then
    AxisGe sizes tr.cond (fun idx => coord idx tr.main = 0) w ∧
    AxisLe sizes tr.cond (fun idx => coord idx tr.main = sizes.getD tr.main 0 - 1) w
  else
    AxisLe sizes tr.cond (fun idx => coord idx tr.main = 0) w ∧
    AxisGe sizes tr.cond (fun idx => coord idx tr.main = sizes.getD tr.main 0 - 1) w

theorem TrapOK.congr {sizes : List Nat} {tr : Trust} {f g : W} (h : AgreeOn sizes f g)
    (hf : TrapOK sizes tr f) : TrapOK sizes tr g := by
  unfold TrapOK at *
  split
  · rename_i hp; simp only [hp, if_true] at hf; exact ⟨hf.1.congr h, hf.2.congr h⟩
  · rename_i hp; simp only [hp] at hf; exact ⟨hf.1.congr h, hf.2.congr h⟩

/-- one loop iteration in `perElement` mode, closed form -/
def peStep (m c M jn jc : Nat) (w : W) : W := maxHalf m c (M - 1) jn jc (minHalf m c 0 jn jc w)

theorem sub_max_sub (x y : ℚ) : x - max (x - y) 0 = min x y := by
  simp only [max_def, min_def]; split_ifs <;> linarith
theorem add_max_sub (x y : ℚ) : x + max (y - x) 0 = max x y := by
  simp only [max_def]; split_ifs <;> linarith

/-- the code's iteration equals the closed form at every index on which the grid axes are valid -/
theorem trapStep_pe_eq (bs : List Idx) (m c M N : Nat) (pos : Bool) (s : TrapState) (j : Nat)
    (hM : 2 ≤ M) {idx : Idx} (hg : GridOK m c idx) :
    (trapStep bs m c M N pos .perElement s j).w idx = peStep m c M (jn N pos j) (jc N pos j) s.w idx := by
  -- first half-step at an arbitrary valid index
  have h1 : ∀ i : Idx, GridOK m c i →
      (if coord i m = 0 ∧ coord i c = jn N pos j then
        s.w i - trapAmount .perElement (lhsDiff s.w m c N pos j i)
          (trapScalar .perElement bs (lhsDiff s.w m c N pos j) s.lhs)
       else s.w i) = minHalf m c 0 (jn N pos j) (jc N pos j) s.w i := by
    intro i hi
    simp only [minHalf, trapAmount]
    split
    · rename_i hcnd
      have e1 : gat s.w m c 0 (jn N pos j) i = s.w i := by
        unfold gat; rw [setc_eq_self hi.1 hcnd.1, setc_eq_self hi.2.1 hcnd.2]
      have e2 : gat s.w m c 0 (jc N pos j) i = s.w (setc i c (jc N pos j)) := by
        unfold gat; rw [setc_eq_self hi.1 hcnd.1]
      simp only [lhsDiff, e1, e2, sub_max_sub]
    · rfl
  have hg' : GridOK m c (setc idx c (jc N pos j)) := ⟨by simpa using hg.1, by simpa using hg.2.1, hg.2.2⟩
  simp only [trapStep, peStep, maxHalf, trapAmount]
  split
  · rename_i hcnd
    have hm1 : coord idx m = M - 1 := hcnd.1
    have e1 : gat (fun i => if coord i m = 0 ∧ coord i c = jn N pos j then
          s.w i - trapAmount .perElement (lhsDiff s.w m c N pos j i)
            (trapScalar .perElement bs (lhsDiff s.w m c N pos j) s.lhs) else s.w i) m c (M - 1) (jc N pos j) idx
        = minHalf m c 0 (jn N pos j) (jc N pos j) s.w (setc idx c (jc N pos j)) := by
      unfold gat; rw [setc_eq_self hg.1 hm1]; exact h1 _ hg'
    have e2 : gat (fun i => if coord i m = 0 ∧ coord i c = jn N pos j then
          s.w i - trapAmount .perElement (lhsDiff s.w m c N pos j i)
            (trapScalar .perElement bs (lhsDiff s.w m c N pos j) s.lhs) else s.w i) m c (M - 1) (jn N pos j) idx
        = minHalf m c 0 (jn N pos j) (jc N pos j) s.w idx := by
      unfold gat; rw [setc_eq_self hg.1 hm1, setc_eq_self hg.2.1 hcnd.2]; exact h1 _ hg
    simp only [rhsDiff, trapAmount] at *
    rw [e1, e2, h1 idx hg, add_max_sub]
  · exact h1 idx hg

variable {sizes : List Nat}

theorem peStep_agree (tr : Trust) (hwf : TrustWF sizes tr) (hM : 2 ≤ sizes.getD tr.main 0) (s : TrapState)
    (j : Nat) :
    AgreeOn sizes
      (trapStep (allIdx sizes) tr.main tr.cond (sizes.getD tr.main 0) (sizes.getD tr.cond 0) tr.pos .perElement s j).w
      (peStep tr.main tr.cond (sizes.getD tr.main 0) (jn (sizes.getD tr.cond 0) tr.pos j)
        (jc (sizes.getD tr.cond 0) tr.pos j) s.w) :=
  fun _ hr => trapStep_pe_eq _ _ _ _ _ _ s j hM (gridOK_of_inRange hwf hr)

theorem jn_jc_adj {N j : Nat} (pos : Bool) (h : j + 1 < N) : jc N pos j + 1 = jn N pos j ∨ jn N pos j + 1 = jc N pos j := by
  unfold jn jc; cases pos <;> simp <;> omega

/-- the closed-form iteration keeps monotonicity along EVERY axis -/
theorem peStep_mono (tr : Trust) (hwf : TrustWF sizes tr) {j : Nat} (hj : j + 1 < sizes.getD tr.cond 0)
    {d : Nat} (hd : d < sizes.length) {w : W} (h : MonoAx sizes d w) :
    MonoAx sizes d (peStep tr.main tr.cond (sizes.getD tr.main 0) (jn (sizes.getD tr.cond 0) tr.pos j)
      (jc (sizes.getD tr.cond 0) tr.pos j) w) := by
  have hjn := jn_lt tr.pos hj
  have hjc := jc_lt tr.pos hj
  unfold peStep
  by_cases e1 : d = tr.main
  · subst e1
    exact maxHalf_mono_main hwf.1 (minHalf_mono_main hwf.1 h)
  · by_cases e2 : d = tr.cond
    · subst e2
      rw [monoAx_iff_axisLe _ _ hd] at h ⊢
      have hI : Indep (fun _ : Idx => True) tr.cond := fun _ _ => Iff.rfl
      exact maxHalf_axisLe_line hwf.2.1 hwf.2.2 (jn_jc_adj tr.pos hj) hjc hjn hI
        (minHalf_axisLe_line hwf.2.1 hwf.2.2 (jn_jc_adj tr.pos hj) hjc hjn hI h)
    · rw [monoAx_iff_axisLe _ _ hd] at h ⊢
      have hI : Indep (fun _ : Idx => True) tr.cond := fun _ _ => Iff.rfl
      exact maxHalf_axisLe_other hwf.2.1 hd e1 e2 hI hjc (minHalf_axisLe_other hwf.2.1 hd e1 e2 hI hjc h)

/-- … and the trapezoid inequalities of every OTHER trust (shared conditional axis allowed) -/
theorem peStep_trapOK_other (tr tr' : Trust) (hwf : TrustWF sizes tr) (hwf' : TrustWF sizes tr')
    (hc1 : tr'.cond ≠ tr.main) (hc2 : tr'.main ≠ tr.cond) {j : Nat} (hj : j + 1 < sizes.getD tr.cond 0)
    {w : W} (h : TrapOK sizes tr' w) :
    TrapOK sizes tr' (peStep tr.main tr.cond (sizes.getD tr.main 0) (jn (sizes.getD tr.cond 0) tr.pos j)
      (jc (sizes.getD tr.cond 0) tr.pos j) w) := by
  have hjn := jn_lt tr.pos hj
  have hjc := jc_lt tr.pos hj
  have hadj := jn_jc_adj tr.pos hj
  have hI : ∀ r : Nat, Indep (fun idx : Idx => coord idx tr'.main = r) tr.cond :=
    fun r idx v => by simp only [coord_setc_ne _ (Ne.symm hc2)]
  unfold peStep TrapOK at *
  by_cases ec : tr'.cond = tr.cond
  · rw [ec] at h ⊢
    split
    · rename_i hp; simp only [hp, if_true] at h
      exact ⟨maxHalf_axisGe_line hwf.2.1 hwf.2.2 hadj hjc hjn (hI _)
          (minHalf_axisGe_line hwf.2.1 hwf.2.2 hadj hjc hjn (hI _) h.1),
        maxHalf_axisLe_line hwf.2.1 hwf.2.2 hadj hjc hjn (hI _)
          (minHalf_axisLe_line hwf.2.1 hwf.2.2 hadj hjc hjn (hI _) h.2)⟩
    · rename_i hp; simp only [hp] at h
      exact ⟨maxHalf_axisLe_line hwf.2.1 hwf.2.2 hadj hjc hjn (hI _)
          (minHalf_axisLe_line hwf.2.1 hwf.2.2 hadj hjc hjn (hI _) h.1),
        maxHalf_axisGe_line hwf.2.1 hwf.2.2 hadj hjc hjn (hI _)
          (minHalf_axisGe_line hwf.2.1 hwf.2.2 hadj hjc hjn (hI _) h.2)⟩
  · split
    · rename_i hp; simp only [hp, if_true] at h
      exact ⟨maxHalf_axisGe_other hwf.2.1 hwf'.2.1 hc1 ec (hI _) hjc
          (minHalf_axisGe_other hwf.2.1 hwf'.2.1 hc1 ec (hI _) hjc h.1),
        maxHalf_axisLe_other hwf.2.1 hwf'.2.1 hc1 ec (hI _) hjc
          (minHalf_axisLe_other hwf.2.1 hwf'.2.1 hc1 ec (hI _) hjc h.2)⟩
    · rename_i hp; simp only [hp] at h
      exact ⟨maxHalf_axisLe_other hwf.2.1 hwf'.2.1 hc1 ec (hI _) hjc
          (minHalf_axisLe_other hwf.2.1 hwf'.2.1 hc1 ec (hI _) hjc h.1),
        maxHalf_axisGe_other hwf.2.1 hwf'.2.1 hc1 ec (hI _) hjc
          (minHalf_axisGe_other hwf.2.1 hwf'.2.1 hc1 ec (hI _) hjc h.2)⟩

end Tfl.Lat

namespace Tfl.Lat
open Tfl
variable {sizes : List Nat}

/-- the two trapezoid inequalities of the trust at the pair of conditional layers `(p, p+1)` -/
def PairOK (sizes : List Nat) (tr : Trust) (w : W) (p : Nat) : Prop :=
  if tr.pos then
    AxisGe sizes tr.cond (fun idx => coord idx tr.main = 0 ∧ coord idx tr.cond = p) w ∧
    AxisLe sizes tr.cond (fun idx => coord idx tr.main = sizes.getD tr.main 0 - 1 ∧ coord idx tr.cond = p) w
  else
    AxisLe sizes tr.cond (fun idx => coord idx tr.main = 0 ∧ coord idx tr.cond = p) w ∧
    AxisGe sizes tr.cond (fun idx => coord idx tr.main = sizes.getD tr.main 0 - 1 ∧ coord idx tr.cond = p) w

theorem PairOK.congr {tr : Trust} {f g : W} {p : Nat} (h : AgreeOn sizes f g) (hf : PairOK sizes tr f p) :
    PairOK sizes tr g p := by
  unfold PairOK at *
  split
  · rename_i hp; simp only [hp, if_true] at hf; exact ⟨hf.1.congr h, hf.2.congr h⟩
  · rename_i hp; simp only [hp] at hf; exact ⟨hf.1.congr h, hf.2.congr h⟩

theorem trapOK_of_pairs {tr : Trust} {w : W} (h : ∀ p, p + 1 < sizes.getD tr.cond 0 → PairOK sizes tr w p) :
    TrapOK sizes tr w := by
  unfold TrapOK
  split
  · rename_i hp
    refine ⟨fun idx hr hrow hlt => ?_, fun idx hr hrow hlt => ?_⟩
    · have := h _ hlt; simp only [PairOK, hp, if_true] at this
      exact this.1 idx hr ⟨hrow, rfl⟩ hlt
    · have := h _ hlt; simp only [PairOK, hp, if_true] at this
      exact this.2 idx hr ⟨hrow, rfl⟩ hlt
  · rename_i hp
    refine ⟨fun idx hr hrow hlt => ?_, fun idx hr hrow hlt => ?_⟩
    · have := h _ hlt; simp only [PairOK, hp] at this
      exact this.1 idx hr ⟨hrow, rfl⟩ hlt
    · have := h _ hlt; simp only [PairOK, hp] at this
      exact this.2 idx hr ⟨hrow, rfl⟩ hlt

/-- values outside column `jn` are not touched -/
theorem peStep_off_column (m c M jn jc : Nat) (w : W) {idx : Idx} (h : coord idx c ≠ jn) :
    peStep m c M jn jc w idx = w idx := by
  simp [peStep, maxHalf, minHalf, h]

/-- a pair that does not contain the modified column is kept -/
theorem peStep_pair_keep (tr : Trust) (hwf : TrustWF sizes tr) (M jn jc : Nat) {w : W} {p : Nat}
    (h1 : jn ≠ p) (h2 : jn ≠ p + 1) (h : PairOK sizes tr w p) :
    PairOK sizes tr (peStep tr.main tr.cond M jn jc w) p := by
  have key : ∀ idx, InRange sizes idx → coord idx tr.cond = p →
      peStep tr.main tr.cond M jn jc w idx = w idx ∧
      peStep tr.main tr.cond M jn jc w (setc idx tr.cond (coord idx tr.cond + 1)) =
        w (setc idx tr.cond (coord idx tr.cond + 1)) := by
    intro idx hr hc
    have hl : tr.cond < idx.length := by rw [hr.1]; exact hwf.2.1
    refine ⟨peStep_off_column _ _ _ _ _ _ (by omega), peStep_off_column _ _ _ _ _ _ ?_⟩
    rw [coord_setc_same _ hl]; omega
  unfold PairOK at *
  split
  · rename_i hp; simp only [hp, if_true] at h
    refine ⟨fun idx hr hP hlt => ?_, fun idx hr hP hlt => ?_⟩
    · rw [(key idx hr hP.2).1, (key idx hr hP.2).2]; exact h.1 idx hr hP hlt
    · rw [(key idx hr hP.2).1, (key idx hr hP.2).2]; exact h.2 idx hr hP hlt
  · rename_i hp; simp only [hp] at h
    refine ⟨fun idx hr hP hlt => ?_, fun idx hr hP hlt => ?_⟩
    · rw [(key idx hr hP.2).1, (key idx hr hP.2).2]; exact h.1 idx hr hP hlt
    · rw [(key idx hr hP.2).1, (key idx hr hP.2).2]; exact h.2 idx hr hP hlt

theorem peStep_row0 (m c M jn jc : Nat) (hM : 2 ≤ M) (w : W) {idx : Idx} (h0 : coord idx m = 0)
    (hc : coord idx c = jn) : peStep m c M jn jc w idx = min (w idx) (w (setc idx c jc)) := by
  have : ¬ ((0 : Nat) = M - 1) := by omega
  simp [peStep, maxHalf, minHalf, h0, hc, this]
theorem peStep_rowM (m c M jn jc : Nat) (hM : 2 ≤ M) (hmc : m ≠ c) (w : W) {idx : Idx}
    (h0 : coord idx m = M - 1) (hc : coord idx c = jn) :
    peStep m c M jn jc w idx = max (w idx) (w (setc idx c jc)) := by
  have : ¬ (M - 1 = 0) := by omega
  simp [peStep, maxHalf, minHalf, h0, hc, this, coord_setc_ne _ (Ne.symm hmc)]

/-- the iteration establishes the inequalities of its own pair of layers -/
theorem peStep_pair_establish (tr : Trust) (hwf : TrustWF sizes tr) (hM : 2 ≤ sizes.getD tr.main 0) {j : Nat}
    (hj : j + 1 < sizes.getD tr.cond 0) (w : W) :
    PairOK sizes tr (peStep tr.main tr.cond (sizes.getD tr.main 0) (jn (sizes.getD tr.cond 0) tr.pos j)
      (jc (sizes.getD tr.cond 0) tr.pos j) w)
      (if tr.pos then j else sizes.getD tr.cond 0 - 2 - j) := by
  have hne : tr.main ≠ tr.cond := hwf.2.2
  unfold PairOK
  cases hp : tr.pos
  · -- direction −1 : jn = N-2-j (the pair index), jc = jn + 1
    simp only [Bool.false_eq_true, if_false, jn, jc]
    have hjc : sizes.getD tr.cond 0 - 1 - j = (sizes.getD tr.cond 0 - 2 - j) + 1 := by omega
    rw [hjc]
    refine ⟨fun idx hr hP hlt => ?_, fun idx hr hP hlt => ?_⟩
    · have hl : tr.cond < idx.length := by rw [hr.1]; exact hwf.2.1
      rw [peStep_row0 _ _ _ _ _ hM w hP.1 hP.2, peStep_off_column _ _ _ _ _ _ (by rw [coord_setc_same _ hl]; omega),
        hP.2]
      exact min_le_right _ _
    · have hl : tr.cond < idx.length := by rw [hr.1]; exact hwf.2.1
      rw [peStep_rowM _ _ _ _ _ hM hne w hP.1 hP.2, peStep_off_column _ _ _ _ _ _ (by rw [coord_setc_same _ hl]; omega),
        hP.2]
      exact le_max_right _ _
  · -- direction +1 : jc = j (the pair index), jn = j + 1
    simp only [if_true, jn, jc]
    have key : ∀ idx, InRange sizes idx → coord idx tr.cond = j →
        peStep tr.main tr.cond (sizes.getD tr.main 0) (j + 1) j w idx = w idx ∧
        (coord idx tr.main = 0 →
          peStep tr.main tr.cond (sizes.getD tr.main 0) (j + 1) j w (setc idx tr.cond (coord idx tr.cond + 1)) =
            min (w (setc idx tr.cond (j + 1))) (w idx)) ∧
        (coord idx tr.main = sizes.getD tr.main 0 - 1 →
          peStep tr.main tr.cond (sizes.getD tr.main 0) (j + 1) j w (setc idx tr.cond (coord idx tr.cond + 1)) =
            max (w (setc idx tr.cond (j + 1))) (w idx)) := by
      intro idx hr hc
      have hl : tr.cond < idx.length := by rw [hr.1]; exact hwf.2.1
      refine ⟨peStep_off_column _ _ _ _ _ _ (by omega), fun h0 => ?_, fun h0 => ?_⟩
      · rw [hc, peStep_row0 _ _ _ _ _ hM w (by rw [coord_setc_ne _ (Ne.symm hne)]; exact h0)
          (coord_setc_same _ hl), setc_setc_same, setc_eq_self hl hc]
      · rw [hc, peStep_rowM _ _ _ _ _ hM hne w (by rw [coord_setc_ne _ (Ne.symm hne)]; exact h0)
          (coord_setc_same _ hl), setc_setc_same, setc_eq_self hl hc]
    refine ⟨fun idx hr hP hlt => ?_, fun idx hr hP hlt => ?_⟩
    · rw [(key idx hr hP.2).1, (key idx hr hP.2).2.1 hP.1]; exact min_le_right _ _
    · rw [(key idx hr hP.2).1, (key idx hr hP.2).2.2 hP.1]; exact le_max_right _ _

end Tfl.Lat
