import TflModel.Lemmas.InitializersLinear
import TflModel.Lemmas.LatticeExec
import TflModel.Lemmas.Asserts
/-! C10-T5: a monotone, in-bounds kernel is a fixpoint of the strict finalisation + clip (configurations with
monotonicity and bound constraints only) and is accepted by the model of `assert_constraints`. -/
namespace Tfl.Init
open Tfl Tfl.Lat

theorem foldl_cummax_fix (sizes : List Nat) (w : W) :
    ∀ (dims : List Nat), (∀ d ∈ dims, d < sizes.length ∧ MonoAx sizes d w) → ∀ acc, AgreeOn sizes acc w →
      AgreeOn sizes (dims.foldl (fun acc d => cummaxAx acc d) acc) w := by
  intro dims
  induction dims with
  | nil => intro _ acc h; exact h
  | cons d r ih =>
    intro hd acc h
    simp only [List.foldl_cons]
    apply ih (fun x hx => hd x (List.mem_cons_of_mem _ hx))
    obtain ⟨hdl, hm⟩ := hd d (List.mem_cons_self ..)
    exact (cummaxAx_local sizes hdl acc w h).trans (cummaxAx_fix sizes hdl w hm)

theorem foldl_cummin_fix (sizes : List Nat) (w : W) :
    ∀ (dims : List Nat), (∀ d ∈ dims, d < sizes.length ∧ MonoAx sizes d w) → ∀ acc, AgreeOn sizes acc w →
      AgreeOn sizes (dims.foldl (fun acc d => cumminAx acc d (sizes.getD d 0)) acc) w := by
  intro dims
  induction dims with
  | nil => intro _ acc h; exact h
  | cons d r ih =>
    intro hd acc h
    simp only [List.foldl_cons]
    apply ih (fun x hx => hd x (List.mem_cons_of_mem _ hx))
    obtain ⟨hdl, hm⟩ := hd d (List.mem_cons_self ..)
    exact (cumminAx_local sizes hdl acc w h).trans (cumminAx_fix sizes hdl w hm)

/-- `_approximately_project_monotonicity` leaves a kernel that is monotone along every monotone
dimension unchanged -/
theorem approxMono_fix (sizes : List Nat) (mono : List Bool) (w : W)
    (hw : ∀ d, d < sizes.length → mono.getD d false = true → MonoAx sizes d w) :
    AgreeOn sizes (approxMono sizes mono w) w := by
  unfold approxMono
  have hd : ∀ d ∈ monoDims sizes mono, d < sizes.length ∧ MonoAx sizes d w := fun d h =>
    ⟨(mem_monoDims.mp h).1, hw d (mem_monoDims.mp h).1 (mem_monoDims.mp h).2⟩
  apply foldl_cummin_fix sizes w _ hd
  intro idx hr
  have := foldl_cummax_fix sizes w _ hd w (AgreeOn.refl _ _) idx hr
  simp only [this]
  ring

/-- **C10-T5**: for a configuration with monotonicity and bound constraints only (no trusts), a kernel
that is monotone along every monotone dimension and inside the bounds is left unchanged by the strict
finalisation followed by the final clip of `LatticeConstraints.__call__`. -/
theorem constraint_fixpoint (c : Cfg) (hnt : c.edgeworth = [] ∧ c.trapezoid = []) (w : W)
    (hmono : ∀ d, d < c.sizes.length → c.mono.getD d false = true → MonoAx c.sizes d w)
    (hb : ∀ idx, InRange c.sizes idx → (∀ l, c.lo = some l → l ≤ w idx) ∧ (∀ h, c.hi = some h → w idx ≤ h)) :
    AgreeOn c.sizes (clipBounds c.lo c.hi (finalize c w)) w := by
  have hfin : AgreeOn c.sizes (finalize c w) w := by
    unfold finalize
    split
    · exact AgreeOn.refl _ _
    · simp only [hnt.1, hnt.2, List.isEmpty_nil, Bool.and_self, if_true]
      exact approxMono_fix c.sizes c.mono w hmono
  intro idx hr
  have e := hfin idx hr
  have := clipBounds_fix c.lo c.hi (finalize c w) idx (by rw [e]; exact (hb idx hr).1) (by rw [e]; exact (hb idx hr).2)
  rw [this, e]

open Tfl.Asserts in
/-- … and the model of `lattice_lib.assert_constraints` (C12) accepts it, for every `eps ≥ 0` -/
theorem accepts_monotone_inbounds (sizes : List Nat) (monos : List Int) (lo hi : Option ℚ) (w : W) (eps : ℚ)
    (heps : 0 ≤ eps)
    (hmono : ∀ d, d < sizes.length → monos.getD d 0 = 1 → MonoAx sizes d w)
    (hml : monos.length ≤ sizes.length)
    (hb : ∀ idx, InRange sizes idx → (∀ l, lo = some l → l ≤ w idx) ∧ (∀ h, hi = some h → w idx ≤ h)) :
    acceptsLatticeW ⟨sizes, monos, [], [], [], [], [], lo, hi⟩ w eps = true := by
  simp only [acceptsLatticeW, latEdge, latTrap, latMdom, latRdom, latJoint, List.all_nil, Bool.and_true,
    Bool.and_eq_true]
  refine ⟨⟨?_, ?_⟩, ?_⟩
  · simp only [latMono, List.all_eq_true, List.mem_range]
    intro i hiLen
    split
    · rename_i h1
      rw [List.all_eq_true]
      intro j hj
      rw [minGe_iff]
      intro y hy
      obtain ⟨idx, hidx, rfl⟩ := List.mem_map.mp hy
      obtain ⟨hbox, hc⟩ := List.mem_filter.mp hidx
      have hr := mem_allIdx.mp hbox
      have hil : i < sizes.length := by omega
      have hcj : coord idx i = j + 1 := by simpa using hc
      have hlt := hr.2 i hil
      have hr' : InRange sizes (setc idx i j) := inRange_setc hr (by omega)
      have hidl : i < idx.length := by rw [hr.1]; exact hil
      have := hmono i hil h1 (setc idx i j) hr' hil (by rw [coord_setc_same _ hidl]; omega)
      rw [coord_setc_same _ hidl, setc_setc_same, ← hcj, setc_coord_self hidl] at this
      linarith
    · rfl
  · simp only [latLo]
    cases lo with
    | none => rfl
    | some l =>
      simp only
      rw [minGe_iff]
      intro y hy
      obtain ⟨idx, hidx, rfl⟩ := List.mem_map.mp hy
      have := (hb idx (mem_allIdx.mp hidx)).1 l rfl
      linarith
  · simp only [latHi]
    cases hi with
    | none => rfl
    | some h =>
      simp only
      rw [maxLe_iff]
      intro y hy
      obtain ⟨idx, hidx, rfl⟩ := List.mem_map.mp hy
      have := (hb idx (mem_allIdx.mp hidx)).2 h rfl
      linarith

end Tfl.Init
