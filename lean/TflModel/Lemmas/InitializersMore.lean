import TflModel.Lemmas.InitializersFix
import TflModel.Lemmas.Kfl
/-! C10: valley / peak along an axis of the lattice initialisation, PWL initialisers, KFL initialisers. -/
namespace Tfl.Init
open Tfl

/-! ### valley / peak along a unimodal axis of `linear_initializer` -/

theorem contrib_valley (sizes : List Nat) (monos : List Bool) (unimods : List Int) (omin omax : ℚ) (d k : Nat)
    (hm : (effMonos sizes.length monos unimods).getD d false = false) (hu : unimods.getD d 0 = 1) :
    contrib sizes monos unimods omin omax d k =
      getR (valleyList (dimRange sizes.length monos unimods omin omax) (sizes.getD d 0)) k := by
  simp only [contrib, hm, hu, oneD_valley]
theorem contrib_peak (sizes : List Nat) (monos : List Bool) (unimods : List Int) (omin omax : ℚ) (d k : Nat)
    (hm : (effMonos sizes.length monos unimods).getD d false = false) (hu : unimods.getD d 0 = -1) :
    contrib sizes monos unimods omin omax d k =
      getR (peakList (dimRange sizes.length monos unimods omin omax) (sizes.getD d 0)) k := by
  simp only [contrib, hm, hu, oneD_peak]

/-- along a valley dimension the initial kernel does not increase on the pairs `k < size/2` and does
not decrease on the pairs `k ≥ size/2`; along a peak dimension the other way round -/
theorem linearInit_unimodal_axis (sizes : List Nat) (monos : List Bool) (unimods : List Int) (omin omax : ℚ)
    (hlt : omin ≤ omax) (idx : Idx) (hl : idx.length = sizes.length) (d : Nat) (hd : d < sizes.length)
    (hm : (effMonos sizes.length monos unimods).getD d false = false) (hs : 3 ≤ sizes.getD d 0)
    (k : Nat) (hk : k + 1 < sizes.getD d 0) :
    let w := linearInit sizes monos unimods omin omax
    (unimods.getD d 0 = 1 →
      (k < sizes.getD d 0 / 2 → w (setc idx d (k + 1)) ≤ w (setc idx d k)) ∧
      (sizes.getD d 0 / 2 ≤ k → w (setc idx d k) ≤ w (setc idx d (k + 1)))) ∧
    (unimods.getD d 0 = -1 →
      (k < sizes.getD d 0 / 2 → w (setc idx d k) ≤ w (setc idx d (k + 1))) ∧
      (sizes.getD d 0 / 2 ≤ k → w (setc idx d (k + 1)) ≤ w (setc idx d k))) := by
  intro w
  have hR := dimRange_nonneg sizes monos unimods omin omax hlt
  have hsub := linearInit_setc_sub sizes monos unimods omin omax idx hl d hd (k + 1) k
  have hv := valley_shape (dimRange sizes.length monos unimods omin omax) hR (sizes.getD d 0) k hs hk
  constructor
  · intro hu
    rw [contrib_valley sizes monos unimods omin omax d _ hm hu,
      contrib_valley sizes monos unimods omin omax d _ hm hu] at hsub
    exact ⟨fun h => by have := hv.1 h; show w _ ≤ w _; linarith, fun h => by have := hv.2 h; show w _ ≤ w _; linarith⟩
  · intro hu
    rw [contrib_peak sizes monos unimods omin omax d _ hm hu, contrib_peak sizes monos unimods omin omax d _ hm hu,
      getR_peak_eq _ _ _ hs hk, getR_peak_eq _ _ _ hs (by omega)] at hsub
    exact ⟨fun h => by have := hv.1 h; show w _ ≤ w _; linarith, fun h => by have := hv.2 h; show w _ ≤ w _; linarith⟩

/-! ### PWL `linear_initializer` -/

theorem rsum_replicate (n : Nat) (c : ℚ) : rsum (List.replicate n c) = (n : ℚ) * c := by
  induction n with
  | zero => simp [rsum]
  | succ n ih => simp only [List.replicate_succ, rsum, ih]; push_cast; ring

theorem rsum_map_mul (l : List ℚ) (c : ℚ) : rsum (l.map (fun x => x * c)) = rsum l * c := by
  induction l with
  | nil => simp [rsum]
  | cons a r ih => simp only [List.map_cons, rsum, ih]; ring

theorem rsum_map_neg (l : List ℚ) : rsum (l.map (fun x => -x)) = - rsum l := by
  induction l with
  | nil => simp [rsum]
  | cons a r ih => simp only [List.map_cons, rsum, ih]; ring

theorem pwlLinearInit_inc (nk : Nat) (omin omax : ℚ) (mono : Int) (hm : mono ≠ -1) (kp : Option (List ℚ)) :
    pwlLinearInit nk omin omax mono kp = (omin, (pwlLinearInit nk omin omax 1 kp).2) := by
  unfold pwlLinearInit; rw [if_neg hm, if_neg (by decide)]
theorem pwlLinearInit_dec (nk : Nat) (omin omax : ℚ) (kp : Option (List ℚ)) :
    pwlLinearInit nk omin omax (-1) kp = (omax, (pwlLinearInit nk omin omax 1 kp).2.map (fun h => -h)) := by
  unfold pwlLinearInit; rw [if_pos rfl, if_neg (by decide)]

/-- heights of the increasing equal-heights initialiser -/
theorem pwl_heights_none (nk : Nat) (omin omax : ℚ) :
    (pwlLinearInit nk omin omax 1 none).2 = List.replicate (nk - 1) ((omax - omin) / ((nk - 1 : ℕ) : ℚ)) := by
  unfold pwlLinearInit; rw [if_neg (by decide)]
theorem pwl_heights_some (nk : Nat) (omin omax : ℚ) (kp : List ℚ) :
    (pwlLinearInit nk omin omax 1 (some kp)).2 =
      (diffs kp).map (fun l => l * ((omax - omin) / rsum (diffs kp))) := by
  unfold pwlLinearInit; rw [if_neg (by decide)]

/-- equal heights: `num_keypoints - 1` equal heights adding up to `max - min`, non-negative -/
theorem pwl_equal_heights (nk : Nat) (hnk : 2 ≤ nk) (omin omax : ℚ) (hlt : omin ≤ omax) :
    let hs := (pwlLinearInit nk omin omax 1 none).2
    hs.length = nk - 1 ∧ (∀ h ∈ hs, h = (omax - omin) / ((nk - 1 : ℕ) : ℚ)) ∧ rsum hs = omax - omin ∧
      ∀ h ∈ hs, 0 ≤ h := by
  intro hs
  have hne : ((nk - 1 : ℕ) : ℚ) ≠ 0 := by exact_mod_cast (by omega : nk - 1 ≠ 0)
  have hq : 0 ≤ (omax - omin) / ((nk - 1 : ℕ) : ℚ) := div_nonneg (by linarith) (by positivity)
  simp only [hs, pwl_heights_none]
  refine ⟨by simp, fun h hh => (List.mem_replicate.mp hh).2, ?_, fun h hh => by rw [(List.mem_replicate.mp hh).2]; exact hq⟩
  rw [rsum_replicate]; field_simp

/-- equal slopes: height `i` is `length_i · c` with ONE constant `c = (max - min)/Σ lengths ≥ 0`,
adding up to `max - min` -/
theorem pwl_equal_slopes (nk : Nat) (omin omax : ℚ) (hlt : omin ≤ omax) (kp : List ℚ)
    (hpos : ∀ l ∈ diffs kp, 0 < l) (hne : diffs kp ≠ []) :
    let hs := (pwlLinearInit nk omin omax 1 (some kp)).2
    hs = (diffs kp).map (fun l => l * ((omax - omin) / rsum (diffs kp))) ∧ rsum hs = omax - omin ∧
      ∀ h ∈ hs, 0 ≤ h := by
  intro hs
  have hsum : 0 < rsum (diffs kp) := by
    cases hd : diffs kp with
    | nil => exact absurd hd hne
    | cons a l =>
      rw [hd] at hpos
      have h1 := hpos a (List.mem_cons_self ..)
      have h2 : 0 ≤ rsum l := Tfl.Kfl.rsum_nonneg l (fun v hv => le_of_lt (hpos v (List.mem_cons_of_mem _ hv)))
      simp only [rsum]; linarith
  have hq : 0 ≤ (omax - omin) / rsum (diffs kp) := div_nonneg (by linarith) (le_of_lt hsum)
  simp only [hs, pwl_heights_some]
  refine ⟨trivial, ?_, ?_⟩
  · rw [rsum_map_mul]; field_simp
  · intro h hh
    obtain ⟨l, hl, rfl⟩ := List.mem_map.mp hh
    exact mul_nonneg (le_of_lt (hpos l hl)) hq

end Tfl.Init
