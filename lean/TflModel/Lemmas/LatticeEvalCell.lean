import TflModel.Lemmas.LatticeSimplex
/-!
# Cell support of the interpolation weights; Edgeworth effect for arbitrary axes

* `corners c` — the `2^rank` corners `c + ε`, `ε ∈ {0,1}^rank`, of the cell with lower corner `c`;
  `evalRec_cell_corners`: the multilinear interpolant at a point of that cell is the sum over these
  corners only, `prodW_eq_zero_off_cell`: every other vertex has weight 0.
* `chain P S` — the vertices `P, P + e_{s1}, P + e_{s1} + e_{s2}, …` the simplex walk visits;
  `walkK_eq_chain`, `chain_sub_corners`.
* `EdgeworthAx sizes m c K` — non-negative mixed second differences between two arbitrary distinct
  axes; `evalRec_edgeworth_axes` — the effect of axis `m` is non-decreasing in coordinate `c`.
-/
namespace Tfl.LatticeEval
open Tfl

/-! ## corners of a cell -/

/-- the corners `c + ε`, `ε ∈ {0,1}^rank`, of the cell with lower corner `c` (row-major in `ε`) -/
def corners : Idx → List Idx
  | [] => [[]]
  | c :: cs => (corners cs).map (fun t => c :: t) ++ (corners cs).map (fun t => (c + 1) :: t)

theorem mem_corners : ∀ (c idx : Idx),
    idx ∈ corners c ↔ idx.length = c.length ∧ ∀ d, d < c.length → coord idx d = coord c d ∨ coord idx d = coord c d + 1
  | [], idx => by
    simp only [corners, List.mem_singleton, List.length_nil, Nat.not_lt_zero, false_imp_iff, implies_true,
      and_true]
    exact ⟨fun h => by rw [h]; rfl, fun h => List.length_eq_zero_iff.mp h⟩
  | c :: cs, [] => by
    simp [corners]
  | c :: cs, i :: t => by
    have ih := mem_corners cs t
    simp only [corners, List.mem_append, List.mem_map, List.cons.injEq, List.length_cons, Nat.add_right_cancel_iff]
    constructor
    · rintro (⟨t', ht', hi, rfl⟩ | ⟨t', ht', hi, rfl⟩)
      · obtain ⟨hl, hc⟩ := ih.mp ht'
        refine ⟨hl, fun d hd => ?_⟩
        cases d with
        | zero => left; simp [coord, hi]
        | succ d => simpa [coord] using hc d (by simpa using hd)
      · obtain ⟨hl, hc⟩ := ih.mp ht'
        refine ⟨hl, fun d hd => ?_⟩
        cases d with
        | zero => right; simp [coord, hi]
        | succ d => simpa [coord] using hc d (by simpa using hd)
    · rintro ⟨hl, hc⟩
      have ht : t ∈ corners cs := ih.mpr ⟨hl, fun d hd => by simpa [coord] using hc (d + 1) (by omega)⟩
      rcases hc 0 (by omega) with h | h
      · left; exact ⟨t, ht, by simpa [coord] using h.symm, rfl⟩
      · right; exact ⟨t, ht, by simpa [coord] using h.symm, rfl⟩

/-- the corners of a cell of the box are vertices of the box -/
theorem corners_sub_allIdx (sizes : List Nat) (c : Idx) (hl : c.length = sizes.length)
    (hroom : ∀ d, d < sizes.length → coord c d + 1 < sizes.getD d 0) :
    ∀ idx ∈ corners c, idx ∈ allIdx sizes := by
  intro idx hi
  obtain ⟨h1, h2⟩ := (mem_corners c idx).mp hi
  rw [mem_allIdx_iff]
  refine ⟨by rw [h1, hl], fun d hd => ?_⟩
  have := hroom d hd
  rcases h2 d (by rw [hl]; exact hd) with h | h <;> omega

theorem hat_cell_lower (j : Nat) (x : ℚ) (h1 : (j : ℚ) ≤ x) (h2 : x ≤ (j : ℚ) + 1) : hat j x = 1 - (x - j) := by
  simp only [hat, absR, min_def]; split_ifs <;> linarith
theorem hat_cell_upper (j : Nat) (x : ℚ) (h1 : (j : ℚ) ≤ x) (h2 : x ≤ (j : ℚ) + 1) : hat (j + 1) x = x - j := by
  simp only [hat, absR, min_def]; push_cast; split_ifs <;> linarith
/-- a vertex coordinate that is neither end of the interval `[j, j+1]` containing `x` has hat weight 0 -/
theorem hat_off_cell (i j : Nat) (x : ℚ) (h1 : (j : ℚ) ≤ x) (h2 : x ≤ (j : ℚ) + 1) (hi : i ≠ j) (hi' : i ≠ j + 1) :
    hat i x = 0 := by
  rcases Nat.lt_or_ge i j with h | h
  · have : (i : ℚ) + 1 ≤ j := by exact_mod_cast h
    simp only [hat, absR, min_def]; split_ifs <;> linarith
  · have : (j : ℚ) + 2 ≤ i := by exact_mod_cast (by omega : j + 2 ≤ i)
    simp only [hat, absR, min_def]; split_ifs <;> linarith

/-- `y` lies in the closed cell with lower corner `c` (pointwise form) -/
def InCell (sizes : List Nat) (y : List ℚ) (c : Idx) : Prop :=
  ∀ d, d < sizes.length → coord c d + 1 < sizes.getD d 0 ∧ (coord c d : ℚ) ≤ y.getD d 0 ∧ y.getD d 0 ≤ (coord c d : ℚ) + 1

theorem InCell.tail {n : Nat} {ns : List Nat} {yd : ℚ} {ys : List ℚ} {c : Nat} {cs : Idx}
    (h : InCell (n :: ns) (yd :: ys) (c :: cs)) : InCell ns ys cs := by
  intro d hd
  simpa [coord] using h (d + 1) (by simpa using hd)
theorem InCell.head {n : Nat} {ns : List Nat} {yd : ℚ} {ys : List ℚ} {c : Nat} {cs : Idx}
    (h : InCell (n :: ns) (yd :: ys) (c :: cs)) : c + 1 < n ∧ (c : ℚ) ≤ yd ∧ yd ≤ (c : ℚ) + 1 := by
  simpa [coord] using h 0 (by simp)

/-- **cell formula, all axes at once**: at a point of the closed cell with lower corner `c` the
multilinear interpolant is the sum over the `2^rank` corners of that cell of the product hat weight
times the corner's kernel value — no other vertex contributes. -/
theorem evalRec_cell_corners : ∀ (sizes : List Nat) (y : List ℚ) (c : Idx) (K : W),
    y.length = sizes.length → c.length = sizes.length → InCell sizes y c →
    evalRec sizes y K = rsum ((corners c).map (fun idx => prodW y idx * K idx))
  | [], [], [], K, _, _, _ => by simp [evalRec, corners, prodW, rsum]
  | [], _ :: _, _, _, h, _, _ => by simp at h
  | [], [], _ :: _, _, _, h, _ => by simp at h
  | _ :: _, [], _, _, h, _, _ => by simp at h
  | _ :: _, _ :: _, [], _, _, h, _ => by simp at h
  | n :: ns, yd :: ys, c :: cs, K, hy, hc, hin => by
    obtain ⟨hj, h1, h2⟩ := hin.head
    have ih := fun i => evalRec_cell_corners ns ys cs (fun t => K (i :: t)) (by simpa using hy) (by simpa using hc)
      hin.tail
    simp only [evalRec]
    rw [interpHat_cell n _ c yd hj h1 h2, ih c, ih (c + 1)]
    simp only [corners, List.map_append, List.map_map, rsum_append, Function.comp_def, prodW]
    rw [hat_cell_lower c yd h1 h2, hat_cell_upper c yd h1 h2, ← rsum_map_mul_left, ← rsum_map_mul_left]
    congr 1 <;> (congr 1; apply List.map_congr_left; intro t _; ring)

/-- **support**: a vertex that differs from both ends of the cell along some axis has weight 0 -/
theorem prodW_eq_zero_off_cell : ∀ (sizes : List Nat) (y : List ℚ) (c idx : Idx),
    y.length = sizes.length → c.length = sizes.length → idx.length = sizes.length → InCell sizes y c →
    (∃ d, d < sizes.length ∧ coord idx d ≠ coord c d ∧ coord idx d ≠ coord c d + 1) → prodW y idx = 0
  | [], _, _, _, _, _, _, _, ⟨d, hd, _⟩ => by simp at hd
  | _ :: _, [], _, _, h, _, _, _, _ => by simp at h
  | _ :: _, _ :: _, [], _, _, h, _, _, _ => by simp at h
  | _ :: _, _ :: _, _ :: _, [], _, _, h, _, _ => by simp at h
  | n :: ns, yd :: ys, c :: cs, i :: t, hy, hc, hi, hin, ⟨d, hd, h1, h2⟩ => by
    obtain ⟨_, g1, g2⟩ := hin.head
    simp only [prodW]
    cases d with
    | zero =>
      simp only [coord, List.getD_cons_zero] at h1 h2
      rw [hat_off_cell i c yd g1 g2 h1 h2, zero_mul]
    | succ d =>
      simp only [coord, List.getD_cons_succ] at h1 h2
      rw [prodW_eq_zero_off_cell ns ys cs t (by simpa using hy) (by simpa using hc) (by simpa using hi) hin.tail
        ⟨d, by simpa using hd, h1, h2⟩, mul_zero]

/-- the weights of the corners are a convex combination -/
theorem corner_weights_sum (sizes : List Nat) (y : List ℚ) (c : Idx) (hy : InRange sizes y)
    (hc : c.length = sizes.length) (hin : InCell sizes y c) :
    rsum ((corners c).map (prodW y)) = 1 := by
  have := evalRec_cell_corners sizes y c (fun _ => 1) hy.length_eq hc hin
  rw [evalRec_const sizes y 1 hy] at this
  simpa using this.symm

/-- the cell the code selects (`cellIdx`) contains the in-range point -/
theorem inCell_cellIdx (sizes : List Nat) (y : List ℚ) (hs : ∀ n ∈ sizes, 2 ≤ n) (hy : InRange sizes y) :
    InCell sizes y (cellIdx sizes y) := by
  intro d hd
  have hroom := cellIdx_room sizes y hs hy d hd
  have hr := simplexSplit_resid_getD sizes y hs hy d hd
  have hmem := simplexSplit_resid_mem sizes y hs hy _
    (getD_mem_of_lt _ d (by rw [simplexSplit_resid_length sizes y hy.length_eq]; exact hd))
  rw [hr] at hmem
  exact ⟨by omega, by linarith [hmem.1], by linarith [hmem.2]⟩

/-! ## the chain of vertices of the simplex walk -/

/-- `P, P + e_{s1}, P + e_{s1} + e_{s2}, …` -/
def chain (P : Idx) : List Nat → List Idx
  | [] => [P]
  | s :: S => P :: chain (bump P s) S

/-- the walk is `Σ_k weight_k · K(vertex_k)` with the gap weights `wts` and the vertices `chain` -/
theorem walkK_eq_chain (K : W) : ∀ (L : List (ℚ × Nat)) (prev : ℚ) (P : Idx),
    walkK K prev P L = rsum (List.zipWith (fun w v => w * K v) (wts prev (L.map (·.1))) (chain P (L.map (·.2))))
  | [], prev, P => by simp [walkK, wts_nil, chain, rsum]
  | p :: L, prev, P => by
    simp only [walkK, List.map_cons, wts_cons, chain, List.zipWith_cons_cons, rsum]
    rw [walkK_eq_chain K L p.1 (bump P p.2)]

/-- every vertex of the chain is a corner of the cell with lower corner `P`, when the raised
positions are distinct and inside the rank -/
theorem chain_sub_corners : ∀ (S : List Nat) (P Q : Idx), Q.length = P.length →
    (∀ d, d < P.length → coord Q d = coord P d ∨ (coord Q d = coord P d + 1 ∧ d ∉ S)) →
    S.Nodup → ∀ v ∈ chain Q S, v ∈ corners P
  | [], P, Q, hl, h, _, v, hv => by
    simp only [chain, List.mem_singleton] at hv
    subst hv
    exact (mem_corners P v).mpr ⟨hl, fun d hd => (h d hd).imp id (fun x => x.1)⟩
  | s :: S, P, Q, hl, h, hnd, v, hv => by
    simp only [chain, List.mem_cons] at hv
    rcases hv with rfl | hv
    · exact (mem_corners P v).mpr ⟨hl, fun d hd => (h d hd).imp id (fun x => x.1)⟩
    · rw [List.nodup_cons] at hnd
      refine chain_sub_corners S P (bump Q s) (by simp [hl]) ?_ hnd.2 v hv
      intro d hd
      rw [coord_bump]
      by_cases hds : d = s
      · subst hds
        have hdq : d < Q.length := by rw [hl]; exact hd
        simp only [hdq, and_self, if_true]
        rcases h d hd with h0 | ⟨_, hn⟩
        · right; exact ⟨by omega, hnd.1⟩
        · exact absurd (List.mem_cons_self) hn
      · simp only [hds, false_and, if_false]
        rcases h d hd with h0 | ⟨h1, hn⟩
        · left; exact h0
        · right; exact ⟨h1, fun hm => hn (List.mem_cons_of_mem _ hm)⟩

/-! ## Edgeworth trust between two arbitrary distinct axes -/

/-- non-negative mixed second differences of the vertex values between axes `m` (main) and `c`
(conditional), at every vertex of the box that has a neighbour in both directions: the effect
`K(v + e_m) − K(v)` of the main axis does not decrease when the conditional coordinate is raised.
(The condition is symmetric in `m` and `c`.) -/
def EdgeworthAx (sizes : List Nat) (m c : Nat) (K : W) : Prop :=
  ∀ idx ∈ allIdx sizes, coord idx m + 1 < sizes.getD m 0 → coord idx c + 1 < sizes.getD c 0 →
    K (bump idx m) - K idx ≤ K (bump (bump idx m) c) - K (bump idx c)

theorem edgeworthAx_succ_succ {n : Nat} {ns : List Nat} {m c : Nat} {K : W}
    (h : EdgeworthAx (n :: ns) (m + 1) (c + 1) K) (i : Nat) (hi : i < n) :
    EdgeworthAx ns m c (fun t => K (i :: t)) := by
  intro t ht hm hc
  have := h (i :: t) (mem_allIdx_cons.mpr ⟨hi, ht⟩) (by simpa [coord] using hm) (by simpa [coord] using hc)
  simpa [bump_cons_succ] using this

theorem edgeworthAx_zero_succ {n : Nat} {ns : List Nat} {c : Nat} {K : W}
    (h : EdgeworthAx (n :: ns) 0 (c + 1) K) (i : Nat) (hi : i + 1 < n) :
    MonoAx ns c (fun t => K ((i + 1) :: t) - K (i :: t)) := by
  intro t ht hc
  have := h (i :: t) (mem_allIdx_cons.mpr ⟨by omega, ht⟩) (by simpa [coord] using hi) (by simpa [coord] using hc)
  simp only [bump_cons_zero, bump_cons_succ] at this
  simpa [bump] using this

theorem edgeworthAx_succ_zero {n : Nat} {ns : List Nat} {m : Nat} {K : W}
    (h : EdgeworthAx (n :: ns) (m + 1) 0 K) (j : Nat) (hj : j + 1 < n) :
    MonoAx ns m (fun t => K ((j + 1) :: t) - K (j :: t)) := by
  intro t ht hm
  have := h (j :: t) (mem_allIdx_cons.mpr ⟨by omega, ht⟩) (by simpa [coord] using hm) (by simpa [coord] using hj)
  simp only [bump_cons_zero, bump_cons_succ] at this
  have e : K ((j + 1) :: bump t m) - K (j :: bump t m) - (K ((j + 1) :: t) - K (j :: t))
      = K ((j + 1) :: bump t m) - K ((j + 1) :: t) - (K (j :: bump t m) - K (j :: t)) := by ring
  have : K ((j + 1) :: t) - K (j :: t) ≤ K ((j + 1) :: bump t m) - K (j :: bump t m) := by linarith
  simpa [bump] using this

theorem evalRec_sub (sizes : List Nat) (x : List ℚ) (K K' : W) :
    evalRec sizes x (fun t => K t - K' t) = evalRec sizes x K - evalRec sizes x K' := by
  have := evalRec_add sizes x (fun t => K t - K' t) K'
  simp only [sub_add_cancel] at this
  linarith

/-- **T5 core, arbitrary axes.** Kernel with non-negative mixed differences between the distinct axes
`m`, `c` ⇒ for ALL `a ≤ a'` on the range of axis `m` and ALL `b ≤ b'` on the range of axis `c` (the
other coordinates of `x` arbitrary): `f(a', b) − f(a, b) ≤ f(a', b') − f(a, b')`. By structural induction
on the axes; when one of the two axes is peeled off, the difference kernel along it is monotone along
the other (`evalRec_mono_axis`). -/
theorem evalRec_edgeworth_axes : ∀ (sizes : List Nat) (m c : Nat) (x : List ℚ) (K : W) (a a' b b' : ℚ),
    x.length = sizes.length → m < sizes.length → c < sizes.length → m ≠ c → EdgeworthAx sizes m c K →
    0 ≤ a → a ≤ a' → a' ≤ (sizes.getD m 0 : ℚ) - 1 → 0 ≤ b → b ≤ b' → b' ≤ (sizes.getD c 0 : ℚ) - 1 →
    evalRec sizes ((x.set m a').set c b) K - evalRec sizes ((x.set m a).set c b) K
      ≤ evalRec sizes ((x.set m a').set c b') K - evalRec sizes ((x.set m a).set c b') K := by
  intro sizes
  induction sizes with
  | nil => intro m c x K a a' b b' _ hm; simp at hm
  | cons n ns ih =>
    intro m c x K a a' b b' hx hm hc hmc hK ha0 ha ha1 hb0 hb hb1
    cases x with
    | nil => simp at hx
    | cons xd xs =>
      have hl : xs.length = ns.length := by simpa using hx
      cases m with
      | zero =>
        cases c with
        | zero => exact absurd rfl hmc
        | succ c =>
          simp only [List.getD_cons_zero, List.getD_cons_succ] at ha1 hb1
          simp only [List.set_cons_zero, List.set_cons_succ, evalRec]
          have hn : 1 ≤ n := by
            have : (1 : ℚ) ≤ n := by linarith
            exact_mod_cast this
          rw [interpHat_eq_interpRamp n _ a' hn (by linarith) ha1, interpHat_eq_interpRamp n _ a hn ha0 (by linarith),
            interpHat_eq_interpRamp n _ a' hn (by linarith) ha1, interpHat_eq_interpRamp n _ a hn ha0 (by linarith),
            interpRamp_diff, interpRamp_diff]
          apply sumR_le
          intro i hi
          apply mul_le_mul_of_nonneg_right _ (by have := ramp_mono i ha; linarith)
          rw [← evalRec_sub, ← evalRec_sub]
          have hcl : c < ns.length := by simpa using hc
          have hlen : (xs.set c b).length = ns.length := by simp [hl]
          have hget : (xs.set c b).getD c 0 = b := by
            simp [List.getD_eq_getElem?_getD, hl, hcl]
          have := evalRec_mono_axis ns c (xs.set c b) (fun t => K ((i + 1) :: t) - K (i :: t)) b' hlen hcl
            (edgeworthAx_zero_succ hK i (by omega)) (by rw [hget]; exact hb0) (by rw [hget]; exact hb) hb1
          simpa using this
      | succ m =>
        cases c with
        | zero =>
          simp only [List.getD_cons_zero, List.getD_cons_succ] at ha1 hb1
          simp only [List.set_cons_zero, List.set_cons_succ, evalRec]
          have hn : 1 ≤ n := by
            have : (1 : ℚ) ≤ n := by linarith
            exact_mod_cast this
          rw [← interpHat_sub, ← interpHat_sub]
          apply interpHat_mono n _ hn _ hb0 hb hb1
          intro j hj
          have hml : m < ns.length := by simpa using hm
          have hlen : (xs.set m a).length = ns.length := by simp [hl]
          have hget : (xs.set m a).getD m 0 = a := by
            simp [List.getD_eq_getElem?_getD, hl, hml]
          have := evalRec_mono_axis ns m (xs.set m a) (fun t => K ((j + 1) :: t) - K (j :: t)) a' hlen hml
            (edgeworthAx_succ_zero hK j hj) (by rw [hget]; exact ha0) (by rw [hget]; exact ha) ha1
          rw [List.set_set, evalRec_sub, evalRec_sub] at this
          linarith
        | succ c =>
          simp only [List.getD_cons_succ] at ha1 hb1
          simp only [List.set_cons_succ, evalRec]
          rw [← interpHat_sub, ← interpHat_sub]
          apply interpHat_le
          intro i hi
          exact ih m c xs (fun t => K (i :: t)) a a' b b' hl (by simpa using hm) (by simpa using hc)
            (fun e => hmc (by rw [e])) (edgeworthAx_succ_succ hK i hi) ha0 ha ha1 hb0 hb hb1

/-- `dot` is odd in the kernel -/
theorem dot_neg_right : ∀ (w k : List ℚ), dot w (k.map (fun v => -v)) = - dot w k
  | [], k => by simp [dot]
  | _ :: _, [] => by simp [dot]
  | a :: w, b :: k => by
    have := dot_neg_right w k
    simp only [dot, List.map_cons, List.zipWith_cons_cons, rsum] at this ⊢
    rw [this]; ring

end Tfl.LatticeEval
