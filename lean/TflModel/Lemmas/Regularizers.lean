import TflModel.Model.Regularizers
import TflModel.Lemmas.IdxReg
import TflModel.Lemmas.Poset
/-! Lemmas for C13: norms, the PWL difference calculus, index swaps and the reindexing of the
transposed / reshaped / sliced lattice tensor. -/
namespace Tfl.Reg
open Tfl

/-! ### `sumAbs`, `sumSq` -/
theorem ratAbs_nonneg (x : Rat) : 0 ≤ Rat.abs x := by rw [Tfl.Poset.ratAbs_eq]; exact abs_nonneg x
theorem ratAbs_zero : Rat.abs 0 = 0 := by rw [Tfl.Poset.ratAbs_eq]; simp

theorem sumAbs_nonneg (v : List Rat) : 0 ≤ sumAbs v := by
  apply rsum_nonneg; intro x hx
  obtain ⟨y, _, rfl⟩ := List.mem_map.mp hx
  exact ratAbs_nonneg y
theorem sumSq_nonneg (v : List Rat) : 0 ≤ sumSq v := by
  apply rsum_nonneg; intro x hx
  obtain ⟨y, _, rfl⟩ := List.mem_map.mp hx
  exact mul_self_nonneg y
theorem sumAbs_eq_zero {v : List Rat} (h : ∀ x ∈ v, x = 0) : sumAbs v = 0 := by
  apply rsum_eq_zero; intro x hx
  obtain ⟨y, hy, rfl⟩ := List.mem_map.mp hx
  rw [h y hy]; exact ratAbs_zero
theorem sumSq_eq_zero {v : List Rat} (h : ∀ x ∈ v, x = 0) : sumSq v = 0 := by
  apply rsum_eq_zero; intro x hx
  obtain ⟨y, hy, rfl⟩ := List.mem_map.mp hx
  rw [h y hy]; ring
theorem sumAbs_map {α} (l : List α) (f : α → Rat) :
    sumAbs (l.map f) = rsum (l.map (fun a => Rat.abs (f a))) := by simp [sumAbs, List.map_map, Function.comp_def]
theorem sumSq_map {α} (l : List α) (f : α → Rat) :
    sumSq (l.map f) = rsum (l.map (fun a => f a * f a)) := by simp [sumSq, List.map_map, Function.comp_def]
theorem sumAbs_flatMap {α} (l : List α) (f : α → List Rat) :
    sumAbs (l.flatMap f) = rsum (l.map (fun a => sumAbs (f a))) := by
  simp only [sumAbs, List.map_flatMap, rsum_flatMap]
theorem sumSq_flatMap {α} (l : List α) (f : α → List Rat) :
    sumSq (l.flatMap f) = rsum (l.map (fun a => sumSq (f a))) := by
  simp only [sumSq, List.map_flatMap, rsum_flatMap]

theorem absSq_nonneg {l1 l2 : Rat} (h1 : 0 ≤ l1) (h2 : 0 ≤ l2) (x : Rat) : 0 ≤ absSq l1 l2 x :=
  add_nonneg (mul_nonneg h1 (ratAbs_nonneg x)) (mul_nonneg h2 (mul_self_nonneg x))
theorem absSq_zero (l1 l2 : Rat) : absSq l1 l2 0 = 0 := by simp [absSq]
theorem absSq_zero_amounts (x : Rat) : absSq 0 0 x = 0 := by simp [absSq]

/-- `l1 * Σ|x| + l2 * Σ x²` as one sum of `absSq` terms -/
theorem rsum_absSq {α} (l : List α) (f : α → Rat) (l1 l2 : Rat) :
    rsum (l.map (fun a => absSq l1 l2 (f a))) = sumAbs (l.map f) * l1 + sumSq (l.map f) * l2 := by
  simp only [absSq, rsum_map_add, rsum_map_mul_left, sumAbs_map, sumSq_map]; ring

/-! ### the `losses` logic -/
theorem combine_eq (l1 l2 : Rat) (v : List Rat) : combine l1 l2 v = l1 * sumAbs v + l2 * sumSq v := by
  unfold combine
  by_cases h1 : l1 = 0 <;> by_cases h2 : l2 = 0 <;> simp [h1, h2]

theorem pwlReg_eq (terms : List Rat → List Rat) (l1 l2 : Rat) (cols : List (List Rat)) :
    pwlReg terms l1 l2 cols = l1 * sumAbs (cols.flatMap terms) + l2 * sumSq (cols.flatMap terms) := by
  unfold pwlReg
  split
  · rename_i h
    simp only [Bool.and_eq_true, beq_iff_eq] at h
    simp [h.1, h.2]
  · exact combine_eq ..

/-! ### difference calculus on lists -/
@[simp] theorem diffs_nil : diffs [] = [] := rfl
@[simp] theorem diffs_single (x : Rat) : diffs [x] = [] := rfl
@[simp] theorem diffs_cons_cons (x y : Rat) (l : List Rat) :
    diffs (x :: y :: l) = (y - x) :: diffs (y :: l) := by
  simp [diffs, List.dropLast]

theorem cumFrom_cons (acc : Rat) (l : List Rat) : ∃ t, cumFrom acc l = acc :: t := by
  cases l <;> exact ⟨_, rfl⟩

/-- differences of the running sums followed by more points -/
theorem diffs_cumFrom_append (b : Rat) (hs : List Rat) (c : Rat) (t : List Rat) :
    diffs (cumFrom b hs ++ c :: t) = hs ++ (c - (b + rsum hs)) :: diffs (c :: t) := by
  induction hs generalizing b with
  | nil => simp [cumFrom, rsum]
  | cons h hs ih =>
    obtain ⟨r, hr⟩ := cumFrom_cons (b + h) hs
    have := ih (b + h)
    simp only [cumFrom, hr, List.cons_append, diffs_cons_cons] at this ⊢
    rw [this]
    simp only [rsum, List.cons.injEq, List.append_cancel_left_eq, and_true]
    constructor <;> ring

theorem diffs_cumFrom (b : Rat) (hs : List Rat) : diffs (cumFrom b hs) = hs := by
  induction hs generalizing b with
  | nil => rfl
  | cons h hs ih =>
    obtain ⟨r, hr⟩ := cumFrom_cons (b + h) hs
    have := ih (b + h)
    simp only [cumFrom, hr, diffs_cons_cons] at this ⊢
    rw [this]; congr 1; ring

theorem diffs_map_range' (f : Nat → Rat) (s n : Nat) :
    diffs ((List.range' s n).map f) = (List.range' s (n - 1)).map (fun j => f (j + 1) - f j) := by
  induction n generalizing s with
  | zero => rfl
  | succ n ih =>
    cases n with
    | zero => rfl
    | succ n =>
      have := ih (s + 1)
      simp only [List.range'_succ, List.map_cons, diffs_cons_cons, Nat.add_sub_cancel] at this ⊢
      rw [this]

/-! ### T1 for the PWL regularizers: the code's terms are the m-th differences of the keypoint
outputs (periodically continued by `m` points when cyclic) -/
theorem pwlLapTerms_eq (cyc : Bool) (x : List Rat) (hx : x ≠ []) :
    pwlLapTerms cyc x = pwlSpecTerms 1 cyc x := by
  cases x with
  | nil => exact absurd rfl hx
  | cons b hs =>
    obtain ⟨r, hr⟩ := cumFrom_cons b hs
    cases cyc
    · simp [pwlLapTerms, pwlSpecTerms, outs, iterDiffs, diffs_cumFrom]
    · simp only [pwlLapTerms, pwlSpecTerms, outs, iterDiffs, List.drop_one, List.tail_cons, if_true]
      rw [hr, List.take_succ_cons, List.take_zero, ← hr, diffs_cumFrom_append]
      simp

theorem pwlHessTerms_eq (cyc : Bool) (x : List Rat) (hx : x ≠ []) :
    pwlHessTerms cyc x = pwlSpecTerms 2 cyc x := by
  cases x with
  | nil => exact absurd rfl hx
  | cons b hs =>
    cases cyc
    · simp [pwlHessTerms, pwlSpecTerms, outs, iterDiffs, diffs_cumFrom]
    · simp only [pwlHessTerms, pwlSpecTerms, outs, iterDiffs, List.drop_one, List.tail_cons, if_true]
      cases hs with
      | nil => simp [cumFrom, rsum]
      | cons h1 hs =>
        obtain ⟨r, hr⟩ := cumFrom_cons (b + h1) hs
        have e : (cumFrom b (h1 :: hs)).take 2 = [b, b + h1] := by simp [cumFrom, hr]
        rw [e, diffs_cumFrom_append]
        simp

theorem pwlWrinkleTerms_eq (cyc : Bool) (x : List Rat) (hx : 3 ≤ x.length) :
    pwlWrinkleTerms cyc x = pwlSpecTerms 3 cyc x := by
  have hlt : ¬ x.length < 3 := by omega
  match x, hx with
  | b :: h1 :: h2 :: hs, _ =>
    cases cyc
    · simp [pwlWrinkleTerms, pwlSpecTerms, outs, iterDiffs, diffs_cumFrom]
    · simp only [pwlWrinkleTerms, hlt, pwlSpecTerms, outs, iterDiffs, List.drop_one, List.tail_cons, if_true,
        if_false]
      obtain ⟨r, hr⟩ := cumFrom_cons (b + h1 + h2) hs
      have e : (cumFrom b (h1 :: h2 :: hs)).take 3 = [b, b + h1, b + h1 + h2] := by simp [cumFrom, hr]
      rw [e, diffs_cumFrom_append]
      simp

/-- iterated differences of a sequence given by a function of the index -/
theorem iterDiffs2_map_range (f : Nat → Rat) (n : Nat) :
    iterDiffs 2 ((List.range n).map f) =
      (List.range' 0 (n - 1 - 1)).map (fun j => (f (j + 1 + 1) - f (j + 1)) - (f (j + 1) - f j)) := by
  simp only [iterDiffs, List.range_eq_range', diffs_map_range']
theorem iterDiffs3_map_range (f : Nat → Rat) (n : Nat) :
    iterDiffs 3 ((List.range n).map f) =
      (List.range' 0 (n - 1 - 1 - 1)).map (fun j =>
        ((f (j + 1 + 1 + 1) - f (j + 1 + 1)) - (f (j + 1 + 1) - f (j + 1))) -
        ((f (j + 1 + 1) - f (j + 1)) - (f (j + 1) - f j))) := by
  simp only [iterDiffs, List.range_eq_range', diffs_map_range']

/-! ### index swaps and reindexing -/
@[simp] theorem length_swp (a b : Nat) (l : List Nat) : (swp a b l).length = l.length := by simp [swp]

theorem coord_swp (a b : Nat) (l : List Nat) (k : Nat) :
    coord (swp a b l) k =
      if k = b ∧ b < l.length then coord l a else if k = a ∧ a < l.length then coord l b else coord l k := by
  simp [swp, coord_setc]

theorem swp_self {a : Nat} {l : List Nat} (h : a < l.length) : swp a a l = l := by
  simp [swp, setc_coord_self h]

/-- reindexing a sum along a bijection between two duplicate-free lists -/
theorem rsum_reindex {α : Type} (L M : List α) (φ ψ : α → α) (g : α → Rat) (hL : L.Nodup) (hM : M.Nodup)
    (h1 : ∀ a ∈ L, φ a ∈ M) (h2 : ∀ b ∈ M, ψ b ∈ L) (h3 : ∀ a ∈ L, ψ (φ a) = a)
    (h4 : ∀ b ∈ M, φ (ψ b) = b) :
    rsum (L.map (fun a => g (φ a))) = rsum (M.map g) := by
  have hp : (L.map φ).Perm M := by
    apply (List.perm_ext_iff_of_nodup (hL.map_on ?_) hM).mpr
    · intro x
      simp only [List.mem_map]
      constructor
      · rintro ⟨a, ha, rfl⟩; exact h1 a ha
      · intro hx; exact ⟨ψ x, h2 x hx, h4 x hx⟩
    · intro a ha b hb e
      rw [← h3 a ha, ← h3 b hb, e]
  have : L.map (fun a => g (φ a)) = (L.map φ).map g := by simp [List.map_map, Function.comp_def]
  rw [this]
  exact rsum_perm (hp.map g)

theorem swp_mem_lap {sizes : List Nat} {d : Nat} (hd : d < sizes.length) {a : Idx}
    (ha : a ∈ allIdx (setc (swp 0 d sizes) 0 (coord sizes d - 1))) :
    swp 0 d a ∈ (allIdx sizes).filter (fun idx => coord idx d + 1 < coord sizes d) := by
  rw [mem_allIdx_box] at ha
  obtain ⟨hl, hc⟩ := ha
  simp only [length_setc, length_swp] at hl hc
  have h0 : 0 < sizes.length := by omega
  have c0 := hc 0 h0
  have cd := hc d hd
  simp only [List.mem_filter, mem_allIdx_box, decide_eq_true_eq, InBox, length_swp]
  simp only [coord_setc, coord_swp, length_swp, hl, h0, hd, and_true, true_and] at c0 cd ⊢
  refine ⟨fun k hk => ?_, ?_⟩
  · have ck := hc k hk
    simp only [coord_setc, coord_swp, length_swp, hl, h0, hd, and_true, true_and] at ck
    split_ifs at * <;> subst_vars <;> simp_all <;> omega
  · split_ifs at * <;> subst_vars <;> simp_all <;> omega

theorem swp_mem_lap' {sizes : List Nat} {d : Nat} (hd : d < sizes.length) {b : Idx}
    (hb : b ∈ (allIdx sizes).filter (fun idx => coord idx d + 1 < coord sizes d)) :
    swp 0 d b ∈ allIdx (setc (swp 0 d sizes) 0 (coord sizes d - 1)) := by
  simp only [List.mem_filter, mem_allIdx_box, decide_eq_true_eq, InBox] at hb
  obtain ⟨⟨hl, hc⟩, hp⟩ := hb
  have h0 : 0 < sizes.length := by omega
  have c0 := hc 0 h0
  have cd := hc d hd
  rw [mem_allIdx_box]
  refine ⟨by simp [hl], fun k hk => ?_⟩
  simp only [length_setc, length_swp] at hk
  have ck := hc k hk
  simp only [coord_setc, coord_swp, length_swp, hl, h0, hd, and_true, true_and]
  split_ifs <;> subst_vars <;> simp_all <;> omega

theorem swp_swp {a b : Nat} {l : List Nat} (ha : a < l.length) (hb : b < l.length) :
    swp a b (swp a b l) = l := by
  apply idx_ext (by simp)
  intro k _
  simp only [coord_swp, length_swp, ha, hb, and_true]
  split_ifs <;> subst_vars <;> simp_all

theorem swp_setc_left {a b : Nat} {l : List Nat} (ha : a < l.length) (hb : b < l.length) (v : Nat) :
    swp a b (setc l a v) = setc (swp a b l) b v := by
  apply idx_ext (by simp)
  intro k _
  simp only [coord_swp, coord_setc, length_swp, length_setc, ha, hb, and_true]
  split_ifs <;> subst_vars <;> simp_all

theorem swp_setc_right {a b : Nat} {l : List Nat} (ha : a < l.length) (hb : b < l.length) (v : Nat) :
    swp a b (setc l b v) = setc (swp a b l) a v := by
  apply idx_ext (by simp)
  intro k _
  simp only [coord_swp, coord_setc, length_swp, length_setc, ha, hb, and_true]
  split_ifs <;> subst_vars <;> simp_all

theorem swp_setc_other {a b c : Nat} {l : List Nat} (ha : a < l.length) (hb : b < l.length)
    (hca : c ≠ a) (hcb : c ≠ b) (v : Nat) :
    swp a b (setc l c v) = setc (swp a b l) c v := by
  apply idx_ext (by simp)
  intro k _
  simp only [coord_swp, coord_setc, length_swp, length_setc, ha, hb, and_true]
  split_ifs <;> subst_vars <;> simp_all

theorem coord_swp_right {a b : Nat} {l : List Nat} (hb : b < l.length) : coord (swp a b l) b = coord l a := by
  simp [coord_swp, hb]
/-! ### T1, lattice Laplacian -/
theorem cons_drop_one (l : List Nat) (h : 0 < l.length) (v : Nat) : v :: l.drop 1 = setc l 0 v := by
  cases l with
  | nil => simp at h
  | cons x xs => simp [setc]

theorem lapDiffs_eq {sizes : List Nat} {d : Nat} (hd : d < sizes.length) (w : W) :
    lapDiffs sizes d w = (allIdx (setc (swp 0 d sizes) 0 (coord sizes d - 1))).map
      (fun a => w (setc (swp 0 d a) d (coord (swp 0 d a) d + 1)) - w (swp 0 d a)) := by
  have h0 : 0 < sizes.length := by omega
  unfold lapDiffs
  by_cases hd0 : d > 0
  · simp only [hd0, if_true]
    rw [cons_drop_one _ (by simpa using h0)]
    apply List.map_congr_left
    intro a ha
    have hl : a.length = sizes.length := by simpa using (mem_allIdx_box.mp ha).1
    rw [swp_setc_left (by omega) (by omega), coord_swp_right (by omega)]
  · have e : d = 0 := by omega
    subst e
    simp only [lt_irrefl, if_false, gt_iff_lt]
    rw [swp_self h0, cons_drop_one _ h0]
    apply List.map_congr_left
    intro a ha
    have hl : a.length = sizes.length := by simpa using (mem_allIdx_box.mp ha).1
    rw [swp_self (by omega)]

/-- one dimension of the Laplacian: the code's slices enumerate each adjacent pair along `d` once -/
theorem lapDim_eq_spec {sizes : List Nat} {d : Nat} (hd : d < sizes.length) (w : W) (x y : Rat) :
    sumAbs (lapDiffs sizes d w) * x + sumSq (lapDiffs sizes d w) * y =
    rsum (((allIdx sizes).filter (fun idx => coord idx d + 1 < coord sizes d)).map (fun idx =>
      absSq x y (w (setc idx d (coord idx d + 1)) - w idx))) := by
  have h0 : 0 < sizes.length := by omega
  rw [lapDiffs_eq hd, ← rsum_absSq]
  exact rsum_reindex _ _ (swp 0 d) (swp 0 d)
    (fun idx => absSq x y (w (setc idx d (coord idx d + 1)) - w idx))
    (nodup_allIdx _) ((nodup_allIdx _).filter _)
    (fun a ha => swp_mem_lap hd ha) (fun b hb => swp_mem_lap' hd hb)
    (fun a ha => by
      have hl : a.length = sizes.length := by simpa using (mem_allIdx_box.mp ha).1
      exact swp_swp (by omega) (by omega))
    (fun b hb => by
      have hl : b.length = sizes.length := (mem_allIdx_box.mp (List.mem_filter.mp hb).1).1
      exact swp_swp (by omega) (by omega))

def amtGet (a : Option (List Rat)) : List Rat := a.getD []

theorem lapStep_eq (sizes : List Nat) (a1 a2 : Option (List Rat)) (w : W) (res : Rat) (d : Nat) :
    lapStep sizes a1 a2 w res d =
    res + (sumAbs (lapDiffs sizes d w) * getR (amtGet a1) d + sumSq (lapDiffs sizes d w) * getR (amtGet a2) d) := by
  have g0 : getR [] d = 0 := by simp [getR]
  unfold lapStep
  cases a1 <;> cases a2 <;> simp only [amtZeroAt, amtGet, Option.getD, g0, Bool.and_eq_true, beq_iff_eq,
    Bool.true_and, Bool.and_true] <;> split_ifs <;> simp_all <;> ring

theorem lapCore_eq_spec (sizes : List Nat) (a1 a2 : Option (List Rat)) (w : W) :
    lapCore sizes a1 a2 w = lapSpec sizes (amtGet a1) (amtGet a2) w := by
  unfold lapCore
  have e : lapStep sizes a1 a2 w = fun res d => res + (sumAbs (lapDiffs sizes d w) * getR (amtGet a1) d +
      sumSq (lapDiffs sizes d w) * getR (amtGet a2) d) := by
    funext res d; exact lapStep_eq ..
  rw [e]
  rw [foldl_add_eq_rsum, zero_add]
  unfold lapSpec
  apply rsum_map_congr
  intro d hd
  exact lapDim_eq_spec (List.mem_range.mp hd) w _ _
/-! ### T1, lattice torsion -/

theorem inBox_swp {S b : List Nat} {x y : Nat} (hx : x < S.length) (hy : y < S.length) (h : InBox S b) :
    InBox (swp x y S) (swp x y b) := by
  obtain ⟨hl, hc⟩ := h
  refine ⟨by simp [hl], fun k hk => ?_⟩
  simp only [length_swp] at hk
  have cx := hc x hx
  have cy := hc y hy
  have ck := hc k hk
  simp only [coord_swp, hl, hx, hy, and_true]
  split_ifs <;> subst_vars <;> simp_all

theorem mem_allIdx_swp {S b : List Nat} {x y : Nat} (hx : x < S.length) (hy : y < S.length)
    (h : b ∈ allIdx S) : swp x y b ∈ allIdx (swp x y S) :=
  mem_allIdx_box.mpr (inBox_swp hx hy (mem_allIdx_box.mp h))

theorem inBox_shrink2 {sizes b : List Nat} {i j : Nat} (hij : i ≠ j) (hi : i < sizes.length)
    (hj : j < sizes.length) :
    InBox (setc (setc sizes i (coord sizes i - 1)) j (coord sizes j - 1)) b ↔
      InBox sizes b ∧ coord b i + 1 < coord sizes i ∧ coord b j + 1 < coord sizes j := by
  unfold InBox
  simp only [length_setc]
  constructor
  · rintro ⟨hl, hc⟩
    have ci := hc i hi
    have cj := hc j hj
    simp only [coord_setc, length_setc, hi, hj, and_true, hij, if_false, if_true] at ci cj
    refine ⟨⟨hl, fun k hk => ?_⟩, by omega, by omega⟩
    have ck := hc k hk
    simp only [coord_setc, length_setc, hi, hj, and_true] at ck
    split_ifs at ck <;> subst_vars <;> omega
  · rintro ⟨⟨hl, hc⟩, pi, pj⟩
    refine ⟨hl, fun k hk => ?_⟩
    have ck := hc k hk
    simp only [coord_setc, length_setc, hi, hj, and_true]
    split_ifs <;> subst_vars <;> omega

/-- `ψ = swp 1 j ∘ swp 0 i` maps shapes to transposed shapes and is the inverse of the index map `φ` -/
theorem tor_box_eq {sizes : List Nat} {i j : Nat} (hij : i < j) (hj : j < sizes.length) (x y : Nat) :
    x :: y :: (swp 1 j (swp 0 i sizes)).drop 2 = swp 1 j (swp 0 i (setc (setc sizes i x) j y)) := by
  have h2 : 2 ≤ sizes.length := by omega
  have e : ∀ l : List Nat, 2 ≤ l.length → x :: y :: l.drop 2 = setc (setc l 0 x) 1 y := by
    intro l hl
    match l, hl with
    | a :: b :: t, _ => simp [setc]
  rw [e _ (by simpa using h2)]
  apply idx_ext (by simp)
  intro k _
  have h0 : 0 < sizes.length := by omega
  have h1 : 1 < sizes.length := by omega
  have hi : i < sizes.length := by omega
  simp only [coord_swp, coord_setc, length_swp, length_setc, h0, h1, hi, hj, and_true]
  split_ifs <;> subst_vars <;> simp_all <;> omega

theorem phi_setc0 {a : List Nat} {i j : Nat} (hij : i < j) (hj : j < a.length) (v : Nat) :
    swp 0 i (swp 1 j (setc a 0 v)) = setc (swp 0 i (swp 1 j a)) i v := by
  apply idx_ext (by simp)
  intro k _
  have h0 : 0 < a.length := by omega
  have h1 : 1 < a.length := by omega
  have hi : i < a.length := by omega
  simp only [coord_swp, coord_setc, length_swp, length_setc, h0, h1, hi, hj, and_true]
  split_ifs <;> subst_vars <;> simp_all <;> omega

theorem phi_setc1 {a : List Nat} {i j : Nat} (hij : i < j) (hj : j < a.length) (v : Nat) :
    swp 0 i (swp 1 j (setc a 1 v)) = setc (swp 0 i (swp 1 j a)) j v := by
  apply idx_ext (by simp)
  intro k _
  have h0 : 0 < a.length := by omega
  have h1 : 1 < a.length := by omega
  have hi : i < a.length := by omega
  simp only [coord_swp, coord_setc, length_swp, length_setc, h0, h1, hi, hj, and_true]
  split_ifs <;> subst_vars <;> simp_all <;> omega

theorem coord_phi_i {a : List Nat} {i j : Nat} (hij : i < j) (hj : j < a.length) :
    coord (swp 0 i (swp 1 j a)) i = coord a 0 := by
  have h0 : 0 < a.length := by omega
  have h1 : 1 < a.length := by omega
  have hi : i < a.length := by omega
  simp only [coord_swp, length_swp, h0, h1, hi, hj, and_true]
  split_ifs <;> subst_vars <;> simp_all <;> omega

theorem coord_phi_j {a : List Nat} {i j : Nat} (hij : i < j) (hj : j < a.length) :
    coord (swp 0 i (swp 1 j a)) j = coord a 1 := by
  have h0 : 0 < a.length := by omega
  have h1 : 1 < a.length := by omega
  have hi : i < a.length := by omega
  simp only [coord_swp, length_swp, h0, h1, hi, hj, and_true]
  split_ifs <;> subst_vars <;> simp_all <;> omega

theorem torTwists_eq {sizes : List Nat} {i j : Nat} (hij : i < j) (hj : j < sizes.length) (w : W) :
    torTwists sizes i j w =
      (allIdx (swp 1 j (swp 0 i (setc (setc sizes i (coord sizes i - 1)) j (coord sizes j - 1))))).map
        (fun a => twist w i j (swp 0 i (swp 1 j a))) := by
  have h0 : 0 < sizes.length := by omega
  have h1 : 1 < sizes.length := by omega
  unfold torTwists
  by_cases hj1 : j = 1
  · subst hj1
    have hi0 : i = 0 := by omega
    subst hi0
    simp only [if_true]
    rw [show sizes.drop 2 = (swp 1 1 (swp 0 0 sizes)).drop 2 by rw [swp_self h0, swp_self h1],
      tor_box_eq hij hj]
    apply List.map_congr_left
    intro a ha
    have hl : a.length = sizes.length := by simpa using (mem_allIdx_box.mp ha).1
    rw [swp_self (a := 1) (l := a) (by omega), swp_self (a := 0) (l := a) (by omega)]
    simp only [twist]
  · simp only [hj1, if_false]
    rw [tor_box_eq hij hj]
    apply List.map_congr_left
    intro a ha
    have hl : a.length = sizes.length := by simpa using (mem_allIdx_box.mp ha).1
    have hja : j < a.length := by omega
    simp only [twist]
    rw [phi_setc1 hij (by simpa using hja), phi_setc0 hij hja, phi_setc1 hij hja, coord_phi_i hij hja,
      coord_phi_j hij hja]

/-- one pair of dimensions of the torsion: the code's planes enumerate each 2x2 cell once -/
theorem torPair_eq_spec {sizes : List Nat} {i j : Nat} (hij : i < j) (hj : j < sizes.length) (w : W)
    (x y : Rat) :
    sumAbs (torTwists sizes i j w) * x + sumSq (torTwists sizes i j w) * y =
    rsum (((allIdx sizes).filter (fun idx =>
        coord idx i + 1 < coord sizes i ∧ coord idx j + 1 < coord sizes j)).map (fun idx =>
      absSq x y (twist w i j idx))) := by
  have h0 : 0 < sizes.length := by omega
  have h1 : 1 < sizes.length := by omega
  have hi : i < sizes.length := by omega
  rw [torTwists_eq hij hj, ← rsum_absSq]
  set R := setc (setc sizes i (coord sizes i - 1)) j (coord sizes j - 1) with hR
  have hRl : R.length = sizes.length := by simp [hR]
  have e1 : swp 0 i (swp 1 j (swp 1 j (swp 0 i R))) = R := by
    rw [swp_swp (by simpa [hRl] using h1) (by simpa [hRl] using hj), swp_swp (by omega) (by omega)]
  have step1 := rsum_reindex (allIdx (swp 1 j (swp 0 i R))) (allIdx R) (fun a => swp 0 i (swp 1 j a))
    (fun b => swp 1 j (swp 0 i b)) (fun idx => absSq x y (twist w i j idx))
    (nodup_allIdx _) (nodup_allIdx _)
    (fun a ha => by
      have := mem_allIdx_swp (x := 0) (y := i) (by simpa [hRl] using h0) (by simpa [hRl] using hi)
        (mem_allIdx_swp (x := 1) (y := j) (by simpa [hRl] using h1) (by simpa [hRl] using hj) ha)
      rwa [e1] at this)
    (fun b hb => mem_allIdx_swp (by simpa [hRl] using h1) (by simpa [hRl] using hj)
        (mem_allIdx_swp (by omega) (by omega) hb))
    (fun a ha => by
      have hl : a.length = sizes.length := by simpa [hRl] using (mem_allIdx_box.mp ha).1
      show swp 1 j (swp 0 i (swp 0 i (swp 1 j a))) = a
      rw [swp_swp (by simpa [hl] using h0) (by simpa [hl] using hi), swp_swp (by omega) (by omega)])
    (fun b hb => by
      have hl : b.length = sizes.length := by simpa [hRl] using (mem_allIdx_box.mp hb).1
      show swp 0 i (swp 1 j (swp 1 j (swp 0 i b))) = b
      rw [swp_swp (by simpa [hl] using h1) (by simpa [hl] using hj), swp_swp (by omega) (by omega)])
  rw [step1]
  apply rsum_perm
  apply List.Perm.map
  apply (List.perm_ext_iff_of_nodup (nodup_allIdx _) ((nodup_allIdx _).filter _)).mpr
  intro b
  simp only [List.mem_filter, mem_allIdx_box, decide_eq_true_eq]
  exact inBox_shrink2 (by omega) hi hj


/-- pair weight of an optional torsion amount (`0` when the amount is falsy) -/
def tpair (a : Option TAmt) (i j : Nat) : Rat :=
  match a with
  | some t => t.pair i j
  | none => 0

theorem TAmt.pair_eq_zero {t : TAmt} {i j : Nat} (h : (t.zeroAt i || t.zeroAt j) = true) :
    t.pair i j = 0 := by
  cases t with
  | root a r =>
    simp only [TAmt.zeroAt, Bool.or_eq_true, Bool.not_eq_true', decide_eq_false_iff_not] at h
    simp only [TAmt.pair]
    split_ifs with hh
    · omega
    · rfl
  | list l =>
    simp only [TAmt.zeroAt, Bool.or_eq_true, beq_iff_eq] at h
    simp only [TAmt.pair]
    rcases h with h | h <;> simp [h]

theorem torStep_eq (sizes : List Nat) (a1 a2 : Option TAmt) (w : W) (i : Nat) (res : Rat) (j : Nat) :
    torStep sizes a1 a2 w i res j =
      res + (sumAbs (torTwists sizes i j w) * tpair a1 i j + sumSq (torTwists sizes i j w) * tpair a2 i j) := by
  unfold torStep
  cases a1 <;> cases a2 <;> simp only [tamtZeroAt, tpair, Bool.and_eq_true, Bool.true_and, Bool.and_true]
  · simp
  · split_ifs with h
    · simp [TAmt.pair_eq_zero h]
    · ring
  · split_ifs with h
    · simp [TAmt.pair_eq_zero h]
    · ring
  · split_ifs with h
    · simp [TAmt.pair_eq_zero h.1, TAmt.pair_eq_zero h.2]
    · ring

theorem torCore_eq_spec (sizes : List Nat) (a1 a2 : Option TAmt) (w : W) :
    torCore sizes a1 a2 w = torSpec sizes (tpair a1) (tpair a2) w := by
  unfold torCore torSpec
  have e : ∀ i, torStep sizes a1 a2 w i = fun res j => res +
      (sumAbs (torTwists sizes i j w) * tpair a1 i j + sumSq (torTwists sizes i j w) * tpair a2 i j) := by
    intro i; funext res j; exact torStep_eq ..
  simp only [e, foldl_add_eq_rsum, zero_add]
  apply rsum_map_congr
  intro i hi
  apply rsum_map_congr
  intro j hj
  have hi' := List.mem_range.mp hi
  have hj' := List.mem_range'_1.mp hj
  exact torPair_eq_spec (by omega) (by omega) w _ _


/-! ### amounts as seen by the documented sums -/
/-- per-dimension list of a python amount -/
def Amt.toList (rank : Nat) : Amt → List Rat
  | .scalar a => List.replicate rank a
  | .perDim l => l
/-- torsion pair weights of a python amount: the product of the per-dimension amounts; a scalar `a`
weights every pair of lattice dimensions by `a` (`sqrt a * sqrt a`) -/
def Amt.pairW (rank : Nat) : Amt → Nat → Nat → Rat
  | .scalar a => fun i j => if i < rank ∧ j < rank then a else 0
  | .perDim l => fun i j => getR l i * getR l j
/-- hypothesis of the NON-NEGATIVITY clause ("all are non-negative" for non-negative amounts).  Not an
acceptance condition: the real code accepts negative amounts (and returns negative values) everywhere except
`math.sqrt` of a negative scalar torsion amount — see `Amt.RootOk` below. -/
def Amt.Nonneg : Amt → Prop
  | .scalar a => 0 ≤ a
  | .perDim l => ∀ x ∈ l, 0 ≤ x
/-- shape of the reshaped weights -/
def extSizes (sizes : List Nat) (units : Nat) : List Nat := if units > 1 then sizes ++ [units] else sizes

theorem getR_append_zero (l : List Rat) (d : Nat) : getR (l ++ [0]) d = getR l d := by
  unfold getR
  rcases Nat.lt_trichotomy d l.length with h | h | h
  · simp [List.getD, List.getElem?_append_left h]
  · subst h; simp [List.getD]
  · have h1 : l.length ≤ d := by omega
    have h2 : (l ++ [0]).length ≤ d := by simp; omega
    simp [List.getD, List.getElem?_eq_none h1, List.getElem?_eq_none h2]

theorem getR_replicate (n : Nat) (x : Rat) (d : Nat) : getR (List.replicate n x) d = if d < n then x else 0 := by
  unfold getR
  by_cases h : d < n
  · simp [List.getD, h]
  · simp [List.getD, h]

theorem getR_nonneg {l : List Rat} (h : ∀ x ∈ l, 0 ≤ x) (d : Nat) : 0 ≤ getR l d := by
  unfold getR
  by_cases hd : d < l.length
  · simp only [List.getD, List.getElem?_eq_getElem hd, Option.getD_some]; exact h _ (List.getElem_mem hd)
  · simp [List.getD, List.getElem?_eq_none (Nat.le_of_not_lt hd)]

theorem Amt.toList_nonneg {a : Amt} (h : a.Nonneg) (rank d : Nat) : 0 ≤ getR (a.toList rank) d := by
  cases a with
  | scalar x => simp only [Amt.toList, getR_replicate]; split_ifs; exact h; exact le_refl _
  | perDim l => exact getR_nonneg h d

theorem Amt.pairW_nonneg {a : Amt} (h : a.Nonneg) (rank i j : Nat) : 0 ≤ a.pairW rank i j := by
  cases a with
  | scalar x => simp only [Amt.pairW]; split_ifs; exact h; exact le_refl _
  | perDim l => exact mul_nonneg (getR_nonneg h i) (getR_nonneg h j)

theorem lapAmounts_getR (rank units : Nat) (a : Amt) (d : Nat) :
    getR (amtGet (lapAmounts rank units a)) d = getR (a.toList rank) d := by
  unfold lapAmounts amtGet
  cases a with
  | scalar x =>
    by_cases hx : x = 0
    · subst hx
      have e : getR ([] : List Rat) d = 0 := by simp [getR]
      simp [Amt.truthy, Amt.toList, getR_replicate, e]
    · simp only [Amt.truthy, bne_iff_ne, ne_eq, hx, not_false_eq_true, if_true, Option.getD_some, Amt.toList]
      split_ifs
      · exact getR_append_zero _ _
      · rfl
  | perDim l =>
    cases l with
    | nil => simp [Amt.truthy, Amt.toList]
    | cons y ys =>
      simp only [Amt.truthy, List.isEmpty_cons, Bool.not_false, if_true, Option.getD_some, Amt.toList]
      split_ifs
      · exact getR_append_zero _ _
      · rfl

theorem falsy_getR {a : Amt} (h : a.truthy = false) (rank d : Nat) : getR (a.toList rank) d = 0 := by
  cases a with
  | scalar x =>
    have : x = 0 := by simpa [Amt.truthy] using h
    subst this; simp [Amt.toList, getR_replicate]
  | perDim l =>
    have : l = [] := by simpa [Amt.truthy] using h
    subst this; simp [Amt.toList, getR]

theorem falsy_pairW {a : Amt} (h : a.truthy = false) (rank i j : Nat) : a.pairW rank i j = 0 := by
  cases a with
  | scalar x =>
    have : x = 0 := by simpa [Amt.truthy] using h
    subst this; simp [Amt.pairW]
  | perDim l =>
    have : l = [] := by simpa [Amt.truthy] using h
    subst this; simp [Amt.pairW, getR]

theorem torAmounts_ok (rank units : Nat) {a : Amt} (h : a.Nonneg) :
    ∃ o, torAmounts rank units a = .ok o ∧ tpair o = a.pairW rank := by
  unfold torAmounts
  by_cases ht : a.truthy = true
  · cases a with
    | scalar x =>
      have hx : ¬ x < 0 := not_lt.mpr h
      simp only [ht, if_true, hx, if_false]
      exact ⟨_, rfl, by funext i j; simp [tpair, TAmt.pair, Amt.pairW]⟩
    | perDim l =>
      simp only [ht, if_true]
      refine ⟨_, rfl, ?_⟩
      funext i j
      simp only [tpair, TAmt.pair, Amt.pairW]
      split_ifs
      · rw [getR_append_zero, getR_append_zero]
      · rfl
  · have hf : a.truthy = false := by simpa using ht
    simp only [hf, Bool.false_eq_true, if_false]
    exact ⟨none, rfl, by funext i j; simp [tpair, falsy_pairW hf]⟩

/-! ### congruence / zero lemmas of the documented sums -/
theorem lapSpec_congr_amt {sizes : List Nat} {l1 l2 l1' l2' : List Rat} (w : W)
    (h1 : ∀ d, getR l1 d = getR l1' d) (h2 : ∀ d, getR l2 d = getR l2' d) :
    lapSpec sizes l1 l2 w = lapSpec sizes l1' l2' w := by
  unfold lapSpec; simp only [h1, h2]

theorem lapSpec_eq_zero {sizes : List Nat} {l1 l2 : List Rat} {w : W}
    (h : ∀ d, d < sizes.length → (getR l1 d = 0 ∧ getR l2 d = 0) ∨
      (∀ idx ∈ allIdx sizes, coord idx d + 1 < coord sizes d → w (setc idx d (coord idx d + 1)) = w idx)) :
    lapSpec sizes l1 l2 w = 0 := by
  unfold lapSpec
  apply rsum_eq_zero
  intro x hx
  obtain ⟨d, hd, rfl⟩ := List.mem_map.mp hx
  apply rsum_eq_zero
  intro y hy
  obtain ⟨idx, hidx, rfl⟩ := List.mem_map.mp hy
  rcases h d (List.mem_range.mp hd) with ⟨e1, e2⟩ | e
  · rw [e1, e2]; exact absSq_zero_amounts _
  · obtain ⟨hm, hp⟩ := List.mem_filter.mp hidx
    rw [e idx hm (by simpa using hp), sub_self]; exact absSq_zero _ _

theorem torSpec_eq_zero {sizes : List Nat} {p1 p2 : Nat → Nat → Rat} {w : W}
    (h : ∀ i j, i < j → j < sizes.length → (p1 i j = 0 ∧ p2 i j = 0) ∨
      (∀ idx ∈ allIdx sizes, coord idx i + 1 < coord sizes i → coord idx j + 1 < coord sizes j →
        twist w i j idx = 0)) :
    torSpec sizes p1 p2 w = 0 := by
  unfold torSpec
  apply rsum_eq_zero
  intro x hx
  obtain ⟨i, hi, rfl⟩ := List.mem_map.mp hx
  apply rsum_eq_zero
  intro y hy
  obtain ⟨j, hj, rfl⟩ := List.mem_map.mp hy
  apply rsum_eq_zero
  intro z hz
  obtain ⟨idx, hidx, rfl⟩ := List.mem_map.mp hz
  have hi' := List.mem_range.mp hi
  have hj' := List.mem_range'_1.mp hj
  rcases h i j (by omega) (by omega) with ⟨e1, e2⟩ | e
  · rw [e1, e2]; exact absSq_zero_amounts _
  · obtain ⟨hm, hp⟩ := List.mem_filter.mp hidx
    have hp' : coord idx i + 1 < coord sizes i ∧ coord idx j + 1 < coord sizes j := by simpa using hp
    rw [e idx hm hp'.1 hp'.2]; exact absSq_zero _ _

theorem absSq_linear (a b x y x' y' t : Rat) :
    absSq (a * x + b * x') (a * y + b * y') t = a * absSq x y t + b * absSq x' y' t := by
  unfold absSq; ring

theorem rsum_map_linear {α} (l : List α) (a b : Rat) (f g : α → Rat) :
    rsum (l.map (fun t => a * f t + b * g t)) = a * rsum (l.map f) + b * rsum (l.map g) := by
  rw [rsum_map_add, rsum_map_mul_left, rsum_map_mul_left]

theorem inBox_setc {sizes : List Nat} {idx : Idx} {d v : Nat} (hr : InBox sizes idx)
    (hv : v < coord sizes d) : InBox sizes (setc idx d v) := by
  refine ⟨by simpa using hr.1, fun k hk => ?_⟩
  have := hr.2 k hk
  rw [coord_setc]; split_ifs with h
  · rw [h.1]; exact hv
  · exact this


/-! ### twists of additively separable functions -/
theorem twist_sep (L : List Nat) (G : Nat → Nat → Rat) {i j : Nat} (hij : i ≠ j) (idx : Idx) :
    twist (fun idx => rsum (L.map (fun d => G d (coord idx d)))) i j idx = 0 := by
  induction L with
  | nil => simp [twist, rsum]
  | cons d L ih =>
    simp only [twist, List.map_cons, rsum] at ih ⊢
    have single : G d (coord idx d) +
        G d (coord (setc (setc idx i (coord idx i + 1)) j (coord idx j + 1)) d) -
        G d (coord (setc idx j (coord idx j + 1)) d) - G d (coord (setc idx i (coord idx i + 1)) d) = 0 := by
      simp only [coord_setc, length_setc]
      split_ifs <;> subst_vars <;> simp_all
    linarith

/-! ### amounts accepted by the torsion entry point (second audit, row 33)

`Amt.Nonneg` is the hypothesis of the NON-NEGATIVITY clause.  It is stronger than what the code needs to
run: only `math.sqrt` of a negative SCALAR raises; per-dimension lists of any sign are accepted and simply
multiplied in (the value can then be negative).  `Amt.RootOk` is exactly "the call does not raise". -/
def Amt.RootOk : Amt → Prop
  | .scalar a => 0 ≤ a
  | .perDim _ => True

theorem Amt.Nonneg.rootOk {a : Amt} (h : a.Nonneg) : a.RootOk := by
  cases a with
  | scalar x => exact h
  | perDim l => trivial

theorem torAmounts_ok_of_rootOk (rank units : Nat) {a : Amt} (h : a.RootOk) :
    ∃ o, torAmounts rank units a = .ok o ∧ tpair o = a.pairW rank := by
  unfold torAmounts
  by_cases ht : a.truthy = true
  · cases a with
    | scalar x =>
      have hx : ¬ x < 0 := not_lt.mpr h
      simp only [ht, if_true, hx, if_false]
      exact ⟨_, rfl, by funext i j; simp [tpair, TAmt.pair, Amt.pairW]⟩
    | perDim l =>
      simp only [ht, if_true]
      refine ⟨_, rfl, ?_⟩
      funext i j
      simp only [tpair, TAmt.pair, Amt.pairW]
      split_ifs
      · rw [getR_append_zero, getR_append_zero]
      · rfl
  · have hf : a.truthy = false := by simpa using ht
    simp only [hf, Bool.false_eq_true, if_false]
    exact ⟨none, rfl, by funext i j; simp [tpair, falsy_pairW hf]⟩

/-- a negative scalar torsion amount raises (`math.sqrt`: "math domain error") -/
theorem torAmounts_neg_scalar (rank units : Nat) {x : Rat} (hx : x < 0) :
    torAmounts rank units (.scalar x) = .error .valueError := by
  have hne : x ≠ 0 := ne_of_lt hx
  simp [torAmounts, Amt.truthy, hne, hx]

/-! ### vectors of per-dimension amounts -/
/-- `a • l + b • l'` entrywise (lists of equal length) -/
def linComb (a b : Rat) (l l' : List Rat) : List Rat := List.zipWith (fun x y => a * x + b * y) l l'

theorem getR_linComb (a b : Rat) {l l' : List Rat} (h : l.length = l'.length) (d : Nat) :
    getR (linComb a b l l') d = a * getR l d + b * getR l' d := by
  unfold getR linComb
  by_cases hd : d < l.length
  · have hd' : d < l'.length := h ▸ hd
    simp [List.getD, List.getElem?_zipWith, List.getElem?_eq_getElem hd, List.getElem?_eq_getElem hd']
  · have h1 : l.length ≤ d := Nat.le_of_not_lt hd
    have h2 : l'.length ≤ d := h ▸ h1
    simp [List.getD, List.getElem?_zipWith, List.getElem?_eq_none h1, List.getElem?_eq_none h2]

theorem getR_set (l : List Rat) (k : Nat) (v : Rat) (d : Nat) :
    getR (l.set k v) d = if d = k ∧ k < l.length then v else getR l d := by
  unfold getR
  by_cases hdk : d = k
  · subst hdk
    by_cases hk : d < l.length
    · simp [List.getD, hk]
    · simp [List.getD, hk, List.getElem?_eq_none (Nat.le_of_not_lt hk)]
  · have : ¬ k = d := fun e => hdk e.symm
    simp [List.getD, hdk, List.getElem?_set_ne this]

/-! ### PWL: constant keypoint outputs = all heights zero -/
theorem diffs_all_zero {v : List Rat} (h : ∀ t ∈ v, t = 0) : ∀ t ∈ diffs v, t = 0 := by
  induction v with
  | nil => intro t ht; simp at ht
  | cons x xs ih =>
    cases xs with
    | nil => intro t ht; simp at ht
    | cons y ys =>
      intro t ht
      rw [diffs_cons_cons, List.mem_cons] at ht
      rcases ht with rfl | ht
      · rw [h x (by simp), h y (by simp)]; ring
      · exact ih (fun t ht => h t (List.mem_cons_of_mem _ ht)) t ht

/-- the keypoint outputs of a column are constant iff all its heights (rows `1..`) are zero: `⇒` -/
theorem heights_zero_of_outs_const {x : List Rat} {a : Rat}
    (h : outs x = (List.range x.length).map (fun _ => a)) : ∀ t ∈ x.drop 1, t = 0 := by
  cases x with
  | nil => intro t ht; simp at ht
  | cons b hs =>
    have e : diffs (outs (b :: hs)) = hs := diffs_cumFrom b hs
    rw [h, List.range_eq_range', diffs_map_range'] at e
    intro t ht
    simp only [List.drop_one, List.tail_cons] at ht
    rw [← e] at ht
    obtain ⟨j, _, rfl⟩ := List.mem_map.mp ht
    ring

theorem cumFrom_zero (b : Rat) (hs : List Rat) (h : ∀ t ∈ hs, t = 0) :
    cumFrom b hs = (List.range (hs.length + 1)).map (fun _ => b) := by
  induction hs generalizing b with
  | nil => rfl
  | cons y ys ih =>
    have hy : y = 0 := h y (by simp)
    subst hy
    rw [cumFrom, add_zero, ih b (fun t ht => h t (List.mem_cons_of_mem _ ht))]
    simp [List.range_succ_eq_map]

/-- `⇐`: a column whose heights are all zero has constant outputs (its bias) -/
theorem outs_const_of_heights_zero {b : Rat} {hs : List Rat} (h : ∀ t ∈ hs, t = 0) :
    outs (b :: hs) = (List.range (b :: hs).length).map (fun _ => b) := cumFrom_zero b hs h

theorem mem_zero_append {u v : List Rat} (hu : ∀ t ∈ u, t = 0) (hv : ∀ t ∈ v, t = 0) :
    ∀ t ∈ u ++ v, t = 0 := by
  intro t ht
  rcases List.mem_append.mp ht with h | h
  · exact hu t h
  · exact hv t h

/-- all heights zero ⇒ every term of the three regularizers is zero, cyclic or not: the wrap-around
height `-(Σ heights)` is zero too -/
theorem pwlLapTerms_zero (cyc : Bool) {x : List Rat} (h : ∀ t ∈ x.drop 1, t = 0) :
    ∀ t ∈ pwlLapTerms cyc x, t = 0 := by
  have hs : rsum (x.drop 1) = 0 := rsum_eq_zero h
  unfold pwlLapTerms
  cases cyc
  · simpa using h
  · simp only [if_true, hs, neg_zero]
    exact mem_zero_append h (by simp)

theorem pwlHessTerms_zero (cyc : Bool) {x : List Rat} (h : ∀ t ∈ x.drop 1, t = 0) :
    ∀ t ∈ pwlHessTerms cyc x, t = 0 := by
  have hs : rsum (x.drop 1) = 0 := rsum_eq_zero h
  unfold pwlHessTerms
  cases cyc
  · simpa using diffs_all_zero h
  · simp only [if_true, hs, neg_zero]
    apply diffs_all_zero
    exact mem_zero_append (mem_zero_append h (by simp)) (fun t ht => h t (List.mem_of_mem_take ht))

theorem pwlWrinkleTerms_zero (cyc : Bool) {x : List Rat} (h : ∀ t ∈ x.drop 1, t = 0) :
    ∀ t ∈ pwlWrinkleTerms cyc x, t = 0 := by
  have hs : rsum (x.drop 1) = 0 := rsum_eq_zero h
  unfold pwlWrinkleTerms
  split
  · intro t ht; simp at ht
  · cases cyc
    · simpa using diffs_all_zero (diffs_all_zero h)
    · simp only [if_true, hs, neg_zero]
      apply diffs_all_zero
      apply diffs_all_zero
      exact mem_zero_append (mem_zero_append (mem_zero_append h (by simp))
        (fun t ht => h t (List.mem_of_mem_take ht)))
        (fun t ht => h t (List.mem_of_mem_drop (List.mem_of_mem_take ht)))
end Tfl.Reg
