import TflModel.Model.Core
import TflModel.Lemmas.Idx
import Mathlib.Data.List.Basic
import Mathlib.Data.List.Nodup
import Mathlib.Data.List.Perm.Basic
import Mathlib.Algebra.BigOperators.Group.List.Basic
import Mathlib.Tactic.Linarith
import Mathlib.Tactic.Ring
import Mathlib.Algebra.Order.Field.Rat
/-! Multi-index lemmas (`coord` / `setc` / `allIdx`) and `rsum` (promoted from the design spike). -/
namespace Tfl

theorem coord_setc (idx : Idx) (d v k : Nat) :
    coord (setc idx d v) k = if k = d ∧ d < idx.length then v else coord idx k := by
  by_cases h : k = d
  · subst h
    by_cases hl : k < idx.length
    · simp [hl]
    · simp [hl, setc, List.set_eq_of_length_le (Nat.le_of_not_lt hl)]
  · have : d ≠ k := fun e => h e.symm
    simp [h, coord_setc_ne _ this]

theorem coord_of_le {idx : Idx} {k : Nat} (h : idx.length ≤ k) : coord idx k = 0 := by
  simp [coord, List.getD, List.getElem?_eq_none h]

/-- indices are determined by their length and coordinates -/
theorem idx_ext {a b : Idx} (hl : a.length = b.length) (h : ∀ k, k < a.length → coord a k = coord b k) :
    a = b := by
  apply List.ext_getElem hl
  intro k h1 h2
  have := h k h1
  simpa [coord, List.getD, h1, h2] using this

@[simp] theorem coord_cons_zero (i : Nat) (t : Idx) : coord (i :: t) 0 = i := rfl
@[simp] theorem coord_cons_succ (i : Nat) (t : Idx) (k : Nat) : coord (i :: t) (k + 1) = coord t k := by
  simp [coord]

/-- membership in a box -/
def InBox (sizes : List Nat) (idx : Idx) : Prop :=
  idx.length = sizes.length ∧ ∀ d, d < sizes.length → coord idx d < coord sizes d

theorem mem_allIdx_box {sizes : List Nat} {idx : Idx} : idx ∈ allIdx sizes ↔ InBox sizes idx := by
  induction sizes generalizing idx with
  | nil =>
    simp only [allIdx, List.mem_singleton, InBox, List.length_nil, Nat.not_lt_zero, false_imp_iff,
      implies_true, and_true]
    exact ⟨fun h => by simp [h], fun h => List.eq_nil_of_length_eq_zero h⟩
  | cons n ns ih =>
    simp only [allIdx, List.mem_flatMap, List.mem_range, List.mem_map]
    constructor
    · rintro ⟨i, hi, t, ht, rfl⟩
      obtain ⟨hl, hc⟩ := ih.mp ht
      refine ⟨by simp [hl], fun d hd => ?_⟩
      cases d with
      | zero => simpa using hi
      | succ d => simpa using hc d (by simpa using hd)
    · rintro ⟨hl, hc⟩
      cases idx with
      | nil => simp at hl
      | cons i t =>
        refine ⟨i, by simpa using hc 0 (by simp), t, ih.mpr ⟨by simpa using hl, fun d hd => ?_⟩, rfl⟩
        simpa using hc (d + 1) (by simpa using hd)

theorem nodup_allIdx (sizes : List Nat) : (allIdx sizes).Nodup := by
  induction sizes with
  | nil => simp [allIdx]
  | cons n ns ih =>
    simp only [allIdx]
    rw [List.nodup_flatMap]
    refine ⟨fun i _ => ih.map (fun a b h => by simpa using h), ?_⟩
    apply List.Pairwise.imp_of_mem _ (List.nodup_range (n := n))
    intro a b _ _ hab
    simp only [Function.onFun, List.disjoint_left, List.mem_map]
    rintro x ⟨t, _, rfl⟩ ⟨t', _, h⟩
    exact hab (by simpa using (List.cons.inj h).1.symm)

/-! ### `rsum` -/
theorem rsum_eq_sum (l : List Rat) : rsum l = l.sum := by
  induction l with
  | nil => rfl
  | cons x xs ih => simp [rsum, ih]

theorem rsum_append (a b : List Rat) : rsum (a ++ b) = rsum a + rsum b := by
  simp [rsum_eq_sum]

theorem rsum_perm {a b : List Rat} (h : a.Perm b) : rsum a = rsum b := by
  simp only [rsum_eq_sum]; exact h.sum_eq

theorem rsum_nonneg {l : List Rat} (h : ∀ x ∈ l, 0 ≤ x) : 0 ≤ rsum l := by
  induction l with
  | nil => simp [rsum]
  | cons x xs ih =>
    simp only [rsum]
    exact add_nonneg (h x (List.mem_cons_self ..)) (ih (fun y hy => h y (List.mem_cons_of_mem _ hy)))

theorem rsum_eq_zero {l : List Rat} (h : ∀ x ∈ l, x = 0) : rsum l = 0 := by
  induction l with
  | nil => rfl
  | cons x xs ih =>
    simp only [rsum, h x (List.mem_cons_self ..), ih (fun y hy => h y (List.mem_cons_of_mem _ hy)), add_zero]

theorem rsum_map_add {α} (l : List α) (f g : α → Rat) :
    rsum (l.map (fun a => f a + g a)) = rsum (l.map f) + rsum (l.map g) := by
  induction l with
  | nil => simp [rsum]
  | cons x xs ih => simp only [List.map_cons, rsum, ih]; ring

theorem rsum_map_mul_left {α} (l : List α) (c : Rat) (f : α → Rat) :
    rsum (l.map (fun a => c * f a)) = c * rsum (l.map f) := by
  induction l with
  | nil => simp [rsum]
  | cons x xs ih => simp only [List.map_cons, rsum, ih]; ring

theorem rsum_map_congr {α} {l : List α} {f g : α → Rat} (h : ∀ a ∈ l, f a = g a) :
    rsum (l.map f) = rsum (l.map g) := by
  rw [List.map_congr_left h]

/-- exchanging two finite sums -/
theorem rsum_comm {α β} (l : List α) (m : List β) (f : α → β → Rat) :
    rsum (l.map (fun a => rsum (m.map (fun b => f a b)))) =
    rsum (m.map (fun b => rsum (l.map (fun a => f a b)))) := by
  induction l with
  | nil => simp [rsum]; exact (rsum_eq_zero (by simp)).symm
  | cons x xs ih =>
    simp only [List.map_cons, rsum, ih]
    rw [← rsum_map_add]

theorem rsum_flatMap {α} (l : List α) (f : α → List Rat) :
    rsum (l.flatMap f) = rsum (l.map (fun a => rsum (f a))) := by
  induction l with
  | nil => rfl
  | cons x xs ih => simp only [List.flatMap_cons, rsum_append, ih, List.map_cons, rsum]

/-- a `foldl` that adds one term per element is a sum -/
theorem foldl_add_eq_rsum {α} (l : List α) (f : α → Rat) (r0 : Rat) :
    l.foldl (fun res a => res + f a) r0 = r0 + rsum (l.map f) := by
  induction l generalizing r0 with
  | nil => simp [rsum]
  | cons x xs ih => simp only [List.foldl_cons, ih, List.map_cons, rsum]; ring

end Tfl
