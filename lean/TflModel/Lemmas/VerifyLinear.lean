import TflModel.Lemmas.Verify
import TflModel.Lemmas.LinearEval
import TflModel.Lemmas.Kahn
/-!
# What `linear_lib.verify_hyperparameters` guarantees about the scalings of the range-dominance
projection (C16-T1 for Linear, used by Props/C16.lean and Props/C06Accepted.lean)

`Tfl.Linear.scalings monos rd los his` (Model/Linear.lean, fix 44c9e89) multiplies the sign `±1` of
a dimension by `input_max - input_min` only when the dimension occurs in a range-dominance pair.
For a configuration accepted by `verifyLinear`:
* every dimension of a range-dominance pair is in range, has both bounds and `input_min <
  input_max` (`verifyLinear_rd`, from the loop invariant `linRdLoop_spec`), and both dimensions of
  the pair carry the same monotonicity, which is not 0;
* hence NO scaling is zero (`verifyLinear_scalings_ne_zero`): the division `weights /= scalings` of
  `project` is total on every accepted configuration — the hypothesis `hsc` of the C06 theorems.
-/
namespace Tfl.Verify
open Tfl Tfl.Poset Tfl.Linear

/-- what the range-dominance loop establishes for one dimension: both bounds are given and
`input_min < input_max` (fix 7189cd2) -/
def RangeOK (imin imax : Option (List Atom)) (d : Nat) : Prop :=
  ∃ l h : Rat, ((imin.getD []).getD d .none).num = some l ∧ ((imax.getD []).getD d .none).num = some h ∧ l < h

theorem rdDimBad_false {imin imax : Option (List Atom)} {d : Nat} (h : rdDimBad imin imax d = .ok false) :
    RangeOK imin imax d := by
  simp only [rdDimBad, bind, Except.bind] at h
  split at h
  · cases h
  · split at h
    · cases h
    · split at h
      · cases h
      · split at h
        · cases h
        · unfold rangeEmpty at h
          split at h
          · rename_i a b ha hb
            simp only [Except.ok.injEq, decide_eq_false_iff_not, not_le] at h
            exact ⟨a, b, ha, hb, h⟩
          · cases h

/-- what the range-dominance loop establishes about the monotonicities of a pair:
`monotonicities[dominant] == monotonicities[weak]` (as numbers; `None == None`) and
`monotonicities[dominant]` truthy (neither 0 nor — since fix 1f0b06a — `None`) -/
def MonoPair (mono : List Atom) (p : Nat × Nat) : Prop :=
  (mono.getD p.1 .none).num = (mono.getD p.2 .none).num ∧ (mono.getD p.1 .none).truthy = true

/-- everything the range-dominance loop establishes for one accepted pair -/
def RdPairOK (mono : List Atom) (imin imax : Option (List Atom)) (p : Nat × Nat) : Prop :=
  (p.1 < mono.length ∧ p.2 < mono.length) ∧ RangeOK imin imax p.1 ∧ RangeOK imin imax p.2 ∧ MonoPair mono p

theorem linRdLoop_spec {mono : List Atom} {imin imax : Option (List Atom)} :
    ∀ (xs : List Item) (acc ps : List (Nat × Nat)),
      (∀ p ∈ acc, RdPairOK mono imin imax p) →
      linRdLoop mono imin imax xs acc = .ok ps →
      ∀ p ∈ ps, RdPairOK mono imin imax p := by
  intro xs
  induction xs with
  | nil =>
    intro acc ps hacc h
    simp only [linRdLoop, Except.ok.injEq] at h
    subst h
    intro p hp
    exact hacc p (List.mem_reverse.mp hp)
  | cons it rest ih =>
    intro acc ps hacc h
    simp only [linRdLoop, bind, Except.bind] at h
    split at h
    · cases h
    · split at h
      · cases h
      · split at h
        · rename_i tp a b _hlen
          split at h
          · cases h
          · rename_i bad hbad
            split at h
            · cases h
            · rename_i hb
              split at h
              · cases h
              · rename_i hint
                have hb' : bad = false := by simpa using hb
                subst hb'
                have hd := dims_ok hbad (by simpa using hint)
                split at h
                · cases h
                · rename_i hmono
                  have hmp : MonoPair mono (atomNat a, atomNat b) := by
                    simp only [Bool.or_eq_true, decide_eq_true_eq, not_or, ne_eq, not_not, Bool.not_eq_true',
                      Bool.not_eq_false] at hmono
                    exact ⟨hmono.1, hmono.2⟩
                  split at h
                  · cases h
                  · rename_i miss hmiss
                    split at h
                    · cases h
                    · rename_i hm
                      have hm' : miss = false := by simpa using hm
                      subst hm'
                      have hr : RangeOK imin imax (atomNat a) ∧ RangeOK imin imax (atomNat b) := by
                        simp only [rdBoundsMissing, bind, Except.bind] at hmiss
                        split at hmiss
                        · cases hmiss
                        · rename_i b1 h1
                          split at hmiss
                          · cases hmiss
                          · rename_i hb1
                            have e : b1 = false := by simpa using hb1
                            subst e
                            exact ⟨rdDimBad_false h1, rdDimBad_false hmiss⟩
                      split at h
                      · cases h
                      · apply ih _ ps _ h
                        intro p hp
                        rcases List.mem_cons.mp hp with e | e
                        · subst e; exact ⟨⟨hd.1.atomNat_lt, hd.2.atomNat_lt⟩, hr.1, hr.2, hmp⟩
                        · exact hacc p e
        · cases h


/-- the canonical monotonicities are `None` or one of the numbers -1, 0, 1 -/
theorem canonMonotonicity_num {ad : Bool} {it : Item} {a : Atom} (h : canonMonotonicity ad it = .ok a) :
    a.num = none ∨ a.num = some (-1) ∨ a.num = some 0 ∨ a.num = some 1 := by
  unfold canonMonotonicity at h
  split at h
  · cases h; exact Or.inl rfl
  · rename_i x _
    split at h
    · rename_i r hr
      split at h
      · rename_i hr3
        split at h
        · cases h
        · cases h
          rw [hr]
          rcases hr3 with e | e | e <;> subst e <;> simp
      · cases h
    · split at h
      · split at h
        · cases h; simp [Atom.num]
        · cases h
      · cases h; simp [Atom.num]
      · cases h; simp [Atom.num]
      · cases h
  · cases h

/-- the parts of an accepted linear configuration -/
theorem verifyLinear_parts {nid : Option Nat} {mv mdv rdv iminv imaxv : Val} {c : LinCfg}
    (h : verifyLinear nid mv mdv rdv iminv imaxv = .ok c) :
    canonMonotonicities true mv = .ok c.mono ∧ linRd c.mono c.imin c.imax rdv = .ok c.rd ∧
    linMd c.mono mdv = .ok c.md := by
  simp only [verifyLinear, bind, Except.bind] at h
  split at h
  · cases h
  · rename_i mono hm
    split at h
    · cases h
    · rename_i imin _
      split at h
      · cases h
      · rename_i imax _
        split at h
        · cases h
        · split at h
          · cases h
          · split at h
            · cases h
            · split at h
              · cases h
              · split at h
                · cases h
                · split at h
                  · cases h
                  · rename_i md hmd
                    split at h
                    · cases h
                    · rename_i rd hrd
                      split at h
                      · cases h
                      · simp only [pure, Except.pure, Except.ok.injEq] at h
                        subst h
                        exact ⟨hm, hrd, hmd⟩

/-- **every accepted range-dominance pair**: both dimensions in range, both with bounds and
`input_min < input_max`, equal non-zero monotonicities -/
theorem verifyLinear_rd {nid : Option Nat} {mv mdv rdv iminv imaxv : Val} {c : LinCfg}
    (h : verifyLinear nid mv mdv rdv iminv imaxv = .ok c) :
    ∀ p ∈ c.rd, RdPairOK (c.mono.getD []) c.imin c.imax p := by
  have hrd := (verifyLinear_parts h).2.1
  intro p hp
  unfold linRd at hrd
  split at hrd
  · simp only [Except.ok.injEq] at hrd
    rw [← hrd] at hp; cases hp
  · split at hrd
    · cases hrd
    · rename_i m hm
      simp only [bind, Except.bind] at hrd
      split at hrd
      · cases hrd
      · split at hrd
        · cases hrd
        · rename_i ps hps
          split at hrd
          · cases hrd
          · simp only [pure, Except.pure, Except.ok.injEq] at hrd
            rw [← hrd] at hp
            have := linRdLoop_spec _ _ _ (fun q hq => by cases hq) hps p hp
            rw [hm]
            exact this

/-- **fix 2ef7ec2**: the dominance sets of an accepted linear configuration pass the round-based
cycle check, hence are acyclic (`Tfl.Verify.kahnAcyclic_sound`): the hypothesis `Acyclic` of the C06
theorems about the dominance projections is discharged by construction -/
theorem verifyLinear_acyclic {nid : Option Nat} {mv mdv rdv iminv imaxv : Val} {c : LinCfg}
    (h : verifyLinear nid mv mdv rdv iminv imaxv = .ok c) :
    Tfl.Poset.Acyclic c.md ∧ Tfl.Poset.Acyclic c.rd := by
  obtain ⟨_, hrd, hmd⟩ := verifyLinear_parts h
  constructor
  · unfold linMd at hmd
    split at hmd
    · simp only [Except.ok.injEq] at hmd
      rw [← hmd]; exact (pacyclic_nat_iff _).mp pacyclic_nil
    · split at hmd
      · cases hmd
      · simp only [bind, Except.bind] at hmd
        split at hmd
        · cases hmd
        · split at hmd
          · cases hmd
          · rename_i ps _
            split at hmd
            · cases hmd
            · rename_i hk
              simp only [pure, Except.pure, Except.ok.injEq] at hmd
              rw [← hmd]
              exact (pacyclic_nat_iff _).mp (kahnAcyclic_sound _ ps (by simpa using hk))
  · unfold linRd at hrd
    split at hrd
    · simp only [Except.ok.injEq] at hrd
      rw [← hrd]; exact (pacyclic_nat_iff _).mp pacyclic_nil
    · split at hrd
      · cases hrd
      · simp only [bind, Except.bind] at hrd
        split at hrd
        · cases hrd
        · split at hrd
          · cases hrd
          · rename_i ps _
            split at hrd
            · cases hrd
            · rename_i hk
              simp only [pure, Except.pure, Except.ok.injEq] at hrd
              rw [← hrd]
              exact (pacyclic_nat_iff _).mp (kahnAcyclic_sound _ ps (by simpa using hk))

theorem verifyLinear_mono_num {nid : Option Nat} {mv mdv rdv iminv imaxv : Val} {c : LinCfg}
    (h : verifyLinear nid mv mdv rdv iminv imaxv = .ok c) :
    ∀ a ∈ c.mono.getD [], a.num = none ∨ a.num = some (-1) ∨ a.num = some 0 ∨ a.num = some 1 := by
  have hm := (verifyLinear_parts h).1
  intro a ha
  unfold canonMonotonicities at hm
  split at hm
  · simp only [Except.ok.injEq] at hm
    rw [← hm] at ha; cases ha
  · simp only [bind, Except.bind] at hm
    split at hm
    · cases hm
    · split at hm
      · cases hm
      · rename_i ys hys
        simp only [pure, Except.pure, Except.ok.injEq] at hm
        rw [← hm] at ha
        obtain ⟨it, _, hit⟩ := mapE_mem hys ha
        exact canonMonotonicity_num hit

/-- the integer monotonicity of a dimension read from the canonical atoms -/
def monoOf (a : Atom) : Int := match a.num with | some r => r.floor | Option.none => 0

theorem getM_monos (c : LinCfg) (k : Nat) : getM c.monos k = monoOf ((c.mono.getD []).getD k .none) := by
  simp only [getM, LinCfg.monos, List.getD_eq_getElem?_getD, List.getElem?_map]
  cases (c.mono.getD [])[k]? <;> rfl

theorem getO_los (c : LinCfg) (k : Nat) : getO c.los k = ((c.imin.getD []).getD k .none).num := by
  simp only [getO, LinCfg.los, List.getD_eq_getElem?_getD, List.getElem?_map]
  cases (c.imin.getD [])[k]? <;> simp [Atom.num]
theorem getO_his (c : LinCfg) (k : Nat) : getO c.his k = ((c.imax.getD []).getD k .none).num := by
  simp only [getO, LinCfg.his, List.getD_eq_getElem?_getD, List.getElem?_map]
  cases (c.imax.getD [])[k]? <;> simp [Atom.num]

theorem monos_length (c : LinCfg) : c.monos.length = (c.mono.getD []).length := by
  simp [LinCfg.monos]

theorem inPairs_iff {rd : Pairs} {k : Nat} : inPairs rd k = true ↔ ∃ p ∈ rd, k = p.1 ∨ k = p.2 := by
  simp only [inPairs, List.any_eq_true, Bool.or_eq_true, beq_iff_eq]
  constructor
  · rintro ⟨p, hp, e | e⟩
    · exact ⟨p, hp, Or.inl e.symm⟩
    · exact ⟨p, hp, Or.inr e.symm⟩
  · rintro ⟨p, hp, e | e⟩
    · exact ⟨p, hp, Or.inl e.symm⟩
    · exact ⟨p, hp, Or.inr e.symm⟩

/-- the range of a dimension of an accepted range-dominance pair -/
theorem verifyLinear_range {nid : Option Nat} {mv mdv rdv iminv imaxv : Val} {c : LinCfg}
    (h : verifyLinear nid mv mdv rdv iminv imaxv = .ok c) {p : Nat × Nat} (hp : p ∈ c.rd) {k : Nat}
    (hk : k = p.1 ∨ k = p.2) :
    k < c.monos.length ∧ ∃ l h' : Rat, getO c.los k = some l ∧ getO c.his k = some h' ∧ l < h' := by
  obtain ⟨⟨h1, h2⟩, r1, r2, _⟩ := verifyLinear_rd h p hp
  rw [monos_length, getO_los, getO_his]
  rcases hk with e | e <;> subst e
  · exact ⟨h1, r1⟩
  · exact ⟨h2, r2⟩

/-- **C16-T1 (linear): no scaling of an accepted configuration is zero.** For EVERY configuration
accepted by `linear_lib.verify_hyperparameters` and every dimension, the factor the
range-dominance step of `project` multiplies and then divides by is non-zero: on the dimensions of
the range-dominance pairs it is `±(input_max - input_min)` with `input_min < input_max` (fix
7189cd2), everywhere else it is `±1` (fix 44c9e89 — before it, a dimension outside the dominances
with `input_min = input_max` had the factor 0 and the real projection returned NaN: F-C06-a). -/
theorem verifyLinear_scalings_ne_zero {nid : Option Nat} {mv mdv rdv iminv imaxv : Val} {c : LinCfg}
    (h : verifyLinear nid mv mdv rdv iminv imaxv = .ok c) :
    ∀ k, k < c.monos.length → getV (scalings c.monos c.rd c.los c.his) k ≠ 0 := by
  intro k hk
  rw [scalings_spec c.monos c.rd c.los c.his hk]
  have hs : (if getM c.monos k = -1 then (-1 : Rat) else 1) ≠ 0 := by split_ifs <;> norm_num
  refine mul_ne_zero hs ?_
  by_cases hp : inPairs c.rd k = true
  · obtain ⟨p, hpm, hkp⟩ := inPairs_iff.mp hp
    obtain ⟨_, l, h', e1, e2, hlt⟩ := verifyLinear_range h hpm hkp
    rw [hp, e1, e2]
    simp only [if_true, rangeOf]
    intro e; linarith
  · simp [hp]

/-- a truthy canonical monotonicity is `-1` or `1` -/
theorem truthy_num {a : Atom} (ht : a.truthy = true)
    (hc : a.num = none ∨ a.num = some (-1) ∨ a.num = some 0 ∨ a.num = some 1)
    (hs : a.isStr = false) : a.num = some (-1) ∨ a.num = some 1 := by
  cases a with
  | none => simp [Atom.truthy] at ht
  | str t e => simp [Atom.isStr] at hs
  | int i =>
    simp only [Atom.truthy, bne_iff_ne, ne_eq] at ht
    rcases hc with e | e | e | e
    · simp [Atom.num] at e
    · exact Or.inl e
    · simp only [Atom.num, Option.some.injEq] at e
      exact absurd (by exact_mod_cast e) ht
    · exact Or.inr e
  | flt r =>
    simp only [Atom.truthy, bne_iff_ne, ne_eq] at ht
    rcases hc with e | e | e | e
    · simp [Atom.num] at e
    · exact Or.inl e
    · simp only [Atom.num, Option.some.injEq] at e
      exact absurd e ht
    · exact Or.inr e

theorem canonMonotonicity_not_str {ad : Bool} {it : Item} {a : Atom} (h : canonMonotonicity ad it = .ok a) :
    a.isStr = false := by
  unfold canonMonotonicity at h
  split at h
  · cases h; rfl
  · rename_i x _
    split at h
    · rename_i r hr
      split at h
      · split at h
        · cases h
        · cases h
          cases a <;> simp [Atom.num] at hr <;> rfl
      · cases h
    · split at h
      · split at h
        · cases h; rfl
        · cases h
      · cases h; rfl
      · cases h; rfl
      · cases h
  · cases h

theorem verifyLinear_mono_not_str {nid : Option Nat} {mv mdv rdv iminv imaxv : Val} {c : LinCfg}
    (h : verifyLinear nid mv mdv rdv iminv imaxv = .ok c) : ∀ a ∈ c.mono.getD [], a.isStr = false := by
  have hm := (verifyLinear_parts h).1
  intro a ha
  unfold canonMonotonicities at hm
  split at hm
  · simp only [Except.ok.injEq] at hm
    rw [← hm] at ha; cases ha
  · simp only [bind, Except.bind] at hm
    split at hm
    · cases hm
    · split at hm
      · cases hm
      · rename_i ys hys
        simp only [pure, Except.pure, Except.ok.injEq] at hm
        rw [← hm] at ha
        obtain ⟨it, _, hit⟩ := mapE_mem hys ha
        exact canonMonotonicity_not_str hit

/-- **fix 1f0b06a**: both dimensions of an accepted range-dominance pair carry the SAME monotonicity,
and it is `1` or `-1` (a `None` entry, which `== 0` let through, is rejected now): with the positive
ranges of `verifyLinear_range` this is the direction hypothesis of `Tfl.C06.linear_range_dominance` -/
theorem verifyLinear_hdir {nid : Option Nat} {mv mdv rdv iminv imaxv : Val} {c : LinCfg}
    (h : verifyLinear nid mv mdv rdv iminv imaxv = .ok c) :
    ∀ p ∈ c.rd, ∀ k, (k = p.1 ∨ k = p.2) →
      (getM c.monos k = 1 ∧ 0 < getV (scalings c.monos c.rd c.los c.his) k) ∨
      (getM c.monos k = -1 ∧ getV (scalings c.monos c.rd c.los c.his) k < 0) := by
  intro p hp k hk
  obtain ⟨⟨h1, h2⟩, _, _, hmp⟩ := verifyLinear_rd h p hp
  obtain ⟨hklt, l, h', e1, e2, hlt⟩ := verifyLinear_range h hp hk
  have hin : inPairs c.rd k = true := inPairs_iff.mpr ⟨p, hp, hk⟩
  have hk1 : getM c.monos k = monoOf ((c.mono.getD []).getD p.1 .none) := by
    rw [getM_monos]
    rcases hk with e | e <;> subst e
    · rfl
    · simp only [monoOf, hmp.1]
  have hmem : (c.mono.getD []).getD p.1 .none ∈ c.mono.getD [] := by
    rw [List.getD_eq_getElem?_getD, List.getElem?_eq_getElem h1]
    exact List.getElem_mem _
  have hnum := truthy_num hmp.2 (verifyLinear_mono_num h _ hmem) (verifyLinear_mono_not_str h _ hmem)
  rw [scalings_spec c.monos c.rd c.los c.his hklt, hin, e1, e2, hk1]
  simp only [if_true, rangeOf]
  have fm1 : ((-1 : Int) : Rat).floor = -1 := Rat.floor_intCast (-1)
  have f1 : ((1 : Int) : Rat).floor = 1 := Rat.floor_intCast 1
  rcases hnum with e | e
  · have : monoOf ((c.mono.getD []).getD p.1 .none) = -1 := by
      simp only [monoOf, e]; exact_mod_cast fm1
    right; rw [this]; exact ⟨rfl, by simp only [if_true]; linarith⟩
  · have : monoOf ((c.mono.getD []).getD p.1 .none) = 1 := by
      simp only [monoOf, e]; exact_mod_cast f1
    left; rw [this]; exact ⟨rfl, by norm_num; exact hlt⟩

/-! ## the monotonic-dominance loop and the "both kinds on one dimension" check

Used by the COMPOSITE theorem of `linear_lib.project` (Props/C06Compose.lean): the monotonic-dominance
stage keeps the signs because both dimensions of every accepted pair are increasing (`hinc`), and the
range-dominance stage that runs after it does not disturb the monotonic-dominance inequalities
because no dimension is used by both kinds of dominance (`verifyLinear_disjoint`). -/

/-- what the monotonic-dominance loop establishes for one accepted pair: both dimensions in range and
`monotonicities[dim] == 1` for both -/
def MdPairOK (mono : List Atom) (p : Nat × Nat) : Prop :=
  (p.1 < mono.length ∧ p.2 < mono.length) ∧
    (mono.getD p.1 .none).eqNum 1 = true ∧ (mono.getD p.2 .none).eqNum 1 = true

theorem linMdLoop_spec {mono : List Atom} :
    ∀ (xs : List Item) (acc ps : List (Nat × Nat)),
      (∀ p ∈ acc, MdPairOK mono p) →
      linMdLoop mono xs acc = .ok ps →
      ∀ p ∈ ps, MdPairOK mono p := by
  intro xs
  induction xs with
  | nil =>
    intro acc ps hacc h
    simp only [linMdLoop, Except.ok.injEq] at h
    subst h
    intro p hp
    exact hacc p (List.mem_reverse.mp hp)
  | cons it rest ih =>
    intro acc ps hacc h
    simp only [linMdLoop, bind, Except.bind] at h
    split at h
    · cases h
    · split at h
      · cases h
      · split at h
        · rename_i tp a b _hlen
          split at h
          · cases h
          · rename_i bad hbad
            split at h
            · cases h
            · rename_i hb
              split at h
              · cases h
              · rename_i hint
                have hb' : bad = false := by simpa using hb
                subst hb'
                have hd := dims_ok hbad (by simpa using hint)
                split at h
                · cases h
                · rename_i hmono
                  simp only [Bool.or_eq_true, Bool.not_eq_true', not_or, Bool.not_eq_false] at hmono
                  split at h
                  · cases h
                  · apply ih _ ps _ h
                    intro p hp
                    rcases List.mem_cons.mp hp with e | e
                    · subst e; exact ⟨⟨hd.1.atomNat_lt, hd.2.atomNat_lt⟩, hmono.1, hmono.2⟩
                    · exact hacc p e
        · cases h

/-- **every accepted monotonic-dominance pair**: both dimensions in range and increasing -/
theorem verifyLinear_md {nid : Option Nat} {mv mdv rdv iminv imaxv : Val} {c : LinCfg}
    (h : verifyLinear nid mv mdv rdv iminv imaxv = .ok c) :
    ∀ p ∈ c.md, MdPairOK (c.mono.getD []) p := by
  have hmd := (verifyLinear_parts h).2.2
  intro p hp
  unfold linMd at hmd
  split at hmd
  · simp only [Except.ok.injEq] at hmd
    rw [← hmd] at hp; cases hp
  · split at hmd
    · cases hmd
    · rename_i m hm
      simp only [bind, Except.bind] at hmd
      split at hmd
      · cases hmd
      · split at hmd
        · cases hmd
        · rename_i ps hps
          split at hmd
          · cases hmd
          · simp only [pure, Except.pure, Except.ok.injEq] at hmd
            rw [← hmd] at hp
            have := linMdLoop_spec _ _ _ (fun q hq => by cases hq) hps p hp
            rw [hm]
            exact this

theorem monoOf_of_eqNum_one {a : Atom} (h : a.eqNum 1 = true) : monoOf a = 1 := by
  have f1 : ((1 : Int) : Rat).floor = 1 := Rat.floor_intCast 1
  simp only [Atom.eqNum, beq_iff_eq] at h
  simp only [monoOf, h]
  exact_mod_cast f1

/-- both dimensions of an accepted monotonic-dominance pair are inside the column and carry the
monotonicity `1`: the hypothesis `hinc` of `Tfl.C06.linear_monotonic_dominance` -/
theorem verifyLinear_hinc {nid : Option Nat} {mv mdv rdv iminv imaxv : Val} {c : LinCfg}
    (h : verifyLinear nid mv mdv rdv iminv imaxv = .ok c) :
    ∀ p ∈ c.md, (p.1 < c.monos.length ∧ p.2 < c.monos.length) ∧
      getM c.monos p.1 = 1 ∧ getM c.monos p.2 = 1 := by
  intro p hp
  obtain ⟨hr, h1, h2⟩ := verifyLinear_md h p hp
  rw [monos_length, getM_monos, getM_monos]
  exact ⟨hr, monoOf_of_eqNum_one h1, monoOf_of_eqNum_one h2⟩

theorem sharedDim_false {md rd : List (Nat × Nat)} (h : sharedDim md rd = false) :
    ∀ k, Tfl.Poset.IsNode md k → ¬ Tfl.Poset.IsNode rd k := by
  rintro k ⟨q, hq, hqk⟩ ⟨p, hp, hpk⟩
  have : sharedDim md rd = true := by
    simp only [sharedDim, List.any_eq_true, Bool.or_eq_true, decide_eq_true_eq]
    refine ⟨p, hp, q, hq, ?_⟩
    rcases hqk with e1 | e1 <;> rcases hpk with e2 | e2 <;> simp [e1, e2]
  rw [h] at this; cases this

/-- **the "same dimension in both kinds of dominance" check** (the last block of
`linear_lib.verify_hyperparameters`): in an accepted configuration no dimension occurs both in a
monotonic-dominance pair and in a range-dominance pair -/
theorem verifyLinear_disjoint {nid : Option Nat} {mv mdv rdv iminv imaxv : Val} {c : LinCfg}
    (h : verifyLinear nid mv mdv rdv iminv imaxv = .ok c) :
    ∀ k, Tfl.Poset.IsNode c.md k → ¬ Tfl.Poset.IsNode c.rd k := by
  have hparts := verifyLinear_parts h
  simp only [verifyLinear, bind, Except.bind] at h
  split at h
  · cases h
  · split at h
    · cases h
    · split at h
      · cases h
      · split at h
        · cases h
        · split at h
          · cases h
          · split at h
            · cases h
            · split at h
              · cases h
              · split at h
                · cases h
                · split at h
                  · cases h
                  · rename_i md hmd
                    split at h
                    · cases h
                    · rename_i rd hrd
                      split at h
                      · cases h
                      · rename_i hsh
                        simp only [pure, Except.pure, Except.ok.injEq] at h
                        subst h
                        simp only [Bool.and_eq_true, Bool.not_eq_true', not_and, Bool.not_eq_true] at hsh
                        by_cases h1 : mdv.isNone = true
                        · have : md = [] := by
                            simp only [linMd, h1, if_true, Except.ok.injEq] at hmd
                            exact hmd.symm
                          subst this
                          rintro k ⟨q, hq, _⟩; cases hq
                        · by_cases h2 : rdv.isNone = true
                          · have : rd = [] := by
                              simp only [linRd, h2, if_true, Except.ok.injEq] at hrd
                              exact hrd.symm
                            subst this
                            rintro k _ ⟨q, hq, _⟩; cases hq
                          · exact sharedDim_false (hsh ⟨by simpa using h1, by simpa using h2⟩)

/-- both dimensions of an accepted range-dominance pair carry the same monotonicity -/
theorem verifyLinear_rd_same {nid : Option Nat} {mv mdv rdv iminv imaxv : Val} {c : LinCfg}
    (h : verifyLinear nid mv mdv rdv iminv imaxv = .ok c) :
    ∀ p ∈ c.rd, getM c.monos p.1 = getM c.monos p.2 := by
  intro p hp
  obtain ⟨_, _, _, hmp⟩ := verifyLinear_rd h p hp
  rw [getM_monos, getM_monos]
  simp only [monoOf, hmp.1]

/-- without monotonicities there are no dominances: `verify_hyperparameters` rejects dominance
arguments when `monotonicities` is `None` (fix b89ac95), so an accepted configuration whose canonical
monotonicities are `None` has both dominance sets empty (and `monos = []`) -/
theorem verifyLinear_no_mono {nid : Option Nat} {mv mdv rdv iminv imaxv : Val} {c : LinCfg}
    (h : verifyLinear nid mv mdv rdv iminv imaxv = .ok c) (hn : c.mono = Option.none) :
    c.md = [] ∧ c.rd = [] ∧ c.monos = [] := by
  simp only [verifyLinear, bind, Except.bind] at h
  split at h
  · cases h
  · split at h
    · cases h
    · split at h
      · cases h
      · split at h
        · cases h
        · split at h
          · cases h
          · split at h
            · cases h
            · rename_i hdm
              split at h
              · cases h
              · split at h
                · cases h
                · split at h
                  · cases h
                  · rename_i md hmd
                    split at h
                    · cases h
                    · rename_i rd hrd
                      split at h
                      · cases h
                      · simp only [pure, Except.pure, Except.ok.injEq] at h
                        subst h
                        simp only at hn
                        subst hn
                        simp only [Option.isNone_none, Bool.and_true, Bool.or_eq_true, Bool.not_eq_true',
                          not_or, Bool.not_eq_false] at hdm
                        refine ⟨?_, ?_, rfl⟩
                        · simp only [linMd, hdm.1, if_true, Except.ok.injEq] at hmd
                          exact hmd.symm
                        · simp only [linRd, hdm.2, if_true, Except.ok.injEq] at hrd
                          exact hrd.symm

end Tfl.Verify
