import TflModel.Lemmas.EdgeworthNeg
/-! Packaging of the Edgeworth sweeps at tensor level: `edgeworthOne` establishes its trust,
keeps monotonicity along every axis, keeps the inequalities of every other trust, is the identity
on feasible input, and is local. -/
namespace Tfl.Lat
open Tfl

def TrustWF (sizes : List Nat) (tr : Trust) : Prop :=
  tr.main < sizes.length ∧ tr.cond < sizes.length ∧ tr.main ≠ tr.cond

/-- every square of the trust's grid satisfies the Edgeworth inequality of its direction, at every
vertex of the box (read as behind-position) -/
def EdgeOK (sizes : List Nat) (tr : Trust) (w : W) : Prop :=
  ∀ idx, InRange sizes idx → ∀ i j, i + 1 < sizes.getD tr.main 0 → j + 1 < sizes.getD tr.cond 0 →
    if tr.pos then eviol w tr.main tr.cond i j idx ≤ 0 else 0 ≤ eviol w tr.main tr.cond i j idx

theorem gridOK_of_inRange {sizes : List Nat} {tr : Trust} (h : TrustWF sizes tr) {b : Idx}
    (hb : InRange sizes b) : GridOK tr.main tr.cond b :=
  ⟨by rw [hb.1]; exact h.1, by rw [hb.1]; exact h.2.1, h.2.2⟩

theorem allIdx_gridOK {sizes : List Nat} {tr : Trust} (h : TrustWF sizes tr) :
    ∀ b ∈ allIdx sizes, GridOK tr.main tr.cond b :=
  fun _ hb => gridOK_of_inRange h (mem_allIdx.mp hb)

theorem edgeworthOne_pos (sizes : List Nat) (tr : Trust) (w : W) (h : tr.pos = true) :
    edgeworthOne sizes tr w =
      esweepPos (allIdx sizes) tr.main tr.cond (sizes.getD tr.main 0) (sizes.getD tr.cond 0) w := by
  simp [edgeworthOne, esweepPos, h]
theorem edgeworthOne_neg (sizes : List Nat) (tr : Trust) (w : W) (h : tr.pos = false) :
    edgeworthOne sizes tr w =
      esweepNeg (allIdx sizes) tr.main tr.cond (sizes.getD tr.main 0) (sizes.getD tr.cond 0) w := by
  simp [edgeworthOne, esweepNeg, h]

/-- **C01-T2(a)** the sweep establishes its own trust, from any input -/
theorem edgeworthOne_edgeOK (sizes : List Nat) (tr : Trust) (hwf : TrustWF sizes tr) (w : W) :
    EdgeOK sizes tr (edgeworthOne sizes tr w) := by
  intro idx hr i j hi hj
  cases hp : tr.pos
  · simp only [Bool.false_eq_true, if_false]
    rw [edgeworthOne_neg _ _ _ hp]
    exact esweepNeg_edgeworth _ _ _ _ _ (allIdx_gridOK hwf) w hi hj (mem_allIdx.mpr hr)
  · simp only [if_true]
    rw [edgeworthOne_pos _ _ _ hp]
    exact esweepPos_edgeworth _ _ _ _ _ (allIdx_gridOK hwf) w hi hj (mem_allIdx.mpr hr)

theorem setc_grid_main {m c : Nat} (idx : Idx) (h : m ≠ c) (i j v : Nat) :
    setc (setc (setc idx m i) c j) m v = setc (setc idx m v) c j := by
  rw [setc_comm _ _ _ (Ne.symm h), setc_setc_same, setc_comm _ _ _ h]

theorem gat_self {m c : Nat} {idx : Idx} (hg : GridOK m c idx) (w : W) :
    gat w m c (coord idx m) (coord idx c) idx = w idx := by
  unfold gat
  rw [setc_coord_self hg.1, setc_coord_self hg.2.1]

theorem gat_setc_main {m c : Nat} {idx : Idx} (hg : GridOK m c idx) (w : W) (v : Nat) :
    gat w m c v (coord idx c) idx = w (setc idx m v) := by
  unfold gat
  rw [setc_eq_self (by simpa using hg.2.1) (by rw [coord_setc_ne _ hg.2.2])]
theorem gat_setc_cond {m c : Nat} {idx : Idx} (hg : GridOK m c idx) (w : W) (v : Nat) :
    gat w m c (coord idx m) v idx = w (setc idx c v) := by
  unfold gat
  rw [setc_coord_self hg.1]

/-- the fold of steps of either direction, as one function (for uniform statements) -/
theorem edgeworthOne_cases (sizes : List Nat) (tr : Trust) (w : W) :
    (tr.pos = true ∧ edgeworthOne sizes tr w =
        esweepPos (allIdx sizes) tr.main tr.cond (sizes.getD tr.main 0) (sizes.getD tr.cond 0) w) ∨
    (tr.pos = false ∧ edgeworthOne sizes tr w =
        esweepNeg (allIdx sizes) tr.main tr.cond (sizes.getD tr.main 0) (sizes.getD tr.cond 0) w) := by
  cases hp : tr.pos
  · exact Or.inr ⟨rfl, edgeworthOne_neg _ _ _ hp⟩
  · exact Or.inl ⟨rfl, edgeworthOne_pos _ _ _ hp⟩

/-- **C01-T2(b)** monotonicity along ANY axis survives the sweep -/
theorem edgeworthOne_mono (sizes : List Nat) (tr : Trust) (hwf : TrustWF sizes tr) (w : W) {d : Nat}
    (hw : MonoAx sizes d w) : MonoAx sizes d (edgeworthOne sizes tr w) := by
  intro idx hr hd hlt
  have hg := gridOK_of_inRange hwf hr
  have hbs := allIdx_gridOK hwf
  have hmem := mem_allIdx.mpr hr
  set M := sizes.getD tr.main 0 with hM
  set N := sizes.getD tr.cond 0 with hN
  have hcm : coord idx tr.main < M := hr.2 _ hwf.1
  have hcc : coord idx tr.cond < N := hr.2 _ hwf.2.1
  by_cases e1 : d = tr.main
  · subst e1
    -- main axis
    rcases edgeworthOne_cases sizes tr w with ⟨_, e⟩ | ⟨_, e⟩
    · rw [← gat_self hg (edgeworthOne sizes tr w), ← gat_setc_main hg (edgeworthOne sizes tr w), e]
      refine esweepPos_mono_main _ _ _ M N hbs w hmem (fun i hi => ?_) _ hcc _ hlt
      have hin : InRange sizes (setc (setc idx tr.main i) tr.cond 0) :=
        inRange_setc (inRange_setc hr (by omega)) (by omega)
      have := hw _ hin hd (by rw [coord_grid_m hg]; exact hi)
      rw [coord_grid_m hg, setc_grid_main idx hg.2.2] at this
      exact this
    · rw [← gat_self hg (edgeworthOne sizes tr w), ← gat_setc_main hg (edgeworthOne sizes tr w), e]
      refine esweepNeg_mono_main _ _ _ M N hbs w hmem (fun i hi => ?_) (N - 1 - coord idx tr.cond)
        _ (by omega) _ hlt
      have hin : InRange sizes (setc (setc idx tr.main i) tr.cond (N-1)) :=
        inRange_setc (inRange_setc hr (by omega)) (by omega)
      have := hw _ hin hd (by rw [coord_grid_m hg]; exact hi)
      rw [coord_grid_m hg, setc_grid_main idx hg.2.2] at this
      exact this
  · by_cases e2 : d = tr.cond
    · subst e2
      rcases edgeworthOne_cases sizes tr w with ⟨_, e⟩ | ⟨_, e⟩
      · rw [← gat_self hg (edgeworthOne sizes tr w), ← gat_setc_cond hg (edgeworthOne sizes tr w), e]
        refine esweepPos_mono_cond _ _ _ M N hbs w hmem (fun j hj => ?_) _ hcm _ hlt
        have hin : InRange sizes (setc (setc idx tr.main 0) tr.cond j) :=
          inRange_setc (inRange_setc hr (by omega)) (by omega)
        have := hw _ hin hd (by rw [coord_grid_c hg]; exact hj)
        rw [coord_grid_c hg, setc_setc_same] at this
        exact this
      · rw [← gat_self hg (edgeworthOne sizes tr w), ← gat_setc_cond hg (edgeworthOne sizes tr w), e]
        refine esweepNeg_mono_cond _ _ _ M N hbs w hmem (fun j hj => ?_) (M - 1 - coord idx tr.main)
          _ (by omega) _ hlt
        have hin : InRange sizes (setc (setc idx tr.main (M-1)) tr.cond j) :=
          inRange_setc (inRange_setc hr (by omega)) (by omega)
        have := hw _ hin hd (by rw [coord_grid_c hg]; exact hj)
        rw [coord_grid_c hg, setc_setc_same] at this
        exact this
    · -- an axis behind the grid: both points sit behind the same grid point
      have hin' : InRange sizes (setc idx d (coord idx d + 1)) := inRange_setc hr hlt
      have hg' := gridOK_of_inRange hwf hin'
      have hm' : coord (setc idx d (coord idx d + 1)) tr.main = coord idx tr.main := coord_setc_ne _ e1
      have hc' : coord (setc idx d (coord idx d + 1)) tr.cond = coord idx tr.cond := coord_setc_ne _ e2
      have h0 := hw idx hr hd hlt
      rcases edgeworthOne_cases sizes tr w with ⟨_, e⟩ | ⟨_, e⟩
      · have := gat_fold_behind (allIdx sizes) tr.main tr.cond (pairsLex M N) w (coord idx tr.main)
          (coord idx tr.cond) hg hg'
        rw [e]; unfold esweepPos
        have a1 := gat_self hg ((pairsLex M N).foldl (estepPos (allIdx sizes) tr.main tr.cond) w)
        have a2 := gat_self hg' ((pairsLex M N).foldl (estepPos (allIdx sizes) tr.main tr.cond) w)
        have a3 := gat_self hg w
        have a4 := gat_self hg' w
        rw [hm', hc'] at a2 a4
        rw [← a1, ← a2]
        rw [← a3, ← a4] at h0
        linarith
      · have := gat_foldNeg_behind (allIdx sizes) tr.main tr.cond (pairsLex M N).reverse w (coord idx tr.main)
          (coord idx tr.cond) hg hg'
        rw [e]; unfold esweepNeg
        have a1 := gat_self hg ((pairsLex M N).reverse.foldl (estepNeg (allIdx sizes) tr.main tr.cond) w)
        have a2 := gat_self hg' ((pairsLex M N).reverse.foldl (estepNeg (allIdx sizes) tr.main tr.cond) w)
        have a3 := gat_self hg w
        have a4 := gat_self hg' w
        rw [hm', hc'] at a2 a4
        rw [← a1, ← a2]
        rw [← a3, ← a4] at h0
        linarith

/-- **C01-T6 (Edgeworth stage)** a kernel that already satisfies the trust is returned unchanged -/
theorem edgeworthOne_fix (sizes : List Nat) (tr : Trust) (w : W) (h : EdgeOK sizes tr w) :
    edgeworthOne sizes tr w = w := by
  have hpos : ∀ (ps : List (Nat × Nat)), (∀ p ∈ ps, p.1 + 1 < sizes.getD tr.main 0 ∧ p.2 + 1 < sizes.getD tr.cond 0) →
      tr.pos = true → ps.foldl (estepPos (allIdx sizes) tr.main tr.cond) w = w := by
    intro ps
    induction ps with
    | nil => intros; rfl
    | cons q qs ih =>
      intro hq hp
      simp only [List.foldl_cons]
      rw [estepPos_fix _ _ _ w q (fun b hb => by
        have := h b (mem_allIdx.mp hb) q.1 q.2 (hq q (List.mem_cons_self ..)).1 (hq q (List.mem_cons_self ..)).2
        simpa [hp] using this)]
      exact ih (fun p hp' => hq p (List.mem_cons_of_mem _ hp')) hp
  have hneg : ∀ (ps : List (Nat × Nat)), (∀ p ∈ ps, p.1 + 1 < sizes.getD tr.main 0 ∧ p.2 + 1 < sizes.getD tr.cond 0) →
      tr.pos = false → ps.foldl (estepNeg (allIdx sizes) tr.main tr.cond) w = w := by
    intro ps
    induction ps with
    | nil => intros; rfl
    | cons q qs ih =>
      intro hq hp
      simp only [List.foldl_cons]
      rw [estepNeg_fix _ _ _ w q (fun b hb => by
        have := h b (mem_allIdx.mp hb) q.1 q.2 (hq q (List.mem_cons_self ..)).1 (hq q (List.mem_cons_self ..)).2
        simpa [hp] using this)]
      exact ih (fun p hp' => hq p (List.mem_cons_of_mem _ hp')) hp
  rcases edgeworthOne_cases sizes tr w with ⟨hp, e⟩ | ⟨hp, e⟩
  · rw [e]; exact hpos _ (fun p hp' => mem_pairsLex.mp (by simpa using hp')) hp
  · rw [e]; exact hneg _ (fun p hp' => mem_pairsLex_rev hp') hp

theorem jn_lt {N j : Nat} (pos : Bool) (h : j + 1 < N) : jn N pos j < N := by
  unfold jn; split <;> omega
theorem jc_lt {N j : Nat} (pos : Bool) (h : j + 1 < N) : jc N pos j < N := by
  unfold jc; split <;> omega

end Tfl.Lat
