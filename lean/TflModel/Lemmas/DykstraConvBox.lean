import TflModel.Model.Dykstra
import TflModel.Lemmas.Idx
import TflModel.Lemmas.IdxReg
import TflModel.Lemmas.DykstraConv
import Mathlib.Analysis.InnerProductSpace.PiL2
/-!
# Boyle–Dykstra for the model's loop on ℚ-valued kernels over a box

`dykstra_box_converges`: the function-level loop `Tfl.Lat.dykstraIter` over group maps
`P k : W → W` (`W = Idx → ℚ`) that are `Local` on the box `sizes`, each with a feasibility predicate
`F k` on REAL kernels (closed, depending only on the box) for which `P k` lands in `F k` and
satisfies the projection's variational inequality (box sum), converges — after casting ℚ → ℝ — on
every vertex of the box to the kernel `p`, feasible for all groups, that is nearest to the input
in the sum of squares over the box.

The bridge to the abstract theorem (`Tfl.DykConv.dykstra_converges_on`): the space is
`EuclideanSpace ℝ {idx // InRange sizes idx}`, the admissible set `S` is the set of casts of
rational kernels, the abstract map is `cast ∘ P k ∘ (rational section)`; the cast commutes with
the loop because the loop only subtracts and applies the maps.
-/
namespace Tfl.DykConv
open Tfl Tfl.Lat Filter Topology
open scoped RealInnerProductSpace

/-- sum of a real function over the vertices of the box -/
def bsum (sizes : List Nat) (f : Idx → ℝ) : ℝ := ((allIdx sizes).map f).sum

/-- the vertices of the box, as a type -/
abbrev Box (sizes : List Nat) : Type := {idx : Idx // InRange sizes idx}

noncomputable instance (sizes : List Nat) : Fintype (Box sizes) :=
  Fintype.subtype (allIdx sizes).toFinset (fun idx => by simp [mem_allIdx])

/-- the Euclidean space of real kernels on the box -/
abbrev EB (sizes : List Nat) : Type := EuclideanSpace ℝ (Box sizes)

theorem sum_box_eq_bsum (sizes : List Nat) (f : Idx → ℝ) :
    ∑ i : Box sizes, f i.1 = bsum sizes f := by
  rw [bsum, ← List.sum_toFinset f (nodup_allIdx sizes)]
  exact (Finset.sum_subtype (allIdx sizes).toFinset (fun idx => by simp [mem_allIdx]) f).symm

variable {sizes : List Nat}

/-- a real kernel restricted to the box -/
noncomputable def toE (sizes : List Nat) (y : Idx → ℝ) : EB sizes := WithLp.toLp 2 (fun i => y i.1)

/-- a rational kernel, cast and restricted to the box -/
noncomputable def castE (sizes : List Nat) (q : W) : EB sizes := toE sizes (fun idx => (q idx : ℝ))

open Classical in
/-- a vector of the box space as a kernel (0 outside the box) -/
noncomputable def ofE (x : EB sizes) : Idx → ℝ :=
  fun idx => if h : InRange sizes idx then x.ofLp ⟨idx, h⟩ else 0

theorem ofE_apply (x : EB sizes) {idx : Idx} (h : InRange sizes idx) : ofE x idx = x.ofLp ⟨idx, h⟩ := by
  simp [ofE, h]

theorem ofE_toE (y : Idx → ℝ) {idx : Idx} (h : InRange sizes idx) : ofE (toE sizes y) idx = y idx := by
  rw [ofE_apply _ h]; rfl

theorem toE_ofE (x : EB sizes) : toE sizes (ofE x) = x := by
  apply WithLp.ofLp_injective
  funext i
  show ofE x i.1 = x.ofLp i
  rw [ofE_apply x i.2]

theorem toE_congr {y y' : Idx → ℝ} (h : ∀ idx, InRange sizes idx → y idx = y' idx) :
    toE sizes y = toE sizes y' := by
  apply WithLp.ofLp_injective
  funext i
  exact h i.1 i.2

theorem castE_congr {f g : W} (h : AgreeOn sizes f g) : castE sizes f = castE sizes g :=
  toE_congr (fun idx hr => by rw [h idx hr])

theorem castE_sub (f g : W) : castE sizes (fun idx => f idx - g idx) = castE sizes f - castE sizes g := by
  apply WithLp.ofLp_injective
  funext i
  show ((f i.1 - g i.1 : ℚ) : ℝ) = (f i.1 : ℝ) - (g i.1 : ℝ)
  push_cast; rfl

theorem castE_zero : castE sizes (fun _ => 0) = 0 := by
  apply WithLp.ofLp_injective
  funext i
  show ((0 : ℚ) : ℝ) = 0
  simp

theorem inner_EB (x y : EB sizes) : ⟪x, y⟫ = bsum sizes (fun idx => ofE x idx * ofE y idx) := by
  rw [← sum_box_eq_bsum, PiLp.inner_apply]
  refine Finset.sum_congr rfl (fun i _ => ?_)
  rw [ofE_apply x i.2, ofE_apply y i.2]
  simp [mul_comm]

theorem norm_sq_EB (x : EB sizes) : ‖x‖ ^ 2 = bsum sizes (fun idx => ofE x idx ^ 2) := by
  rw [← sum_box_eq_bsum, EuclideanSpace.norm_sq_eq]
  refine Finset.sum_congr rfl (fun i _ => ?_)
  rw [ofE_apply x i.2]
  simp

theorem bsum_congr {f g : Idx → ℝ} (h : ∀ idx, InRange sizes idx → f idx = g idx) :
    bsum sizes f = bsum sizes g := by
  unfold bsum
  exact congrArg List.sum (List.map_congr_left (fun idx hi => h idx (mem_allIdx.mp hi)))

theorem ofE_sub (x y : EB sizes) {idx : Idx} (h : InRange sizes idx) :
    ofE (x - y) idx = ofE x idx - ofE y idx := by
  rw [ofE_apply _ h, ofE_apply _ h, ofE_apply _ h]; rfl

theorem continuous_ofE : Continuous (ofE : EB sizes → Idx → ℝ) := by
  apply continuous_pi
  intro idx
  by_cases h : InRange sizes idx
  · have : (fun x : EB sizes => ofE x idx) = fun x => x.ofLp ⟨idx, h⟩ := by
      funext x; exact ofE_apply x h
    rw [this]; fun_prop
  · have : (fun x : EB sizes => ofE x idx) = fun _ => 0 := by
      funext x; simp [ofE, h]
    rw [this]; exact continuous_const

/-! ### rational section of the cast -/

open Classical in
/-- the rational number a real is the cast of (0 if none) -/
noncomputable def ratPart (t : ℝ) : ℚ := if h : ∃ q : ℚ, (q : ℝ) = t then h.choose else 0

theorem ratPart_cast (q : ℚ) : ratPart (q : ℝ) = q := by
  have h : ∃ q' : ℚ, (q' : ℝ) = (q : ℝ) := ⟨q, rfl⟩
  simp only [ratPart, h, dif_pos]
  exact Rat.cast_injective h.choose_spec

/-- a rational kernel whose cast is `x`, when there is one -/
noncomputable def secE (x : EB sizes) : W := fun idx => ratPart (ofE x idx)

theorem secE_castE (q : W) : AgreeOn sizes (secE (castE sizes q)) q := by
  intro idx hr
  show ratPart (ofE (toE sizes _) idx) = q idx
  rw [ofE_toE _ hr, ratPart_cast]

/-- the abstract map of a group map on rational kernels -/
noncomputable def PE (sizes : List Nat) {κ : Type*} (P : κ → W → W) (k : κ) (x : EB sizes) : EB sizes :=
  castE sizes (P k (secE x))

theorem PE_castE {κ : Type*} {P : κ → W → W} {k : κ} (hloc : Local sizes (P k)) (q : W) :
    PE sizes P k (castE sizes q) = castE sizes (P k q) :=
  castE_congr (hloc _ _ (secE_castE q))

/-! ### the cast commutes with the loop -/

theorem visit_cast {κ : Type*} {P : κ → W → W} {k : κ} (hloc : Local sizes (P k)) (w c : W) :
    visitG (PE sizes P k) (castE sizes w) (castE sizes c)
      = (castE sizes (visit (P k) w c).1, castE sizes (visit (P k) w c).2) := by
  simp only [visitG, visit, ← castE_sub, PE_castE hloc]

theorem pass_cast {κ : Type*} {P : κ → W → W} (ks : List κ) (hloc : ∀ k ∈ ks, Local sizes (P k))
    (w : W) (cs : List W) :
    passG (ks.map (PE sizes P)) (castE sizes w) (cs.map (castE sizes))
      = (castE sizes (dykstraPass (ks.map P) w cs).1,
          (dykstraPass (ks.map P) w cs).2.map (castE sizes)) := by
  induction ks generalizing w cs with
  | nil => rfl
  | cons k ks ih =>
    have hh : (cs.map (castE sizes)).headD 0 = castE sizes (cs.headD (fun _ => 0)) := by
      cases cs with
      | nil => exact castE_zero.symm
      | cons c cs => rfl
    have ht : (cs.map (castE sizes)).tail = cs.tail.map (castE sizes) := by cases cs <;> rfl
    simp only [List.map_cons, passG, dykstraPass, hh, ht,
      visit_cast (hloc k (List.mem_cons_self ..)),
      ih (fun k' hk' => hloc k' (List.mem_cons_of_mem _ hk'))]

theorem iter_cast {κ : Type*} {P : κ → W → W} (ks : List κ) (hloc : ∀ k ∈ ks, Local sizes (P k))
    (n : Nat) (w : W) (cs : List W) :
    iterG (ks.map (PE sizes P)) n (castE sizes w, cs.map (castE sizes))
      = (castE sizes (dykstraIter (ks.map P) n (w, cs)).1,
          (dykstraIter (ks.map P) n (w, cs)).2.map (castE sizes)) := by
  induction n generalizing w cs with
  | zero => rfl
  | succ n ih =>
    simp only [iterG, dykstraIter, pass_cast ks hloc, ih]

/-! ### the theorem on the box -/

/-- **C08, convergence, generic over the group maps.** See the module docstring. `F k` is read on
real kernels; it only looks at the box (`hFloc`) and is closed (`hFclosed`, product topology — e.g.
any family of non-strict inequalities between continuous functions of finitely many entries). -/
theorem dykstra_box_converges (sizes : List Nat) {κ : Type*} (ks : List κ) (P : κ → W → W)
    (F : κ → (Idx → ℝ) → Prop)
    (hloc : ∀ k ∈ ks, Local sizes (P k))
    (hFloc : ∀ k ∈ ks, ∀ y y' : Idx → ℝ, (∀ idx, InRange sizes idx → y idx = y' idx) → F k y → F k y')
    (hFclosed : ∀ k ∈ ks, IsClosed {y : Idx → ℝ | F k y})
    (hlands : ∀ k ∈ ks, ∀ w : W, F k (fun idx => (P k w idx : ℝ)))
    (hvi : ∀ k ∈ ks, ∀ (w : W) (y : Idx → ℝ), F k y →
      bsum sizes (fun idx => ((w idx : ℝ) - (P k w idx : ℝ)) * (y idx - (P k w idx : ℝ))) ≤ 0)
    (hne : ∃ y : Idx → ℝ, ∀ k ∈ ks, F k y) (w : W) :
    ∃ p : Idx → ℝ, (∀ k ∈ ks, F k p) ∧
      (∀ y : Idx → ℝ, (∀ k ∈ ks, F k y) →
        bsum sizes (fun idx => ((w idx : ℝ) - p idx) ^ 2) + bsum sizes (fun idx => (p idx - y idx) ^ 2)
          ≤ bsum sizes (fun idx => ((w idx : ℝ) - y idx) ^ 2)) ∧
      (∀ idx, InRange sizes idx → Tendsto (fun n =>
        (((dykstraIter (ks.map P) n (w, (ks.map P).map (fun _ => fun _ => 0))).1 idx : ℚ) : ℝ))
          atTop (𝓝 (p idx))) ∧
      Tendsto (fun n => bsum sizes (fun idx =>
        ((((dykstraIter (ks.map P) n (w, (ks.map P).map (fun _ => fun _ => 0))).1 idx : ℚ) : ℝ)
          - p idx) ^ 2)) atTop (𝓝 0) := by
  classical
  set C : κ → Set (EB sizes) := fun k => {x | F k (ofE x)} with hC
  set S : Set (EB sizes) := Set.range (castE sizes) with hS
  have hFE : ∀ k ∈ ks, ∀ y : Idx → ℝ, F k y ↔ toE sizes y ∈ C k := by
    intro k hk y
    exact ⟨hFloc k hk _ _ (fun idx hr => (ofE_toE y hr).symm),
      hFloc k hk _ _ (fun idx hr => ofE_toE y hr)⟩
  -- hypotheses of the abstract theorem
  have hsub : ∀ x ∈ S, ∀ y ∈ S, x - y ∈ S := by
    rintro _ ⟨a, rfl⟩ _ ⟨b, rfl⟩
    exact ⟨_, castE_sub a b⟩
  have hmap : ∀ k ∈ ks, ∀ x ∈ S, PE sizes P k x ∈ S := fun k _ x _ => ⟨_, rfl⟩
  have hl : ∀ k ∈ ks, ∀ x ∈ S, PE sizes P k x ∈ C k := by
    intro k hk x _
    exact (hFE k hk _).mp (hlands k hk (secE x))
  have hv : ∀ k ∈ ks, ∀ x ∈ S, ∀ y ∈ C k, ⟪x - PE sizes P k x, y - PE sizes P k x⟫ ≤ 0 := by
    rintro k hk _ ⟨q, rfl⟩ y hy
    rw [PE_castE (hloc k hk), inner_EB]
    refine le_of_eq_of_le (bsum_congr (fun idx hr => ?_)) (hvi k hk q (ofE y) hy)
    rw [ofE_sub _ _ hr, ofE_sub _ _ hr]
    simp only [castE, ofE_toE _ hr]
  have hcl : ∀ k ∈ ks, IsClosed (C k) := fun k hk => (hFclosed k hk).preimage continuous_ofE
  have hne' : ∃ z, ∀ k ∈ ks, z ∈ C k := by
    obtain ⟨y, hy⟩ := hne
    exact ⟨toE sizes y, fun k hk => (hFE k hk y).mp (hy k hk)⟩
  obtain ⟨pE, hpC, -, hpyth, hlim, -⟩ :=
    dykstra_converges_on ks (PE sizes P) C S (castE sizes w) hsub ⟨w, rfl⟩ hmap hl hv hcl hne'
  -- the abstract loop is the cast of the model's loop
  have hiter : ∀ n, (iterG (ks.map (PE sizes P)) n (castE sizes w, ks.map (fun _ => (0 : EB sizes)))).1
      = castE sizes (dykstraIter (ks.map P) n (w, (ks.map P).map (fun _ => fun _ => 0))).1 := by
    intro n
    have h0 : ks.map (fun _ => (0 : EB sizes))
        = ((ks.map P).map (fun _ => (fun _ => 0 : W))).map (castE sizes) := by
      simp only [List.map_map]
      exact List.map_congr_left (fun k _ => castE_zero.symm)
    rw [h0, iter_cast ks hloc]
  simp only [hiter] at hlim
  refine ⟨ofE pE, hpC, fun y hy => ?_, fun idx hr => ?_, ?_⟩
  · have h := hpyth (toE sizes y) (fun k hk => (hFE k hk y).mp (hy k hk))
    rw [norm_sq_EB, norm_sq_EB, norm_sq_EB] at h
    refine le_of_eq_of_le ?_ (h.trans (le_of_eq ?_))
    · congr 1 <;> refine bsum_congr (fun idx hr => ?_)
      · rw [ofE_sub _ _ hr]; simp only [castE, ofE_toE _ hr]
      · rw [ofE_sub _ _ hr, ofE_toE _ hr]
    · refine bsum_congr (fun idx hr => ?_)
      rw [ofE_sub _ _ hr, ofE_toE _ hr]; simp only [castE, ofE_toE _ hr]
  · have hc : Continuous (fun x : EB sizes => ofE x idx) := (continuous_apply idx).comp continuous_ofE
    have := (hc.tendsto pE).comp hlim
    refine this.congr (fun n => ?_)
    simp only [Function.comp, castE, ofE_toE _ hr]
  · have h1 : Tendsto (fun n => ‖castE sizes
        (dykstraIter (ks.map P) n (w, (ks.map P).map (fun _ => fun _ => 0))).1 - pE‖ ^ 2)
        atTop (𝓝 0) := by
      have := (tendsto_iff_norm_sub_tendsto_zero.mp hlim).pow 2
      simpa using this
    refine h1.congr (fun n => ?_)
    rw [norm_sq_EB]
    refine bsum_congr (fun idx hr => ?_)
    rw [ofE_sub _ _ hr]; simp only [castE, ofE_toE _ hr]

end Tfl.DykConv
