import TflModel.Lemmas.Poset
import Mathlib.Logic.Relation
import Mathlib.Data.Fintype.Card
import Mathlib.Data.Fintype.EquivFin
/-!
# The order returned by the model of `_topological_sort` is valid (internal_utils.py:28-62)

`topoSort cs` (Model/Poset.lean) is the Python loop verbatim: roots = dict keys that never occur
as a value, explicit stack, `seen` marked when a node is on top, result prepended when the top has
no unseen successor. Here the classical DFS invariants are proved for that very function:

* `topoSort_valid` : for an acyclic pair set every returned order is duplicate-free, puts `i`
  strictly before `j` for every listed pair `(i, j)`, and lists only nodes;
* `topoSort_some_of_nonempty` : a non-empty acyclic pair set has a root, i.e. the Python does not
  raise;
* `acyclic_of_rank`, `acyclic_of_lt`, `acyclic_of_validOrder`, `acyclic_of_ValidOrder` :
  (decidable) sufficient conditions for `Acyclic`; `acyclic_iff_exists_validOrder`: acyclicity
  is exactly the existence of a valid order, so the hypothesis is the weakest possible.

Fuel: `pot = 2 * (values neither seen nor on the stack) + stack.length` drops by ≥ 1 per
iteration and starts `≤ 3 * cs.length`, below the model's `4 * (cs.length + 1) + 4`.
-/
namespace Tfl.Poset
open Relation

/-- `(i, j)` is a listed pair -/
def Edge (cs : Pairs) (i j : Nat) : Prop := (i, j) ∈ cs

/-- no non-empty path `x → … → x` along the listed pairs -/
def Acyclic (cs : Pairs) : Prop := ∀ x, ¬ TransGen (Edge cs) x x

/-- ANY rank function strictly increasing along every pair witnesses acyclicity -/
theorem acyclic_of_rank {cs : Pairs} (r : Nat → Nat) (h : ∀ c ∈ cs, r c.1 < r c.2) :
    Acyclic cs := by
  have hlt : ∀ a b, TransGen (Edge cs) a b → r a < r b := by
    intro a b hab
    induction hab with
    | single e => exact h _ e
    | tail _ e ih => exact lt_trans ih (h _ e)
  intro x hx
  exact lt_irrefl _ (hlt x x hx)

/-- decidable sufficient condition: every pair goes from a smaller to a larger index -/
theorem acyclic_of_lt {cs : Pairs} (h : ∀ c ∈ cs, c.1 < c.2) : Acyclic cs :=
  acyclic_of_rank id h

/-- decidable sufficient condition: some order passes the decidable validity check -/
theorem acyclic_of_validOrder {cs : Pairs} {order : List Nat} (h : validOrder cs order = true) :
    Acyclic cs := by
  simp only [validOrder, Bool.and_eq_true, decide_eq_true_eq, List.all_eq_true] at h
  exact acyclic_of_rank (idxOf order) (fun c hc => (h.2 c hc).2)

theorem idxOf_append_lt {pre : List Nat} (l : List Nat) {i : Nat} (hi : i ∈ pre) :
    idxOf (pre ++ l) i < pre.length := by
  induction pre with
  | nil => cases hi
  | cons a pre ih =>
    rw [List.cons_append, idxOf_cons]
    by_cases e : a = i
    · simp [e]
    · simp only [e, if_false, List.length_cons]
      rcases List.mem_cons.mp hi with h | h
      · exact absurd h.symm e
      · exact Nat.succ_lt_succ (ih h)

theorem idxOf_append_eq {pre : List Nat} (post : List Nat) {j : Nat} (hj : j ∉ pre) :
    idxOf (pre ++ j :: post) j = pre.length := by
  induction pre with
  | nil => simp [idxOf_cons]
  | cons a pre ih =>
    rw [List.cons_append, idxOf_cons]
    have e : a ≠ j := fun e => hj (e ▸ List.mem_cons_self ..)
    simp only [e, if_false, List.length_cons]
    rw [ih (fun h => hj (List.mem_cons_of_mem _ h))]

/-- any valid order (propositional form) witnesses acyclicity: together with `topoSort_valid`
and `topoSort_some_of_nonempty` below, `Acyclic cs ↔ ∃ order, ValidOrder cs order`. -/
theorem acyclic_of_ValidOrder {cs : Pairs} {order : List Nat} (h : ValidOrder cs order) :
    Acyclic cs := by
  refine acyclic_of_rank (idxOf order) (fun c hc => ?_)
  obtain ⟨pre, post, e, hp⟩ := h.2 c.1 c.2 hc
  have hnd := h.1
  rw [e] at hnd ⊢
  have hj : c.2 ∉ pre := fun hm =>
    (List.nodup_append.mp hnd).2.2 c.2 hm c.2 (List.mem_cons_self ..) rfl
  rw [idxOf_append_eq post hj]
  exact idxOf_append_lt _ hp

/-! ### the roots -/

/-- `q = [k for k in key_less_than_values if k not in all_values]` -/
def roots (cs : Pairs) : List Nat := (keys cs).filter (fun k => !(cs.map (·.2)).contains k)

theorem topoSort_eq (cs : Pairs) :
    topoSort cs = if (roots cs).isEmpty then none
      else some (topoLoop cs (4 * (cs.length + 1) + 4) (roots cs).reverse [] []) := rfl

theorem mem_roots {cs : Pairs} {x : Nat} :
    x ∈ roots cs ↔ (∃ j, (x, j) ∈ cs) ∧ ∀ i, (i, x) ∉ cs := by
  simp only [roots, keys, List.mem_filter, List.mem_eraseDups, List.mem_map, Bool.not_eq_true',
    List.contains_eq_mem, decide_eq_false_iff_not, not_exists, not_and]
  constructor
  · rintro ⟨⟨⟨a, b⟩, hm, rfl⟩, h2⟩
    exact ⟨⟨b, hm⟩, fun i hi => h2 (i, a) hi rfl⟩
  · rintro ⟨⟨j, hj⟩, h2⟩
    exact ⟨⟨(x, j), hj, rfl⟩, fun c hc e => h2 c.1 (by rw [← e]; exact hc)⟩

theorem nodup_eraseDups_aux : ∀ (n : Nat) (l : List Nat), l.length ≤ n → l.eraseDups.Nodup
  | _, [], _ => by simp
  | 0, _ :: _, h => by simp at h
  | n + 1, a :: as, h => by
    rw [List.eraseDups_cons]
    refine List.nodup_cons.mpr ⟨?_, nodup_eraseDups_aux n _ ?_⟩
    · simp [List.mem_eraseDups]
    · exact le_trans (List.length_filter_le _ _) (by simpa using h)

theorem nodup_roots (cs : Pairs) : (roots cs).Nodup :=
  (nodup_eraseDups_aux _ _ le_rfl).filter _

theorem length_roots_le (cs : Pairs) : (roots cs).length ≤ cs.length := by
  have hsub : roots cs ⊆ cs.map (·.1) := by
    intro x hx
    obtain ⟨⟨j, hj⟩, _⟩ := mem_roots.mp hx
    exact List.mem_map.mpr ⟨(x, j), hj, rfl⟩
  simpa using (nodup_roots cs).length_le_of_subset hsub

/-! ### every node of an acyclic pair set is reachable from a root -/

theorem lt_foldr_max (l : List Nat) : ∀ x ∈ l, x < l.foldr max 0 + 1 := by
  induction l with
  | nil => intro x hx; cases hx
  | cons a l ih =>
    intro x hx
    simp only [List.foldr_cons]
    rcases List.mem_cons.mp hx with e | e
    · subst e; exact Nat.lt_succ_of_le (le_max_left _ _)
    · exact lt_of_lt_of_le (ih x e) (Nat.succ_le_succ (le_max_right _ _))

theorem node_reachable {cs : Pairs} (hacyc : Acyclic cs) (x : Nat) (hx : IsNode cs x) :
    ∃ r ∈ roots cs, ReflTransGen (Edge cs) r x := by
  let L : List Nat := cs.map (·.1) ++ cs.map (·.2)
  let N : Nat := L.foldr max 0 + 1
  have hN : ∀ y, IsNode cs y → y < N := by
    intro y ⟨c, hc, h⟩
    apply lt_foldr_max L
    rcases h with h | h
    · exact List.mem_append_left _ (List.mem_map.mpr ⟨c, hc, h⟩)
    · exact List.mem_append_right _ (List.mem_map.mpr ⟨c, hc, h⟩)
  have wf : WellFounded (fun a b : Fin N => TransGen (Edge cs) a.1 b.1) := by
    have : IsTrans (Fin N) (fun a b : Fin N => TransGen (Edge cs) a.1 b.1) :=
      ⟨fun _ _ _ h1 h2 => h1.trans h2⟩
    have : Std.Irrefl (fun a b : Fin N => TransGen (Edge cs) a.1 b.1) := ⟨fun a => hacyc a.1⟩
    exact Finite.wellFounded_of_trans_of_irrefl _
  have key : ∀ a : Fin N, IsNode cs a.1 → ∃ r ∈ roots cs, ReflTransGen (Edge cs) r a.1 := by
    intro a
    induction a using wf.induction with
    | _ a ih =>
      intro hn
      by_cases hp : ∃ i, (i, a.1) ∈ cs
      · obtain ⟨i, hi⟩ := hp
        have hin : IsNode cs i := ⟨(i, a.1), hi, Or.inl rfl⟩
        obtain ⟨r, hr, hreach⟩ := ih ⟨i, hN i hin⟩ (TransGen.single hi) hin
        exact ⟨r, hr, hreach.tail hi⟩
      · refine ⟨a.1, mem_roots.mpr ⟨?_, fun i h => hp ⟨i, h⟩⟩, ReflTransGen.refl⟩
        obtain ⟨c, hc, h | h⟩ := hn
        · exact ⟨c.2, by rw [← h]; exact hc⟩
        · exact absurd ⟨c.1, by rw [← h]; exact hc⟩ hp
  exact key ⟨x, hN x hx⟩ hx

/-! ### unfolding the loop -/

theorem topoLoop_nil (cs : Pairs) (fuel : Nat) (seen result : List Nat) :
    topoLoop cs fuel [] seen result = result := by
  cases fuel <;> rfl

theorem topoLoop_pop (cs : Pairs) (fuel v : Nat) (stack seen result : List Nat)
    (h : (lessThan cs v).filter (fun x => !(v :: seen).contains x) = []) :
    topoLoop cs (fuel + 1) (v :: stack) seen result
      = topoLoop cs fuel stack (v :: seen) (v :: result) := by
  rw [topoLoop]; simp only [h]

theorem topoLoop_push (cs : Pairs) (fuel v x : Nat) (stack seen result t : List Nat)
    (h : (lessThan cs v).filter (fun x => !(v :: seen).contains x) = x :: t) :
    topoLoop cs (fuel + 1) (v :: stack) seen result
      = topoLoop cs fuel (x :: v :: stack) (v :: seen) result := by
  rw [topoLoop]; simp only [h]

/-! ### the loop invariant -/

/-- relation between a stack element `a` and an element `b` below it -/
def StackRel (cs : Pairs) (seen : List Nat) (a b : Nat) : Prop :=
  a ≠ b ∧ (b ∈ seen → TransGen (Edge cs) b a)

structure TopoInv (cs : Pairs) (stack seen result : List Nat) : Prop where
  /-- the stack (top first) has no duplicates and every *seen* element reaches all elements above it -/
  stk : stack.Pairwise (StackRel cs seen)
  /-- below the top: either already seen (part of the current path) or an initial root -/
  below : ∀ y ∈ stack.tail, y ∈ seen ∨ ∀ i, (i, y) ∉ cs
  /-- I1 -/
  seen_sub : ∀ x ∈ seen, x ∈ stack ∨ x ∈ result
  res_seen : ∀ x ∈ result, x ∈ seen
  res_disj : ∀ x ∈ result, x ∉ stack
  res_nodup : result.Nodup
  /-- I3 -/
  res_closed : ∀ i j, (i, j) ∈ cs → i ∈ result → ∃ pre post, result = pre ++ j :: post ∧ i ∈ pre
  roots_in : ∀ x ∈ roots cs, x ∈ stack ∨ x ∈ result
  nodes : ∀ x, x ∈ stack ∨ x ∈ result → IsNode cs x

theorem pairwise_seen_cons {cs : Pairs} {seen l : List Nat} {v : Nat}
    (h : l.Pairwise (StackRel cs seen)) (hv : v ∉ l) : l.Pairwise (StackRel cs (v :: seen)) := by
  refine h.imp_of_mem ?_
  intro a b _ hb hr
  refine ⟨hr.1, fun hbs => ?_⟩
  rcases List.mem_cons.mp hbs with e | e
  · exact absurd (e ▸ hb) hv
  · exact hr.2 e

theorem TopoInv.top_notMem {cs : Pairs} {v : Nat} {rest seen result : List Nat}
    (h : TopoInv cs (v :: rest) seen result) : v ∉ rest := fun hm =>
  ((List.pairwise_cons.mp h.stk).1 v hm).1 rfl

/-- a successor of the top that is already seen has been emitted (else the stack closes a cycle) -/
theorem TopoInv.succ_in_result {cs : Pairs} (hacyc : Acyclic cs) {v j : Nat}
    {rest seen result : List Nat} (h : TopoInv cs (v :: rest) seen result) (hj : (v, j) ∈ cs)
    (hs : j ∈ v :: seen) : j ∈ result := by
  have hvv : j ≠ v := fun e => hacyc v (TransGen.single (by rw [e] at hj; exact hj))
  rcases List.mem_cons.mp hs with e | e
  · exact absurd e hvv
  · rcases h.seen_sub j e with hst | hr
    · rcases List.mem_cons.mp hst with e' | e'
      · exact absurd e' hvv
      · exact absurd (((List.pairwise_cons.mp h.stk).1 j e').2 e |>.head hj) (hacyc v)
    · exact hr

theorem TopoInv.pop {cs : Pairs} (hacyc : Acyclic cs) {v : Nat} {rest seen result : List Nat}
    (h : TopoInv cs (v :: rest) seen result) (hall : ∀ j, (v, j) ∈ cs → j ∈ v :: seen) :
    TopoInv cs rest (v :: seen) (v :: result) := by
  have hv := h.top_notMem
  refine ⟨pairwise_seen_cons (List.pairwise_cons.mp h.stk).2 hv, ?_, ?_, ?_, ?_, ?_, ?_, ?_, ?_⟩
  · intro y hy
    rcases h.below y (List.mem_of_mem_tail hy) with e | e
    · exact Or.inl (List.mem_cons_of_mem _ e)
    · exact Or.inr e
  · intro x hx
    by_cases e : x = v
    · subst e; exact Or.inr (List.mem_cons_self ..)
    · rcases List.mem_cons.mp hx with e' | e'
      · exact absurd e' e
      · rcases h.seen_sub x e' with hst | hr
        · rcases List.mem_cons.mp hst with e'' | e''
          · exact absurd e'' e
          · exact Or.inl e''
        · exact Or.inr (List.mem_cons_of_mem _ hr)
  · intro x hx
    rcases List.mem_cons.mp hx with e | e
    · subst e; exact List.mem_cons_self ..
    · exact List.mem_cons_of_mem _ (h.res_seen x e)
  · intro x hx
    rcases List.mem_cons.mp hx with e | e
    · subst e; exact hv
    · exact fun hm => h.res_disj x e (List.mem_cons_of_mem _ hm)
  · exact List.nodup_cons.mpr ⟨fun hm => h.res_disj v hm (List.mem_cons_self ..), h.res_nodup⟩
  · intro i j hc hi
    by_cases e : i = v
    · subst e
      have hjr := h.succ_in_result hacyc hc (hall j hc)
      obtain ⟨pre, post, e2⟩ := List.append_of_mem hjr
      exact ⟨i :: pre, post, by rw [e2]; rfl, List.mem_cons_self ..⟩
    · have hir : i ∈ result := by
        rcases List.mem_cons.mp hi with e' | e'
        · exact absurd e' e
        · exact e'
      obtain ⟨pre, post, e2, hp⟩ := h.res_closed i j hc hir
      exact ⟨v :: pre, post, by rw [e2]; rfl, List.mem_cons_of_mem _ hp⟩
  · intro x hx
    rcases h.roots_in x hx with hst | hr
    · rcases List.mem_cons.mp hst with e | e
      · subst e; exact Or.inr (List.mem_cons_self ..)
      · exact Or.inl e
    · exact Or.inr (List.mem_cons_of_mem _ hr)
  · intro x hx
    apply h.nodes
    rcases hx with hx | hx
    · exact Or.inl (List.mem_cons_of_mem _ hx)
    · rcases List.mem_cons.mp hx with e | e
      · subst e; exact Or.inl (List.mem_cons_self ..)
      · exact Or.inr e

/-- the pushed node is not on the stack yet -/
theorem TopoInv.push_notMem {cs : Pairs} {v x : Nat} {rest seen result : List Nat}
    (h : TopoInv cs (v :: rest) seen result) (hx : (v, x) ∈ cs) (hns : x ∉ v :: seen) :
    x ∉ v :: rest := by
  intro hm
  rcases List.mem_cons.mp hm with e | e
  · exact hns (e ▸ List.mem_cons_self ..)
  · rcases h.below x e with e' | e'
    · exact hns (List.mem_cons_of_mem _ e')
    · exact e' v hx

theorem TopoInv.push {cs : Pairs} {v x : Nat} {rest seen result : List Nat}
    (h : TopoInv cs (v :: rest) seen result) (hx : (v, x) ∈ cs) (hns : x ∉ v :: seen) :
    TopoInv cs (x :: v :: rest) (v :: seen) result := by
  have hv := h.top_notMem
  have hxs := h.push_notMem hx hns
  have hxseen : x ∉ seen := fun hm => hns (List.mem_cons_of_mem _ hm)
  obtain ⟨hhead, htail⟩ := List.pairwise_cons.mp h.stk
  refine ⟨?_, ?_, ?_, ?_, ?_, h.res_nodup, h.res_closed, ?_, ?_⟩
  · refine List.pairwise_cons.mpr ⟨?_, List.pairwise_cons.mpr ⟨?_, pairwise_seen_cons htail hv⟩⟩
    · intro b hb
      refine ⟨fun e => hxs (e ▸ hb), fun hbs => ?_⟩
      rcases List.mem_cons.mp hb with e | e
      · subst e; exact TransGen.single hx
      · rcases List.mem_cons.mp hbs with e' | e'
        · exact absurd (e' ▸ e) hv
        · exact ((hhead b e).2 e').tail hx
    · intro b hb
      refine ⟨(hhead b hb).1, fun hbs => ?_⟩
      rcases List.mem_cons.mp hbs with e' | e'
      · exact absurd (e' ▸ hb) hv
      · exact (hhead b hb).2 e'
  · intro y hy
    rcases List.mem_cons.mp (show y ∈ v :: rest from hy) with e | e
    · subst e; exact Or.inl (List.mem_cons_self ..)
    · rcases h.below y e with e' | e'
      · exact Or.inl (List.mem_cons_of_mem _ e')
      · exact Or.inr e'
  · intro y hy
    rcases List.mem_cons.mp hy with e | e
    · subst e; exact Or.inl (List.mem_cons_of_mem _ (List.mem_cons_self ..))
    · rcases h.seen_sub y e with hst | hr
      · exact Or.inl (List.mem_cons_of_mem _ hst)
      · exact Or.inr hr
  · intro y hy; exact List.mem_cons_of_mem _ (h.res_seen y hy)
  · intro y hy hm
    rcases List.mem_cons.mp hm with e | e
    · exact hxseen (e ▸ h.res_seen y hy)
    · exact h.res_disj y hy e
  · intro y hy
    rcases h.roots_in y hy with hst | hr
    · exact Or.inl (List.mem_cons_of_mem _ hst)
    · exact Or.inr hr
  · intro y hy
    rcases hy with hy | hy
    · rcases List.mem_cons.mp hy with e | e
      · subst e; exact ⟨(v, y), hx, Or.inr rfl⟩
      · exact h.nodes y (Or.inl e)
    · exact h.nodes y (Or.inr hy)

/-! ### the fuel suffices -/

theorem filter_length_le {l : List Nat} {p q : Nat → Bool} (h : ∀ x ∈ l, q x = true → p x = true) :
    (l.filter q).length ≤ (l.filter p).length := by
  induction l with
  | nil => simp
  | cons a l ih =>
    have ih' := ih (fun x hx => h x (List.mem_cons_of_mem _ hx))
    have ha := h a (List.mem_cons_self ..)
    cases hq : q a <;> cases hp : p a
    · simpa [List.filter_cons, hq, hp] using ih'
    · simp only [List.filter_cons, hq, hp, if_true, List.length_cons, Bool.false_eq_true, if_false]
      omega
    · rw [ha hq] at hp; cases hp
    · simpa [List.filter_cons, hq, hp] using ih'

theorem filter_length_lt {l : List Nat} {p q : Nat → Bool} (h : ∀ x ∈ l, q x = true → p x = true)
    {a : Nat} (ha : a ∈ l) (hp : p a = true) (hq : ¬ q a = true) :
    (l.filter q).length < (l.filter p).length := by
  induction l with
  | nil => cases ha
  | cons b l ih =>
    have hle := filter_length_le (fun x hx => h x (List.mem_cons_of_mem _ hx))
    rcases List.mem_cons.mp ha with e | e
    · subst e
      have hq' : q a = false := by simpa using hq
      simp only [List.filter_cons, hp, hq', if_true, List.length_cons, Bool.false_eq_true, if_false]
      omega
    · have ih' := ih (fun x hx => h x (List.mem_cons_of_mem _ hx)) e
      have hb := h b (List.mem_cons_self ..)
      cases hqb : q b <;> cases hpb : p b
      · simpa [List.filter_cons, hqb, hpb] using ih'
      · simp only [List.filter_cons, hqb, hpb, if_true, List.length_cons, Bool.false_eq_true, if_false]
        omega
      · rw [hb hqb] at hpb; cases hpb
      · simpa [List.filter_cons, hqb, hpb] using ih'

/-- values that are neither seen nor on the stack: the nodes that can still be pushed -/
def fresh (cs : Pairs) (stack seen : List Nat) : Nat :=
  ((cs.map (·.2)).filter (fun x => !seen.contains x && !stack.contains x)).length

/-- decreases by at least one in every iteration -/
def pot (cs : Pairs) (stack seen : List Nat) : Nat := 2 * fresh cs stack seen + stack.length

theorem pot_pop (cs : Pairs) (v : Nat) (rest seen : List Nat) :
    pot cs rest (v :: seen) + 1 ≤ pot cs (v :: rest) seen := by
  have : fresh cs rest (v :: seen) ≤ fresh cs (v :: rest) seen := by
    apply filter_length_le
    intro x _ hx
    simp only [Bool.and_eq_true, Bool.not_eq_true', List.contains_eq_mem, decide_eq_false_iff_not,
      List.mem_cons, not_or] at hx ⊢
    exact ⟨hx.1.2, hx.1.1, hx.2⟩
  simp only [pot, List.length_cons]; omega

theorem pot_push (cs : Pairs) {v x : Nat} {rest seen : List Nat} (hx : (v, x) ∈ cs)
    (hns : x ∉ v :: seen) (hst : x ∉ v :: rest) :
    pot cs (x :: v :: rest) (v :: seen) + 1 ≤ pot cs (v :: rest) seen := by
  have : fresh cs (x :: v :: rest) (v :: seen) < fresh cs (v :: rest) seen := by
    apply filter_length_lt (a := x)
    · intro y _ hy
      simp only [Bool.and_eq_true, Bool.not_eq_true', List.contains_eq_mem, decide_eq_false_iff_not,
        List.mem_cons, not_or] at hy ⊢
      exact ⟨hy.1.2, hy.2.2.1, hy.2.2.2⟩
    · exact List.mem_map.mpr ⟨(v, x), hx, rfl⟩
    · simp only [Bool.and_eq_true, Bool.not_eq_true', List.contains_eq_mem, decide_eq_false_iff_not]
      exact ⟨fun hm => hns (List.mem_cons_of_mem _ hm), hst⟩
    · simp
  simp only [pot, List.length_cons] at this ⊢; omega

theorem pot_init_le (cs : Pairs) : pot cs (roots cs).reverse [] ≤ 4 * (cs.length + 1) + 4 := by
  have h1 : fresh cs (roots cs).reverse [] ≤ cs.length := by
    unfold fresh
    exact le_trans (List.length_filter_le _ _) (by simp)
  have h2 := length_roots_le cs
  simp only [pot, List.length_reverse]; omega

/-- with enough fuel the loop runs until the stack is empty, keeping the invariant -/
theorem topoLoop_inv {cs : Pairs} (hacyc : Acyclic cs) :
    ∀ (fuel : Nat) (stack seen result : List Nat), TopoInv cs stack seen result →
      pot cs stack seen ≤ fuel → ∃ seen', TopoInv cs [] seen' (topoLoop cs fuel stack seen result) := by
  intro fuel
  induction fuel with
  | zero =>
    intro stack seen result h hp
    have : stack = [] := by
      cases stack with
      | nil => rfl
      | cons a l => simp [pot] at hp
    subst this
    exact ⟨seen, by rw [topoLoop_nil]; exact h⟩
  | succ fuel ih =>
    intro stack seen result h hp
    cases stack with
    | nil => exact ⟨seen, by rw [topoLoop_nil]; exact h⟩
    | cons v rest =>
      rcases hf : (lessThan cs v).filter (fun x => !(v :: seen).contains x) with _ | ⟨x, t⟩
      · rw [topoLoop_pop cs fuel v rest seen result hf]
        have hall : ∀ j, (v, j) ∈ cs → j ∈ v :: seen := by
          intro j hj
          have := List.filter_eq_nil_iff.mp hf j (mem_lessThan.mpr hj)
          simp only [Bool.not_eq_true', List.contains_eq_mem, decide_eq_false_iff_not,
            Classical.not_not] at this
          exact this
        have := pot_pop cs v rest seen
        exact ih rest (v :: seen) (v :: result) (h.pop hacyc hall) (by omega)
      · rw [topoLoop_push cs fuel v x rest seen result t hf]
        have hxm : x ∈ (lessThan cs v).filter (fun x => !(v :: seen).contains x) := by
          rw [hf]; exact List.mem_cons_self ..
        obtain ⟨hx1, hx2⟩ := List.mem_filter.mp hxm
        have hx : (v, x) ∈ cs := mem_lessThan.mp hx1
        have hns : x ∉ v :: seen := by simpa using hx2
        have := pot_push cs hx hns (h.push_notMem hx hns)
        exact ih (x :: v :: rest) (v :: seen) result (h.push hx hns) (by omega)

theorem inv_init (cs : Pairs) : TopoInv cs (roots cs).reverse [] [] := by
  refine ⟨?_, ?_, ?_, ?_, ?_, List.nodup_nil, ?_, ?_, ?_⟩
  · have hnd : (roots cs).reverse.Nodup := List.nodup_reverse.mpr (nodup_roots cs)
    exact hnd.imp (fun hne => ⟨hne, fun hm => (by cases hm)⟩)
  · intro y hy
    have : y ∈ roots cs := by simpa using List.mem_of_mem_tail hy
    exact Or.inr (mem_roots.mp this).2
  · intro x hx; cases hx
  · intro x hx; cases hx
  · intro x hx; cases hx
  · intro i j _ hi; cases hi
  · intro x hx; exact Or.inl (by simpa using hx)
  · intro x hx
    rcases hx with hx | hx
    · obtain ⟨⟨j, hj⟩, _⟩ := mem_roots.mp (by simpa using hx)
      exact ⟨(x, j), hj, Or.inl rfl⟩
    · cases hx

/-- what the successor-closed result contains is closed under reachability -/
theorem closed_reach {cs : Pairs} {result : List Nat}
    (hc : ∀ i j, (i, j) ∈ cs → i ∈ result → ∃ pre post, result = pre ++ j :: post ∧ i ∈ pre)
    {a b : Nat} (hab : ReflTransGen (Edge cs) a b) (ha : a ∈ result) : b ∈ result := by
  induction hab with
  | refl => exact ha
  | tail _ e ih =>
    obtain ⟨pre, post, e2, _⟩ := hc _ _ e ih
    rw [e2]; simp

/-- **the order returned by the model of `_topological_sort` is valid** whenever the pairs are
acyclic: no duplicates, `i` strictly before `j` for every listed pair, only nodes listed. -/
theorem topoSort_valid (cs : Pairs) (hacyc : Acyclic cs) (order : List Nat)
    (h : topoSort cs = some order) : ValidOrder cs order ∧ (∀ a ∈ order, IsNode cs a) := by
  rw [topoSort_eq] at h
  split at h
  · cases h
  · obtain ⟨seen', hinv⟩ := topoLoop_inv hacyc _ _ _ _ (inv_init cs) (pot_init_le cs)
    rw [Option.some.inj h] at hinv
    have hall : ∀ x, IsNode cs x → x ∈ order := by
      intro x hx
      obtain ⟨r, hr, hreach⟩ := node_reachable hacyc x hx
      have hr' : r ∈ order := by
        rcases hinv.roots_in r hr with h' | h'
        · cases h'
        · exact h'
      exact closed_reach hinv.res_closed hreach hr'
    exact ⟨⟨hinv.res_nodup, fun i j hc =>
      hinv.res_closed i j hc (hall i ⟨(i, j), hc, Or.inl rfl⟩)⟩, fun a ha => hinv.nodes a (Or.inr ha)⟩

/-- a non-empty acyclic pair set has a root: the Python does not raise -/
theorem topoSort_some_of_nonempty (cs : Pairs) (hne : cs ≠ []) (hacyc : Acyclic cs) :
    ∃ order, topoSort cs = some order := by
  obtain ⟨c, hc⟩ := List.exists_mem_of_ne_nil cs hne
  obtain ⟨r, hr, _⟩ := node_reachable hacyc c.1 ⟨c, hc, Or.inl rfl⟩
  rw [topoSort_eq]
  have : (roots cs).isEmpty = false := by
    cases hq : roots cs with
    | nil => rw [hq] at hr; cases hr
    | cons a l => rfl
  simp [this]

/-- acyclicity is exactly the existence of a valid order -/
theorem acyclic_iff_exists_validOrder (cs : Pairs) : Acyclic cs ↔ ∃ order, ValidOrder cs order := by
  constructor
  · intro hacyc
    by_cases he : cs = []
    · subst he
      exact ⟨[], List.nodup_nil, fun i j hc => (by cases hc)⟩
    · obtain ⟨order, ho⟩ := topoSort_some_of_nonempty cs he hacyc
      exact ⟨order, (topoSort_valid cs hacyc order ho).1⟩
  · rintro ⟨order, h⟩
    exact acyclic_of_ValidOrder h

end Tfl.Poset
