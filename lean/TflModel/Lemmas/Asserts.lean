import TflModel.Model.Asserts
import TflModel.Lemmas.Linear
/-! Reductions of `assert_constraints` (`reduce_min` / `reduce_max` compared with a threshold) as
element-wise statements. -/
namespace Tfl.Asserts
open Tfl Tfl.Poset

theorem le_rmin_iff (c x : Rat) (xs : List Rat) : c ≤ rmin x xs ↔ c ≤ x ∧ ∀ y ∈ xs, c ≤ y := by
  induction xs generalizing x with
  | nil => simp [rmin]
  | cons y ys ih =>
    simp only [rmin, ih, le_min_iff, List.mem_cons, forall_eq_or_imp]
    tauto

theorem rmax_le_iff (c x : Rat) (xs : List Rat) : rmax x xs ≤ c ↔ x ≤ c ∧ ∀ y ∈ xs, y ≤ c := by
  induction xs generalizing x with
  | nil => simp [rmax]
  | cons y ys ih =>
    simp only [rmax, ih, max_le_iff, List.mem_cons, forall_eq_or_imp]
    tauto

theorem rmin_mem (x : Rat) (xs : List Rat) : rmin x xs ∈ x :: xs := by
  induction xs generalizing x with
  | nil => simp [rmin]
  | cons y ys ih =>
    simp only [rmin]
    have := ih (min x y)
    rcases List.mem_cons.mp this with h | h
    · rw [h]
      rcases min_choice x y with e | e <;> rw [e] <;> simp
    · simp [h]

theorem rmax_mem (x : Rat) (xs : List Rat) : rmax x xs ∈ x :: xs := by
  induction xs generalizing x with
  | nil => simp [rmax]
  | cons y ys ih =>
    simp only [rmax]
    have := ih (max x y)
    rcases List.mem_cons.mp this with h | h
    · rw [h]
      rcases max_choice x y with e | e <;> rw [e] <;> simp
    · simp [h]

/-- `reduce_min(l) >= c` holds iff every entry is `>= c` -/
theorem minGe_iff (l : List Rat) (c : Rat) : minGe l c = true ↔ ∀ y ∈ l, c ≤ y := by
  cases l with
  | nil => simp [minGe]
  | cons x xs => simp [minGe, le_rmin_iff]

/-- `reduce_max(l) <= c` holds iff every entry is `<= c` -/
theorem maxLe_iff (l : List Rat) (c : Rat) : maxLe l c = true ↔ ∀ y ∈ l, y ≤ c := by
  cases l with
  | nil => simp [maxLe]
  | cons x xs => simp [maxLe, rmax_le_iff]

theorem mem_iff_getV {l : List Rat} {y : Rat} : y ∈ l ↔ ∃ k, k < l.length ∧ getV l k = y := by
  constructor
  · intro h
    obtain ⟨k, hk, e⟩ := List.getElem_of_mem h
    exact ⟨k, hk, by simp [getV, List.getD, hk, e]⟩
  · rintro ⟨k, hk, e⟩
    rw [← e]
    simp [getV, List.getD, hk]

/-- element-wise form over positions -/
theorem minGe_iff_getV (l : List Rat) (c : Rat) : minGe l c = true ↔ ∀ k, k < l.length → c ≤ getV l k := by
  rw [minGe_iff]
  constructor
  · intro h k hk; exact h _ (mem_iff_getV.mpr ⟨k, hk, rfl⟩)
  · intro h y hy
    obtain ⟨k, hk, e⟩ := mem_iff_getV.mp hy
    rw [← e]; exact h k hk

theorem maxLe_iff_getV (l : List Rat) (c : Rat) : maxLe l c = true ↔ ∀ k, k < l.length → getV l k ≤ c := by
  rw [maxLe_iff]
  constructor
  · intro h k hk; exact h _ (mem_iff_getV.mpr ⟨k, hk, rfl⟩)
  · intro h y hy
    obtain ⟨k, hk, e⟩ := mem_iff_getV.mp hy
    rw [← e]; exact h k hk

end Tfl.Asserts
