import TflModel.Model.Wire
import TflModel.Model.Linear
import TflModel.Model.Categorical
namespace Tfl.Driver.Linear
open Tfl Tfl.Wire Tfl.Poset

def parsePairs (s : String) : Option Pairs := do
  let ls ← parseList2 (fun s => s.toNat?) s
  ls.mapM (fun l => match l with | [a, b] => some (a, b) | _ => none)
def parseOptRats := parseList parseOptRat
def parseOrd (s : String) : Option Tfl.Linear.NormOrd :=
  match s with
  | "none" => some .none | "1" => some .l1 | "2" => some .l2 | "inf" => some .linf | _ => none
def showExceptRats : Except Err (List Rat) → String
  | .ok l => showRats l
  | .error e => showErr e

/-- is the order produced by the model's `_topological_sort` valid for `cs`? (premise of C06's theorems) -/
def orderOk (cs : Pairs) (n : Nat) : Bool :=
  match topoSort cs with
  | some o => validOrder cs o && o.all (· < n)
  | none => true

def handlers : List (String × Handler) := [
  ("lin.call", fun args => match args with
    | [k, b, lo, hi, x] => do
      let k ← parseRats k; let b ← parseOptRat b; let lo ← parseOptRats lo; let hi ← parseOptRats hi
      let x ← parseRats x
      pure (showRat (Tfl.Linear.call k b lo hi x))
    | _ => none),
  -- reply: `<project …> <normSq pre> <l2Skips pre> <order_ok>`; the first token is `Tfl.Linear.project`
  -- itself, the function of the composite theorem `Tfl.C06.accepted_project` (for order 2 it is the
  -- pre-normalised column: `Tfl.C06.project_l2_eq_pre`; the harness divides by the real root unless
  -- `l2Skips` — the guard decided in ℚ — says the normalisation is skipped)
  ("lin.project", fun args => match args with
    | [m, md, rd, lo, hi, ord, w] => do
      let m ← parseInts m; let md ← parsePairs md; let rd ← parsePairs rd
      let lo ← parseOptRats lo; let hi ← parseOptRats hi; let ord ← parseOrd ord; let w ← parseRats w
      let pre := Tfl.Linear.projectPre m md rd lo hi w
      let full := Tfl.Linear.project m md rd lo hi ord w
      let nsq := match pre with | .ok p => showRat (Tfl.Linear.normSq p) | .error _ => "0"
      let skip := match pre with | .ok p => showBool (Tfl.Linear.l2Skips p) | .error _ => "0"
      let ok := orderOk (Tfl.Linear.swapPairs md) w.length && orderOk (Tfl.Linear.swapPairs rd) w.length
      pure s!"{showExceptRats full} {nsq} {skip} {showBool ok}"
    | _ => none),
  ("cat.project", fun args => match args with
    | [lo, hi, cs, w] => do
      let lo ← parseOptRat lo; let hi ← parseOptRat hi; let cs ← parsePairs cs; let w ← parseRats w
      pure s!"{showExceptRats (Tfl.Categorical.project lo hi cs w)} {showBool (orderOk cs w.length)}"
    | _ => none),
  ("cat.call", fun args => match args with
    | [k, d, x] => do
      let k ← parseRats k
      let d ← if d = "none" then some none else d.toInt?.map some
      let x ← x.toInt?
      pure (showRat (Tfl.Categorical.call k d x))
    | _ => none),
  ("poset.topo", fun args => match args with
    | [cs] => do
      let cs ← parsePairs cs
      pure (match topoSort cs with | some o => showNats o | none => "ERR ValueError")
    | _ => none)
]
end Tfl.Driver.Linear
