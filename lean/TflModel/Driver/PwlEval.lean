import TflModel.Model.Wire
import TflModel.Model.PwlEval
import TflModel.Model.Categorical
/-! Driver ops for `Tfl.PwlEval` (`pwl.*`). -/
namespace Tfl.Driver.PwlEval
open Tfl Tfl.Wire Tfl.PwlEval

def mkCfg (kps : List Rat) (learned cyclic impute : Bool) (miv : Option Rat) : Cfg :=
  { inputKeypoints := kps, learned := learned, isCyclic := cyclic, imputeMissing := impute,
    missingInputValue := miv }

/-- evaluate `call` on a batch of examples of one unit column; the first error wins -/
def callBatch (cfg : Cfg) (kernel ws : List Rat) (mout : Rat) :
    List Rat → Option (List Rat) → Except Err (List Rat)
  | [], _ => .ok []
  | x :: xs, none => do
    let r ← call cfg kernel ws mout x none
    let rs ← callBatch cfg kernel ws mout xs none
    pure (r :: rs)
  | x :: xs, some ms => do
    let r ← call cfg kernel ws mout x (some (ms.headD 0))
    let rs ← callBatch cfg kernel ws mout xs (some ms.tail)
    pure (r :: rs)

/-- all examples of a batch through `callUnits`; the first error wins -/
def layerBatch (cfg : Cfg) (kernels wss : List (List Rat)) (mouts : List Rat) :
    List (List Rat) → Option (List (List Rat)) → Except Err (List (List Rat))
  | [], _ => .ok []
  | x :: xs, none => do
    let r ← callUnits cfg kernels wss mouts x none
    let rs ← layerBatch cfg kernels wss mouts xs none
    pure (r :: rs)
  | x :: xs, some ms => do
    let r ← callUnits cfg kernels wss mouts x (some (ms.headD []))
    let rs ← layerBatch cfg kernels wss mouts xs (some ms.tail)
    pure (r :: rs)

def handlers : List (String × Handler) := [
  -- pwl.layer <input_keypoints> <learned> <cyclic> <impute> <missing_input_value|none>
  --   <kernel columns u;u;..> <softmax rows|_> <missing outputs per unit> <input rows b;b;..> <is_missing rows|none>
  --   -> output rows b;b;.. (each with one value per unit)
  ("pwl.layer", fun args => match args with
    | [kps, learned, cyclic, impute, miv, kernels, wss, mouts, xs, ms] => do
      let kps ← parseRats kps; let learned ← parseBool learned; let cyclic ← parseBool cyclic
      let impute ← parseBool impute; let miv ← parseOptRat miv; let kernels ← parseList2 parseRat kernels
      let wss ← parseList2 parseRat wss; let mouts ← parseRats mouts; let xs ← parseList2 parseRat xs
      let ms ← if ms = "none" then some none else (parseList2 parseRat ms).map some
      match ms with
      | some l => if l.length ≠ xs.length then none else pure ()
      | none => pure ()
      pure (match layerBatch (mkCfg kps learned cyclic impute miv) kernels wss mouts xs ms with
        | .ok l => showRats2 l
        | .error e => showErr e)
    | _ => none),
  -- pwl.call <input_keypoints> <learned> <cyclic> <impute> <missing_input_value|none> <kernel column>
  --          <softmax row|_> <missing_output> <xs> <is_missing list|none>
  ("pwl.call", fun args => match args with
    | [kps, learned, cyclic, impute, miv, kernel, ws, mout, xs, ms] => do
      let kps ← parseRats kps; let learned ← parseBool learned; let cyclic ← parseBool cyclic
      let impute ← parseBool impute; let miv ← parseOptRat miv; let kernel ← parseRats kernel
      let ws ← parseRats ws; let mout ← parseRat mout; let xs ← parseRats xs
      let ms ← if ms = "none" then some none else (parseRats ms).map some
      match ms with
      | some l => if l.length ≠ xs.length then none else pure ()
      | none => pure ()
      pure (match callBatch (mkCfg kps learned cyclic impute miv) kernel ws mout xs ms with
        | .ok l => showRats l
        | .error e => showErr e)
    | _ => none),
  -- pwl.keypoints <input_keypoints> <learned> <cyclic> <kernel column> <softmax row|_>
  --   -> "<keypoints_inputs> <keypoints_outputs>"
  ("pwl.keypoints", fun args => match args with
    | [kps, learned, cyclic, kernel, ws] => do
      let kps ← parseRats kps; let learned ← parseBool learned; let cyclic ← parseBool cyclic
      let kernel ← parseRats kernel; let ws ← parseRats ws
      let cfg := mkCfg kps learned cyclic false none
      pure s!"{showRats (keypointsInputs cfg ws)} {showRats (keypointsOutputs cfg kernel)}"
    | _ => none),
  -- pwl.layerout = pwl.layer with a trailing <split_outputs> flag -> for every example the tensors `call`
  --   returns (`layerOutput`: the row, or `units` one-entry rows when units > 1 and split_outputs), rows
  --   `;`-separated, examples `|`-separated
  ("pwl.layerout", fun args => match args with
    | [kps, learned, cyclic, impute, miv, kernels, wss, mouts, xs, ms, split] => do
      let kps ← parseRats kps; let learned ← parseBool learned; let cyclic ← parseBool cyclic
      let impute ← parseBool impute; let miv ← parseOptRat miv; let kernels ← parseList2 parseRat kernels
      let wss ← parseList2 parseRat wss; let mouts ← parseRats mouts; let xs ← parseList2 parseRat xs
      let ms ← if ms = "none" then some none else (parseList2 parseRat ms).map some
      let split ← parseBool split
      match ms with
      | some l => if l.length ≠ xs.length then none else pure ()
      | none => pure ()
      pure (match layerBatch (mkCfg kps learned cyclic impute miv) kernels wss mouts xs ms with
        | .ok l => "|".intercalate (l.map (fun row => showRats2 (layerOutput kernels.length split row)))
        | .error e => showErr e)
    | _ => none),
  -- cat.layer <kernel columns u;u;..> <default|none> <input rows b;b;.. (ints)> -> output rows b;b;..
  --   (`CategoricalCalibration.call`, all units; the first error wins)
  ("cat.layer", fun args => match args with
    | [kernels, d, xs] => do
      let kernels ← parseList2 parseRat kernels
      let d ← if d = "none" then some none else d.toInt?.map some
      let xs ← parseList2 (fun s => s.toInt?) xs
      pure (match xs.mapM (Tfl.Categorical.callUnits kernels d) with
        | .ok l => showRats2 l
        | .error e => showErr e)
    | _ => none)
]
end Tfl.Driver.PwlEval
