import TflModel.Model.Wire
import TflModel.Model.CrystalsScore
namespace Tfl.Driver.CrystalsScore
open Tfl Tfl.Wire Tfl.CrystalsScore

def parseRats2 (s : String) : Option (List (List Rat)) := parseList2 parseRat s
def parseNats2 (s : String) : Option (List (List Nat)) := parseList2 (fun s => s.toNat?) s

def handlers : List (String × Handler) := [
  -- cscore.norm kernel → normalised kernel | ERR
  ("cscore.norm", fun args => match args with
    | [k] => do
      let k ← parseRats k
      pure (match normalizeKernel k with
        | .ok v => showRats v
        | .error e => showErr e)
    | _ => none),
  -- cscore.tl numFeatures lattices kernels → torsions laplacians importance all-nonnegative | ERR
  ("cscore.tl", fun args => match args with
    | [n, lats, ks] => do
      let n ← n.toNat?; let lats ← parseNats2 lats; let ks ← parseRats2 ks
      pure (match torsionsAndLaplacians lats ks n with
        | .ok tl =>
          let imp := importanceScores n tl
          let nonneg := tl.1.all (fun row => row.all (fun x => decide (0 ≤ x))) &&
            tl.2.all (fun x => decide (0 ≤ x)) && imp.all (fun x => decide (0 ≤ x))
          s!"{showRats2 tl.1} {showRats tl.2} {showRats imp} {showBool nonneg}"
        | .error e => showErr e)
    | _ => none)
]
end Tfl.Driver.CrystalsScore
