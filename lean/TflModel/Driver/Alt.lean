import TflModel.Model.Wire
import TflModel.Model.Alt
import TflModel.Driver.Kfl
/-! Driver ops for `Tfl.Alt` (`alt.*`): paired representations (C14) and the conditional
calibration / CDF functions (C15). `softmax` / `sigmoid` arrive as finite tables. -/
namespace Tfl.Driver.Alt
open Tfl Tfl.Wire Tfl.Alt

def parseRats2 := parseList2 parseRat
def parseNats2 := parseList2 (fun s => s.toNat?)

/-- a table `key;value;key;value;…` as a function on lists (anything else ↦ `[]`) -/
def pairUp : List (List Rat) → List (List Rat × List Rat)
  | k :: v :: rest => (k, v) :: pairUp rest
  | _ => []
def tableFn (tbl : List (List Rat × List Rat)) : List Rat → List Rat :=
  fun l => (tbl.lookup l).getD []
def tableFn1 (keys vals : List Rat) : Rat → Rat :=
  fun z => ((keys.zip vals).lookup z).getD 0

def showExcept {α} (sh : α → String) : Except Err α → String
  | .ok v => sh v
  | .error e => showErr e

def mkCfg (a : List String) : Option PwlFnCfg :=
  match a with
  | [imin, imax, omin, omax, units, inc, cmin, cmax, cyc, mi, mo] => do
    let imin ← parseRat imin; let imax ← parseRat imax; let omin ← parseRat omin; let omax ← parseRat omax
    let units ← units.toNat?; let inc ← parseBool inc; let cmin ← parseBool cmin; let cmax ← parseBool cmax
    let cyc ← parseBool cyc; let mi ← parseOptRat mi; let mo ← parseOptRat mo
    pure { inMin := imin, inMax := imax, outMin := omin, outMax := omax, units := units, increasing := inc,
           clampMin := cmin, clampMax := cmax, cyclic := cyc, missingInput := mi, missingOutput := mo }
  | _ => none

/-- `none`, `emptyN` (N rows of size 0) or the rows -/
def parseOptRows (s : String) : Option (Option (List (List Rat))) :=
  if s = "none" then some none
  else if s.startsWith "empty" then ((s.drop 5).toNat?).map (fun n => some (List.replicate n []))
  else (parseRats2 s).map some

/-- `[i][k][j]` from `I*K` rows of `W` entries -/
def unflat3 (K : Nat) (rows : List (List Rat)) : List (List (List Rat)) := Tfl.Driver.Kfl.unflat K rows

def parseAct (s : String) : Option Activation :=
  if s = "relu6" then some .relu6 else if s = "sigmoid" then some .sigmoid else none
def parseRed (s : String) : Option Reduction :=
  if s = "mean" then some .mean else if s = "none" then some .none else none

/-- all examples of a batch; the first error wins -/
def batchM {α β} (f : α → Except Err β) : List α → Except Err (List β)
  | [] => .ok []
  | x :: xs => do
    let r ← f x
    let rs ← batchM f xs
    pure (r :: rs)

/-- a calibrator of `alt.par`: a `PWLCalibration` with fixed keypoints, `units` kernel columns -/
def parseCalibs : Nat → List String → Option (List (Rat → Except Err (List Rat)))
  | 0, [] => some []
  | n + 1, kps :: cyc :: kernels :: rest => do
    let kps ← parseRats kps; let cyc ← parseBool cyc; let kernels ← parseRats2 kernels
    let tl ← parseCalibs n rest
    let cfg : PwlEval.Cfg := { inputKeypoints := kps, learned := false, isCyclic := cyc,
                                imputeMissing := false, missingInputValue := none }
    pure ((fun xc => PwlEval.callUnits cfg kernels [] (kernels.map (fun _ => 0)) [xc] none) :: tl)
  | _, _ => none

def parseGroups (simplex clipI : Bool) (L rank : Nat) : Nat → List String → Option (List RtlGroup)
  | 0, [] => some []
  | n + 1, monos :: idxs :: kernels :: rest => do
    let monos ← parseNats monos; let idxs ← parseNats2 idxs; let kernels ← parseRats2 kernels
    let tl ← parseGroups simplex clipI L rank n rest
    pure ({ monos := monos, idxs := idxs, lattice := rtlLattice simplex clipI L rank kernels } :: tl)
  | _, _ => none

def showOpt : Option Rat → String
  | some r => showRat r
  | none => "nan"

def handlers : List (String × Handler) := [
  -- alt.kfl <L> <clip> <dims> <K rows (term, dim) term-major> <scale> <bias> <xs rows>
  --   -> "<dense kernel> <Kfl.eval per x> <Lattice(tensor input) on the dense kernel per x | ERR>
  --       <Lattice(list input) … | ERR>"
  ("alt.kfl", fun args => match args with
    | [l, c, d, k, s, b, xs] => do
      let l ← l.toNat?; let c ← parseBool c; let d ← d.toNat?; let k ← parseRats2 k
      let s ← parseRats s; let b ← parseRat b; let xs ← parseRats2 xs
      let K := Tfl.Driver.Kfl.unflat d k
      let lat := batchM (kflAsLattice .tensor l c d K s b) xs
      let latL := batchM (kflAsLattice .list l c d K s b) xs
      pure s!"{showRats (denseKernel l d K s b)} {showRats (xs.map (Kfl.eval l c K s b))} {showExcept showRats lat} {showExcept showRats latL}"
    | _ => none),
  -- alt.pwlfn <11 cfg tokens> <inParams rows|none> <outRank3> <outParams rows> <xs rows>
  --           <softmax table k;v;k;v|_> <sigmoid keys> <sigmoid values>  -> output rows | ERR
  ("alt.pwlfn", fun args => match args with
    | [a1, a2, a3, a4, a5, a6, a7, a8, a9, a10, a11, inp, r3, outp, xs, smt, sk, sv] => do
      let cfg ← mkCfg [a1, a2, a3, a4, a5, a6, a7, a8, a9, a10, a11]
      let inp ← parseOptRows inp; let r3 ← parseBool r3; let outp ← parseRats2 outp; let xs ← parseRats2 xs
      let smt ← parseRats2 smt; let sk ← parseRats sk; let sv ← parseRats sv
      let sm := tableFn (pairUp smt)
      let sg := tableFn1 sk sv
      pure (showExcept showRats2 (batchM (pwlFnRow cfg sm sg inp r3 outp) xs))
    | _ => none),
  -- alt.pwlderived <11 cfg tokens> <inParams rows|none> <outParams rows> <softmax table> <sigmoid keys> <values>
  --   -> "<deltas per unit> <kernel_outputs per unit> <layer keypoints per unit> <layer kernel per unit>"
  ("alt.pwlderived", fun args => match args with
    | [a1, a2, a3, a4, a5, a6, a7, a8, a9, a10, a11, inp, outp, smt, sk, sv] => do
      let cfg ← mkCfg [a1, a2, a3, a4, a5, a6, a7, a8, a9, a10, a11]
      let inp ← parseOptRows inp; let outp ← parseRats2 outp
      let smt ← parseRats2 smt; let sk ← parseRats sk; let sv ← parseRats sv
      let sm := tableFn (pairUp smt)
      let sg := tableFn1 sk sv
      let inRows := inputRows cfg inp
      let outRows := tileUnits cfg.units outp
      let deltas := inRows.map (keypointDeltas cfg sm)
      let kernels := outRows.map (kernelOutputs cfg sm sg)
      pure s!"{showRats2 deltas} {showRats2 kernels} {showRats2 (deltas.map (derivedKeypoints cfg))} {showRats2 (kernels.map (layerKernel cfg))}"
    | _ => none),
  -- alt.cdflayer <relu6> <mean|none> <f (Python int: may be 0 / negative)> <U> <K> <W> <monotone 0|1> <raw scale> <kernel I*K rows> <xs rows>
  --   -> per example the flattened output | ERR
  ("alt.cdflayer", fun args => match args with
    | [a, red, f, u, k, w, mono, raw, kern, xs] => do
      let a ← parseAct a; let red ← parseRed red; let f ← f.toInt?; let u ← u.toNat?; let k ← k.toNat?
      let w ← w.toNat?; let mono ← parseBool mono; let raw ← parseRats raw; let kern ← parseRats2 kern
      let xs ← parseRats2 xs
      let kernel := unflat3 k kern
      let r := batchM (fun x => (layerCallZ a (fun _ => 0) red f u (constrainedScale mono raw) kernel k w x).map List.flatten) xs
      pure (showExcept showRats2 r)
    | _ => none),
  -- alt.cdffn <relu6> <mean|none> <f> <U> <K> <W> <sI sK sW | none none none> <scaling flat|_> <loc I*K rows> <x>
  --   (one example per line: location parameters are per example)
  ("alt.cdffn", fun args => match args with
    | [a, red, f, u, k, w, si, sk, sw, sc, loc, x] => do
      let a ← parseAct a; let red ← parseRed red; let f ← f.toInt?; let u ← u.toNat?; let k ← k.toNat?
      let w ← w.toNat?; let loc ← parseRats2 loc; let x ← parseRats x
      let scaling ← if si = "none" then some none else do
        let si ← si.toNat?; let sk ← sk.toNat?; let sw ← sw.toNat?; let sc ← parseRats sc
        let _ := si
        pure (some (Tfl.Driver.Kfl.unflat sk (Tfl.Driver.Kfl.chunk sw sc.length sc)))
      let r := (cdfFnZ a (fun _ => 0) red f u scaling (unflat3 k loc) k w x).map List.flatten
      pure (showExcept showRats r)
    | _ => none),
  -- alt.par <x rows> <n> {<keypoints> <cyclic> <kernel columns>}*n -> output rows | ERR
  ("alt.par", fun args => match args with
    | xs :: n :: rest => do
      let xs ← parseRats2 xs; let n ← n.toNat?
      let layers ← parseCalibs n rest
      pure (showExcept showRats2 (batchM (parallelCall layers) xs))
    | _ => none),
  -- alt.agg <sizes> <clip> <kernel column> <row lengths> <elements, one row each|_> -> values ("nan" = empty row)
  ("alt.agg", fun args => match args with
    | [sizes, c, k, lens, elems] => do
      let sizes ← parseNats sizes; let c ← parseBool c; let k ← parseRats k; let lens ← parseNats lens
      let elems ← parseRats2 elems
      let batch := splitBy lens elems
      let outs := aggCall (LatticeEval.hypercubeValue .tensor c sizes k) batch
      pure (if outs.isEmpty then "_" else ",".intercalate (outs.map showOpt))
    | _ => none),
  -- alt.rtl <simplex> <clip> <L> <rank> <average> <x rows> <n> {<monotonicities> <indices per unit> <kernel columns>}*n
  ("alt.rtl", fun args => match args with
    | sx :: c :: l :: r :: avg :: xs :: n :: rest => do
      let sx ← parseBool sx; let c ← parseBool c; let l ← l.toNat?; let r ← r.toNat?; let avg ← parseBool avg
      let xs ← parseRats2 xs; let n ← n.toNat?
      let groups ← parseGroups sx c l r n rest
      pure (showExcept showRats2 (batchM (rtlCall groups avg) xs))
    | _ => none)
]
end Tfl.Driver.Alt
