import TflModel.Model.Wire
import TflModel.Model.Keypoints
namespace Tfl.Driver.Keypoints
open Tfl Tfl.Wire Tfl.Keypoints

def parseMode (s : String) : Option Mode :=
  if s = "quantiles" then some .quantiles else if s = "uniform" then some .uniform else none
def parseReduce (s : String) : Option Reduce :=
  if s = "mean" then some .mean else if s = "sum" then some .sum else none
def parseOptRats (s : String) : Option (Option (List Rat)) :=
  if s = "none" then some none else (parseRats s).map some

def handlers : List (String × Handler) := [
  -- kp.compute values k mode clipMin clipMax default weights reduction tieDirs
  --   → keypoints | ERR …, then tie positions, then plateau flag
  ("kp.compute", fun args => match args with
    | [vals, k, mode, cmin, cmax, dflt, ws, red, dirs] => do
      let vals ← parseRats vals; let k ← k.toNat?; let mode ← parseMode mode
      let cmin ← parseOptRat cmin; let cmax ← parseOptRat cmax; let dflt ← parseOptRat dflt
      let ws ← parseOptRats ws; let red ← parseReduce red; let dirs ← parseInts dirs
      let res := computeKeypoints vals k mode cmin cmax dflt ws red dirs
      let ties := if mode = .quantiles then tiePositions vals k cmin cmax dflt ws red else []
      let plateau := match mode, ws with
        | .quantiles, some w => plateauHit vals k cmin cmax dflt w red
        | _, _ => false
      let head := match res with
        | .ok l => showRats l
        | .error e => showErr e
      pure s!"{head} {showNats ties} {showBool plateau}"
    | _ => none),
  ("kp.linspace", fun args => match args with
    | [a, b, k] => do
      let a ← parseRat a; let b ← parseRat b; let k ← k.toNat?
      pure (showRats (linspace a b k))
    | _ => none)
]
end Tfl.Driver.Keypoints
