import TflModel.Model.Wire
import TflModel.Model.Keypoints
namespace Tfl.Driver.Keypoints
open Tfl Tfl.Wire Tfl.Keypoints

def parseMode (s : String) : Option Mode :=
  if s = "quantiles" then some .quantiles else if s = "uniform" then some .uniform else none
def parseReduce (s : String) : Option Reduce :=
  if s = "mean" then some .mean else if s = "sum" then some .sum else none
def parseOptRats (s : String) : Option (Option (List Rat)) :=
  if s = "none" then some none else (parseRats s).map some

/-- `quantiles` | `uniform` | `given:<rats>` -/
def parseSpec (s : String) : Option KpSpec :=
  if s.startsWith "given:" then (parseRats (s.drop 6).toString).map KpSpec.given else (parseMode s).map KpSpec.mode

def showSpec : KpSpec → String
  | .mode .quantiles => "quantiles"
  | .mode .uniform => "uniform"
  | .given kps => "given:" ++ showRats kps

/-- 7 tokens per config: name numBuckets spec numKeypoints clipMin clipMax default -/
def parseCfgs : Nat → List String → Option (List FeatureCfg × List String)
  | 0, rest => some ([], rest)
  | n + 1, name :: nb :: spec :: k :: cmin :: cmax :: dflt :: rest => do
    let name ← name.toNat?; let nb ← nb.toNat?; let spec ← parseSpec spec; let k ← k.toNat?
    let cmin ← parseOptRat cmin; let cmax ← parseOptRat cmax; let dflt ← parseOptRat dflt
    let (cs, rest) ← parseCfgs n rest
    pure ({ name := name, numBuckets := nb, spec := spec, numKeypoints := k, clipMin := cmin, clipMax := cmax,
            dflt := dflt } :: cs, rest)
  | _, _ => none

/-- 3 tokens per feature: name values tieDirs -/
def parseFeatures : Nat → List String → Option (List (Nat × List Rat) × List (List Int))
  | 0, [] => some ([], [])
  | n + 1, name :: vals :: dirs :: rest => do
    let name ← name.toNat?; let vals ← parseRats vals; let dirs ← parseInts dirs
    let (fs, ds) ← parseFeatures n rest
    pure ((name, vals) :: fs, dirs :: ds)
  | _, _ => none

/-- tie positions and plateau flag of the `compute_keypoints` call a feature leads to -/
def featureDiag (cfg : FeatureCfg) (vals : List Rat) (ws : Option (List Rat)) (red : Reduce) : List Nat × Bool :=
  if cfg.numBuckets ≠ 0 then ([], false)
  else match cfg.spec with
    | .mode .quantiles =>
      (tiePositions vals cfg.numKeypoints cfg.clipMin cfg.clipMax cfg.dflt ws red,
       match ws with
       | some w => plateauHit vals cfg.numKeypoints cfg.clipMin cfg.clipMax cfg.dflt w red
       | none => false)
    | _ => ([], false)

def handlers : List (String × Handler) := [
  -- kp.features weights reduction addMissing nCfg nFeat <7 tokens per config> <3 tokens per feature>
  --   → `ERR e` | `ok` then per feature `skip`/keypoints, then per feature tie positions (`;`-joined),
  --     plateau flags, and the configs after `set_feature_keypoints` as `name=spec` joined by `;`
  ("kp.features", fun args => match args with
    | ws :: red :: add :: ncfg :: nfeat :: rest => do
      let ws ← parseOptRats ws; let red ← parseReduce red; let add ← parseBool add
      let ncfg ← ncfg.toNat?; let nfeat ← nfeat.toNat?
      let (cfgs, rest) ← parseCfgs ncfg rest
      let (feats, dirs) ← parseFeatures nfeat rest
      match computeFeatureKeypoints cfgs ws red feats dirs with
      | .error e => pure (showErr e)
      | .ok out =>
        let per := feats.map fun f => match out.lookup f.1 with
          | some kps => showRats kps
          | none => "skip"
        let diag := feats.map fun f => featureDiag (featureConfigByName cfgs f.1) f.2 ws red
        let stored := (setFeatureKeypoints cfgs out add).map fun c => s!"{c.name}={showSpec c.spec}"
        pure s!"ok {" ".intercalate per} {showNats2 (diag.map (·.1))} {showNats ((diag.map (·.2)).map fun b => if b then 1 else 0)} {if stored.isEmpty then "_" else ";".intercalate stored}"
    | _ => none),
  -- kp.label num|cls labels spec k outMin outMax logits weights reduction tieDirs
  --   → keypoints | ERR …, tie positions, plateau flag, the stored `output_initialization`
  ("kp.label", fun args => match args with
    | [kind, labels, spec, k, omin, omax, logits, ws, red, dirs] => do
      let labels ← if kind = "num" then (parseRats labels).map Labels.numeric
        else if kind = "cls" then (parseNats labels).map Labels.classes else none
      let spec ← parseSpec spec; let k ← k.toNat?
      let omin ← parseOptRat omin; let omax ← parseOptRat omax; let logits ← parseBool logits
      let ws ← parseOptRats ws; let red ← parseReduce red; let dirs ← parseInts dirs
      let cfg : LabelCfg := { spec := spec, numKeypoints := k, outMin := omin, outMax := omax }
      let res := computeLabelKeypoints cfg labels logits ws red dirs
      let (vals, ws') := match labels with
        | .numeric l => (l, ws)
        | .classes l => (arange (numClasses l), none)
      let quant := spec == .mode .quantiles && !logits
      let ties := if quant then tiePositions vals k omin omax none ws' red else []
      let plateau := match quant, ws' with
        | true, some w => plateauHit vals k omin omax none w red
        | _, _ => false
      let head := match res with
        | .ok l => showRats l
        | .error e => showErr e
      let stored := match res with
        | .ok l => showSpec (setLabelKeypoints cfg l).spec
        | .error _ => "-"
      pure s!"{head} {showNats ties} {showBool plateau} {stored}"
    | _ => none),
  -- kp.compute values k mode clipMin clipMax default weights reduction tieDirs
  --   → keypoints | ERR …, then tie positions, then plateau flag
  ("kp.compute", fun args => match args with
    | [vals, k, mode, cmin, cmax, dflt, ws, red, dirs] => do
      let vals ← parseRats vals; let k ← k.toNat?; let mode ← parseMode mode
      let cmin ← parseOptRat cmin; let cmax ← parseOptRat cmax; let dflt ← parseOptRat dflt
      let ws ← parseOptRats ws; let red ← parseReduce red; let dirs ← parseInts dirs
      let res := computeKeypoints vals k mode cmin cmax dflt ws red dirs
      let ties := if mode = .quantiles then tiePositions vals k cmin cmax dflt ws red else []
      let plateau := match mode, ws with
        | .quantiles, some w => plateauHit vals k cmin cmax dflt w red
        | _, _ => false
      let head := match res with
        | .ok l => showRats l
        | .error e => showErr e
      pure s!"{head} {showNats ties} {showBool plateau}"
    | _ => none),
  ("kp.linspace", fun args => match args with
    | [a, b, k] => do
      let a ← parseRat a; let b ← parseRat b; let k ← k.toNat?
      pure (showRats (linspace a b k))
    | _ => none)
]
end Tfl.Driver.Keypoints
