import TflModel.Model.Wire
import TflModel.Model.Verify
import TflModel.Model.Configs
/-! Driver ops `vfy.*`: the validators and canonicalisers of `Model/Verify.lean` on wire-encoded
Python values (see harness/translate_accept.py for the encoding). -/
namespace Tfl.Driver.Verify
open Tfl Tfl.Wire Tfl.Verify

def tokNames : List (String × Tok) := [
  ("increasing", .increasing), ("decreasing", .decreasing), ("none", .none_), ("peak", .peak),
  ("valley", .valley), ("positive", .positive), ("negative", .negative), ("convex", .convex),
  ("concave", .concave), ("hypercube", .hypercube), ("simplex", .simplex), ("fixed", .fixed),
  ("learned_interior", .learned_interior), ("all_vertices", .all_vertices),
  ("kronecker_factored", .kronecker_factored), ("linear_initializer", .linear_initializer),
  ("random_monotonic_initializer", .random_monotonic_initializer), ("rtl_layer", .rtl_layer),
  ("torsion", .torsion), ("laplacian", .laplacian), ("calib_hessian", .calib_hessian),
  ("quantiles", .quantiles), ("uniform", .uniform), ("equal_slopes", .equal_slopes), ("other", .other)]

def tokName (t : Tok) : String :=
  match tokNames.find? (fun p => p.2 == t) with
  | some p => p.1
  | none => "other"

def parseAtom (s : String) : Option Atom :=
  if s = "N" then some .none
  else
    let rest := (s.drop 1).toString
    match s.front with
    | 'i' => rest.toInt?.map Atom.int
    | 'f' => (parseRat rest).map Atom.flt
    | 's' => (tokNames.lookup rest).map (fun t => Atom.str t true)
    | 'S' => (tokNames.lookup rest).map (fun t => Atom.str t false)
    | _ => none

def splitNE (s : String) (sep : String) : List String := if s = "" then [] else s.splitOn sep

def parseItem (s : String) : Option Item :=
  if s.startsWith "l:" then ((splitNE (s.drop 2).toString ",").mapM parseAtom).map (Item.s false)
  else if s.startsWith "t:" then ((splitNE (s.drop 2).toString ",").mapM parseAtom).map (Item.s true)
  else (parseAtom s).map Item.a

def parseVal (s : String) : Option Val :=
  if s.startsWith "L:" then ((splitNE (s.drop 2).toString ";").mapM parseItem).map (Val.s false)
  else if s.startsWith "T:" then ((splitNE (s.drop 2).toString ";").mapM parseItem).map (Val.s true)
  else (parseAtom s).map Val.a

def showAtom : Atom → String
  | .none => "N"
  | .int i => s!"i{i}"
  | .flt r => s!"f{r.num}/{r.den}"
  | .str t e => (if e then "s" else "S") ++ tokName t
def showItem : Item → String
  | .a x => showAtom x
  | .s t xs => (if t then "t:" else "l:") ++ ",".intercalate (xs.map showAtom)
def showVal : Val → String
  | .a x => showAtom x
  | .s t xs => (if t then "T:" else "L:") ++ ";".intercalate (xs.map showItem)

def parseJuPair (s : String) : Option (List Int × Atom) :=
  match s.splitOn ":" with
  | [ds, a] => do
    let dims ← if ds = "_" then some [] else (ds.splitOn ",").mapM (fun t => t.toInt?)
    let at' ← parseAtom a
    pure (dims, at')
  | _ => none

def parseJU (s : String) : Option JU :=
  if s = "N" then some .none
  else match s.splitOn ";" with
    | "L" :: rest => (rest.mapM parseJuPair).map JU.list
    | ["S", p] => (parseJuPair p).map (fun q => JU.single q.1 q.2)
    | _ => none

def parseFeat (s : String) : Option Feat :=
  match (s.splitOn ",").mapM (fun t => t.toNat?) with
  | some [a, b, c, d, e, f, g, h] => some ⟨a, b, c, d, e, f, g, h⟩
  | _ => none

def code {α} (r : Except Err α) : String := toString (outcome r)

def parseNorm (s : String) : Option NormOrd :=
  if s = "INF" then some .inf
  else if s = "NINF" then some .negInf
  else if s = "EUC" then some .euclidean
  else if s = "FRO" then some .fro
  else if s.startsWith "V" then (parseVal (s.drop 1).toString).map NormOrd.val
  else none

def showCanon {α} (sh : α → Val) : Except Err α → String
  | .ok v => showVal (sh v)
  | .error e => showErr e

def handlers : List (String × Handler) := [
  ("vfy.LatticeConstraints", fun args => match args with
    | [a, b, c, d, e, f, g, h, j, lo, hi] => do
      let r : RawLattice := ⟨← parseVal a, ← parseVal b, ← parseVal c, ← parseVal d, ← parseVal e,
        ← parseVal f, ← parseVal g, ← parseVal h, ← parseJU j, ← parseVal lo, ← parseVal hi⟩
      pure (code (latticeConstraints r))
    | [a, b, c, d, e, f, g, h, j, lo, hi, it] => do
      let r : RawLatticeFull := ⟨← parseVal a, ← parseVal b, ← parseVal c, ← parseVal d, ← parseVal e,
        ← parseVal f, ← parseVal g, ← parseVal h, ← parseJU j, ← parseVal lo, ← parseVal hi, ← parseVal it⟩
      pure (code (latticeConstraintsFull r))
    | _ => none),
  ("vfy.LinearInitializer", fun args => match args with
    | [a, b, c, d, e] => do
      pure (code (linearInitializer ⟨← parseVal a, ← parseVal b, ← parseVal c, ← parseVal d, ← parseVal e⟩))
    | _ => none),
  ("vfy.RandomMonotonicInitializer", fun args => match args with
    | [a, b, c, d] => do
      pure (code (randomMonotonicInitializer ⟨← parseVal a, ← parseVal b, ← parseVal c, ← parseVal d⟩))
    | _ => none),
  ("vfy.LaplacianRegularizer", fun args => match args with
    | [a, b, c] => do pure (code (laplacianRegularizer ⟨← parseVal a, ← parseVal b, ← parseVal c⟩))
    | _ => none),
  ("vfy.TorsionRegularizer", fun args => match args with
    | [a, b, c] => do pure (code (torsionRegularizer ⟨← parseVal a, ← parseVal b, ← parseVal c⟩))
    | _ => none),
  ("vfy.PWLCalibration", fun args => match args with
    | [a, b, c, d, e, f, g, h, i, j, k, l, m] => do
      pure (code (pwlCalibration ⟨← parseVal a, ← parseVal b, ← parseVal c, ← parseVal d, ← parseVal e,
        ← parseVal f, ← parseVal g, ← parseVal h, ← parseVal i, ← parseVal j, ← parseVal k, ← parseVal l,
        ← parseVal m⟩))
    | [a, b, c, d, e, f, g, h, i, j, k, l, m, u, it, sp] => do
      pure (code (pwlCalibrationFull ⟨← parseVal a, ← parseVal b, ← parseVal c, ← parseVal d, ← parseVal e,
        ← parseVal f, ← parseVal g, ← parseVal h, ← parseVal i, ← parseVal j, ← parseVal k, ← parseVal l,
        ← parseVal m, ← parseVal u, ← parseVal it, ← parseVal sp⟩))
    | _ => none),
  ("vfy.PWLCalibrationConstraints", fun args => match args with
    | [a, b, c, d, e] => do
      pure (code (pwlConstraints ⟨← parseVal a, ← parseVal b, ← parseVal c, ← parseVal d, ← parseVal e⟩))
    | [a, b, c, d, e, it] => do
      pure (code (pwlConstraintsFull ⟨← parseVal a, ← parseVal b, ← parseVal c, ← parseVal d, ← parseVal e,
        ← parseVal it⟩))
    | _ => none),
  ("vfy.UniformOutputInitializer", fun args => match args with
    | [a, b, c, d] => do
      pure (code (uniformOutputInitializer ⟨← parseVal a, ← parseVal b, ← parseVal c, ← parseVal d⟩))
    | _ => none),
  ("vfy.LinearConstraints", fun args => match args with
    | [a, b, c, d, e] => do
      pure (code (linearConstraints ⟨← parseVal a, ← parseVal b, ← parseVal c, ← parseVal d, ← parseVal e⟩))
    | [a, b, c, d, e, no] => do
      pure (code (linearConstraintsFull ⟨← parseVal a, ← parseVal b, ← parseVal c, ← parseVal d, ← parseVal e,
        ← parseNorm no⟩))
    | _ => none),
  ("vfy.Linear", fun args => match args with
    | [a, b, c, d] => do pure (code (linearLayer ⟨← parseVal a, ← parseVal b, ← parseVal c, ← parseVal d⟩))
    | [a, b, c, d, u, no] => do
      pure (code (linearLayerFull ⟨← parseVal a, ← parseVal b, ← parseVal c, ← parseVal d, ← parseVal u,
        ← parseNorm no⟩))
    | _ => none),
  -- the first projection's use of `normalization_order` (`tf.norm`)
  ("vfy.norm_late", fun args => match args with
    | [no] => do pure (code (normLate (← parseNorm no)))
    | _ => none),
  ("vfy.Lattice", fun args => match args with
    | [a, b, c, j, lo, hi, ip, ini] => do
      pure (code (latticeLayer ⟨← parseVal a, ← parseVal b, ← parseVal c, ← parseJU j, ← parseVal lo,
        ← parseVal hi, ← parseVal ip, ← parseVal ini⟩))
    | [a, b, c, j, lo, hi, ip, ini, u, it, ew, tp, md, rd, jm] => do
      pure (code (latticeLayerFull ⟨← parseVal a, ← parseVal b, ← parseVal c, ← parseJU j, ← parseVal lo,
        ← parseVal hi, ← parseVal ip, ← parseVal ini, ← parseVal u, ← parseVal it, ← parseVal ew, ← parseVal tp,
        ← parseVal md, ← parseVal rd, ← parseVal jm⟩))
    | _ => none),
  -- `Lattice.__init__` + `build`: the constructor, then `LatticeConstraints` of the stored attributes
  ("vfy.LatticeBuild", fun args => match args with
    | [a, b, c, j, lo, hi, ip, ini, u, it, ew, tp, md, rd, jm] => do
      pure (code (latticeBuild ⟨← parseVal a, ← parseVal b, ← parseVal c, ← parseJU j, ← parseVal lo,
        ← parseVal hi, ← parseVal ip, ← parseVal ini, ← parseVal u, ← parseVal it, ← parseVal ew, ← parseVal tp,
        ← parseVal md, ← parseVal rd, ← parseVal jm⟩))
    | _ => none),
  ("vfy.CategoricalCalibrationConstraints", fun args => match args with
    | [a, b, c] => do pure (code (categoricalConstraints ⟨← parseVal a, ← parseVal b, ← parseVal c⟩))
    | _ => none),
  ("vfy.CategoricalCalibration", fun args => match args with
    | [a, b, c, d] => do pure (code (categoricalLayer ⟨← parseVal a, ← parseVal b, ← parseVal c, ← parseVal d⟩))
    | _ => none),
  ("vfy.CategoricalCalibrationFull", fun args => match args with
    | [a, b, c, d, u, sp] => do
      pure (code (categoricalLayerFull ⟨← parseVal a, ← parseVal b, ← parseVal c, ← parseVal d, ← parseVal u,
        ← parseVal sp⟩))
    | _ => none),
  ("vfy.KroneckerFactoredLattice", fun args => match args with
    | [a, b, c, d, e] => do
      pure (code (kflLayerInt ⟨← parseVal a, ← parseVal b, ← parseVal c, ← parseVal d, ← parseVal e⟩))
    | _ => none),
  ("vfy.KroneckerFactoredLatticeBuild", fun args => match args with
    | [a, b, c, d, e, m, dims] => do
      pure (code (kflBuildRow ⟨← parseVal a, ← parseVal b, ← parseVal c, ← parseVal d, ← parseVal e, ← parseVal m,
        ← parseVal dims⟩))
    | _ => none),
  ("vfy.RTL", fun args => match args with
    | [a, b, c, d, e, f, g] => do
      pure (code (rtlLayer ⟨← parseVal a, ← parseVal b, ← parseVal c, ← parseVal d, ← parseVal e,
        ← parseVal f, ← parseVal g⟩))
    | _ => none),
  ("vfy.PremadeConfig", fun args => match args with
    | [k, fs, kf, rg, lat, nlat, nl, md, mc, mm, oi] => do
      let feats ← if fs = "N" then some none
        else if fs = "_" then some (some [])
        else ((fs.splitOn ";").mapM parseFeat).map some
      let nl' ← if nl = "N" then some none else nl.toInt?.map some
      let r : RawPremade := ⟨← k.toNat?, feats, ← kf.toNat?, ← rg.toNat?, ← lat.toNat?, ← nlat.toNat?, nl',
        ← md.toInt?, ← mc.toNat?, ← mm.toNat?, ← oi.toNat?⟩
      pure (code (premadeConfig r))
    | _ => none),
  -- canonicalisers: `vfy.canon <which> <value>` → canonical value (as stored by get_config) or ERR
  ("vfy.canon", fun args => match args with
    | [which, v] => do
      let v ← parseVal v
      match which with
      | "monotonicities" => pure (showCanon atomsVal (canonMonotonicities true v))
      | "monotonicities_nodecr" => pure (showCanon atomsVal (canonMonotonicities false v))
      | "unimodalities" => pure (showCanon atomsVal (canonUnimodalities v))
      | "input_bounds" => pure (showCanon atomsVal (canonInputBounds v))
      | "trust" => pure (showCanon trustsVal (canonTrust v))
      | "monotonicity" => pure (showCanon Val.a (canonMonotonicity true v.toItem))
      | "monotonicity_nodecr" => pure (showCanon Val.a (canonMonotonicity false v.toItem))
      | "convexity" => pure (showCanon Val.a (canonConvexity v.toItem))
      | "wrap_single" => pure (showVal (wrapSingle v))
      | _ => none
    | _ => none),
  -- `cfg.norm <normaliser> <num_input_dims> <num_keypoints> <value>`: the value-level model of a
  -- constructor-side normaliser (Tfl.Configs.valNorm), i.e. what `get_config` must store
  ("cfg.norm", fun args => match args with
    | [which, nid, nkp, v] => do
      let v ← parseVal v
      let nid ← parseVal nid
      let nkp ← parseVal nkp
      let o : String → Val := fun n => if n = "num_input_dims" then nid else if n = "num_keypoints" then nkp else .a .none
      let id ← match which with
        | "id" => some Tfl.Configs.idNorm
        | "canonicalize_monotonicities_nodecr" => some Tfl.Configs.nCanonMono0
        | "canonicalize_monotonicity" => some Tfl.Configs.nCanonMono1
        | "canonicalize_trust" => some Tfl.Configs.nCanonTrust
        | "canonicalize_unimodalities" => some Tfl.Configs.nCanonUni
        | "wrap_single" => some Tfl.Configs.nWrapSingle
        | "linear_monotonicities" => some Tfl.Configs.nLinearMono
        | "float_or_num_keypoints" => some Tfl.Configs.nFloatOr
        | "as_tuples" => some Tfl.Configs.nAsTuples
        | "wrap_canonicalize_trust" => some Tfl.Configs.nWrapCanonTrust
        | "wrap_as_tuples" => some Tfl.Configs.nWrapAsTuples
        | _ => none
      pure (showVal (Tfl.Configs.valNorm id o v))
    | _ => none),
  ("vfy.linear_broadcast", fun args => match args with
    | [n, v] => do pure (showVal (linearBroadcast (← n.toNat?) (← parseVal v)))
    | _ => none)
]
end Tfl.Driver.Verify
