import TflModel.Model.Wire
import TflModel.Model.Asserts
import TflModel.Driver.Linear
namespace Tfl.Driver.Asserts
open Tfl Tfl.Wire Tfl.Poset Tfl.Asserts Tfl.Driver.Linear

def parseTriples (s : String) : Option (List (Nat × Nat × Int)) := do
  let ls ← parseList2 (fun s => s.toInt?) s
  ls.mapM (fun l => match l with
    | [a, b, c] => if a < 0 ∨ b < 0 then none else some (a.toNat, b.toNat, c)
    | _ => none)

/-- row-major `[k][d][t]` nested list from a flat list -/
def chunk (n : Nat) : Nat → List Rat → List (List Rat)
  | 0, _ => []
  | fuel + 1, l => if l.isEmpty ∨ n = 0 then [] else l.take n :: chunk n fuel (l.drop n)

def nest3 (dims terms : Nat) (flat : List Rat) : List (List (List Rat)) :=
  (chunk (dims * terms) flat.length flat).map (fun row => chunk terms row.length row)

def handlers : List (String × Handler) := [
  ("as.lin", fun args => match args with
    | [m, md, rd, lo, hi, ord, w, eps] => do
      let m ← parseInts m; let md ← parsePairs md; let rd ← parsePairs rd
      let lo ← parseOptRats lo; let hi ← parseOptRats hi; let ord ← parseOrd ord; let w ← parseRats w
      let eps ← parseRat eps
      pure (showBool (acceptsLinear m md rd lo hi ord w eps))
    | _ => none),
  ("as.cat", fun args => match args with
    | [lo, hi, cs, w, eps] => do
      let lo ← parseOptRat lo; let hi ← parseOptRat hi; let cs ← parsePairs cs; let w ← parseRats w
      let eps ← parseRat eps
      pure (showBool (acceptsCategorical lo hi cs w eps))
    | _ => none),
  ("as.pwl", fun args => match args with
    | [mono, lo, hi, cmin, cmax, missing, k, eps] => do
      let mono ← mono.toInt?; let lo ← parseOptRat lo; let hi ← parseOptRat hi
      let cmin ← parseBool cmin; let cmax ← parseBool cmax; let missing ← parseOptRat missing
      let k ← parseRats k; let eps ← parseRat eps
      pure (showBool (acceptsPwl mono lo hi cmin cmax missing k eps))
    | _ => none),
  ("as.lat", fun args => match args with
    | [sizes, units, monos, edge, trap, mdom, rdom, jm, lo, hi, vals, eps] => do
      let sizes ← parseNats sizes; let units ← units.toNat?; let monos ← parseInts monos
      let edge ← parseTriples edge; let trap ← parseTriples trap; let mdom ← parsePairs mdom
      let rdom ← parsePairs rdom; let jm ← parsePairs jm; let lo ← parseOptRat lo; let hi ← parseOptRat hi
      let vals ← parseRats vals; let eps ← parseRat eps
      let c : LatCfg := { sizes := sizes, monos := monos, edge := edge, trap := trap, mdom := mdom,
                          rdom := rdom, jmono := jm, lo := lo, hi := hi }
      pure (showBool (acceptsLattice c units vals eps))
    | _ => none),
  ("as.kfl", fun args => match args with
    | [ls, dims, terms, monos, lo, hi, w, scale, eps] => do
      let ls ← ls.toNat?; let dims ← dims.toNat?; let terms ← terms.toNat?; let monos ← parseInts monos
      let lo ← parseOptRat lo; let hi ← parseOptRat hi; let w ← parseRats w; let scale ← parseRats scale
      let eps ← parseRat eps
      pure (showBool (acceptsKfl ls dims terms monos lo hi (nest3 dims terms w) scale eps))
    | _ => none)
]
end Tfl.Driver.Asserts
