import TflModel.Model.Wire
import TflModel.Model.Asserts
import TflModel.Driver.Linear
import TflModel.Driver.PwlEval
namespace Tfl.Driver.Asserts
open Tfl Tfl.Wire Tfl.Poset Tfl.Asserts Tfl.Driver.Linear

def parseTriples (s : String) : Option (List (Nat × Nat × Int)) := do
  let ls ← parseList2 (fun s => s.toInt?) s
  ls.mapM (fun l => match l with
    | [a, b, c] => if a < 0 ∨ b < 0 then none else some (a.toNat, b.toNat, c)
    | _ => none)

/-- row-major `[k][d][t]` nested list from a flat list -/
def chunk (n : Nat) : Nat → List Rat → List (List Rat)
  | 0, _ => []
  | fuel + 1, l => if l.isEmpty ∨ n = 0 then [] else l.take n :: chunk n fuel (l.drop n)

def nest3 (dims terms : Nat) (flat : List Rat) : List (List (List Rat)) :=
  (chunk (dims * terms) flat.length flat).map (fun row => chunk terms row.length row)

def handlers : List (String × Handler) := [
  ("as.lin", fun args => match args with
    | [m, md, rd, lo, hi, ord, w, eps] => do
      let m ← parseInts m; let md ← parsePairs md; let rd ← parsePairs rd
      let lo ← parseOptRats lo; let hi ← parseOptRats hi; let ord ← parseOrd ord; let w ← parseRats w
      let eps ← parseRat eps
      pure (showBool (acceptsLinear m md rd lo hi ord w eps))
    | _ => none),
  ("as.cat", fun args => match args with
    | [lo, hi, cs, w, eps] => do
      let lo ← parseOptRat lo; let hi ← parseOptRat hi; let cs ← parsePairs cs; let w ← parseRats w
      let eps ← parseRat eps
      pure (showBool (acceptsCategorical lo hi cs w eps))
    | _ => none),
  ("as.pwl", fun args => match args with
    | [mono, lo, hi, cmin, cmax, missing, k, eps] => do
      let mono ← mono.toInt?; let lo ← parseOptRat lo; let hi ← parseOptRat hi
      let cmin ← parseBool cmin; let cmax ← parseBool cmax; let missing ← parseOptRat missing
      let k ← parseRats k; let eps ← parseRat eps
      pure (showBool (acceptsPwl mono lo hi cmin cmax missing k eps))
    | _ => none),
  ("as.lat", fun args => match args with
    | [sizes, units, monos, edge, trap, mdom, rdom, jm, lo, hi, vals, eps] => do
      let sizes ← parseNats sizes; let units ← units.toNat?; let monos ← parseInts monos
      let edge ← parseTriples edge; let trap ← parseTriples trap; let mdom ← parsePairs mdom
      let rdom ← parsePairs rdom; let jm ← parsePairs jm; let lo ← parseOptRat lo; let hi ← parseOptRat hi
      let vals ← parseRats vals; let eps ← parseRat eps
      let c : LatCfg := { sizes := sizes, monos := monos, edge := edge, trap := trap, mdom := mdom,
                          rdom := rdom, jmono := jm, lo := lo, hi := hi }
      pure (showBool (acceptsLattice c units vals eps))
    | _ => none),
  ("as.kfl", fun args => match args with
    | [ls, dims, terms, monos, lo, hi, w, scale, eps] => do
      let ls ← ls.toNat?; let dims ← dims.toNat?; let terms ← terms.toNat?; let monos ← parseInts monos
      let lo ← parseOptRat lo; let hi ← parseOptRat hi; let w ← parseRats w; let scale ← parseRats scale
      let eps ← parseRat eps
      pure (showBool (acceptsKfl ls dims terms monos lo hi (nest3 dims terms w) scale eps))
    | _ => none),
  -- layer level: the whole units-column kernel, columns separated by `;`
  ("as.catL", fun args => match args with
    | [lo, hi, cs, cols, eps] => do
      let lo ← parseOptRat lo; let hi ← parseOptRat hi; let cs ← parsePairs cs
      let cols ← parseList2 parseRat cols; let eps ← parseRat eps
      pure (showBool (acceptsCategoricalLayer lo hi cs cols eps))
    | _ => none),
  ("as.linL", fun args => match args with
    | [m, md, rd, lo, hi, ord, cols, eps] => do
      let m ← parseInts m; let md ← parsePairs md; let rd ← parsePairs rd
      let lo ← parseOptRats lo; let hi ← parseOptRats hi; let ord ← parseOrd ord
      let cols ← parseList2 parseRat cols; let eps ← parseRat eps
      pure (showBool (acceptsLinearLayer m md rd lo hi ord cols eps))
    | _ => none),
  ("as.pwlL", fun args => match args with
    | [mono, lo, hi, cmin, cmax, assertMissing, learned, cyclic, impute, miv, kps, cols, mouts, eps] => do
      let mono ← mono.toInt?; let lo ← parseOptRat lo; let hi ← parseOptRat hi
      let cmin ← parseBool cmin; let cmax ← parseBool cmax; let assertMissing ← parseBool assertMissing
      let learned ← parseBool learned; let cyclic ← parseBool cyclic; let impute ← parseBool impute
      let miv ← parseOptRat miv; let kps ← parseRats kps; let cols ← parseList2 parseRat cols
      let mouts ← parseRats mouts; let eps ← parseRat eps
      let cfg := Tfl.Driver.PwlEval.mkCfg kps learned cyclic impute miv
      pure (showBool (acceptsPwlLayer mono lo hi cmin cmax assertMissing cfg cols mouts eps))
    | _ => none),
  ("as.kflL", fun args => match args with
    | [ls, dims, terms, monos, lo, hi, ws, scales, eps] => do
      let ls ← ls.toNat?; let dims ← dims.toNat?; let terms ← terms.toNat?; let monos ← parseInts monos
      let lo ← parseOptRat lo; let hi ← parseOptRat hi; let ws ← parseList2 parseRat ws
      let scales ← parseList2 parseRat scales; let eps ← parseRat eps
      if ws.length ≠ scales.length then none
      else pure (showBool (acceptsKflLayer ls dims terms monos lo hi
        (List.zip (ws.map (nest3 dims terms)) scales) eps))
    | _ => none)
]
end Tfl.Driver.Asserts
