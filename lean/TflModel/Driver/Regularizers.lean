import TflModel.Model.Wire
import TflModel.Model.Regularizers
namespace Tfl.Driver.Regularizers
open Tfl Tfl.Wire Tfl.Reg

/-- amount token: `s:<rat>` scalar, `l:<rats>` list / tuple -/
def parseAmt (s : String) : Option Amt :=
  if s.startsWith "s:" then (parseRat (s.drop 2).toString).map Amt.scalar
  else if s.startsWith "l:" then (parseRats (s.drop 2).toString).map Amt.perDim
  else none

/-- per-dimension list of an amount for the documented sums -/
def amtList (rank : Nat) : Amt → List Rat
  | .scalar a => List.replicate rank a
  | .perDim l => l
def amtPair (_rank : Nat) : Amt → Nat → Nat → Rat
  | .scalar a => fun _ _ => a
  | .perDim l => fun i j => getR l i * getR l j

/-- `weights` of shape `(prod sizes, units)` row-major = the tensor of shape `sizes (+ [units])` -/
def tableOf (sizes : List Nat) (units : Nat) (vals : List Rat) : Option (List Nat × Table) :=
  let sizes' := if units > 1 then sizes ++ [units] else sizes
  let idxs := allIdx sizes'
  if idxs.length == vals.length then some (sizes', idxs.zip vals) else none

/-- unit `u` of the weights as a table over `sizes` -/
def unitTable (sizes : List Nat) (units u : Nat) (t : Table) : Table :=
  if units > 1 then (allIdx sizes).map (fun idx => (idx, t.get (idx ++ [u]))) else t

def showExceptRat : Except Err Rat → String
  | .ok r => showRat r
  | .error e => showErr e

def parseCols (s : String) : Option (List (List Rat)) := parseList2 parseRat s

/-- the `(rows, units)` kernel of the code from its columns (the wire carries columns); `none` when ragged -/
def rowsOf (cols : List (List Rat)) : Option (List (List Rat)) :=
  let n := (cols.head?.map List.length).getD 0
  if cols.all (fun c => c.length == n) then some ((List.range n).map (fun i => cols.map (fun c => getR c i)))
  else none

/-- reply: code-shaped value on the `(rows, units)` matrix (row slices, axis-0 wrap-around row, `reduce_sum`
over all entries), column-shaped value, documented norm -/
def pwlOp (g : Rat → Rat → Bool → Nat → List (List Rat) → Rat)
    (f : Rat → Rat → Bool → List (List Rat) → Rat) (m : Nat) : Handler := fun args =>
  match args with
  | [l1, l2, cyc, cols] => do
    let l1 ← parseRat l1; let l2 ← parseRat l2; let cyc ← parseBool cyc; let cols ← parseCols cols
    let rows ← rowsOf cols
    pure s!"{showRat (g l1 l2 cyc cols.length rows)} {showRat (f l1 l2 cyc cols)} {showRat (pwlSpec m l1 l2 cyc cols)}"
  | _ => none

def handlers : List (String × Handler) := [
  -- reply: code-shaped value, documented sum (summed over units)
  ("reg.lat.lap", fun args => match args with
    | [sizes, units, l1, l2, vals] => do
      let sizes ← parseNats sizes; let units ← units.toNat?
      let l1 ← parseAmt l1; let l2 ← parseAmt l2; let vals ← parseRats vals
      let (_, t) ← tableOf sizes units vals
      let code := laplacian sizes units l1 l2 t.get
      let rank := sizes.length
      let spec := rsum ((List.range units).map (fun u =>
        lapSpec sizes (amtList rank l1) (amtList rank l2) (unitTable sizes units u t).get))
      pure s!"{showRat code} {showRat spec}"
    | _ => none),
  ("reg.lat.tor", fun args => match args with
    | [sizes, units, l1, l2, vals] => do
      let sizes ← parseNats sizes; let units ← units.toNat?
      let l1 ← parseAmt l1; let l2 ← parseAmt l2; let vals ← parseRats vals
      let (_, t) ← tableOf sizes units vals
      let code := torsion sizes units l1 l2 t.get
      let rank := sizes.length
      let spec := rsum ((List.range units).map (fun u =>
        torSpec sizes (amtPair rank l1) (amtPair rank l2) (unitTable sizes units u t).get))
      pure s!"{showExceptRat code} {showRat spec}"
    | _ => none),
  ("reg.pwl.lap", pwlOp pwlLaplacianRows pwlLaplacian 1),
  ("reg.pwl.hess", pwlOp pwlHessianRows pwlHessian 2),
  ("reg.pwl.wrinkle", pwlOp pwlWrinkleRows pwlWrinkle 3)
]
end Tfl.Driver.Regularizers
