import TflModel.Model.Wire
import TflModel.Model.Kfl
namespace Tfl.Driver.Kfl
open Tfl Tfl.Wire Tfl.Kfl

/-- kernels travel flattened: rows `(term, dim)` term-major, each row the lattice column -/
def chunk {α} (d : Nat) : Nat → List α → List (List α)
  | 0, _ => []
  | fuel + 1, l => if l.isEmpty || d = 0 then [] else l.take d :: chunk d fuel (l.drop d)
def unflat (d : Nat) (rows : List (List Rat)) : List (List (List Rat)) := chunk d rows.length rows
def parseBools (s : String) : Option (List Bool) := parseList parseBool s
def parseRats2 := parseList2 parseRat
def showK (K : List (List (List Rat))) : String := showRats2 K.flatten

/-- ops of a run for `kfl.track`: `0` raw kernel update, `1,s_1,…,s_T` raw scale update, `2` kernel
constraint, `3` scale constraint (kernels and root factors are not needed: `Tfl.Kfl.runTracked_forget`) -/
def decodeOp : List Rat → Option Op
  | [c] => if c = 0 then some (.assignK []) else if c = 2 then some (.consK []) else if c = 3 then some .consS
           else if c = 1 then some (.assignS []) else none
  | c :: s => if c = 1 then some (.assignS s) else none
  | [] => none

def handlers : List (String × Handler) := [
  ("kfl.track", fun args => match args with
    | [lo, hi, s0, ops] => do
      let lo ← parseOptRat lo; let hi ← parseOptRat hi; let s0 ← parseRats s0; let ops ← parseRats2 ops
      let ops ← ops.mapM decodeOp
      let (st, tr) := runTracked [] lo hi { K := [], scale := s0 } Track.init ops
      let ref := match tr.ref with | some r => showRats r | none => "none"
      pure s!"{ref} {showBool tr.sFresh} {showBool (monoCovered tr st.scale)} {showBool (boundCovered tr)} {showRats st.scale}"
    | _ => none),
  ("kfl.weights", fun args => match args with
    | [l, x] => do
      let l ← l.toNat?; let x ← parseRat x
      pure (showRats (interpWeights l x))
    | _ => none),
  ("kfl.eval", fun args => match args with
    | [l, c, d, k, s, b, xs] => do
      let l ← l.toNat?; let c ← parseBool c; let d ← d.toNat?; let k ← parseRats2 k
      let s ← parseRats s; let b ← parseRat b; let xs ← parseRats2 xs
      let K := unflat d k
      pure (showRats (xs.map (eval l c K s b)))
    | _ => none),
  ("kfl.cons", fun args => match args with
    | [m, lo, hi, d, s, rs, k] => do
      let m ← parseBools m; let lo ← parseOptRat lo; let hi ← parseOptRat hi; let d ← d.toNat?
      let s ← parseRats s; let rs ← parseRats rs; let k ← parseRats2 k
      let K := unflat d k
      let out := kernelConstraint m lo hi s rs K
      let stage := List.zipWith (monoStage m) s K
      let oks := List.zipWith rootOk rs stage
      pure s!"{showK out} {showRats (stage.map fullFactor)} {",".intercalate (oks.map showBool)}"
    | _ => none),
  ("kfl.scale", fun args => match args with
    | [lo, hi, s] => do
      let lo ← parseOptRat lo; let hi ← parseOptRat hi; let s ← parseRats s
      pure (showRats (scaleConstraint lo hi s))
    | _ => none),
  ("kfl.bias", fun args => match args with
    | [lo, hi] => do
      let lo ← parseOptRat lo; let hi ← parseOptRat hi
      pure (showRat (fixedBias lo hi))
    | _ => none),
  ("kfl.finalize", fun args => match args with
    | [m, lo, hi, d, s, rs, k] => do
      let m ← parseBools m; let lo ← parseOptRat lo; let hi ← parseOptRat hi; let d ← d.toNat?
      let s ← parseRats s; let rs ← parseRats rs; let k ← parseRats2 k
      let st := finalizeConstraints m lo hi rs { K := unflat d k, scale := s }
      pure s!"{showK st.K} {showRats st.scale}"
    | _ => none),
  ("kfl.lin", fun args => match args with
    | [w, k] => do
      let w ← parseRats w; let k ← parseRats k
      pure (showRat (dot w k))
    | _ => none),
  ("kfl.grad", fun args => match args with
    | [t] => do
      let t ← parseRats t
      pure s!"{showRat (rprod t)} {showRats (gradFactors t)}"
    | _ => none)
]
end Tfl.Driver.Kfl
