import TflModel.Model.Wire
import TflModel.Model.Dykstra
namespace Tfl.Driver.Lattice
open Tfl Tfl.Wire Tfl.Lat

def parseTrusts (s : String) : Option (List Trust) := do
  let ls ← parseList2 (fun s => s.toInt?) s
  ls.mapM (fun l => match l with
    | [m, c, d] => if m < 0 ∨ c < 0 then none else some ⟨m.toNat, c.toNat, decide (d > 0)⟩
    | _ => none)
def parsePairs (s : String) : Option (List (Nat × Nat)) := do
  let ls ← parseList2 (fun s => s.toNat?) s
  ls.mapM (fun l => match l with | [a, b] => some (a, b) | _ => none)
/-- joint unimodalities: `d1,d2,…,flag;…` with `flag = 1` for `'valley'`, `0` for `'peak'` -/
def parseJus (s : String) : Option (List JointUni) := do
  let ls ← parseList2 (fun s => s.toNat?) s
  ls.mapM (fun l => match l.reverse with
    | flag :: rdims => if flag > 1 then none else some ⟨rdims.reverse, flag == 1⟩
    | [] => none)
def parseBools (s : String) : Option (List Bool) := (parseNats s).map (·.map (· != 0))

def withTable (sizes : List Nat) (vals : List Rat) (f : Table → Table) : Option String :=
  if (allIdx sizes).length ≠ vals.length then none
  else some (showRats (Table.vals sizes (f (Table.ofVals sizes vals))))

def handlers : List (String × Handler) := [
  ("lat.finalize", fun args => match args with
    | [sz, mono, ew, tz, lo, hi, vals] => do
      let sz ← parseNats sz; let mono ← parseBools mono; let ew ← parseTrusts ew; let tz ← parseTrusts tz
      let lo ← parseOptRat lo; let hi ← parseOptRat hi; let vals ← parseRats vals
      let cfg : Cfg := ⟨sz, mono, ew, tz, lo, hi⟩
      withTable sz vals (finalizeT cfg)
    | _ => none),
  ("lat.dykstra", fun args => match args with
    | [sz, mono, uni, ew, tz, md, rd, jm, iters, vals] => do
      let sz ← parseNats sz; let mono ← parseBools mono; let uni ← parseInts uni
      let ew ← parseTrusts ew; let tz ← parseTrusts tz
      let md ← parsePairs md; let rd ← parsePairs rd; let jm ← parsePairs jm
      let iters ← iters.toNat?; let vals ← parseRats vals
      let cfg : DCfg := ⟨sz, mono, uni, ew, tz, md, rd, jm, []⟩
      withTable sz vals (projectByDykstraT cfg iters)
    | [sz, mono, uni, ew, tz, md, rd, jm, ju, iters, vals] => do
      let sz ← parseNats sz; let mono ← parseBools mono; let uni ← parseInts uni
      let ew ← parseTrusts ew; let tz ← parseTrusts tz
      let md ← parsePairs md; let rd ← parsePairs rd; let jm ← parsePairs jm; let ju ← parseJus ju
      let iters ← iters.toNat?; let vals ← parseRats vals
      let cfg : DCfg := ⟨sz, mono, uni, ew, tz, md, rd, jm, ju⟩
      withTable sz vals (projectByDykstraT cfg iters)
    | _ => none),
  ("lat.constraint", fun args => match args with
    | [sz, mono, uni, ew, tz, md, rd, jm, lo, hi, iters, strict, vals] => do
      let sz ← parseNats sz; let mono ← parseBools mono; let uni ← parseInts uni
      let ew ← parseTrusts ew; let tz ← parseTrusts tz
      let md ← parsePairs md; let rd ← parsePairs rd; let jm ← parsePairs jm
      let lo ← parseOptRat lo; let hi ← parseOptRat hi
      let iters ← iters.toNat?; let strict ← parseBool strict; let vals ← parseRats vals
      let cfg : DCfg := ⟨sz, mono, uni, ew, tz, md, rd, jm, []⟩
      withTable sz vals (latticeConstraintT ⟨cfg, lo, hi, iters, strict⟩)
    | [sz, mono, uni, ew, tz, md, rd, jm, ju, lo, hi, iters, strict, vals] => do
      let sz ← parseNats sz; let mono ← parseBools mono; let uni ← parseInts uni
      let ew ← parseTrusts ew; let tz ← parseTrusts tz
      let md ← parsePairs md; let rd ← parsePairs rd; let jm ← parsePairs jm; let ju ← parseJus ju
      let lo ← parseOptRat lo; let hi ← parseOptRat hi
      let iters ← iters.toNat?; let strict ← parseBool strict; let vals ← parseRats vals
      let cfg : DCfg := ⟨sz, mono, uni, ew, tz, md, rd, jm, ju⟩
      withTable sz vals (latticeConstraintT ⟨cfg, lo, hi, iters, strict⟩)
    | _ => none)
]
end Tfl.Driver.Lattice
