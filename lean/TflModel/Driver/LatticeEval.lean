import TflModel.Model.Wire
import TflModel.Model.LatticeEval
namespace Tfl.Driver.LatticeEval
open Tfl Tfl.Wire Tfl.LatticeEval

def parseForm (s : String) : Option InputForm :=
  if s = "tensor" then some .tensor else if s = "list" then some .list else none
def showExceptRat : Except Err Rat → String
  | .ok r => showRat r
  | .error e => showErr e

def handlers : List (String × Handler) := [
  -- late.hyper <tensor|list> <clip 0|1> <sizes> <kernel column> <x>
  ("late.hyper", fun args => match args with
    | [form, clip, sizes, k, x] => do
      let form ← parseForm form; let clip ← parseBool clip; let sizes ← parseNats sizes
      let k ← parseRats k; let x ← parseRats x
      pure (showExceptRat (evalHypercube form clip sizes k x))
    | _ => none),
  -- late.weights <tensor|list> <clip> <sizes> <x>
  ("late.weights", fun args => match args with
    | [form, clip, sizes, x] => do
      let form ← parseForm form; let clip ← parseBool clip; let sizes ← parseNats sizes
      let x ← parseRats x
      pure (if verify sizes x then showRats (hypercubeWeights form clip sizes x) else showErr .valueError)
    | _ => none),
  -- late.simplex <clip> <sizes> <kernel column> <x>
  ("late.simplex", fun args => match args with
    | [clip, sizes, k, x] => do
      let clip ← parseBool clip; let sizes ← parseNats sizes
      let k ← parseRats k; let x ← parseRats x
      pure (showExceptRat (evalSimplex clip sizes k x))
    | _ => none),
  -- late.sjac <clip> <sizes> <n> <x>: the Jacobian row d out / d kernel of the simplex evaluation over a
  -- flat kernel of length n = its values on the n unit kernels (the output is linear in the kernel:
  -- `C19.simplex_output_eq_dot_weights`), or the error the evaluation raises
  ("late.sjac", fun args => match args with
    | [clip, sizes, n, x] => do
      let clip ← parseBool clip; let sizes ← parseNats sizes; let n ← n.toNat?; let x ← parseRats x
      let unit := fun (j : Nat) => (List.range n).map (fun i => if i = j then (1 : Rat) else 0)
      pure (match (List.range n).mapM (fun j => evalSimplex clip sizes (unit j) x) with
        | .ok row => showRats row
        | .error e => showErr e)
    | _ => none)
]
end Tfl.Driver.LatticeEval
