import TflModel.Model.Wire
import TflModel.Model.Premade
import TflModel.Driver.Kfl
/-! Driver ops `pm.*`: `buildSpec` evaluated on a premade model config given over the wire, printed
canonically.

`pm.build kind outMin outMax outCalib outInitLen useBias kfl numTerms simplex rtl lattices
          numLattices rank separate lincomb perm1 perm2 features`

* `kind` ∈ `lin | lat | ens`; `lattices` = list of lists of feature indices (`_` when none);
* `features` = `feat|feat|…`, `feat` =
  `numBuckets:mono:latticeSize:default:alwaysMono:convexity:clampMin:clampMax:numKeypoints:learned:unimodality:trusts:dominates`,
  `mono` = `n` | `i1` | `i0` | `d1` | `d0` (digit = canonical spelling) | `L<pairs>` | `T<pairs>` |
  `S<pairs>` (list / tuple / other iterable; pairs `a-b+c-d`, possibly empty), `trusts` = `_` or `main.trap.dir+…`,
  `dominates` = `_` or `a+b`.

Reply: `ERR ValueError` or
`OK C <cal;cal…> B <block;block…> R <0|1> M <S|A|L<norm><bias>> O <none|nk,lo,hi>` with
`cal` = `feature,c|p,units,mono,pairs,numBuckets,numKeypoints,lo,hi,clampMin,clampMax,convexity,missing,learned`
`block` = `L|K|N,inputs(f.u+…),sizes,monos,unimod,edgeworth(m.c.d+…),trapezoid,dominances(a.b+…),lo,hi,normalized,useBias,numTerms,simplex`.

`pm.forward <the 18 tokens of pm.build> kps calW blkW lin comb out xs` evaluates the CONCRETE
composite `forward g (realise g P w)` (`Model/Premade.lean`) of `g = buildSpec config` on the points
`xs` with the weights `w` read from a real model:
* `kps` = input keypoints per feature as the CONFIG gives them (`;`-separated, `_` for a categorical
  feature); the output calibrator's keypoints are `linspace01` of the model;
* `calW` = `f.u:kernel:ws:missingOut|…` (one entry per calibrator unit; `ws` = softmax row, `_` when fixed);
* `blkW` = `T:vals|K:dims:rows:scale:bias|N|…` (one entry per block: all-vertices kernel column in
  row-major vertex order; KFL rows `(term, dim)` term-major; `N` for the linear block);
* `lin`, `comb` = `kernel:bias`; `out` = kernel column of the output calibrator (`_` when none);
* `xs` = points (`;`-separated rows, one raw value per feature).
Reply: `OK <layersAccept> <trapDistinct> <trapCondFree> <y,…>` or the error of `buildSpec`.

`pm.accept <the 18 tokens of pm.build> kps`: `OK` when `buildSpec` succeeds AND every layer constructor
accepts (`layersAccept`), `ERR ValueError` when a layer check fails, else the error of `buildSpec`. -/
namespace Tfl.Driver.Premade
open Tfl Tfl.Wire Tfl.Premade

def splitPlus (s : String) : List String := if s = "_" || s = "" then [] else s.splitOn "+"

def parsePairsDash (s : String) : Option (List (Nat × Nat)) :=
  (splitPlus s).mapM fun t => match t.splitOn "-" with
    | [a, b] => do let a ← a.toNat?; let b ← b.toNat?; pure (a, b)
    | _ => none

def parseMono (s : String) : Option MonoSpec :=
  match s with
  | "n" => some .none
  | "i1" => some (.inc true) | "i0" => some (.inc false)
  | "d1" => some (.dec true) | "d0" => some (.dec false)
  | _ =>
    if s.startsWith "L" then (parsePairsDash (s.drop 1).toString).map (fun ps => .pairs ps .list)
    else if s.startsWith "T" then (parsePairsDash (s.drop 1).toString).map (fun ps => .pairs ps .tuple)
    else if s.startsWith "S" then (parsePairsDash (s.drop 1).toString).map (fun ps => .pairs ps .other)
    else none

def parseTrusts (s : String) : Option (List (Nat × Bool × Int)) :=
  (splitPlus s).mapM fun t => match t.splitOn "." with
    | [m, tr, d] => do let m ← m.toNat?; let tr ← parseBool tr; let d ← d.toInt?; pure (m, tr, d)
    | _ => none

def parseFeature (s : String) : Option Feature :=
  match s.splitOn ":" with
  | [nb, mono, ls, dflt, always, conv, cmin, cmax, nk, learned, uni, trusts, doms] => do
    let nb ← nb.toNat?; let mono ← parseMono mono; let ls ← ls.toNat?; let dflt ← parseOptRat dflt
    let always ← parseBool always; let conv ← conv.toInt?; let cmin ← parseBool cmin
    let cmax ← parseBool cmax; let nk ← nk.toNat?; let learned ← parseBool learned
    let uni ← uni.toInt?; let trusts ← parseTrusts trusts
    let doms ← (splitPlus doms).mapM (fun t => t.toNat?)
    pure { numBuckets := nb, mono := mono, latticeSize := ls, default := dflt, alwaysMono := always,
           convexity := conv, clampMin := cmin, clampMax := cmax, numKeypoints := nk,
           learned := learned, unimodality := uni, trusts := trusts, dominates := doms }
  | _ => none

def parseKind (s : String) : Option Kind :=
  match s with
  | "lin" => some .linear | "lat" => some .lattice | "ens" => some .ensemble | _ => none

def parseConfig (args : List String) : Option ModelConfig :=
  match args with
  | [kind, omin, omax, ocal, oil, bias, kfl, nt, simplex, rtl, lats, nl, rank, sep, lc, p1, p2, feats] => do
    let kind ← parseKind kind; let omin ← parseOptRat omin; let omax ← parseOptRat omax
    let ocal ← parseBool ocal; let oil ← oil.toNat?; let bias ← parseBool bias; let kfl ← parseBool kfl
    let nt ← nt.toNat?; let simplex ← parseBool simplex; let rtl ← parseBool rtl
    let lats ← parseList2 (fun s => s.toNat?) lats; let nl ← nl.toNat?; let rank ← rank.toNat?
    let sep ← parseBool sep; let lc ← parseBool lc; let p1 ← parseNats p1; let p2 ← parseNats p2
    let feats ← (feats.splitOn "|").mapM parseFeature
    pure { kind := kind, features := feats, outMin := omin, outMax := omax, outCalib := ocal,
           outInitLen := oil, useBias := bias, kfl := kfl, numTerms := nt, simplex := simplex,
           rtl := rtl, lattices := lats, numLattices := nl, latticeRank := rank,
           separateCalibrators := sep, useLinearCombination := lc, perm1 := p1, perm2 := p2 }
  | _ => none

def plus (l : List String) : String := if l.isEmpty then "_" else "+".intercalate l
def showOpt (o : Option Rat) : String := match o with | none => "none" | some r => showRat r
def showPairsDash (l : List (Nat × Nat)) : String := plus (l.map fun p => s!"{p.1}-{p.2}")
def showTriples (l : List (Nat × Nat × Int)) : String := plus (l.map fun t => s!"{t.1}.{t.2.1}.{t.2.2}")

def showCal (c : Calibrator) : String :=
  ",".intercalate [toString c.feature, if c.categorical then "c" else "p", toString c.units,
    toString c.mono, showPairsDash c.pairs, toString c.numBuckets, toString c.numKeypoints,
    showOpt c.outMin, showOpt c.outMax, showBool c.clampMin, showBool c.clampMax,
    toString c.convexity, showOpt c.missing, showBool c.learned]

def showBlock (b : Block) : String :=
  ",".intercalate [
    (match b.kind with | .lattice => "L" | .kfl => "K" | .linear => "N"),
    plus (b.inputs.map fun p => s!"{p.1}.{p.2}"),
    plus (b.sizes.map toString), plus (b.monos.map toString), plus (b.unimod.map toString),
    showTriples b.edgeworth, showTriples b.trapezoid,
    plus (b.dominances.map fun p => s!"{p.1}.{p.2}"),
    showOpt b.outMin, showOpt b.outMax, showBool b.normalized, showBool b.useBias,
    toString b.numTerms, showBool b.simplex]

def semi (l : List String) : String := if l.isEmpty then "_" else ";".intercalate l

def showGraph (g : LayerGraph) : String :=
  let m := match g.combine with
    | .single => "S" | .average => "A" | .linear n b => s!"L{showBool n}{showBool b}"
  let o := match g.outCal with
    | none => "none" | some oc => s!"{oc.numKeypoints},{showOpt oc.outMin},{showOpt oc.outMax}"
  s!"OK C {semi (g.calibrators.map showCal)} B {semi (g.blocks.map showBlock)} R {showBool g.rtl} M {m} O {o}"

def showResult : Except Err LayerGraph → String
  | .ok g => showGraph g
  | .error e => showErr e

/-! ### `pm.forward` -/

def bar (s : String) : List String := if s = "_" || s = "" then [] else s.splitOn "|"

def parseCalW (s : String) : Option ((Nat × Nat) × CalW) :=
  match s.splitOn ":" with
  | [fu, k, ws, mo] =>
    match fu.splitOn "." with
    | [f, u] => do
      let f ← f.toNat?; let u ← u.toNat?; let k ← parseRats k; let ws ← parseRats ws; let mo ← parseRat mo
      pure ((f, u), { kernel := k, ws := ws, missingOut := mo })
    | _ => none
  | _ => none

/-- block weights before the lattice sizes are known -/
inductive RawBlk where
  | table (vals : List Rat)
  | kfl (K : List (List (List Rat))) (scale : List Rat) (bias : Rat)
  | lin

def parseBlkW (s : String) : Option RawBlk :=
  match s.splitOn ":" with
  | ["T", vals] => (parseRats vals).map .table
  | ["K", d, rows, scale, bias] => do
    let d ← d.toNat?; let rows ← Tfl.Driver.Kfl.parseRats2 rows; let scale ← parseRats scale; let bias ← parseRat bias
    pure (.kfl (Tfl.Driver.Kfl.unflat d rows) scale bias)
  | ["N"] => some .lin
  | _ => none

def RawBlk.toW (sizes : List Nat) : RawBlk → BlkW
  | .table vals => { table := Table.ofVals sizes vals }
  | .kfl K scale bias => { kfl := ⟨K, scale⟩, bias := bias }
  | .lin => {}

def parseLinW (s : String) : Option LinW :=
  match s.splitOn ":" with
  | [w, b] => do let w ← parseRats w; let b ← parseRat b; pure { w := w, b := b }
  | _ => none

/-- the weight assignment read from the wire -/
def mkAssign (cals : List ((Nat × Nat) × CalW)) (blks : List BlkW) (lin comb : LinW) (out : CalW) : Assign
  | .cal f u => (cals.lookup (f, u)).getD default
  | .blk j => blks.getD j default
  | .lin => lin
  | .comb => comb
  | .out => out

def forwardReply (c : ModelConfig) (P : Params) (cals : List ((Nat × Nat) × CalW)) (raw : List RawBlk)
    (lin comb : LinW) (out : CalW) (xs : List (List Rat)) : String :=
  match buildSpec c with
  | .error e => showErr e
  | .ok g =>
    let blks := (raw.zip g.blocks).map (fun p => p.1.toW p.2.sizes)
    let F := realise g P (mkAssign cals blks lin comb out)
    let lat := g.blocks.filter (fun b => b.kind == .lattice)
    s!"OK {showBool (layersAccept g P)} {showBool (lat.all trapDistinct)} {showBool (lat.all trapCondFree)} {showRats (xs.map (forward g F))}"

def handleForward (args : List String) : Option String :=
  match args.splitAt 18 with
  | (cfg, [kps, calw, blkw, lin, comb, out, xs]) => do
    let c ← parseConfig cfg
    let kps ← parseList2 parseRat kps
    let cals ← (bar calw).mapM parseCalW
    let raw ← (bar blkw).mapM parseBlkW
    let lin ← parseLinW lin; let comb ← parseLinW comb; let out ← parseRats out
    let xs ← parseList2 parseRat xs
    pure (forwardReply c { kps := kps } cals raw lin comb { kernel := out } xs)
  | _ => none

def handleAccept (args : List String) : Option String :=
  match args.splitAt 18 with
  | (cfg, [kps]) => do
    let c ← parseConfig cfg
    let kps ← parseList2 parseRat kps
    pure (match buildSpec c with
      | .error e => showErr e
      | .ok g => if layersAccept g { kps := kps } then "OK" else showErr .valueError)
  | _ => none

def handlers : List (String × Handler) := [
  ("pm.forward", handleForward),
  ("pm.accept", handleAccept),
  ("pm.build", fun args => (parseConfig args).map (fun c => showResult (buildSpec c))),
  -- the model variant with the RTL filing rule before fix b13cb79 (F-C03-c)
  ("pm.buildold", fun args => (parseConfig args).map (fun c => showResult (buildSpecOld c))),
  -- the model variant with the literal-list RTL rule before fix defc941 (F-C03-d)
  ("pm.buildliteral", fun args => (parseConfig args).map (fun c => showResult (buildSpecLiteral c)))
]
end Tfl.Driver.Premade
