import TflModel.Model.Wire
import TflModel.Model.PwlProj
namespace Tfl.Driver.PwlProj
open Tfl Tfl.Wire Tfl.PwlProj

def parseBCT (s : String) : Option BCT :=
  match s with
  | "0" => some .none | "1" => some .bound | "2" => some .clamped | _ => none

def showRes : Except Err (Rat × List Rat) → String
  | .ok r => showRats (r.1 :: r.2)
  | .error e => showErr e

def splitCol (col : List Rat) : Option (Rat × List Rat) :=
  match col with
  | b :: hs => some (b, hs)
  | [] => none

/-- number of projection sets the first run of the body counts (model-side branch coverage) -/
def numProj (c : Cfg) (lengths : List Rat) (bias : Rat) (heights : List Rat) : String :=
  match body c lengths (initState bias heights) with
  | .ok st => toString st.counter
  | .error _ => "E"

/-- what the op `pwlp.call` (the op the correspondence harness ties to the real
`PWLCalibrationConstraints(...)(w)` / `project_all_constraints`) evaluates for one kernel column
`col = bias :: heights`; `none` = malformed (empty column). The printed reply is `showRes` of it. -/
def callResult (m cv : Int) (lo hi : Option Rat) (cmin cmax : Bool) (ls : List Rat) (it : Nat)
    (col : List Rat) : Option (Except Err (Rat × List Rat)) :=
  (splitCol col).map fun bh => constraintsCall m cv lo hi cmin cmax ls it bh.1 bh.2

def handlers : List (String × Handler) := [
  -- PWLCalibrationConstraints(...)(w) wired through convert_all_constraints, one column
  ("pwlp.call", fun args => match args with
    | [m, cv, lo, hi, cmin, cmax, ls, it, col] => do
      let m ← m.toInt?; let cv ← cv.toInt?; let lo ← parseOptRat lo; let hi ← parseOptRat hi
      let cmin ← parseBool cmin; let cmax ← parseBool cmax; let ls ← parseRats ls
      let it ← it.toNat?; let col ← parseRats col
      let (b, hs) ← splitCol col
      let r := convertAllConstraints lo hi cmin cmax
      let c : Cfg := ⟨m, cv, r.1, r.2.1, r.2.2.1, r.2.2.2⟩
      let out ← callResult m cv lo hi cmin cmax ls it col
      let okTok := match out with
        | .ok o => s!"{showBool (monoOkB m o.2)}{showBool (boundsOkB c o.1 o.2)}"
        | .error _ => "EE"
      pure s!"{showRes out} np{numProj c ls b hs} {okTok}"
    | _ => none),
  -- project_all_constraints with explicit constraint types
  ("pwlp.project", fun args => match args with
    | [m, cv, lo, hi, minC, maxC, ls, it, col] => do
      let m ← m.toInt?; let cv ← cv.toInt?; let lo ← parseRat lo; let hi ← parseRat hi
      let minC ← parseBCT minC; let maxC ← parseBCT maxC; let ls ← parseRats ls
      let it ← it.toNat?; let col ← parseRats col
      let (b, hs) ← splitCol col
      pure (showRes (projectAll ⟨m, cv, lo, hi, minC, maxC⟩ ls it b hs))
    | _ => none),
  ("pwlp.finalize", fun args => match args with
    | [m, cv, lo, hi, minC, maxC, ls, col] => do
      let m ← m.toInt?; let cv ← cv.toInt?; let lo ← parseRat lo; let hi ← parseRat hi
      let minC ← parseBCT minC; let maxC ← parseBCT maxC; let ls ← parseRats ls
      let col ← parseRats col
      let (b, hs) ← splitCol col
      pure (showRes (finalize ⟨m, cv, lo, hi, minC, maxC⟩ ls b hs))
    | _ => none),
  ("pwlp.pbcm", fun args => match args with
    | [m, lo, hi, minC, maxC, col] => do
      let m ← m.toInt?; let lo ← parseRat lo; let hi ← parseRat hi
      let minC ← parseBCT minC; let maxC ← parseBCT maxC; let col ← parseRats col
      let (b, hs) ← splitCol col
      pure (showRes (projectBoundsConsideringMonotonicity b hs m lo hi minC maxC))
    | _ => none),
  ("pwlp.bonly", fun args => match args with
    | [lo, hi, minC, maxC, col] => do
      let lo ← parseRat lo; let hi ← parseRat hi
      let minC ← parseBCT minC; let maxC ← parseBCT maxC; let col ← parseRats col
      let (b, hs) ← splitCol col
      pure (showRes (approxProjectBoundsOnly b hs lo hi minC maxC))
    | _ => none),
  ("pwlp.squeeze", fun args => match args with
    | [m, lo, hi, minC, maxC, col] => do
      let m ← m.toInt?; let lo ← parseRat lo; let hi ← parseRat hi
      let minC ← parseBCT minC; let maxC ← parseBCT maxC; let col ← parseRats col
      let (b, hs) ← splitCol col
      let r := squeezeByScaling b hs m lo hi minC maxC
      pure (showRats (r.1 :: r.2))
    | _ => none),
  ("pwlp.conv", fun args => match args with
    | [cv, g, ls, hs] => do
      let cv ← cv.toInt?; let g ← g.toNat?; let ls ← parseRats ls; let hs ← parseRats hs
      pure (match projectConvexity hs ls cv g with | .ok l => showRats l | .error e => showErr e)
    | _ => none),
  ("pwlp.aconv", fun args => match args with
    | [cv, ls, hs] => do
      let cv ← cv.toInt?; let ls ← parseRats ls; let hs ← parseRats hs
      pure (showRats (approxProjectConvexity hs ls cv))
    | _ => none),
  ("pwlp.convert", fun args => match args with
    | [lo, hi, cmin, cmax] => do
      let lo ← parseOptRat lo; let hi ← parseOptRat hi
      let cmin ← parseBool cmin; let cmax ← parseBool cmax
      let r := convertAllConstraints lo hi cmin cmax
      let sb : BCT → String := fun b => match b with | .none => "0" | .bound => "1" | .clamped => "2"
      pure s!"{showRat r.1} {showRat r.2.1} {sb r.2.2.1} {sb r.2.2.2}"
    | _ => none),
  ("pwlp.naive", fun args => match args with
    | [lo, hi, w] => do
      let lo ← parseOptRat lo; let hi ← parseOptRat hi; let w ← parseRats w
      pure (showRats (w.map (naiveBounds lo hi)))
    | _ => none)
]
end Tfl.Driver.PwlProj
