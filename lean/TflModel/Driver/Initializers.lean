import TflModel.Model.Wire
import TflModel.Model.Initializers
import TflModel.Driver.Lattice
namespace Tfl.Driver.Initializers
open Tfl Tfl.Wire Tfl.Init
open Tfl.Driver.Lattice (parseBools)

def parseId (s : String) : Option InitId :=
  match s with
  | "linear" => some .linear | "rm" => some .randomMonotonic | "ruol" => some .randomUniformOrLinear
  | "keras" => some .keras | _ => none

/-- joint unimodalities on the wire: groups `d0,d1,dir;…` (direction last, 1 = valley, -1 = peak) -/
def parseJoint (s : String) : Option (List (List Nat × Int)) := do
  let ls ← parseList2 (fun s => s.toInt?) s
  ls.mapM (fun l => match l.reverse with
    | dir :: dims => if dims.all (· ≥ 0) then some (dims.reverse.map (·.toNat), dir) else none
    | [] => none)

def showChosen : Chosen → String
  | .linear m lo hi u => s!"linear {showNats (m.map (fun b => if b then 1 else 0))} {showRat lo} {showRat hi} {showInts u}"
  | .randomMonotonic lo hi => s!"rm {showRat lo} {showRat hi}"
  | .kerasRandomUniform => "random_uniform"
  | .keras => "keras"

def handlers : List (String × Handler) := [
  ("init.defaults", fun args => match args with
    | [lo, hi] => do
      let lo ← parseOptRat lo; let hi ← parseOptRat hi
      let r := defaultInitParams lo hi
      pure s!"{showRat r.1} {showRat r.2}"
    | _ => none),
  ("init.linspace", fun args => match args with
    | [a, b, n] => do
      let a ← parseRat a; let b ← parseRat b; let n ← n.toNat?
      pure (showRats (linspace a b n))
    | _ => none),
  ("init.linear", fun args => match args with
    | [sz, mono, uni, lo, hi] => do
      let sz ← parseNats sz; let mono ← parseBools mono; let uni ← parseInts uni
      let lo ← parseRat lo; let hi ← parseRat hi
      pure (showRats (Table.vals sz (linearInitT sz mono uni lo hi)))
    | _ => none),
  -- perms: per level the shuffled FLAT vertex indices (row-major), levels separated by `;`
  ("init.rm", fun args => match args with
    | [sz, perms, sample] => do
      let sz ← parseNats sz; let perms ← parseList2 (fun s => s.toNat?) perms; let sample ← parseRats sample
      let box := allIdx sz
      let ps := perms.map (fun l => l.map (fun k => box.getD k []))
      pure (match randomMonotonicInitT sz ps sample with
        | .ok t => showRats (Table.vals sz t)
        | .error e => showErr e)
    | _ => none),
  ("init.create", fun args => match args with
    | [id, n, mono, lo, hi, uni, joint, imin, imax] => do
      let id ← parseId id; let n ← n.toNat?; let mono ← parseBools mono
      let lo ← parseOptRat lo; let hi ← parseOptRat hi; let uni ← parseInts uni; let joint ← parseJoint joint
      let imin ← parseOptRat imin; let imax ← parseOptRat imax
      pure (match createKernelInitializer id n mono lo hi uni joint imin imax with
        | .ok c => showChosen c
        | .error e => showErr e)
    | _ => none),
  ("init.pwl", fun args => match args with
    | [nk, lo, hi, mono, kp] => do
      let nk ← nk.toNat?; let lo ← parseRat lo; let hi ← parseRat hi; let mono ← mono.toInt?
      let kp ← if kp = "none" then some none else (parseRats kp).map some
      let r := pwlLinearInit nk lo hi mono kp
      pure (showRats (r.1 :: r.2))
    | _ => none),
  ("init.pwlbounds", fun args => match args with
    | [lo, hi] => do
      let lo ← parseOptRat lo; let hi ← parseOptRat hi
      let r := pwlInitBounds lo hi
      pure s!"{showRat r.1} {showRat r.2}"
    | _ => none),
  -- one unit: scale per term, samples term-major rows (term, dim) of `L` vertices each
  ("init.kfl", fun args => match args with
    | [mono, scale, dims, samples] => do
      let mono ← parseBools mono; let scale ← parseRats scale; let dims ← dims.toNat?
      let rows ← parseList2 parseRat samples
      if dims = 0 ∨ rows.length ≠ scale.length * dims then none else
      let smp := (List.range scale.length).map (fun t => (rows.drop (t * dims)).take dims)
      pure (showRats2 ((kflInit mono scale smp).flatten))
    | _ => none),
  ("init.kflscale", fun args => match args with
    | [t, lo, hi] => do
      let t ← t.toNat?; let lo ← parseOptRat lo; let hi ← parseOptRat hi
      let d := kflDefaultInitParams lo hi
      pure s!"{showRats (scaleInit t lo hi)} {showRat (biasInit lo hi)} {showRat d.1} {showRat d.2}"
    | _ => none)
]
end Tfl.Driver.Initializers
