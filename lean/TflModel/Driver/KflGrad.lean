import TflModel.Model.Wire
import TflModel.Model.KflGrad
import TflModel.Driver.Kfl
/-! Driver op `kfl.evalgrad`: output of `Kfl.eval` and the gradients w.r.t. kernel, scale and inputs as
assembled from `gradFactor` (`Model/KflGrad.lean`; proved to be the derivatives in `Props/C19Kfl.lean`). -/
namespace Tfl.Driver.KflGrad
open Tfl Tfl.Wire Tfl.Kfl

/-- the cell index `j` with `j < x < j+1 ≤ L-1`, if `x` is strictly inside a cell of the range -/
def openCell (L : Nat) (x : Rat) : Option Nat :=
  if 0 < x ∧ x < (L : Rat) - 1 ∧ ((x.floor : Int) : Rat) ≠ x then some x.floor.toNat else none

def handlers : List (String × Handler) := [
  -- kfl.evalgrad <L> <clip> <dims> <K rows (term, dim) term-major> <scale> <bias> <x (one example)>
  --   -> "<out> <d out/d K rows, same layout> <d out/d scale> <d out/d x_d | nan where x_d is not strictly
  --       inside a cell of the range>"
  ("kfl.evalgrad", fun args => match args with
    | [l, c, d, k, s, b, x] => do
      let l ← l.toNat?; let c ← parseBool c; let d ← d.toNat?; let k ← Tfl.Driver.Kfl.parseRats2 k
      let s ← parseRats s; let b ← parseRat b; let x ← parseRats x
      let K := Tfl.Driver.Kfl.unflat d k
      let T := K.length
      let gk := (List.range T).flatMap (fun t => (List.range d).map (fun dd =>
        (List.range l).map (fun i => gradKernel l c K s x t dd i)))
      let gs := (List.range T).map (gradScale l c K x)
      let gx := (List.range d).map (fun dd => match openCell l (getR x dd) with
        | some j => showRat (gradInput l c K s x dd j)
        | none => "nan")
      pure s!"{showRat (eval l c K s b x)} {showRats2 gk} {showRats gs} {",".intercalate gx}"
    | _ => none)
]
end Tfl.Driver.KflGrad
