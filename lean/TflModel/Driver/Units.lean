import TflModel.Model.Wire
import TflModel.Model.Units
import TflModel.Driver.Lattice
import TflModel.Driver.Linear
import TflModel.Driver.PwlProj
namespace Tfl.Driver.Units
open Tfl Tfl.Wire Tfl.Lat Tfl.Units
open Tfl.Driver.Lattice (parseTrusts parseBools)

/-- a `(prod(sizes), units)` kernel row-major IS the row-major listing of the `sizes ++ [units]` tensor -/
def withTableU (sizes : List Nat) (units : Nat) (vals : List Rat) (f : Table → Table) : Option (List Rat) :=
  let full := sizes ++ [units]
  if (allIdx full).length ≠ vals.length then none
  else some (Table.vals full (f (Table.ofVals full vals)))

/-- values of unit `u` of a row-major multi-unit listing -/
def unitCol (units u : Nat) (vals : List Rat) : List Rat :=
  ((List.range (vals.length / units)).map (fun i => getR vals (i * units + u)))

def parseMat (s : String) : Option Mat := parseList2 parseRat s

def handlers : List (String × Handler) := [
  -- finalize_constraints on a multi-unit kernel; the flag says that every unit column of the multi-unit
  -- result equals the ONE-unit model (`finalizeT`, the object of C01) of that column: T1 on the executables
  ("un.finalize", fun args => match args with
    | [sz, units, mono, ew, tz, lo, hi, vals] => do
      let sz ← parseNats sz; let units ← units.toNat?; let mono ← parseBools mono
      let ew ← parseTrusts ew; let tz ← parseTrusts tz
      let lo ← parseOptRat lo; let hi ← parseOptRat hi; let vals ← parseRats vals
      let cfg : Cfg := ⟨sz, mono, ew, tz, lo, hi⟩
      let out ← withTableU sz units vals (finalizeUT cfg units)
      let ok := (List.range units).all (fun u =>
        Table.vals sz (finalizeT cfg (Table.ofVals sz (unitCol units u vals))) == unitCol units u out)
      pure s!"{showRats out} {showBool ok}"
    | _ => none),
  ("un.edgeworth", fun args => match args with
    | [sz, units, ew, vals] => do
      let sz ← parseNats sz; let units ← units.toNat?; let ew ← parseTrusts ew; let vals ← parseRats vals
      (withTableU sz units vals (approxEdgeworthUT sz units ew)).map showRats
    | _ => none),
  ("un.trapezoid", fun args => match args with
    | [sz, units, ew, tz, vals] => do
      let sz ← parseNats sz; let units ← units.toNat?; let ew ← parseTrusts ew; let tz ← parseTrusts tz
      let vals ← parseRats vals
      (withTableU sz units vals (approxTrapezoidUT sz units ew tz)).map showRats
    | _ => none),
  ("un.bounds", fun args => match args with
    | [sz, units, lo, hi, vals] => do
      let sz ← parseNats sz; let units ← units.toNat?
      let lo ← parseOptRat lo; let hi ← parseOptRat hi; let vals ← parseRats vals
      (withTableU sz units vals (approxBoundsUT sz units lo hi)).map showRats
    | _ => none),
  -- the per-unit reductions themselves: max / min / sum over all axes but the last
  ("un.reduce", fun args => match args with
    | [sz, units, vals] => do
      let sz ← parseNats sz; let units ← units.toNat?; let vals ← parseRats vals
      let full := sz ++ [units]
      if (allIdx full).length ≠ vals.length then none else
      let t := Table.ofVals full vals
      let us := List.range units
      pure s!"{showRats (us.map (reduceMaxButLast sz units t.get))} {showRats (us.map (reduceMinButLast sz units t.get))} {showRats (us.map (reduceSumButLast sz units t.get))}"
    | _ => none),
  ("un.pwlbounds", fun args => match args with
    | [units, omin, omax, minC, maxC, bias, h] => do
      let units ← units.toNat?; let omin ← parseRat omin; let omax ← parseRat omax
      let minC ← Tfl.Driver.PwlProj.parseBCT minC; let maxC ← Tfl.Driver.PwlProj.parseBCT maxC
      let bias ← parseRats bias; let h ← parseMat h
      let r := projectBoundsIncU units bias h omin omax minC maxC
      pure s!"{showRats r.1} {showRats2 r.2}"
    | _ => none),
  ("un.pwlsqueeze", fun args => match args with
    | [units, omin, omax, minC, maxC, bias, h] => do
      let units ← units.toNat?; let omin ← parseRat omin; let omax ← parseRat omax
      let minC ← Tfl.Driver.PwlProj.parseBCT minC; let maxC ← Tfl.Driver.PwlProj.parseBCT maxC
      let bias ← parseRats bias; let h ← parseMat h
      let r := squeezeIncU units bias h omin omax minC maxC
      pure s!"{showRats r.1} {showRats2 r.2}"
    | _ => none),
  ("un.norm", fun args => match args with
    | [units, ord, m] => do
      let units ← units.toNat?; let ord ← Tfl.Driver.Linear.parseOrd ord; let m ← parseMat m
      pure s!"{showRats2 (normalizeU units ord m)} {showRats (normSqU units m)}"
    | _ => none),
  ("un.kflmax", fun args => match args with
    | [l, units, dims, t, vals] => do
      let l ← l.toNat?; let units ← units.toNat?; let dims ← dims.toNat?; let t ← t.toNat?
      let vals ← parseRats vals
      if vals.length ≠ l * (units * dims) * t then none else
      let k := Flat.ofVals (units * dims) t vals
      pure (showRats2 ((List.range units).map (fun u => (List.range t).map (fun tt => maxOutputU l dims k u tt))))
    | _ => none)
]
end Tfl.Driver.Units
