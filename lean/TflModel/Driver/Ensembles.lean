import TflModel.Model.Wire
import TflModel.Model.Ensembles
namespace Tfl.Driver.Ensembles
open Tfl Tfl.Wire Tfl.Ensembles

def showStructure (s : Structure) : String :=
  if s.isEmpty then "_" else " ".intercalate (s.map fun g => s!"{showNats g.1} {showNats2 g.2}")

def parseRats2 := parseList2 parseRat

def handlers : List (String × Handler) := [
  -- ens.rtl incGroups uncGroups L r avoid perm1 perm2 → cap-hit flag, then (monotonicities lattices)*
  ("ens.rtl", fun args => match args with
    | [inc, unc, L, r, avoid, p1, p2] => do
      let inc ← parseNats inc; let unc ← parseNats unc; let L ← L.toNat?; let r ← r.toNat?
      let avoid ← parseBool avoid; let p1 ← parseNats p1; let p2 ← parseNats p2
      pure (match rtlStructure inc unc L r avoid p1 p2 with
        | .ok (s, cap) => s!"{showBool cap} {showStructure s}"
        | .error e => showErr e)
    | _ => none),
  -- ens.random n L r firstChoices fillDraws
  ("ens.random", fun args => match args with
    | [n, L, r, first, fill] => do
      let n ← n.toNat?; let L ← L.toNat?; let r ← r.toNat?
      let first ← parseNats first; let fill ← parseList2 (fun s => s.toNat?) fill
      -- the wire cannot tell `[[]]` from `[]`: pad with empty draws up to one per lattice
      let fill := fill ++ List.replicate (L - fill.length) []
      pure (match randomEnsemble n L r first fill with
        | .ok l => showNats2 l
        | .error e => showErr e)
    | _ => none),
  -- ens.cover n r perm
  ("ens.cover", fun args => match args with
    | [n, r, perm] => do
      let n ← n.toNat?; let r ← r.toNat?; let perm ← parseNats perm
      pure (showNats2 (pairCover n r perm))
    | _ => none),
  -- ens.crystals n L r torsions laplacians order emptyScore
  --   → lattices cap-hit order-is-descending scores-all-positive torsions/emptyScore-nonnegative
  ("ens.crystals", fun args => match args with
    | [n, L, r, t, lap, order, es] => do
      let n ← n.toNat?; let L ← L.toNat?; let r ← r.toNat?
      let t ← parseRats2 t; let lap ← parseRats lap; let order ← parseNats order; let es ← parseRat es
      let sc := importance n t lap
      let sorted := sortedDesc sc order
      let pos := sc.all (fun s => decide (0 < s))
      let nonneg := decide (0 ≤ es) && t.all (fun row => row.all (fun x => decide (0 ≤ x)))
      pure (match crystals n L r t lap order es with
        | .ok (l, cap) => s!"{showNats2 l} {showBool cap} {showBool sorted} {showBool pos} {showBool nonneg}"
        | .error e => s!"{showErr e} {showBool sorted} {showBool pos} {showBool nonneg}")
    | _ => none)
]
end Tfl.Driver.Ensembles
