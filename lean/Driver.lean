import TflModel.Model.Wire
import TflModel.Driver.Linear
import TflModel.Driver.Lattice
import TflModel.Driver.LatticeEval
import TflModel.Driver.PwlProj
import TflModel.Driver.PwlEval
import TflModel.Driver.Kfl
import TflModel.Driver.KflGrad
import TflModel.Driver.Regularizers
import TflModel.Driver.Ensembles
import TflModel.Driver.Keypoints
import TflModel.Driver.Asserts
import TflModel.Driver.Premade
import TflModel.Driver.Verify
import TflModel.Driver.Alt
import TflModel.Driver.Initializers
import TflModel.Driver.Units
import TflModel.Driver.CrystalsScore
/-! Line-protocol driver: one op per input line, one reply line per op.
Imports only Mathlib-free `Model/*` and `Driver/*` modules, so it links as a native executable. -/
open Tfl Tfl.Wire

def handlers : List (String × Handler) :=
  Tfl.Driver.Linear.handlers ++ Tfl.Driver.Lattice.handlers ++
  Tfl.Driver.LatticeEval.handlers ++
  Tfl.Driver.PwlProj.handlers ++
  Tfl.Driver.PwlEval.handlers ++
  Tfl.Driver.Kfl.handlers ++
  Tfl.Driver.KflGrad.handlers ++
  Tfl.Driver.Regularizers.handlers ++
  Tfl.Driver.Ensembles.handlers ++
  Tfl.Driver.Keypoints.handlers ++
  Tfl.Driver.Asserts.handlers ++
  Tfl.Driver.Premade.handlers ++
  Tfl.Driver.Verify.handlers ++
  Tfl.Driver.Alt.handlers ++
  Tfl.Driver.Initializers.handlers ++
  Tfl.Driver.Units.handlers ++
  Tfl.Driver.CrystalsScore.handlers

def handleLine (line : String) : String :=
  match (line.trimAscii.toString).splitOn " " with
  | op :: args =>
    match handlers.lookup op with
    | some h => (h args).getD "bad-op"
    | none => "bad-op"
  | [] => "bad-op"

partial def loop (h : IO.FS.Stream) (out : IO.FS.Stream) : IO Unit := do
  let line ← h.getLine
  if line.isEmpty then return ()
  out.putStrLn (handleLine line)
  loop h out

def main : IO Unit := do
  let out ← IO.getStdout
  loop (← IO.getStdin) out
  out.flush
