import TflModel.Model.Wire
import TflModel.Driver.Linear
import TflModel.Driver.Lattice
/-! Line-protocol driver: one op per input line, one reply line per op.
Imports only Mathlib-free `Model/*` and `Driver/*` modules, so it links as a native executable. -/
open Tfl Tfl.Wire

def handlers : List (String × Handler) :=
  Tfl.Driver.Linear.handlers ++ Tfl.Driver.Lattice.handlers

def handleLine (line : String) : String :=
  match (line.trimAscii.toString).splitOn " " with
  | op :: args =>
    match handlers.lookup op with
    | some h => (h args).getD "bad-op"
    | none => "bad-op"
  | [] => "bad-op"

partial def loop (h : IO.FS.Stream) (out : IO.FS.Stream) : IO Unit := do
  let line ← h.getLine
  if line.isEmpty then return ()
  out.putStrLn (handleLine line)
  loop h out

def main : IO Unit := do
  let out ← IO.getStdout
  loop (← IO.getStdin) out
  out.flush
