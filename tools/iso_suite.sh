#!/bin/bash
# tools/iso_suite.sh — runs every upstream *_test.py file in ISOLATION (one pytest process per file) on the pinned
# snapshot fad4c36 (scratch worktree) and on /repo's HEAD and prints the per-test differences. The pinned baseline
# (281 stable passes) runs all files in one process where many tests fail for environment reasons; in isolation 625
# tests pass, so this is the stricter regression check for the `fix:` commits. Takes ~40 min on 16 cores.
set -u
W=/tmp/iso; rm -rf $W; mkdir -p $W/orig $W/head
git -C /repo worktree add -f --detach $W/wt fad4c36 >/dev/null 2>&1
run() { tree=$1; out=$2; ( cd $tree && ls tensorflow_lattice/python/*_test.py | xargs -P 8 -I{} sh -c 'f={}; b=$(basename $f .py); PYTHONPATH='$tree' timeout 7200 /venv/bin/python -m pytest -q -p no:cacheprovider --timeout=1800 --junitxml='$out'/$b.xml $f > '$out'/$b.log 2>&1' ); }
run /repo $W/head & run $W/wt $W/orig & wait
python3 - <<'PY'
import glob,collections,xml.etree.ElementTree as ET
def load(d):
    r={}
    for f in glob.glob(d+'/*.xml'):
        for tc in ET.parse(f).iter('testcase'):
            st='pass'
            for c in tc:
                if c.tag in('failure','error'): st='fail'
                elif c.tag=='skipped': st='skip'
            r[tc.get('classname')+'::'+tc.get('name')]=st
    return r
o=load('/tmp/iso/orig'); h=load('/tmp/iso/head')
print('orig',len(o),dict(collections.Counter(o.values())),'head',len(h),dict(collections.Counter(h.values())))
diff=[(k,o.get(k),h.get(k)) for k in sorted(set(o)|set(h)) if o.get(k)!=h.get(k)]
for d in diff: print('DIFF',*d)
print('differences:',len(diff))
PY
git -C /repo worktree remove --force $W/wt; rm -rf $W
