#!/bin/bash
# tools/keep_seed.sh <ID> <name> "<props to run>" — verifies a seeded change from /tmp/seed/<ID> (demo fails with it,
# passes on the clean tree), runs the named checks on it and stores it under seeded/<name>/
ID=$1; NAME=$2; PROPS=$3
S=/tmp/seed/$ID; D=/verif/seeded/$NAME
mkdir -p $D
cp $S/patch.diff $S/demo.py $D/ 2>/dev/null; cp $S/notes.md $D/notes.md 2>/dev/null
# the demo runs in FRESH worktrees (patch applied / not applied), never in the seeder's own tree: its state is not trusted
mkdir -p /tmp/mut
WM=/tmp/mut/mut$$; git -C /repo worktree add -q --detach $WM HEAD; cp $S/demo.py $WM/
( cd $WM && git apply $D/patch.diff ) || { echo "patch does not apply"; git -C /repo worktree remove --force $WM; exit 2; }
( cd $WM && timeout 900 /venv/bin/python demo.py >/tmp/demo_mut.log 2>&1 ); rc_mut=$?
git -C /repo worktree remove --force $WM
W=/tmp/mut/clean$$; git -C /repo worktree add -q --detach $W HEAD; cp $S/demo.py $W/
( cd $W && timeout 900 /venv/bin/python demo.py >/tmp/demo_clean.log 2>&1 ); rc_clean=$?
git -C /repo worktree remove --force $W
echo "demo: with change rc=$rc_mut, clean rc=$rc_clean"
OUT=$(/verif/tools/run_mutant.sh $D/patch.diff $PROPS 2>&1)
echo "$OUT"
python3 - "$ID" "$NAME" "$PROPS" "$rc_mut" "$rc_clean" <<PY
import json,sys,re
ID,NAME,PROPS,rm,rc=sys.argv[1:6]
out=open('/dev/stdin').read() if False else """$OUT"""
res={}
cur=None
for line in out.split("\n"):
    m=re.match(r"=== (C\d+) on", line)
    if m: cur=m.group(1); res[cur]={"violation":False,"line":""}
    if line.startswith("VIOLATION") and cur: res[cur]={"violation":True,"line":line}
json.dump({"breaks_property":ID,"demo_rc_with_change":int(rm),"demo_rc_clean":int(rc),"checks_run":PROPS.split(),
 "check_results":res,"ran":"tools/keep_seed.sh (demo.py in a worktree with/without patch.diff; tools/run_mutant.sh quick tier)"},
 open('/verif/seeded/%s/meta.json'%NAME,'w'),indent=1)
PY
