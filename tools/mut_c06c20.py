import subprocess, sys, os, re
S='/tmp/w5/c06c20_scratch'
F=S+'/tensorflow_lattice/python/linear_lib.py'
orig=open(F).read()
MD_BLOCK='''  if monotonic_dominances:
    monotonic_dominances = [(j, i) for i, j in monotonic_dominances]
    weights = internal_utils.approximately_project_categorical_partial_monotonicities(
        weights, monotonic_dominances)

'''
RD_START='  if range_dominances:\n    range_dominances = [(j, i) for i, j in range_dominances]\n'
NORM_BLOCK='''  if normalization_order:
    norm = tf.norm(weights, axis=0, ord=normalization_order)
    norm = tf.where(norm < _NORMALIZATION_EPS, 1.0, norm)
    weights = weights / norm

'''
assert MD_BLOCK in orig and RD_START in orig and NORM_BLOCK in orig
i_rd=orig.index(RD_START); i_norm=orig.index(NORM_BLOCK)
RD_BLOCK=orig[i_rd:i_norm]
i_sign=orig.index('  if any(monotonicities):\n    if 1 in monotonicities:')
i_md=orig.index(MD_BLOCK)
SIGN_BLOCK=orig[i_sign:i_md]
def m_dropnorm(s): return s.replace(NORM_BLOCK, NORM_BLOCK.replace('if normalization_order:','if False and normalization_order:'))
def m_swapdom(s): return s.replace(MD_BLOCK+RD_BLOCK, RD_BLOCK+MD_BLOCK)
def m_signafter(s): return s.replace(SIGN_BLOCK+MD_BLOCK, MD_BLOCK+SIGN_BLOCK)
def m_noshared(s): return s.replace('        if dim in monotonic_dominance_dims:\n','        if False and dim in monotonic_dominance_dims:\n')
def m_normfirst(s): return s.replace(NORM_BLOCK,'').replace(MD_BLOCK, NORM_BLOCK+MD_BLOCK)
def m_guard(s): return s.replace('_NORMALIZATION_EPS = 1e-8','_NORMALIZATION_EPS = 1e-5')
def m_mdbeforesign_rdskip(s): return s.replace('    weights /= scalings\n','    weights = weights / tf.abs(scalings)\n')
def m_halfnorm(s): return s.replace('    weights = weights / norm\n','    weights = weights / (2.0 * norm)\n')
def m_mdnoswap(s): return s.replace('    monotonic_dominances = [(j, i) for i, j in monotonic_dominances]\n','    monotonic_dominances = list(monotonic_dominances)\n')
def m_swap_noshared(s): return m_noshared(m_swapdom(s))
M={'swap_noshared':m_swap_noshared,'dropnorm':m_dropnorm,'swapdom':m_swapdom,'signafter':m_signafter,'noshared':m_noshared,'normfirst':m_normfirst,
   'guard':m_guard,'absscale':m_mdbeforesign_rdskip,'halfnorm':m_halfnorm,'mdnoswap':m_mdnoswap}
names=sys.argv[2].split(',')
props=sys.argv[1].split(',')
env=dict(os.environ, TFL_REPO=S, PYTHONPATH=S)
for n in names:
  mut=M[n](orig)
  if mut==orig: print(n,'NO CHANGE'); continue
  open(F,'w').write(mut)
  try:
    for p in props:
      r=subprocess.run(['./check',p,'--tier','quick'],cwd='/tmp/w5/c06c20',env=env,capture_output=True,text=True)
      lines=[l for l in (r.stdout+r.stderr).split('\n') if ('tier=quick' in l or l.startswith('VIOLATION'))]
      print('MUTANT',n,p,'rc=%d'%r.returncode,' | '.join(l[:260] for l in lines))
      if r.returncode!=0:
        import json
        try:
          d=json.load(open('/tmp/w5/c06c20/replays/%s_quick_0.json'%p))
          cl={}
          for f in d['failures']: cl[f['clause']]=cl.get(f['clause'],0)+1
          print('    oracle clauses:',cl,' broken_correspondence:', str(d.get('broken_correspondence'))[:300])
        except Exception as e: print('   (no replay)',e)
  finally:
    open(F,'w').write(orig)
