#!/bin/bash
# tools/run_all_seeded.sh — re-runs every kept seeded change against the check(s) recorded in its meta.json;
# prints one line per (change, check): CAUGHT / MISSED / NOAPPLY
cd "$(dirname "$0")/.."
for d in seeded/*/; do
  name=$(basename $d)
  props=$(python3 -c "import json;print(' '.join(json.load(open('$d/meta.json'))['checks_run']))")
  out=$(./tools/run_mutant.sh $d/patch.diff $props 2>&1)
  if echo "$out" | grep -q "patch does not apply"; then echo "NOAPPLY $name"; continue; fi
  for p in $props; do
    if echo "$out" | awk "/=== $p on/{f=1;next} /===/{f=0} f" | grep -q "^VIOLATION property=$p"; then
      tail=$(echo "$out" | awk "/=== $p on/{f=1;next} /===/{f=0} f" | grep "^VIOLATION" | grep -o "no-failing-input-found")
      echo "CAUGHT $name $p $tail"
    else echo "MISSED $name $p"; fi
  done
done
