#!/bin/bash
# tools/merge_wp.sh <name> — lists (and with --apply copies) the files a work-package copy /tmp/w5/<name> changed
# relative to the base snapshot /tmp/w5/base, excluding shared / generated / evidence files.
N=$1; APPLY=$2
cd /tmp/w5/$N || exit 1
diff -rq /tmp/w5/base . 2>/dev/null | grep -v "\.lake\|__pycache__\|^Only in /tmp/w5/base" | \
  sed -e 's#^Files /tmp/w5/base/\(.*\) and .* differ#M \1#' -e 's#^Only in \./\(.*\): \(.*\)#A \1/\2#' -e 's#^Only in \.: \(.*\)#A \1#' | \
  grep -v "^. evidence/\|^. replays/\|^. MANIFEST.json\|^. lean/TflModel/Generated/\|^. lean/lake-manifest\|^. lean/.lake" | sort > /tmp/w5/$N.changes
cat /tmp/w5/$N.changes
if [ "$APPLY" = "--apply" ]; then
  while read st f; do
    case "$f" in
      DESIGN.md|known_findings.json|harness/manifest.py|harness/main.py|harness/common.py|kf_additions.json|design_notes.md|repo_patches*|lean/TflModel.lean|lean/Driver.lean) echo "SKIP(shared) $f";;
      *) if [ -d "$f" ]; then mkdir -p /verif/$f; cp -r $f/. /verif/$f/; echo "COPIED dir $f";
         elif [ "$st" = "M" ] && ! cmp -s /tmp/w5/base/$f /verif/$f; then
           # /verif's copy already moved away from the base (another package touched it): three-way merge
           cp /verif/$f /tmp/w5/merge_mine.tmp; git merge-file /tmp/w5/merge_mine.tmp /tmp/w5/base/$f "$f" && { cp /tmp/w5/merge_mine.tmp /verif/$f; echo "MERGED $f"; } || echo "CONFLICT $f (left untouched; merged attempt in /tmp/w5/merge_mine.tmp)";
         else mkdir -p /verif/$(dirname $f); cp "$f" /verif/$f; echo "COPIED $f"; fi;;
    esac
  done < /tmp/w5/$N.changes
fi
