#!/usr/bin/env python3
"""tools/check_suite_xml.py <junit.xml> — every stable-pass test of /root/.vp/BASELINE.json passes in the junit file
(used to confirm that a seeded change keeps the existing suite result)."""
import json, sys, xml.etree.ElementTree as ET
want = set(json.load(open('/root/.vp/BASELINE.json'))['stable_pass'])
ok = set(); bad = {}
for tc in ET.parse(sys.argv[1]).getroot().iter('testcase'):
    tid = tc.get('classname', '') + '::' + tc.get('name', '')
    if any(c.tag in ('failure', 'error', 'skipped') for c in tc):
        bad[tid] = [c.tag for c in tc][0]
    else:
        ok.add(tid)
missing = sorted(want - ok)
print(f"stable_pass={len(want)} passing_here={len(want & ok)} missing_or_failing={len(missing)}")
for m in missing[:20]:
    print("  ", m, bad.get(m, 'absent'))
sys.exit(1 if missing else 0)
