#!/bin/bash
# tools/run_mutant.sh <patch.diff> <prop> [<prop> ...]
# Applies a seeded change to a scratch worktree of /repo (never to /repo itself), runs the given checks
# against it (PYTHONPATH/TFL_REPO point the harness at the scratch tree) and removes the worktree.
set -u
PATCH="$(readlink -f "$1")"; shift
DIR="$(cd "$(dirname "$0")/.." && pwd)"
W=/tmp/mut/$$
mkdir -p /tmp/mut
git -C /repo worktree add -q --detach "$W" HEAD || exit 2
( cd "$W" && git apply "$PATCH" ) || { echo "patch does not apply"; git -C /repo worktree remove --force "$W"; exit 2; }
rc=0
for p in "$@"; do
  echo "=== $p on mutant $(basename "$(dirname "$PATCH")")"
  cp "$DIR/evidence/$p.json" "/tmp/mut/ev_$$_$p.json" 2>/dev/null   # evidence must come from the clean tree
  ( cd "$DIR" && PYTHONPATH="$W" TFL_REPO="$W" VERIF_TIER="${VERIF_TIER:-quick}" ./check "$p" --tier "${VERIF_TIER:-quick}" 2>/dev/null | grep -v "^KNOWN-FINDING" | tail -3 )
  mv "/tmp/mut/ev_$$_$p.json" "$DIR/evidence/$p.json" 2>/dev/null
done
# the C11 / C16 checks regenerate their tables from the tree under test: restore the clean-tree tables
git -C "$DIR" checkout -- lean/TflModel/Generated 2>/dev/null
git -C /repo worktree remove --force "$W"
