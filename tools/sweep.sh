#!/bin/bash
# tools/sweep.sh "<props>" "<seeds>" <tier>  — runs checks on the clean tree, one line per run (rc = the check's exit code)
cd "$(dirname "$0")/.."
( cd lean && lake build >/dev/null 2>&1 )
for p in $1; do for s in $2; do
  out=$(VERIF_SEED=$s ./check $p --tier $3 2>/dev/null; echo "RC=$?")
  rc=$(echo "$out" | grep -o "RC=[0-9]*$" | tail -1)
  echo "$rc $(echo "$out" | grep -v "^KNOWN-FINDING\|^RC=" | tail -2 | tr '\n' ' ')"
done; done
