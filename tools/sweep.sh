#!/bin/bash
# tools/sweep.sh "<props>" "<seeds>" <tier>  — runs checks on the clean tree, one line per run
cd "$(dirname "$0")/.."
( cd lean && lake build >/dev/null 2>&1 )
for p in $1; do for s in $2; do
  out=$(VERIF_SEED=$s ./check $p --tier $3 2>/dev/null | grep -v "^KNOWN-FINDING" | tail -2 | tr '\n' ' ')
  echo "rc=$? $out"
done; done
