#!/usr/bin/env python3
"""tools/merge_kf.py <wp-name>... — merges /tmp/w5/<name>/kf_additions.json into known_findings.json (findings keyed by (id, property))."""
import json, sys
k = json.load(open('/verif/known_findings.json'))
idx = {(f['id'], f['property']): i for i, f in enumerate(k['findings'])}
for n in sys.argv[1:]:
    try:
        a = json.load(open('/tmp/w5/%s/kf_additions.json' % n))
    except FileNotFoundError:
        print(n, 'no kf_additions.json'); continue
    for f in a.get('findings', []):
        key = (f['id'], f['property'])
        if key in idx:
            k['findings'][idx[key]] = f; print(n, 'replaced finding', key)
        else:
            idx[key] = len(k['findings']); k['findings'].append(f); print(n, 'added finding', key)
    for l in a.get('fixed', []):
        if l not in k['fixed']:
            k['fixed'].append(l); print(n, 'added fixed', l[:80])
json.dump(k, open('/verif/known_findings.json', 'w'), indent=1)
