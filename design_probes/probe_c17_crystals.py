import os, sys, collections, itertools
os.environ["TF_CPP_MIN_LOG_LEVEL"]="3"
import numpy as np, tensorflow as tf
import tensorflow_lattice as tfl
from tensorflow_lattice.python import premade_lib, configs
rng=np.random.RandomState(13)
res=collections.Counter(); ex={}
for trial in range(400):
    n=int(rng.randint(3,9)); rank=int(rng.randint(2,min(n-1,4)+1)); nl=int(rng.randint(1,9))
    if nl*rank<n: continue
    kind=rng.randint(5)
    if kind==0: tors=rng.rand(n,n); laps=rng.rand(n)
    elif kind==1: tors=np.zeros((n,n)); laps=np.zeros(n)
    elif kind==2: tors=rng.rand(n,n)*1e-3; laps=np.zeros(n); laps[0]=100.0
    elif kind==3: tors=np.ones((n,n)); laps=np.ones(n)
    else: tors=rng.randint(0,3,size=(n,n)).astype(float); laps=rng.randint(0,3,size=n).astype(float)
    tors=(tors+tors.T)/2; np.fill_diagonal(tors,0)
    names=['f%d'%i for i in range(n)]
    fc=[configs.FeatureConfig(nm) for nm in names]
    mc=configs.CalibratedLatticeEnsembleConfig(feature_configs=fc,lattices='crystals',num_lattices=nl,lattice_rank=rank)
    orig=premade_lib._get_torsions_and_laplacians
    premade_lib._get_torsions_and_laplacians=lambda **kw: (tors.tolist(), laps.tolist())
    try:
        lat=premade_lib._get_final_crystal_lattices(mc,None,None,names)
    except Exception as e:
        key=("raised",type(e).__name__,kind); res[key]+=1; ex.setdefault(key,(str(e)[:80],n,rank,nl)); continue
    finally:
        premade_lib._get_torsions_and_laplacians=orig
    ok_rank=all(len(l)==rank for l in lat); used=set(i for l in lat for i in l); norep=all(len(set(l))==len(l) for l in lat)
    key=("ok" if ok_rank and len(used)==n else "bad", "norepeat" if norep else "repeat", kind); res[key]+=1
    if key[0]=="bad": ex.setdefault(key,(n,rank,nl,lat))
for k,c in sorted(res.items(),key=str): print(c,k,ex.get(k,""))
