import os
os.environ["TF_CPP_MIN_LOG_LEVEL"]="3"
import numpy as np, tensorflow as tf
import tensorflow_lattice as tfl
from tensorflow_lattice.python import kronecker_factored_lattice_layer as kfll, kronecker_factored_lattice_lib as kfl_lib
from tensorflow_lattice.python import conditional_pwl_calibration as cpc, lattice_lib, lattice_layer, pwl_calibration_layer as pl
# C07 single term
layer = kfll.KroneckerFactoredLattice(lattice_sizes=2, units=1, num_terms=1, output_min=0.0, output_max=1.0)
x = tf.constant([[0.3,0.9],[1.0,1.0],[0.,0.]])
layer(x)
layer.kernel.assign(layer.kernel*0+5.0)
layer.kernel.assign(layer.kernel.constraint(layer.kernel)); layer.scale.assign(layer.scale.constraint(layer.scale))
print("C07 no-mono both bounds: out", layer(x).numpy().ravel())
layer.finalize_constraints(); print("C07 after finalize:", layer(x).numpy().ravel())
layer = kfll.KroneckerFactoredLattice(lattice_sizes=2, units=1, num_terms=1, output_min=0.0)
layer(x); layer.kernel.assign(layer.kernel*0-5.0); layer.kernel[0,0,0,0].assign(5.0) if False else None
k = layer.kernel.numpy(); k[0,:,0,0] = -5.0; layer.kernel.assign(k)
layer.kernel.assign(layer.kernel.constraint(layer.kernel)); layer.scale.assign(layer.scale.constraint(layer.scale))
print("C07 no-mono output_min only: out", layer(x).numpy().ravel(), "(must be >= 0)")
# C15 message
try:
  cpc.pwl_calibration_fn(tf.constant([[0.2],[0.7]]), None, tf.zeros((1,2)))
except Exception as e: print("C15:", str(e).strip().splitlines()[-1][:200])
# C19 custom_reduce_prod gradients with zeros
for t0 in [[2.,3.,4.],[0.,3.,4.],[0.,0.,4.],[0.,0.,0.]]:
  t = tf.constant([t0])
  with tf.GradientTape(persistent=True) as tape:
    tape.watch(t); a = kfl_lib.custom_reduce_prod(t, axis=1); b = tf.reduce_prod(t, axis=1)
  print("C19", t0, tape.gradient(a,t).numpy().ravel(), tape.gradient(b,t).numpy().ravel())
# float64 custom_reduce_prod
try:
  t = tf.constant([[0.,3.,4.]], dtype=tf.float64)
  with tf.GradientTape() as tape:
    tape.watch(t); a = kfl_lib.custom_reduce_prod(t, axis=1)
  print("C19 f64", tape.gradient(a,t).numpy())
except Exception as e: print("C19 f64 raised", type(e).__name__, str(e)[:100])
# C10: Lattice init then constraint identity for mono+bounds
for cfg in [dict(lattice_sizes=[3,2,4], monotonicities=[1,0,1], output_min=-1.0, output_max=2.0),
            dict(lattice_sizes=[3,3], monotonicities=[1,0], unimodalities=[0,1], output_min=0.0, output_max=1.0),
            dict(lattice_sizes=[2,3], monotonicities=[1,1], output_max=5.0),
            dict(lattice_sizes=[2,3], monotonicities=[1,1], kernel_initializer='random_monotonic_initializer', output_min=0.0, output_max=1.0)]:
  try:
    L = tfl.layers.Lattice(**cfg); L(tf.zeros((1,len(cfg['lattice_sizes']))))
    k0 = L.kernel.numpy(); k1 = L.kernel.constraint(L.kernel).numpy()
    L.assert_constraints()
    print("C10", cfg, "min/max", k0.min(), k0.max(), "constraint moves by", np.abs(k1-k0).max())
  except Exception as e: print("C10", cfg, "raised", type(e).__name__, str(e)[:100])
