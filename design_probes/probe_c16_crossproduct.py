import os, sys, collections, itertools
os.environ["TF_CPP_MIN_LOG_LEVEL"]="3"
import numpy as np, tensorflow as tf
import tensorflow_lattice as tfl
from tensorflow_lattice.python import lattice_layer as ll, pwl_calibration_layer as pl, linear_layer as lin, categorical_calibration_layer as cl, kronecker_factored_lattice_layer as kl, cdf_layer, rtl_layer
rng=np.random.RandomState(9)
res=collections.Counter(); ex={}
def note(layer,stage,e,cfg):
    key=(layer,stage,type(e).__name__); res[key]+=1; ex.setdefault(key,(str(e).splitlines()[0][:110],cfg))
def run(layer,mk,call,cfg):
    try: L=mk()
    except ValueError as e: res[(layer,"ctor","ValueError(ok)")]+=1; return
    except Exception as e: note(layer,"ctor",e,cfg); return
    try: y=call(L)
    except ValueError as e: res[(layer,"build/call","ValueError(ok)")]+=1; return
    except Exception as e: note(layer,"build/call",e,cfg); return
    try:
        ys=[np.asarray(t) for t in (y if isinstance(y,(list,tuple)) else [y])]
        if not all(np.isfinite(t).all() for t in ys): note(layer,"nonfinite",RuntimeError("nonfinite"),cfg)
        else: res[(layer,"ok","")]+=1
    except Exception as e: note(layer,"post",e,cfg)
# ---- Lattice
sizes_dom=[[2],[1,2],[2,2],[3,3],[2,3,2]]
for sizes in sizes_dom:
  n=len(sizes)
  for mono in [None,[0]*n,[1]*n,['increasing']+[0]*(n-1),[-1]*n,[1]*(n+1)]:
    for uni in [None,[0]*n,['valley']+[0]*(n-1),[0]*(n-1)+[-1]]:
      for trusts in [None,[(0,1,1)],(0,1,'positive'),[(0,1,1),(1,0,1)],[(0,0,1)],[(0,1,2)],[[0,1,1]]]:
        for kind in ['edgeworth_trusts','trapezoid_trusts']:
          for bounds in [(None,None),(0.0,1.0),(1.0,0.0),(0.0,0.0),(None,-1.0)]:
            for units in [1,2]:
              for interp in ['hypercube','simplex']:
                if rng.rand()>0.25: continue
                cfg=dict(lattice_sizes=sizes,monotonicities=mono,unimodalities=uni,units=units,output_min=bounds[0],output_max=bounds[1],interpolation=interp); cfg[kind]=trusts
                def call(L,sizes=sizes,units=units):
                    n=len(sizes); x=tf.constant(rng.rand(3,n) if units==1 else rng.rand(3,units,n),dtype=tf.float32)
                    y=L(x); L.kernel.assign(tf.constant(rng.randn(*L.kernel.shape).astype(np.float32)*5)); L.kernel.assign(L.kernel.constraint(L.kernel)); L.finalize_constraints()
                    for r in L.kernel_regularizer: r(L.kernel)
                    return [L(x).numpy(), L.kernel.numpy()]
                run("Lattice",lambda: ll.Lattice(**cfg),call,cfg)
# ---- PWL
for kp in [[0.,1.],[0.,1.,3.],[0.,0.,1.],[1.,0.],[0.],np.array([0.,1.,2.]),[0,1,2]]:
  for mono in ['none',1,-1,'increasing',2,None]:
    for conv in ['none','convex',-1]:
      for bounds in [(None,None),(0.0,1.0),(1.0,0.0),(0.0,0.0),(None,1.0)]:
        for clamps in [(False,False),(True,True)]:
          for cyc in [False,True]:
            for it in [8,0]:
              for kt in ['fixed','learned_interior']:
                if rng.rand()>0.15: continue
                cfg=dict(input_keypoints=kp,monotonicity=mono,convexity=conv,output_min=bounds[0],output_max=bounds[1],clamp_min=clamps[0],clamp_max=clamps[1],is_cyclic=cyc,num_projection_iterations=it,input_keypoints_type=kt,units=int(rng.choice([1,2])),kernel_initializer=rng.choice(['equal_heights','equal_slopes']))
                def call(L):
                    x=tf.constant(rng.rand(4,1).astype(np.float32)*3); L(x); L.kernel.assign(tf.constant(rng.randn(*L.kernel.shape).astype(np.float32)*5)); L.kernel.assign(L.kernel.constraint(L.kernel))
                    return [L(x).numpy(), L.kernel.numpy()]
                run("PWL",lambda: pl.PWLCalibration(**cfg),call,cfg)
# ---- Linear
for n in [1,3]:
  for mono in [None,1,'decreasing',[1]*n,[1,0,-1][:n],[1]*(n+1)]:
    for md in [None,[(0,1)],[(0,1),(1,0)],[(0,5)],(0,1)]:
      for rd in [None,[(0,1)],[(1,2)]]:
        for ib in [(None,None),([0.0]*n,[1.0]*n),([0.0]*n,[0.0]*n),([1.0]*n,[0.0]*n),([0]*n,[1]*n),([0.0]+[None]*(n-1),None)]:
          for no in [None,1,2,0.5]:
            for units in [1,2]:
              if rng.rand()>0.3: continue
              cfg=dict(num_input_dims=n,monotonicities=mono,monotonic_dominances=md,range_dominances=rd,input_min=ib[0],input_max=ib[1],normalization_order=no,units=units)
              def call(L,n=n,units=units):
                  x=tf.constant((rng.rand(3,n) if units==1 else rng.rand(3,units,n)).astype(np.float32)); L(x); L.kernel.assign(tf.constant(rng.randn(*L.kernel.shape).astype(np.float32)*3))
                  if L.kernel.constraint is not None: L.kernel.assign(L.kernel.constraint(L.kernel))
                  return [L(x).numpy(), L.kernel.numpy()]
              run("Linear",lambda: lin.Linear(**cfg),call,cfg)
# ---- Categorical
for nb in [1,3]:
  for mono in [None,[(0,1)],[(0,1),(1,0)],[(0,1),(1,2),(2,1)],[(0,7)],[(0,0)],[[0,1]],(0,1),[(0,1,2)]]:
    for bounds in [(None,None),(0.0,1.0),(1.0,0.0),(0.0,None)]:
      for units in [1,2]:
        cfg=dict(num_buckets=nb,monotonicities=mono,output_min=bounds[0],output_max=bounds[1],units=units,default_input_value=rng.choice([None,-1]))
        def call(L,nb=nb,units=units):
            x=tf.constant(rng.randint(0,nb,size=(4,1 if units==1 else units))); L(x); L.kernel.assign(tf.constant(rng.randn(*L.kernel.shape).astype(np.float32)*3))
            if L.kernel.constraint is not None: L.kernel.assign(L.kernel.constraint(L.kernel))
            return [L(x).numpy(), L.kernel.numpy()]
        run("Categorical",lambda: cl.CategoricalCalibration(**cfg),call,cfg)
# ---- KFL
for ls in [1,2,3]:
  for mono in [None,[0,0],[1,0],['increasing',1],[1],[-1,0]]:
    for bounds in [(None,None),(0.0,1.0),(1.0,0.0),(0.0,0.0),(0.0,None),(None,1.0)]:
      for units in [1,2]:
        for terms in [0,1,2]:
          cfg=dict(lattice_sizes=ls,monotonicities=mono,output_min=bounds[0],output_max=bounds[1],units=units,num_terms=terms)
          def call(L,ls=ls,units=units):
              x=tf.constant((rng.rand(3,2) if units==1 else rng.rand(3,units,2)).astype(np.float32)*(ls-1)); L(x)
              L.kernel.assign(tf.constant(rng.randn(*L.kernel.shape).astype(np.float32)*3)); L.scale.assign(tf.constant(rng.randn(*L.scale.shape).astype(np.float32)))
              L.finalize_constraints(); return [L(x).numpy(), L.kernel.numpy()]
          run("KFL",lambda: kl.KroneckerFactoredLattice(**cfg),call,cfg)
for k,c in sorted(res.items()): print(c,k, ex.get(k,""))
