import os, itertools, sys
os.environ["TF_CPP_MIN_LOG_LEVEL"]="3"
import numpy as np, tensorflow as tf
import tensorflow_lattice as tfl
from tensorflow_lattice.python import lattice_layer, lattice_lib
rng = np.random.RandomState(int(sys.argv[1]) if len(sys.argv)>1 else 0)

def violations(w, sizes, mono, edge, trap, omin, omax):
    """w: array shape sizes+[units]; returns dict of max violation per kind."""
    v = {"mono":0.0,"edge":0.0,"trap":0.0,"bounds":0.0}
    nd = len(sizes)
    for d in range(nd):
        if mono[d]:
            a = np.moveaxis(w, d, 0)
            v["mono"] = max(v["mono"], float(np.max(a[:-1]-a[1:])))
    for (m,c,dr) in edge:
        a = np.moveaxis(w, (m,c), (0,1))
        if dr<0: a = a[:, ::-1]
        diff = (a[1:, :-1]-a[:-1, :-1]) - (a[1:, 1:]-a[:-1, 1:])
        v["edge"] = max(v["edge"], float(np.max(diff)))
    for (m,c,dr) in trap:
        a = np.moveaxis(w, (m,c), (0,1))
        if dr<0: a = a[:, ::-1]
        v["trap"] = max(v["trap"], float(np.max(a[0,1:]-a[0,:-1])), float(np.max(a[-1,:-1]-a[-1,1:])))
    if omin is not None: v["bounds"]=max(v["bounds"], float(omin-w.min()))
    if omax is not None: v["bounds"]=max(v["bounds"], float(w.max()-omax))
    return v

worst = {}
n=0
for trial in range(int(sys.argv[2]) if len(sys.argv)>2 else 300):
    nd = rng.randint(2,4)
    sizes = [int(rng.randint(2,4)) for _ in range(nd)]
    units = int(rng.choice([1,1,2]))
    mono = [int(rng.rand()<0.6) for _ in range(nd)]
    if not any(mono): mono[rng.randint(nd)] = 1
    mains = [d for d in range(nd) if mono[d]]
    # choose main set and cond set disjoint
    main_set = set(m for m in mains if rng.rand()<0.6) or {mains[0]}
    cond_set = [d for d in range(nd) if d not in main_set]
    edge=[];trap=[]
    if cond_set:
        dirs={}
        for m in main_set:
            for c in cond_set:
                if rng.rand()<0.5:
                    dirs[(m,c)] = int(rng.choice([-1,1]))
                    k = rng.randint(3)
                    if k in (0,2): edge.append((m,c,dirs[(m,c)]))
                    if k in (1,2): trap.append((m,c,dirs[(m,c)]))
    # documented exception: several trapezoid sharing cond with edgeworth present
    conds=[c for _,c,_ in trap]
    if edge and len(set(conds))<len(conds): continue
    if edge and any(mono[c] for _,c,_ in trap): continue
    b = rng.randint(4)
    omin = None if b in (0,2) else float(rng.randint(-2,1))
    omax = None if b in (0,1) else (omin if omin is not None else 0.0)+float(rng.randint(1,4))
    iters = int(rng.choice([0,1,3]))
    kind = rng.randint(4)
    shape = [int(np.prod(sizes)), units]
    if kind==0: w = rng.randint(-3,4,size=shape).astype(np.float64)
    elif kind==1: w = rng.randn(*shape)*10
    elif kind==2: w = -np.sort(rng.randn(*shape),axis=0)*5
    else: w = rng.randn(*shape)*1e-3
    try:
        c = lattice_layer.LatticeConstraints(lattice_sizes=sizes, monotonicities=mono, edgeworth_trusts=edge or None, trapezoid_trusts=trap or None, output_min=omin, output_max=omax, num_projection_iterations=iters, enforce_strict_monotonicity=True)
    except ValueError as e:
        continue
    out = c(tf.constant(w)).numpy()
    n+=1
    v = violations(out.reshape(sizes+[units]), sizes, mono, edge, trap, omin, omax)
    for k,val in v.items():
        if val > 1e-6 and val > worst.get(k,(0,))[0]:
            worst[k] = (val, dict(sizes=sizes,units=units,mono=mono,edge=edge,trap=trap,omin=omin,omax=omax,iters=iters,w=w.tolist()))
print("cases", n)
for k,(val,cfg) in worst.items():
    print("VIOL", k, val, {kk:vv for kk,vv in cfg.items() if kk!="w"})
