import os, itertools, sys
os.environ["TF_CPP_MIN_LOG_LEVEL"]="3"
import numpy as np, tensorflow as tf
import tensorflow_lattice as tfl
from tensorflow_lattice.python import lattice_lib as LL, lattice_layer as ll, linear_lib, pwl_calibration_lib as plib, pwl_calibration_layer as pl, kronecker_factored_lattice_lib as kfl, categorical_calibration_layer as cl, linear_layer as lin
rng=np.random.RandomState(1)
def raises(f):
    try: f(); return False
    except tf.errors.InvalidArgumentError: return True
# ---------- C12 lattice: inject single violation at each location/kind
sizes=[3,2,3]; units=2
def feasible_kernel():
    # separable increasing in all dims with convex-ish interaction so trusts hold with margin
    g=np.zeros(sizes+[units])
    for idx in itertools.product(*[range(s) for s in sizes]):
        for u in range(units):
            g[idx+(u,)] = 1.0*idx[0]+1.0*idx[1]+1.0*idx[2] + 0.5*idx[0]*idx[1] + 0.3*(u+1)
    return g
cfg=dict(lattice_sizes=sizes, monotonicities=[1,1,1], edgeworth_trusts=[(0,1,1)], trapezoid_trusts=None, monotonic_dominances=None, range_dominances=None, joint_monotonicities=[(0,2)], joint_unimodalities=None, output_min=0.0, output_max=20.0)
g=feasible_kernel()
base_ok = not raises(lambda: LL.assert_constraints(tf.constant(g.reshape(-1,units)), eps=1e-6, **{('weights' if k=='x' else k):v for k,v in cfg.items()}))
print("C12 lattice feasible accepted:", base_ok)
missed=0; tot=0
for idx in itertools.product(*[range(s) for s in sizes]):
    for u in range(units):
        for delta in (-3.0, 3.0, 30.0, -30.0):
            h=g.copy(); h[idx+(u,)]+=delta
            # true violation? compute with reference
            def viol(w):
                v=0
                for d in range(3): v=max(v,float(np.max(-np.diff(w,axis=d))))
                a=w; sq=(a[1:,1:]-a[:-1,1:])-(a[1:,:-1]-a[:-1,:-1]); v=max(v,float(np.max(-sq)))
                # joint mono (0,2): midpoint conditions
                b=np.moveaxis(w,(0,2),(0,1)); mid=(b[1:,:-1]+b[:-1,1:])/2; v=max(v,float(np.max(mid-b[1:,1:])), float(np.max(b[:-1,:-1]-mid)))
                v=max(v, 0.0-w.min(), w.max()-20.0); return v
            tv=viol(h); r=raises(lambda: LL.assert_constraints(tf.constant(h.reshape(-1,units)), eps=1e-6, **cfg))
            tot+=1
            if (tv>1e-3)!=r and abs(tv)>1e-3: missed+=1; print("C12 lattice mismatch idx",idx,u,delta,"trueviol",tv,"raised",r)
print("C12 lattice injected",tot,"mismatches",missed)
# ---------- C12 linear / pwl / kfl quick
w=np.array([[1.0,0.5],[0.5,0.2],[-0.2,-0.1]])
lcfg=dict(monotonicities=[1,1,-1], monotonic_dominances=[(0,1)], range_dominances=None, input_min=None, input_max=None, normalization_order=None)
print("C12 linear feasible ok:", not raises(lambda: linear_lib.assert_constraints(tf.constant(w), eps=1e-4, **lcfg)))
for (i,u,d) in [(0,1,-1.0),(1,0,2.0),(2,1,1.0),(1,1,-1.0)]:
    h=w.copy(); h[i,u]+=d; print("C12 linear inject",(i,u,d),"raised", raises(lambda: linear_lib.assert_constraints(tf.constant(h), eps=1e-4, **lcfg)))
# PWL layer assert
L=pl.PWLCalibration(input_keypoints=[0.,1.,2.,4.], units=2, output_min=0.0, output_max=1.0, monotonicity=1, clamp_min=True); L(tf.zeros((1,1)))
L.kernel.assign(np.array([[0.,0.],[.2,.1],[.3,.1],[.1,.2]])); print("C12 pwl feasible ok:", not raises(lambda: L.assert_constraints()))
for (i,u,d) in [(0,1,0.5),(2,0,-0.5),(3,1,2.0),(1,0,-0.3)]:
    k=np.array([[0.,0.],[.2,.1],[.3,.1],[.1,.2]]); k[i,u]+=d; L.kernel.assign(k); print("C12 pwl inject",(i,u,d),"raised", raises(lambda: L.assert_constraints()))
# ---------- C09 lattice constraint per-unit independence
for trial in range(30):
    sizes=[int(rng.randint(2,4)) for _ in range(3)]
    c=ll.LatticeConstraints(lattice_sizes=sizes, monotonicities=[1,0,1], edgeworth_trusts=[(0,1,1)], trapezoid_trusts=[(2,1,-1)], output_min=-1.0, output_max=2.0, num_projection_iterations=2)
    K=rng.randn(int(np.prod(sizes)),3)*np.array([1.,100.,0.01])
    full=c(tf.constant(K)).numpy()
    for u in range(3):
        single=c(tf.constant(K[:,u:u+1])).numpy()
        if np.abs(full[:,u:u+1]-single).max()>1e-9*max(1,np.abs(K[:,u]).max()): print("C09 lattice unit mixing", sizes, u, np.abs(full[:,u:u+1]-single).max()); break
print("C09 lattice done")
# ---------- C20 linear layer pointwise
for units in (1,2):
  L=lin.Linear(num_input_dims=3, units=units, input_min=[0.0,None,None], input_max=[None,1.0,None], use_bias=True)
  x=rng.randn(5,3)*3 if units==1 else rng.randn(5,units,3)*3
  y=L(tf.constant(x,dtype=tf.float32)).numpy(); k=rng.randn(3,units).astype(np.float32); b=rng.randn(*L.bias.shape).astype(np.float32); L.kernel.assign(k); L.bias.assign(b)
  y=L(tf.constant(x,dtype=tf.float32)).numpy()
  xc=x.copy(); xc[...,0]=np.maximum(xc[...,0],0.0); xc[...,1]=np.minimum(xc[...,1],1.0)
  ref = (xc@k + b) if units==1 else (np.einsum('bui,iu->bu',xc,k)+b)
  print("C20 units",units,"max diff",np.abs(y-ref).max())
