import os, sys, collections, itertools
os.environ["TF_CPP_MIN_LOG_LEVEL"]="3"
import numpy as np, tensorflow as tf
import tensorflow_lattice as tfl
from tensorflow_lattice.python import kronecker_factored_lattice_lib as kfl, linear_lib, linear_layer as lin
rng=np.random.RandomState(2)
# ---- C07 wide, calling lib finalize directly (emulates fixed layer guard)
fails=collections.Counter(); ex={}
for trial in range(400):
    ls=int(rng.choice([2,3,4])); units=int(rng.choice([1,2])); dims=int(rng.choice([1,2,3])); terms=int(rng.choice([1,2,3]))
    mono=[int(rng.rand()<0.5) for _ in range(dims)]
    bm=rng.randint(4); omin=None if bm in (0,2) else float(rng.randint(-2,1)); omax=None if bm in (0,1) else (omin or 0.0)+float(rng.randint(1,4))
    kernel=(rng.randn(1,ls,units*dims,terms)*float(rng.choice([0.1,1,10]))).astype(np.float32)
    scale=(rng.randn(units,terms)*float(rng.choice([0.1,1,10]))).astype(np.float32); scale[rng.rand(units,terms)<0.2]=0.0
    if omin is not None and omax is not None: bias=np.full(units,(omin+omax)/2,np.float32)
    elif omin is not None: bias=np.full(units,omin,np.float32)
    elif omax is not None: bias=np.full(units,omax,np.float32)
    else: bias=rng.randn(units).astype(np.float32)
    order=rng.randint(2)
    s=tf.constant(scale); k=tf.constant(kernel)
    if order==0:
        k2=kfl.finalize_weight_constraints(k,units,s,mono,omin,omax); s2=kfl.finalize_scale_constraints(s,omin,omax)
    else:
        s2=kfl.finalize_scale_constraints(s,omin,omax); k2=kfl.finalize_weight_constraints(k,units,s2,mono,omin,omax)
    n=40
    x=(rng.rand(n,units,dims)*(ls-1)).astype(np.float32) if units>1 else (rng.rand(n,dims)*(ls-1)).astype(np.float32)
    f=lambda xx: kfl.evaluate_with_hypercube_interpolation(tf.constant(xx),s2,tf.constant(bias),k2,units,terms,ls,True).numpy()
    y=f(x); v=[]
    if not np.isfinite(y).all(): v.append("nonfinite")
    if omin is not None and y.min()<omin-1e-4*max(1,abs(omin)): v.append("below_min")
    if omax is not None and y.max()>omax+1e-4*max(1,abs(omax)): v.append("above_max")
    for d in range(dims):
        if mono[d]:
            x2=x.copy(); x2[...,d]=np.minimum(x2[...,d]+rng.rand(*x2[...,d].shape).astype(np.float32)*(ls-1),ls-1)
            if np.any(f(x2)<y-1e-4*max(1,np.abs(y).max())): v.append("nonmono")
    for name in set(v):
        key=(name,"mono" if any(mono) else "nomono", "min" if omin is not None else "-", "max" if omax is not None else "-"); fails[key]+=1; ex.setdefault(key,dict(ls=ls,units=units,dims=dims,terms=terms,mono=mono,omin=omin,omax=omax,order=order,ymin=float(y.min()),ymax=float(y.max())))
print("C07 lib-level fails:",dict(fails)); [print("   ",k,v) for k,v in ex.items()]
# ---- C06 linear wide
bad=0; tot=0
for trial in range(400):
    n=int(rng.randint(2,6)); units=int(rng.choice([1,2]))
    mono=[int(rng.choice([-1,0,1,1])) for _ in range(n)]
    inc=[i for i in range(n) if mono[i]==1]; dec=[i for i in range(n) if mono[i]==-1]
    md=[]; rd=[]
    if len(inc)>=2 and rng.rand()<0.6:
        perm=list(rng.permutation(inc)); md=[(int(perm[i]),int(perm[j])) for i in range(len(perm)) for j in range(i+1,len(perm)) if rng.rand()<0.5]
    used=set(i for p in md for i in p)
    for grp in (inc,dec):
        g=[i for i in grp if i not in used]
        if len(g)>=2 and rng.rand()<0.6:
            perm=list(rng.permutation(g)); rd+=[(int(perm[i]),int(perm[j])) for i in range(len(perm)) for j in range(i+1,len(perm)) if rng.rand()<0.5]
    imin=[float(rng.randint(-2,1)) for _ in range(n)]; imax=[imin[i]+float(rng.choice([0.5,1,3])) for i in range(n)]
    no=rng.choice([None,1,2])
    w=rng.randint(-3,4,size=(n,units)).astype(np.float64) if rng.rand()<0.5 else rng.randn(n,units)*5
    try: out=linear_lib.project(tf.constant(w),mono,md or None,rd or None,imin,imax,no).numpy()
    except Exception as e: print("C06 linear raised",type(e).__name__,str(e)[:100],mono,md,rd); bad+=1; continue
    tot+=1; v=[]
    for i in range(n):
        if mono[i]==1 and out[i].min()<-1e-9: v.append("sign")
        if mono[i]==-1 and out[i].max()>1e-9: v.append("sign")
    for a,b in md:
        if (out[a]-out[b]).min()<-1e-9: v.append("mdom")
    for a,b in rd:
        sa=(imax[a]-imin[a])*(1 if mono[a]==1 else -1); sb=(imax[b]-imin[b])*(1 if mono[b]==1 else -1)
        if (sa*out[a]-sb*out[b]).min()<-1e-9: v.append("rdom")
    if no is not None:
        nr=np.linalg.norm(out,ord=no,axis=0)
        if not np.all((np.abs(nr-1)<1e-6)|(nr<1e-7)): v.append("norm")
    if v: bad+=1; print("C06 linear bad",set(v),dict(mono=mono,md=md,rd=rd,no=no),w.T.tolist(),out.T.tolist())
print("C06 linear cases",tot,"bad",bad)
