import os, itertools, sys
os.environ["TF_CPP_MIN_LOG_LEVEL"]="3"
import numpy as np, tensorflow as tf
import tensorflow_lattice as tfl
from tensorflow_lattice.python import lattice_lib as LL, conditional_pwl_calibration as cpc, conditional_cdf, cdf_layer, pwl_calibration_layer as pl, lattice_layer as ll
from scipy.optimize import minimize
rng=np.random.RandomState(5)
# simplex/hypercube monotone all pairs along axis d (kernel monotone only along d)
badm=0
for trial in range(400):
    nd=rng.randint(2,5); sizes=[int(rng.choice([2,3])) for _ in range(nd)]; d=rng.randint(nd)
    K=rng.randn(*sizes); K=np.sort(K,axis=d).reshape(-1,1)
    p=rng.rand(nd)*(np.array(sizes)-1)
    if rng.rand()<0.3: p[rng.randint(nd)]=p[d]
    if rng.rand()<0.3: p=np.round(p*2)/2
    q=p.copy(); q[d]=p[d]+rng.rand()*(sizes[d]-1-p[d])
    for fn in (LL.evaluate_with_simplex_interpolation, LL.evaluate_with_hypercube_interpolation):
        a=fn(tf.constant([p,q]),tf.constant(K),1,sizes,True).numpy().ravel()
        if a[1]<a[0]-1e-9: badm+=1; print("C02 nonmonotone",fn.__name__,sizes,d,p,q,a)
print("C02 mono bad",badm)
# C15 pwl_calibration_fn bounds/monotone with huge params
badc=0
for trial in range(200):
    K=rng.randint(2,7); units=int(rng.choice([1,2])); mono=rng.choice(["none","increasing"])
    clamp_min=bool(rng.randint(2)) and mono=="increasing"; clamp_max=bool(rng.randint(2)) and mono=="increasing"
    cyc=bool(rng.randint(2)) and mono=="none"; miss=rng.choice([None,-1.0]); mo=None if miss is None else rng.choice([None,0.3])
    ops=K-clamp_min-clamp_max-cyc+(miss is not None)-(mo is not None)
    if ops<=0 or K<3: continue
    scale=float(rng.choice([1,10,1e3,1e5]))
    kin=tf.constant(rng.randn(1,units,K-2).astype(np.float32)*scale); kout=tf.constant(rng.randn(1,units,ops).astype(np.float32)*scale)
    xs=np.sort(rng.rand(9)*1.6-0.3).astype(np.float32).reshape(-1,1); xs[0]=0.0; xs[-1]=1.0
    xs=np.sort(xs,axis=0)
    try:
        out=cpc.pwl_calibration_fn(tf.constant(xs),kin,kout,keypoint_input_min=0.0,keypoint_input_max=1.0,keypoint_output_min=-1.0,keypoint_output_max=2.0,units=units,monotonicity=mono,clamp_min=clamp_min,clamp_max=clamp_max,is_cyclic=cyc,missing_input_value=miss,missing_output_value=mo).numpy()
    except Exception as e: badc+=1; print("C15 raised",type(e).__name__,str(e).splitlines()[-1][:120],dict(K=K,units=units,mono=mono,cmin=clamp_min,cmax=clamp_max,cyc=cyc,miss=miss,mo=mo)); continue
    ok = np.isfinite(out).all() and out.min()>=-1-1e-4 and out.max()<=2+1e-4
    if mono=="increasing": ok&=bool(np.all(np.diff(out,axis=0)>=-1e-4))
    i0=int(np.where(xs[:,0]==0.0)[0][0]); i1=int(np.where(xs[:,0]==1.0)[0][-1])
    if clamp_min: ok&=bool(np.all(np.abs(out[i0]+1)<1e-3))
    if clamp_max: ok&=bool(np.all(np.abs(out[i1]-2)<1e-3))
    if cyc: ok&=bool(np.all(np.abs(out[i0]-out[i1])<1e-3))
    if not ok: badc+=1; print("C15 bad",dict(K=K,units=units,mono=mono,cmin=clamp_min,cmax=clamp_max,cyc=cyc,scale=scale),out.T)
print("C15 pwl_fn bad",badc)
# C15 CDF bounded/monotone
badd=0
for trial in range(100):
    din=int(rng.choice([2,4])); units=int(rng.choice([2,4])); sf=int(rng.choice([1,2])); act=rng.choice(['relu6','sigmoid']); red=rng.choice(['mean','geometric_mean','none'])
    L=cdf_layer.CDF(num_keypoints=3,units=units,activation=act,reduction=red,sparsity_factor=sf,input_scaling_type=rng.choice(['fixed','learned_shared','learned_per_input']))
    x=rng.randn(6,din).astype(np.float32)*3; L(tf.constant(x)); L.kernel.assign(rng.randn(*L.kernel.shape).astype(np.float32)*float(rng.choice([1,100])))
    d=rng.randint(din); x2=x.copy(); x2[:,d]+=rng.rand(6).astype(np.float32)*5
    a=L(tf.constant(x)).numpy(); b=L(tf.constant(x2)).numpy()
    if not (np.isfinite(a).all() and a.min()>=-1e-6 and a.max()<=1+2e-3 and np.all(b>=a-1e-5)): badd+=1; print("C15 cdf bad",din,units,sf,act,red,a.min(),a.max(),(b-a).min())
print("C15 cdf bad",badd)
# C08 dykstra vs QP (monotonicity + edgeworth), 2000 iterations
badq=0
for trial in range(6):
    sizes=[3,3]; w=rng.randn(9,1)*2
    mono=[1,1]; edge=[(0,1,1)]
    out=LL.project_by_dykstra(tf.constant(w),sizes,monotonicities=mono,edgeworth_trusts=edge,num_iterations=2000).numpy().ravel()
    cons=[]
    W=lambda z:z.reshape(3,3)
    for i in range(3):
        for j in range(2):
            cons.append({'type':'ineq','fun':(lambda z,i=i,j=j: W(z)[i,j+1]-W(z)[i,j])}); cons.append({'type':'ineq','fun':(lambda z,i=i,j=j: W(z)[j+1,i]-W(z)[j,i])})
    for i in range(2):
        for j in range(2):
            cons.append({'type':'ineq','fun':(lambda z,i=i,j=j: (W(z)[i+1,j+1]-W(z)[i,j+1])-(W(z)[i+1,j]-W(z)[i,j]))})
    r=minimize(lambda z: ((z-w.ravel())**2).sum(), out.copy(), constraints=cons, method='SLSQP', options=dict(ftol=1e-14,maxiter=500))
    dist=np.abs(r.x-out).max()
    if dist>1e-4: badq+=1; print("C08 dykstra vs QP differ",dist)
print("C08 bad",badq)
