import os, sys, collections, itertools
os.environ["TF_CPP_MIN_LOG_LEVEL"]="3"
import numpy as np, tensorflow as tf
import tensorflow_lattice as tfl
import tf_keras as keras
from tensorflow_lattice.python import pwl_calibration_layer as pl, conditional_pwl_calibration as cpc, cdf_layer, conditional_cdf, parallel_combination_layer as pc, aggregation_layer, lattice_lib as LL, categorical_calibration_layer as cl
rng=np.random.RandomState(4)
# C14 cdf_fn vs CDF
bad=0
for trial in range(40):
    din=int(rng.choice([2,4])); units=int(rng.choice([2,4])); sf=int(rng.choice([1,2])); act=rng.choice(['relu6','sigmoid']); red=rng.choice(['mean','none']); nk=3
    L=cdf_layer.CDF(num_keypoints=nk,units=units,activation=act,reduction=red,sparsity_factor=sf,input_scaling_type='learned_per_input')
    x=rng.randn(5,din).astype(np.float32); L(tf.constant(x)); L.kernel.assign(rng.randn(*L.kernel.shape).astype(np.float32)); L.input_scaling.assign(np.abs(rng.randn(*L.input_scaling.shape)).astype(np.float32))
    a=L(tf.constant(x)).numpy()
    loc=tf.tile(L.kernel,[5,1,1,1]); sc=tf.tile(L.input_scaling,[5,1,1,1])
    b=conditional_cdf.cdf_fn(tf.constant(x),loc,sc,units=units,activation=act,reduction=red,sparsity_factor=sf).numpy()
    if np.abs(a-b).max()>1e-5: bad+=1; print("C14 cdf mismatch",din,units,sf,act,red,np.abs(a-b).max())
print("C14 cdf bad",bad)
# C14 pwl_calibration_fn vs PWLCalibration (monotonicity none, no clamp): derive layer kernel from fn's derived params
bad=0
for trial in range(40):
    K=int(rng.randint(3,6)); units=int(rng.choice([1,2]))
    kin=rng.randn(1,units,K-2).astype(np.float32); kout=rng.randn(1,units,K).astype(np.float32)
    x=(rng.rand(7,1)*1.4-0.2).astype(np.float32)
    out,deltas,kern=cpc.pwl_calibration_fn(tf.constant(x),tf.constant(kin),tf.constant(kout),units=units,return_derived_parameters=True)
    out=out.numpy(); deltas=deltas.numpy(); kern=kern.numpy()
    for u in range(units):
        kp=np.concatenate([[0.],np.cumsum(deltas[0,u])]); kp[-1]=1.0
        if np.any(np.diff(kp)<=0): continue
        L=pl.PWLCalibration(input_keypoints=kp.tolist(),units=1); L(tf.constant(x)); L.kernel.assign(kern[0,u].reshape(-1,1))
        ref=L(tf.constant(x)).numpy().ravel()
        if np.abs(ref-out[:,u]).max()>1e-4: bad+=1; print("C14 pwl_fn mismatch",K,units,np.abs(ref-out[:,u]).max())
print("C14 pwl_fn bad",bad)
# C14 ParallelCombination
cal=[pl.PWLCalibration(input_keypoints=[0.,1.,2.]), cl.CategoricalCalibration(num_buckets=3), pl.PWLCalibration(input_keypoints=[0.,2.],monotonicity=1)]
P=pc.ParallelCombination(cal); x=np.stack([rng.rand(6)*2, rng.randint(0,3,6).astype(float), rng.rand(6)*2],axis=1).astype(np.float32)
y=P(tf.constant(x)).numpy(); ref=np.concatenate([c(tf.constant(x[:,i:i+1])).numpy() for i,c in enumerate(cal)],axis=1)
print("C14 parallel max diff",np.abs(y-ref).max())
# C14 Aggregation
inp=[keras.Input(shape=(1,)),keras.Input(shape=(1,))]; h=keras.layers.Concatenate()(inp); o=keras.layers.Dense(1)(h); inner=keras.Model(inp,o)
A=aggregation_layer.Aggregation(inner)
r1=tf.ragged.constant([[1.,2.,3.],[4.],[5.,6.]]); r2=tf.ragged.constant([[0.,1.,0.],[2.],[1.,1.]])
ya=A([r1,r2]).numpy().ravel(); ref=[]
for i in range(3):
    a=r1[i].numpy().reshape(-1,1); b=r2[i].numpy().reshape(-1,1); ref.append(inner([a,b]).numpy().mean())
print("C14 aggregation max diff",np.abs(ya-np.array(ref)).max())
# C19 Lattice gradient wrt kernel = interpolation weights
sizes=[2,3,2]; K=tf.Variable(rng.randn(12,1)); x=tf.constant(rng.rand(4,3)*np.array([1,2,1]))
for fn in (LL.evaluate_with_hypercube_interpolation,LL.evaluate_with_simplex_interpolation):
    with tf.GradientTape() as tape: y=fn(x,K,1,sizes,True)
    J=tape.jacobian(y,K).numpy().reshape(4,12)
    print("C19",fn.__name__,"grad>=0:",bool((J>=-1e-12).all()),"rowsum=1:",bool(np.allclose(J.sum(1),1)), "hyper==weights:", bool(np.allclose(J,LL.compute_interpolation_weights(x,sizes).numpy())) if 'hyper' in fn.__name__ else "")
# C13 PWL regularizers vs reference
def ref_reg(kind,w,l1,l2,cyc):
    y=np.cumsum(w,axis=0)
    if cyc: y=np.concatenate([y,y[:1]],axis=0)
    d1=np.diff(y,axis=0)
    if kind=='lap': t=d1
    elif kind=='hes':
        t=np.diff(np.concatenate([d1,d1[:1]],axis=0),axis=0) if cyc else np.diff(d1,axis=0)
    else:
        if cyc: dd=np.concatenate([d1,d1[:2]],axis=0); t=np.diff(np.diff(dd,axis=0),axis=0)
        else: t=np.diff(np.diff(d1,axis=0),axis=0)
    return l1*np.abs(t).sum()+l2*(t**2).sum()
badr=0
for trial in range(60):
    n=int(rng.randint(2,7)); units=int(rng.choice([1,2])); cyc=bool(rng.randint(2)); w=rng.randn(n,units); l1=float(rng.choice([0,0.5])); l2=float(rng.choice([0,2.0]))
    for kind,cls in (('lap',pl.LaplacianRegularizer),('hes',pl.HessianRegularizer),('wri',pl.WrinkleRegularizer)):
        if kind=='wri' and n<3: continue
        try: got=float(cls(l1,l2,cyc)(tf.constant(w)))
        except Exception as e: badr+=1; print("C13 pwl raised",kind,n,cyc,type(e).__name__,str(e)[:80]); continue
        exp=ref_reg(kind,w,l1,l2,cyc)
        if abs(got-exp)>1e-9*max(1,abs(exp)): badr+=1; print("C13 pwl mismatch",kind,n,units,cyc,l1,l2,got,exp)
print("C13 pwl bad",badr)
