import os
os.environ["TF_CPP_MIN_LOG_LEVEL"]="3"
import numpy as np, tensorflow as tf
import tensorflow_lattice as tfl
from tensorflow_lattice.python import configs, premade, premade_lib, pwl_calibration_layer as pl, categorical_calibration_layer as cl
rng=np.random.RandomState(11)
fc=[configs.FeatureConfig('a', lattice_size=2, monotonicity='increasing', pwl_calibration_input_keypoints=[0.,1.,2.]),
    configs.FeatureConfig('c', lattice_size=2, num_buckets=3, monotonicity=[(0,1),(1,2)]),
    configs.FeatureConfig('d', lattice_size=2, monotonicity='none', pwl_calibration_input_keypoints=[0.,1.])]
cfg=configs.CalibratedLatticeEnsembleConfig(feature_configs=fc, lattices='rtl_layer', num_lattices=3, lattice_rank=2, output_min=0.0, output_max=1.0, output_initialization=[0.0,1.0], random_seed=1)
m=premade.CalibratedLatticeEnsemble(cfg)
rtl=[l for l in m.layers if 'rtl' in l.name.lower()][0]
print("RTL structure (monotonicities, input idx):", rtl._rtl_structure)
worst=0
for rep in range(30):
    for v in m.trainable_variables:
        v.assign(tf.constant(rng.randn(*v.shape).astype(np.float32)*3))
    for _ in range(2):
        for v in m.trainable_variables:
            if getattr(v,'constraint',None) is not None: v.assign(v.constraint(v))
    n=200; a=rng.rand(n)*2; c=rng.randint(0,3,size=n); d=rng.rand(n)
    f=lambda cc: m([tf.constant(a.reshape(-1,1),tf.float32),tf.constant(cc.reshape(-1,1).astype(np.float32)),tf.constant(d.reshape(-1,1),tf.float32)]).numpy().ravel()
    worst=max(worst,float((f(c)-f(np.minimum(c+1,2))).max()))
print("C03 RTL categorical order worst violation:", worst)
# C05 learned interior keypoints with huge logits
L=pl.PWLCalibration(input_keypoints=[0.,1.,2.,3.], input_keypoints_type='learned_interior', units=1)
x=tf.constant([[0.],[0.5],[1.],[2.],[3.],[3.5]]); L(x)
for s in [10.,100.,1000.]:
    L.interpolation_logits.assign(tf.constant([[s,-s,0.]])); L.kernel.assign(tf.constant([[0.],[1.],[2.],[3.]]))
    print("C05 learned logits scale",s,"kp_in",L.keypoints_inputs().numpy().ravel(),"out",L(x).numpy().ravel())
# C10 categorical init with pairs
C=cl.CategoricalCalibration(num_buckets=4, output_min=0.0, output_max=1.0, monotonicities=[(0,1),(1,2),(2,3)], kernel_initializer='uniform'); C(tf.constant([[0]]))
k=C.kernel.numpy().ravel(); print("C10 categorical init kernel",k,"ordered:",bool(np.all(np.diff(k)>=0)))
try: C.assert_constraints(); print("   assert_constraints passed")
except Exception as e: print("   assert raised",type(e).__name__)
