import os, itertools, sys
os.environ["TF_CPP_MIN_LOG_LEVEL"]="3"
import numpy as np, tensorflow as tf
import tensorflow_lattice as tfl
import tf_keras as keras
from tensorflow_lattice.python import configs, premade, premade_lib
rng=np.random.RandomState(7)
def feats(lattice_size=2):
    return [
      configs.FeatureConfig('a', lattice_size=lattice_size, monotonicity='increasing', pwl_calibration_input_keypoints=[0.,1.,2.,3.], pwl_calibration_num_keypoints=4),
      configs.FeatureConfig('b', lattice_size=lattice_size, monotonicity='decreasing', pwl_calibration_input_keypoints=[-1.,0.,2.], pwl_calibration_num_keypoints=3, default_value=-5.0),
      configs.FeatureConfig('c', lattice_size=lattice_size, num_buckets=3, monotonicity=[(0,1),(1,2)]),
      configs.FeatureConfig('d', lattice_size=lattice_size, monotonicity='none', pwl_calibration_input_keypoints=[0.,1.], pwl_calibration_num_keypoints=2),
    ]
def models():
    yield "lattice", configs.CalibratedLatticeConfig(feature_configs=feats(3), output_min=-1.0, output_max=2.0, output_initialization=[-1.0,2.0])
    yield "lattice_kfl", configs.CalibratedLatticeConfig(feature_configs=feats(2), parameterization='kronecker_factored', num_terms=2, output_min=0.5, output_max=2.0, output_initialization=[0.5,2.0])
    yield "lattice_outcal", configs.CalibratedLatticeConfig(feature_configs=feats(2), output_min=1.0, output_max=3.0, output_calibration=True, output_initialization=[1.0,2.0,3.0], output_calibration_num_keypoints=3)
    yield "linear", configs.CalibratedLinearConfig(feature_configs=feats(2), output_min=1.0, output_max=3.0, output_initialization=[1.0,3.0], use_bias=False)
    yield "linear_unbounded", configs.CalibratedLinearConfig(feature_configs=feats(2), use_bias=True)
    yield "ens_explicit", configs.CalibratedLatticeEnsembleConfig(feature_configs=feats(2), lattices=[['a','b'],['c','d'],['a','c']], output_min=1.0, output_max=3.0, output_initialization=[1.0,3.0], use_linear_combination=True, use_bias=False)
    yield "ens_avg", configs.CalibratedLatticeEnsembleConfig(feature_configs=feats(2), lattices=[['a','b'],['c','d'],['a','c']], output_min=1.0, output_max=3.0, output_initialization=[1.0,3.0])
    yield "ens_rtl", configs.CalibratedLatticeEnsembleConfig(feature_configs=feats(2), lattices='rtl_layer', num_lattices=3, lattice_rank=2, output_min=1.0, output_max=3.0, output_initialization=[1.0,3.0], random_seed=3)
    yield "ens_rtl_kfl", configs.CalibratedLatticeEnsembleConfig(feature_configs=feats(2), lattices='rtl_layer', parameterization='kronecker_factored', num_lattices=3, lattice_rank=2, output_min=1.0, output_max=3.0, output_initialization=[1.0,3.0], random_seed=3)
    m=configs.CalibratedLatticeEnsembleConfig(feature_configs=feats(2), lattices='random', num_lattices=3, lattice_rank=2, output_min=1.0, output_max=3.0, output_initialization=[1.0,3.0], random_seed=3, use_linear_combination=True)
    premade_lib.set_random_lattice_ensemble(m); yield "ens_random_lincomb", m
def build(cfg):
    if isinstance(cfg,configs.CalibratedLatticeConfig): return premade.CalibratedLattice(cfg)
    if isinstance(cfg,configs.CalibratedLinearConfig): return premade.CalibratedLinear(cfg)
    return premade.CalibratedLatticeEnsemble(cfg)
def inputs(n):
    a=rng.rand(n)*5-1; b=rng.rand(n)*5-2; b[::7]=-5.0; c=rng.randint(0,3,size=n); d=rng.rand(n)*2-0.5
    return a,b,c,d
def call(model,a,b,c,d):
    return model([tf.constant(a.reshape(-1,1),tf.float32),tf.constant(b.reshape(-1,1),tf.float32),tf.constant(c.reshape(-1,1),tf.int32) if False else tf.constant(c.reshape(-1,1).astype(np.float32)),tf.constant(d.reshape(-1,1),tf.float32)]).numpy().ravel()
def check(name,model,cfg,tag):
    n=300; a,b,c,d=inputs(n); y=call(model,a,b,c,d); bad=[]
    if not np.isfinite(y).all(): bad.append("nonfinite")
    omin,omax=cfg.output_min,cfg.output_max
    if omin is not None and y.min()<omin-1e-4: bad.append("below min %g"%y.min())
    if omax is not None and y.max()>omax+1e-4: bad.append("above max %g"%y.max())
    nm=b!=-5.0
    a2=a+rng.rand(n)*2; y2=call(model,a2,b,c,d)
    if np.any(y2<y-1e-4): bad.append("not increasing in a by %g"%(y-y2).max())
    b2=b.copy(); b2[nm]=b[nm]+rng.rand(nm.sum())*2; y3=call(model,a,b2,c,d)
    if np.any(y3[nm]>y[nm]+1e-4): bad.append("not decreasing in b by %g"%(y3-y)[nm].max())
    c2=np.minimum(c+1,2); y4=call(model,a,b,c2,d)
    if np.any(y4<y-1e-4): bad.append("categorical order by %g"%(y-y4).max())
    print(name,tag,"OK" if not bad else "BAD "+"; ".join(bad))
for name,cfg in models():
    try:
        model=build(cfg)
    except Exception as e:
        print(name,"build raised",type(e).__name__,str(e)[:200]); continue
    check(name,model,cfg,"init")
    # hostile 1: random assignment then constraints
    for rep in range(3):
        for v in model.trainable_variables:
            v.assign(tf.constant(rng.randn(*v.shape).astype(np.float32)*float(rng.choice([1,10,100]))))
        for _ in range(2):
            for v in model.trainable_variables:
                if getattr(v,'constraint',None) is not None: v.assign(v.constraint(v))
        check(name,model,cfg,"hostile-assign-%d"%rep)
    # hostile 1b: all negative
    for v in model.trainable_variables: v.assign(-tf.abs(v)-1.0)
    for v in model.trainable_variables:
        if getattr(v,'constraint',None) is not None: v.assign(v.constraint(v))
    check(name,model,cfg,"all-negative")
    # hostile 2: SGD huge lr against constraints
    opt=keras.optimizers.SGD(learning_rate=50.0)
    a,b,c,d=inputs(64)
    xs=[tf.constant(a.reshape(-1,1),tf.float32),tf.constant(b.reshape(-1,1),tf.float32),tf.constant(c.reshape(-1,1).astype(np.float32)),tf.constant(d.reshape(-1,1),tf.float32)]
    target=tf.constant((-3*a+3*b-2*c).reshape(-1,1)*10,tf.float32)
    for step in range(5):
        with tf.GradientTape() as tape: loss=tf.reduce_mean((model(xs)-target)**2)
        g=tape.gradient(loss,model.trainable_variables); opt.apply_gradients([(gg,v) for gg,v in zip(g,model.trainable_variables) if gg is not None])
    check(name,model,cfg,"sgd-hostile")
