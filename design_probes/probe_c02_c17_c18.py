import os, itertools, sys
os.environ["TF_CPP_MIN_LOG_LEVEL"]="3"
import numpy as np, tensorflow as tf
import tensorflow_lattice as tfl
from tensorflow_lattice.python import lattice_lib as LL, pwl_calibration_layer as pl, categorical_calibration_layer as cl, rtl_layer, premade_lib, configs, conditional_pwl_calibration as cpc, conditional_cdf, cdf_layer
rng=np.random.RandomState(3)
# ---------- C02: reference multilinear and simplex
def ref_hyper(x,K,sizes):
    x=np.clip(x,0,np.array(sizes)-1.0); out=0
    for idx in itertools.product(*[range(s) for s in sizes]):
        w=np.prod([max(0,1-abs(x[d]-idx[d])) for d in range(len(sizes))]); out+=w*K[np.ravel_multi_index(idx,sizes)]
    return out
def ref_simplex(x,K,sizes):
    x=np.clip(x,0,np.array(sizes)-1.0); lo=np.minimum(np.floor(x).astype(int),np.array(sizes)-2); r=x-lo
    order=np.argsort(-r,kind='stable'); rs=r[order]; w=np.concatenate([[1-rs[0]],rs[:-1]-rs[1:],[rs[-1]]])
    v=lo.copy(); out=w[0]*K[np.ravel_multi_index(v,sizes)]
    for k,d in enumerate(order): v=v.copy(); v[d]+=1; out+=w[k+1]*K[np.ravel_multi_index(v,sizes)]
    return out
bad=0; tot=0
for trial in range(120):
    nd=rng.randint(1,5); sizes=[int(rng.choice([2,2,3,4])) for _ in range(nd)]
    if trial%10==0: sizes=[2]*nd
    units=int(rng.choice([1,2])); K=rng.randint(-4,5,size=(int(np.prod(sizes)),units)).astype(np.float64)
    pts=[]
    for _ in range(6):
        kind=rng.randint(4)
        if kind==0: p=rng.rand(nd)*(np.array(sizes)-1)
        elif kind==1: p=rng.randint(0,np.array(sizes)).astype(float)
        elif kind==2: p=rng.randint(0,2*(np.array(sizes)-1)+1)/2.0
        else: p=rng.randn(nd)*3
        pts.append(p)
    X=np.array(pts)
    Xin = X if units==1 else np.repeat(X[:,None,:],units,axis=1)
    for interp,fn,ref in (("hyper",LL.evaluate_with_hypercube_interpolation,ref_hyper),("simplex",LL.evaluate_with_simplex_interpolation,ref_simplex)):
        for as_list in (False,True):
            inp = tf.constant(Xin) if not as_list else [tf.constant(Xin[...,d:d+1]) for d in range(nd)]
            out=fn(inp,tf.constant(K),units,sizes,True).numpy()
            for b in range(len(pts)):
                for u in range(units):
                    r=ref(X[b],K[:,u],sizes); tot+=1
                    if abs(out[b,u]-r)>1e-9: bad+=1; print("C02 mismatch",interp,as_list,sizes,units,X[b],out[b,u],r)
print("C02 evals",tot,"bad",bad)
# simplex monotonicity all pairs along an axis, for kernel monotone along that axis only
badm=0
for trial in range(200):
    nd=rng.randint(2,5); sizes=[int(rng.choice([2,3])) for _ in range(nd)]; d=rng.randint(nd)
    K=rng.randn(*sizes); K=np.sort(K,axis=d).reshape(-1,1)
    p=rng.rand(nd)*(np.array(sizes)-1); q=p.copy(); q[d]=p[d]+rng.rand()*(sizes[d]-1-p[d])
    if rng.rand()<0.3: p[rng.randint(nd)]=p[d]   # ties
    a=LL.evaluate_with_simplex_interpolation(tf.constant([p,q]),tf.constant(K),1,sizes,True).numpy().ravel()
    if a[1]<a[0]-1e-9: badm+=1; print("C02 simplex nonmonotone",sizes,d,p,q,a)
print("C02 simplex mono bad",badm)
# ---------- C17 RTL structure invariants
badr=0
for trial in range(200):
    n_inc=rng.randint(0,5); n_un=rng.randint(0,5)
    if n_inc+n_un==0: continue
    rank=rng.randint(2,4); nl=rng.randint(1,8); seed=int(rng.randint(1000))
    if nl*rank < n_inc+n_un: continue
    shape={}
    if n_inc: shape['increasing']=(None,n_inc)
    if n_un: shape['unconstrained']=(None,n_un)
    L=rtl_layer.RTL(num_lattices=nl,lattice_rank=rank,random_seed=seed,avoid_intragroup_interaction=bool(rng.randint(2)))
    st=L._get_rtl_structure(shape); st2=L._get_rtl_structure(shape)
    cnt=np.zeros(n_inc+n_un,int); ok=(st==st2); nlat=0
    for mono,lats in st:
        for lat in lats:
            nlat+=1; ok&=(len(lat)==rank==len(mono))
            for pos,i in enumerate(lat):
                cnt[i]+=1; is_inc = i < n_inc   # sorted keys: 'increasing' first
                ok&=(mono[pos]==(1 if is_inc else 0))
    ok&=(nlat==nl) and cnt.min()>=1 and cnt.max()-cnt.min()<=1
    if not ok: badr+=1; print("C17 RTL bad", n_inc,n_un,rank,nl,seed,st,cnt)
print("C17 RTL bad",badr)
# random ensemble
bade=0
for trial in range(200):
    n=rng.randint(2,8); rank=rng.randint(2,min(n,4)+1); nl=rng.randint(1,8)
    if nl*rank<n: continue
    fc=[configs.FeatureConfig('f%d'%i) for i in range(n)]
    mc=configs.CalibratedLatticeEnsembleConfig(feature_configs=fc,lattices='random',num_lattices=nl,lattice_rank=rank,random_seed=int(rng.randint(1000)))
    try: premade_lib.set_random_lattice_ensemble(mc)
    except Exception as e: bade+=1; print("C17 random raised",n,rank,nl,type(e).__name__,e); continue
    used=set(); ok=True
    for lat in mc.lattices: ok&=(len(lat)==rank and len(set(lat))==rank); used|=set(lat)
    ok&=(len(used)==n)
    if not ok: bade+=1; print("C17 random bad",n,rank,nl,mc.lattices)
print("C17 random ensemble bad",bade)
# pair cover
badp=0
for trial in range(100):
    n=rng.randint(3,9); rank=rng.randint(2,5)
    class PC: pass
    pcfg=PC(); pcfg.random_seed=int(rng.randint(100)); pcfg.lattice_rank=rank
    names=['f%d'%i for i in range(n)]
    premade_lib._set_all_pairs_cover_lattices(pcfg,names)
    for a,b in itertools.combinations(names,2):
        if not any(a in l and b in l for l in pcfg.lattices): badp+=1; print("C17 pair uncovered",n,rank,a,b)
    if any(len(l)>rank for l in pcfg.lattices): badp+=1; print("C17 cover oversize")
print("C17 pair cover bad",badp)
# ---------- C18 keypoints weighted mode + uniform
badk=0
for trial in range(300):
    n=rng.randint(1,40); vals=rng.choice([rng.randint(0,4,size=n).astype(float), rng.randn(n), np.round(rng.exponential(size=n),1)][rng.randint(3)] if False else None) if False else None
    kind=rng.randint(3)
    vals=[rng.randint(0,4,size=n).astype(float), rng.randn(n), np.round(rng.exponential(size=n),1)][kind]
    k=rng.randint(2,8); wts=rng.choice([None,'ones','rand'])
    w=None if wts is None else (np.ones(n) if wts=='ones' else rng.rand(n)+0.01)
    cmin=rng.choice([None,0.5]); cmax=rng.choice([None,2.5]); mode=rng.choice(['quantiles','uniform'])
    if w is None and mode=='quantiles': continue   # known F-C18-a
    try: kp=premade_lib.compute_keypoints(vals,k,keypoints=mode,clip_min=cmin,clip_max=cmax,weights=w,weight_reduction=rng.choice(['mean','sum']))
    except Exception as e: badk+=1; print("C18 raised",type(e).__name__,e,dict(n=n,k=k,mode=mode,cmin=cmin,cmax=cmax,w=wts)); continue
    cv=vals.copy()
    if cmin is not None: cv=np.append(np.maximum(cv,cmin),cmin)
    if cmax is not None: cv=np.append(np.minimum(cv,cmax),cmax)
    d=np.unique(cv)
    ok=True
    if len(d)>=2: ok&=bool(np.all(np.diff(kp)>0))
    ok&= abs(kp[0]-d[0])<1e-12 and abs(kp[-1]-d[-1])<1e-12
    if mode=='quantiles': ok&=(len(kp)==min(k,len(d)))
    else: ok&=(len(kp)==k)
    if not ok: badk+=1; print("C18 bad",dict(n=n,k=k,mode=mode,cmin=cmin,cmax=cmax,w=wts),kp,d)
print("C18 bad",badk)
