import os, json, traceback
os.environ["TF_CPP_MIN_LOG_LEVEL"]="3"
import numpy as np, tensorflow as tf
import tensorflow_lattice as tfl
from tensorflow_lattice.python import (lattice_layer as ll, pwl_calibration_layer as pl, linear_layer as lin,
  categorical_calibration_layer as cl, kronecker_factored_lattice_layer as kl, cdf_layer, rtl_layer, parallel_combination_layer as pc,
  aggregation_layer, configs, premade, pwl_calibration_lib as plib)
co = premade.get_custom_objects()
def canon(x):
    return json.loads(json.dumps(x, default=lambda o: repr(o), sort_keys=True))
def rt(name, obj, via_json=False):
    try:
        cfg = obj.get_config()
        cfg_in = json.loads(json.dumps(cfg, default=lambda o: (_ for _ in ()).throw(TypeError("not json: %r"%(o,))))) if via_json else cfg
        with tf.keras.utils.custom_object_scope(co) if False else __import__('contextlib').nullcontext():
            import tf_keras
            with tf_keras.utils.custom_object_scope(co):
                obj2 = type(obj).from_config(cfg_in)
        cfg2 = obj2.get_config()
        same = canon(cfg)==canon(cfg2)
        print(("OK  " if same else "DIFF"), name, "json" if via_json else "", "" if same else {k:(cfg.get(k),cfg2.get(k)) for k in set(cfg)|set(cfg2) if canon(cfg.get(k))!=canon(cfg2.get(k))})
        return obj2
    except Exception as e:
        print("FAIL", name, "json" if via_json else "", type(e).__name__, str(e).splitlines()[0][:160])
cases = {
 "Lattice": lambda: ll.Lattice(lattice_sizes=[2,3,2], units=2, monotonicities=['increasing','none',1], unimodalities=None, edgeworth_trusts=(0,1,'positive'), trapezoid_trusts=[(2,1,-1)], monotonic_dominances=(0,2), range_dominances=[(2,0)] and None, joint_monotonicities=None, joint_unimodalities=None, output_min=-1.0, output_max=2.0, num_projection_iterations=3, monotonic_at_every_step=False, clip_inputs=False, interpolation='simplex', kernel_initializer='random_monotonic_initializer', kernel_regularizer=[('torsion',0.1,0.2),('laplacian',[0.1,0.2,0.3],0.0)]),
 "Lattice_junimod": lambda: ll.Lattice(lattice_sizes=[3,3], joint_unimodalities=([0,1],'peak'), kernel_initializer='random_uniform_or_linear_initializer'),
 "LinearInitializer": lambda: ll.LinearInitializer([2,3],[1,0],0.0,1.0,unimodalities=[0,'valley']),
 "RandomMonotonicInitializer": lambda: ll.RandomMonotonicInitializer([2,3],0.0,1.0,unimodalities=[0,1]),
 "LatticeConstraints": lambda: ll.LatticeConstraints([2,3],monotonicities=[1,0],edgeworth_trusts=[(0,1,1)],trapezoid_trusts=[(0,1,'positive')],monotonic_dominances=None,output_min=0.0,output_max=1.0,num_projection_iterations=4,enforce_strict_monotonicity=False),
 "TorsionRegularizer": lambda: ll.TorsionRegularizer([2,3],l1=[0.1,0.2],l2=0.3),
 "LaplacianRegularizer": lambda: ll.LaplacianRegularizer([2,3],l1=[0.1,0.2],l2=0.3),
 "PWLCalibration": lambda: pl.PWLCalibration(input_keypoints=[0.,1.,3.], units=2, output_min=0.0, output_max=2.0, clamp_min=True, clamp_max=True, monotonicity='decreasing', convexity='concave', is_cyclic=False, kernel_initializer='equal_slopes', kernel_regularizer=[('hessian',0.1,0.2),('wrinkle',0.0,0.1),('laplacian',0.3,0.0)], impute_missing=True, missing_input_value=-1.0, missing_output_value=0.5, num_projection_iterations=3, split_outputs=True, input_keypoints_type='fixed'),
 "PWLCalibration_learned": lambda: pl.PWLCalibration(input_keypoints=np.array([0.,1.,3.]), input_keypoints_type='learned_interior', is_cyclic=False),
 "PWLCalibration_cyclic": lambda: pl.PWLCalibration(input_keypoints=[0.,1.,3.], is_cyclic=True, kernel_regularizer=('laplacian',0.1,0.0)),
 "UniformOutputInitializer": lambda: pl.UniformOutputInitializer(0.0,1.0,'decreasing',keypoints=[0.,1.,3.]),
 "PWLCalibrationConstraints": lambda: pl.PWLCalibrationConstraints(monotonicity='increasing',convexity='convex',lengths=[1.0,2.0],output_min=0.0,output_max=1.0,output_min_constraints=plib.BoundConstraintsType.CLAMPED,output_max_constraints=plib.BoundConstraintsType.BOUND,num_projection_iterations=5),
 "NaiveBoundsConstraints": lambda: pl.NaiveBoundsConstraints(0.0,1.0),
 "PWL.LaplacianRegularizer": lambda: pl.LaplacianRegularizer(0.1,0.2,True),
 "PWL.HessianRegularizer": lambda: pl.HessianRegularizer(0.1,0.2,True),
 "PWL.WrinkleRegularizer": lambda: pl.WrinkleRegularizer(0.1,0.2,True),
 "Linear": lambda: lin.Linear(num_input_dims=3, units=2, monotonicities=['increasing',1,'decreasing'], monotonic_dominances=[(0,1)], range_dominances=None, input_min=[0.0,None,-1.0], input_max=[1.0,'none',2.0], use_bias=False, normalization_order=2, kernel_initializer='ones', kernel_regularizer=tf.keras.regularizers.l2(0.1) if False else None),
 "Linear_range": lambda: lin.Linear(num_input_dims=2, monotonicities=[1,1], range_dominances=[(0,1)], input_min=[0.0,0.0], input_max=[1.0,2.0], use_bias=True, bias_initializer='ones'),
 "LinearConstraints": lambda: lin.LinearConstraints([1,1,0], monotonic_dominances=[(0,1)], input_min=[0.0,0.0,None], input_max=[1.0,1.0,None], normalization_order=1),
 "CategoricalCalibration": lambda: cl.CategoricalCalibration(num_buckets=4, units=2, output_min=0.0, output_max=1.0, monotonicities=[(0,1),(1,3)], kernel_initializer='constant', default_input_value=-1, split_outputs=True),
 "CategoricalCalibrationConstraints": lambda: cl.CategoricalCalibrationConstraints(0.0,1.0,[(0,1)]),
 "KFL": lambda: kl.KroneckerFactoredLattice(lattice_sizes=3, units=2, num_terms=3, monotonicities=[1,0], output_min=0.0, output_max=1.0, clip_inputs=False, kernel_initializer='kfl_random_monotonic_initializer', scale_initializer='scale_initializer'),
 "KFLRandomMonotonicInitializer": lambda: kl.KFLRandomMonotonicInitializer([1,0],0.1,0.9,seed=3),
 "ScaleInitializer": lambda: kl.ScaleInitializer(0.0,1.0),
 "BiasInitializer": lambda: kl.BiasInitializer(0.0,1.0),
 "ScaleConstraints": lambda: kl.ScaleConstraints(0.0,1.0),
 "CDF": lambda: cdf_layer.CDF(num_keypoints=4, units=2, activation='sigmoid', reduction='geometric_mean', input_scaling_init=2.0, input_scaling_type='learned_per_input', input_scaling_monotonicity='none', sparsity_factor=2, kernel_initializer='random_uniform'),
 "RTL": lambda: rtl_layer.RTL(num_lattices=3, lattice_rank=2, lattice_size=3, output_min=0.0, output_max=1.0, init_min=0.2, init_max=0.8, separate_outputs=True, random_seed=7, num_projection_iterations=3, monotonic_at_every_step=False, clip_inputs=False, interpolation='simplex', parameterization='all_vertices', num_terms=2, avoid_intragroup_interaction=False, kernel_initializer='linear_initializer', kernel_regularizer=[('torsion',0.1,0.2)] and ['torsion',0.1,0.2], average_outputs=False),
 "ParallelCombination": lambda: pc.ParallelCombination([pl.PWLCalibration(input_keypoints=[0.,1.]), cl.CategoricalCalibration(num_buckets=3)], single_output=False),
 "FeatureConfig": lambda: configs.FeatureConfig('f', is_missing_name='m', default_value=-1.0, lattice_size=3, monotonicity='increasing', unimodality='valley', reflects_trust_in=[configs.TrustConfig('g','trapezoid','negative')], dominates=[configs.DominanceConfig('h')], pwl_calibration_always_monotonic=True, pwl_calibration_convexity=1, pwl_calibration_num_keypoints=5, pwl_calibration_input_keypoints='uniform', pwl_calibration_input_keypoints_type='learned_interior', pwl_calibration_clip_min=0.0, pwl_calibration_clip_max=1.0, pwl_calibration_clamp_min=True, pwl_calibration_clamp_max=True, num_buckets=None, vocabulary_list=None, regularizer_configs=[configs.RegularizerConfig('calib_hessian',0.1,0.2)]),
 "CalibratedLatticeConfig": lambda: configs.CalibratedLatticeConfig(feature_configs=[configs.FeatureConfig('a'),configs.FeatureConfig('b')], interpolation='simplex', parameterization='kronecker_factored', num_terms=3, regularizer_configs=[configs.RegularizerConfig('torsion',0.1,0.0)], output_min=0.0, output_max=1.0, output_calibration=True, output_calibration_num_keypoints=5, output_initialization='uniform', output_calibration_input_keypoints_type='learned_interior', fix_ensemble_for_2d_constraints=False if False else None, random_seed=3) if False else configs.CalibratedLatticeConfig(feature_configs=[configs.FeatureConfig('a'),configs.FeatureConfig('b')], interpolation='simplex', parameterization='kronecker_factored', num_terms=3, output_min=0.0, output_max=1.0, output_calibration=True, output_calibration_num_keypoints=5, output_initialization='uniform', random_seed=3),
 "CalibratedLinearConfig": lambda: configs.CalibratedLinearConfig(feature_configs=[configs.FeatureConfig('a')], use_bias=False, output_min=0.0, output_max=1.0, output_calibration=True, output_initialization=[0.0,0.5,1.0]),
 "CalibratedLatticeEnsembleConfig": lambda: configs.CalibratedLatticeEnsembleConfig(feature_configs=[configs.FeatureConfig('a'),configs.FeatureConfig('b'),configs.FeatureConfig('c')], lattices=[['a','b'],['b','c']], num_lattices=2, lattice_rank=2, separate_calibrators=False, use_linear_combination=True, use_bias=True, output_min=None, output_max=None, random_seed=5),
 "AggregateFunctionConfig": lambda: configs.AggregateFunctionConfig(feature_configs=[configs.FeatureConfig('a')], middle_dimension=3, middle_lattice_size=3, middle_calibration=True, middle_monotonicity='increasing', aggregation_lattice_interpolation='simplex', output_min=0.0, output_max=1.0),
}
for name, mk in cases.items():
    try: obj = mk()
    except Exception as e:
        print("CTOR", name, type(e).__name__, str(e).splitlines()[0][:200]); continue
    rt(name, obj); rt(name, obj, via_json=True)
