import os, sys, collections, itertools
os.environ["TF_CPP_MIN_LOG_LEVEL"]="3"
import numpy as np, tensorflow as tf
import tensorflow_lattice as tfl
from tensorflow_lattice.python import pwl_calibration_layer as pl, pwl_calibration_lib as plib, linear_lib, categorical_calibration_lib as ccl, kronecker_factored_lattice_lib as kfl, cdf_layer, lattice_layer as ll
rng=np.random.RandomState(17)
B=plib.BoundConstraintsType
bad=collections.Counter()
# PWL per-unit
for t in range(150):
    nk=int(rng.randint(2,6)); units=3; mono=int(rng.choice([-1,0,1])); conv=int(rng.choice([-1,0,1]))
    bm=rng.randint(4); omin=None if bm in (0,2) else 0.0; omax=None if bm in (0,1) else 1.0
    cmn=B.NONE if omin is None else (B.CLAMPED if (mono!=0 and rng.rand()<.5) else B.BOUND); cmx=B.NONE if omax is None else (B.CLAMPED if (mono!=0 and rng.rand()<.5) else B.BOUND)
    lens=tf.constant(rng.choice([0.5,1.,2.],size=nk-1)); w=rng.randn(nk,units)*np.array([1.,50.,0.02])
    try:
        full=plib.project_all_constraints(tf.constant(w),mono,omin if omin is not None else 0.0,omax if omax is not None else 0.0,cmn,cmx,conv,lens,int(rng.choice([1,8]))).numpy()
    except ValueError: continue
    for u in range(units):
        single=plib.project_all_constraints(tf.constant(w[:,u:u+1]),mono,omin if omin is not None else 0.0,omax if omax is not None else 0.0,cmn,cmx,conv,lens,8 if False else None or 8).numpy() if False else None
    # redo with same iteration count
for t in range(150):
    nk=int(rng.randint(2,6)); units=3; mono=int(rng.choice([-1,0,1])); conv=int(rng.choice([-1,0,1])); it=int(rng.choice([1,8]))
    bm=rng.randint(4); omin=None if bm in (0,2) else 0.0; omax=None if bm in (0,1) else 1.0
    cmn=B.NONE if omin is None else (B.CLAMPED if (mono!=0 and rng.rand()<.5) else B.BOUND); cmx=B.NONE if omax is None else (B.CLAMPED if (mono!=0 and rng.rand()<.5) else B.BOUND)
    lens=tf.constant(rng.choice([0.5,1.,2.],size=nk-1)); w=rng.randn(nk,units)*np.array([1.,50.,0.02])
    f=lambda ww: plib.project_all_constraints(tf.constant(ww),mono,omin if omin is not None else 0.0,omax if omax is not None else 0.0,cmn,cmx,conv,lens,it).numpy()
    try: full=f(w)
    except ValueError: continue
    for u in range(units):
        if np.abs(full[:,u:u+1]-f(w[:,u:u+1])).max()>1e-9*max(1,np.abs(w[:,u]).max()): bad["pwl"]+=1
# Linear per-unit
for t in range(100):
    n=4; w=rng.randn(n,3)*np.array([1.,50.,0.02]); no=rng.choice([None,1,2])
    f=lambda ww: linear_lib.project(tf.constant(ww),[1,1,-1,0],[(0,1)],None,None,None,no).numpy()
    full=f(w)
    for u in range(3):
        if np.abs(full[:,u:u+1]-f(w[:,u:u+1])).max()>1e-9*max(1,np.abs(w[:,u]).max()): bad["linear"]+=1
# categorical per-unit
for t in range(100):
    w=rng.randn(5,3)*np.array([1.,50.,0.02]); f=lambda ww: ccl.project(tf.constant(ww),-1.0,1.0,[(0,1),(1,2),(0,3),(3,4)]).numpy(); full=f(w)
    for u in range(3):
        if np.abs(full[:,u:u+1]-f(w[:,u:u+1])).max()>1e-12: bad["categorical"]+=1
# KFL per-unit (weights finalize)
for t in range(100):
    ls,dims,terms,units=3,2,2,3
    k=rng.randn(1,ls,units*dims,terms).astype(np.float32); s=rng.randn(units,terms).astype(np.float32)
    full=kfl.finalize_weight_constraints(tf.constant(k),units,tf.constant(s),[1,0],0.0,1.0).numpy().reshape(ls,units,dims,terms)
    for u in range(units):
        ku=k.reshape(1,ls,units,dims,terms)[:,:,u].reshape(1,ls,dims,terms)
        single=kfl.finalize_weight_constraints(tf.constant(ku),1,tf.constant(s[u:u+1]),[1,0],0.0,1.0).numpy().reshape(ls,dims,terms)
        if np.abs(full[:,u]-single).max()>1e-6: bad["kfl"]+=1
# batch independence CDF, Lattice
L=cdf_layer.CDF(num_keypoints=3,units=4,sparsity_factor=2,reduction='geometric_mean'); x=rng.randn(6,4).astype(np.float32); y=L(tf.constant(x)).numpy()
for i in range(6):
    if np.abs(L(tf.constant(x[i:i+1])).numpy()-y[i:i+1]).max()>1e-6: bad["cdf_batch"]+=1
perm=rng.permutation(6)
if np.abs(L(tf.constant(x[perm])).numpy()-y[perm]).max()>1e-6: bad["cdf_perm"]+=1
print("C09 bad:",dict(bad))
