# float simulation of the model's Dykstra loop with range dominance (+ optional monotonicity):
# does the largest violation tend to zero although two corner steps are oblique?
import numpy as np, itertools, sys
def rd_step(w, M, N, i, j):
    w = w.copy()
    d = (w[i,N-1]-w[i,0]) - (w[M-1,j]-w[0,j])
    if (i in (0,M-1)) and (j in (0,N-1)):
        c = max(d/2,0)
        if i==0: w[M-1,j]+=c
        else: w[0,j]-=c
        if j==0: w[i,N-1]-=c
        else: w[i,0]+=c
    else:
        c = max(d/4,0)
        w[i,N-1]-=c; w[i,0]+=c; w[M-1,j]+=c; w[0,j]-=c
    return w
def mono_step(w, axis, g):
    w = w.copy(); n = w.shape[axis]
    for k in range(g, n-1, 2):
        a = np.take(w,k,axis); b = np.take(w,k+1,axis); avg=(a+b)/2
        lo = np.minimum(a,avg); hi = np.maximum(b,avg)
        if axis==0: w[k,:]=lo; w[k+1,:]=hi
        else: w[:,k]=lo; w[:,k+1]=hi
    return w
def viol(w,M,N,mono):
    v=0.
    for i in range(M):
        for j in range(N):
            v=max(v,(w[i,N-1]-w[i,0])-(w[M-1,j]-w[0,j]))
    if mono:
        v=max(v,(w[:-1,:]-w[1:,:]).max(),(w[:,:-1]-w[:,1:]).max())
    return v
def run(w0,M,N,mono,iters):
    groups=[]
    if mono:
        for ax in (0,1):
            for g in (0,1):
                if g+1 < (M,N)[ax]: groups.append(lambda w,ax=ax,g=g: mono_step(w,ax,g))
    for i in range(M):
        for j in range(N):
            groups.append(lambda w,i=i,j=j: rd_step(w,M,N,i,j))
    last=[np.zeros_like(w0) for _ in groups]; w=w0.copy(); hist=[]
    for it in range(iters):
        for gi,G in enumerate(groups):
            r = w-last[gi]; w2=G(r); last[gi]=w2-r; w=w2
        hist.append(viol(w,M,N,mono))
    return w,hist
rng=np.random.default_rng(int(sys.argv[1]) if len(sys.argv)>1 else 0)
worst=(0,None)
for t in range(400):
    M,N=rng.integers(2,5,size=2); mono=bool(rng.integers(0,2))
    w0=rng.integers(-8,9,size=(M,N)).astype(float)
    w,h=run(w0,M,N,mono,400)
    tailv=max(h[-20:])
    if tailv>worst[0]: worst=(tailv,(M,N,mono,w0.tolist(),h[::50]))
print("worst tail violation over 400 random cases, 400 iterations:",worst)
