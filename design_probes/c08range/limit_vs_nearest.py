# is the limit of the real loop with range dominance the Euclidean-nearest feasible kernel? (not claimed by C08)
import numpy as np, tensorflow as tf
from scipy.optimize import minimize
from tensorflow_lattice.python import lattice_lib as ll
M=N=2
def cons(M,N):
    rows=[]
    for i in range(M):
        for j in range(N):
            a=np.zeros((M,N)); a[i,N-1]+=1; a[i,0]-=1; a[M-1,j]-=1; a[0,j]+=1
            rows.append(a.ravel())
    return np.array(rows)
A=cons(M,N)
for w0 in ([0.,1.,0.,0.],[0.,0.,-1.,0.],[3.,-2.,5.,1.]):
    w0=np.array(w0)
    o=ll.project_by_dykstra(tf.constant(w0.reshape(-1,1),dtype=tf.float64),[M,N],range_dominances=[(0,1)],num_iterations=3000).numpy().ravel()
    r=minimize(lambda x:((x-w0)**2).sum(),o,constraints=[{'type':'ineq','fun':lambda x:-A@x}],method='SLSQP',options={'ftol':1e-14,'maxiter':500})
    print("w0",w0.tolist(),"dykstra",np.round(o,6).tolist(),"viol",float((A@o).max()),"| nearest",np.round(r.x,6).tolist(),
          "| dist2 dykstra",round(float(((o-w0)**2).sum()),6),"nearest",round(float(((r.x-w0)**2).sum()),6))
