import numpy as np, tensorflow as tf
from tensorflow_lattice.python import lattice_lib as ll
for w0 in ([0.,1.,0.,0.],):
    for n in (1,2,3,4,5,10,50):
        o=ll.project_by_dykstra(tf.constant(np.array(w0).reshape(-1,1),dtype=tf.float64),[2,2],range_dominances=[(0,1)],num_iterations=n).numpy().ravel()
        print("n",n,o.tolist())
