import numpy as np, itertools, sys
import tensorflow as tf
from tensorflow_lattice.python import lattice_lib as ll
np.set_printoptions(precision=6, suppress=True)
# 1. witness replay on the real group function
w = tf.constant(np.array([[0.,1.],[0.,0.]]), dtype=tf.float64)
out = ll._project_partial_range_dominance(w, [2,2], (0,1), (0,1)).numpy()
print("witness (0,1) corner:", out.ravel().tolist())
w2 = tf.constant(np.array([[0.,0.],[-1.,0.]]), dtype=tf.float64)
out2 = ll._project_partial_range_dominance(w2, [2,2], (0,1), (1,0)).numpy()
print("witness (1,0) corner:", out2.ravel().tolist())
def viol(w, M, N):
    v = 0.
    for i in range(M):
        for j in range(N):
            v = max(v, (w[i,N-1]-w[i,0]) - (w[M-1,j]-w[0,j]))
    return v
rng = np.random.default_rng(0)
for (M,N) in [(2,2),(3,2),(2,3),(3,3)]:
    for mono in [None, [1,1]]:
        worst = 0
        for t in range(6):
            w0 = rng.integers(-8,9,size=(M,N)).astype(float)
            res = []
            for it in [1,10,100,1000]:
                o = ll.project_by_dykstra(tf.constant(w0.reshape(-1,1),dtype=tf.float64),[M,N],monotonicities=mono,range_dominances=[(0,1)],num_iterations=it).numpy().reshape(M,N)
                res.append((it, viol(o,M,N)))
            print(M,N,mono,w0.ravel().tolist(),[(a,round(b,8)) for a,b in res])
