"""Inputs with zero columns (input_dim = 0): division by the number of inputs."""
from _common import *
import tensorflow as tf, tensorflow_lattice as tfl
from tensorflow_lattice.python import conditional_cdf
expect_finite("RTL on a (batch,0) input: total_usage // len(rtl_inputs)", lambda: tfl.layers.RTL(num_lattices=2, lattice_rank=2)(tf.zeros((2, 0))))
expect_finite("CDF on a (batch,0) input: mean over no inputs", lambda: tfl.layers.CDF(num_keypoints=3)(tf.zeros((2, 0))))
expect_finite("cdf_fn on a (batch,0) input", lambda: conditional_cdf.cdf_fn(tf.zeros((2, 0)), tf.zeros((1, 0, 3, 1))))
expect_finite("KFL on a (batch,0) input: pow(., 1/dims)", lambda: tfl.layers.KroneckerFactoredLattice(lattice_sizes=2, output_min=0., output_max=1.)(tf.zeros((2, 0))))
done()
