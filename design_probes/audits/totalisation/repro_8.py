"""Lean model of linear_lib.project is stale w.r.t. fix 44c9e89: Model/Linear.lean `scalings` still scales EVERY
dimension by (input_max - input_min); a dimension outside the range dominances with a zero range is
multiplied by 0 and divided by 0 (= 0 in Rat) -> model weight 0, real weight unchanged. No generator of
C06 draws input_min == input_max (hi = lo + positive), and the theorems assume `hsc: all scalings != 0`."""
from _common import *
import tensorflow as tf, tensorflow_lattice as tfl
l = tfl.layers.Linear(num_input_dims=3, monotonicities=[1, 1, 0], range_dominances=[(0, 1)], input_min=[0., 0., 5.], input_max=[1., 2., 5.])
l.build((None, 3)); l.kernel.assign([[1.], [2.], [7.]])
real = l.kernel.constraint(l.kernel).numpy().ravel().tolist()
m = driver(["lin.project 1,1,0 _ 0,1 0,0,5 1,2,5 none 1,2,7"])
print("real :", real)
print("model:", m)
if m is not None:
    mod = [float(__import__("fractions").Fraction(t)) for t in m[0].split()[0].split(",")]
    if any(abs(a - b) > 1e-6 for a, b in zip(real, mod)):
        BAD.append("model != real on zero-range dimension outside the dominance")
done()
