"""default_keypoint_input_parameters: keypoints with fewer than 2 entries -> deltas empty, np.all([]) is True,
deltas[0] -> IndexError; non-increasing keypoints silently return None."""
from _common import *
from tensorflow_lattice.python import conditional_pwl_calibration as cpc
for kp in ([1.0], []):
    try:
        print(kp, cpc.default_keypoint_input_parameters(keypoints=kp))
    except ValueError as e:
        print(kp, "ValueError", e)
    except Exception as e:
        print(kp, "DEFECT", type(e).__name__, e); BAD.append(str(kp))
r = cpc.default_keypoint_input_parameters(keypoints=[0., 0., 1.])
print("[0,0,1] ->", r)
if r is None:
    BAD.append("non-increasing keypoints return None silently")
done()
