"""_weighted_quantile with negative weights whose sum is 0: model = IndexError (rsum ws = 0 and 2 < k), real = a result.
No theorem hypothesis excludes negative weights; the generator only draws weights >= 0."""
from _common import *
from tensorflow_lattice.python import premade_lib
A = np.array
try:
    r = list(premade_lib.compute_keypoints(A([1., 2., 3., 4.]), 3, weights=A([1., -1., 1., -1.])))
except Exception as e:
    r = type(e).__name__
m = driver(["kp.compute 1,2,3,4 3 quantiles none none none 1,-1,1,-1 mean _"])
print("real:", r, "model:", m)
if m is not None and (isinstance(r, str)) != m[0].startswith("ERR"):
    BAD.append("model and code disagree on weights summing to 0 through cancellation")
done()
