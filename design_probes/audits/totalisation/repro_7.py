"""compute_keypoints with num_keypoints < 2 (nothing validates it; every C18 theorem assumes 2 <= k and
the generator draws k in 2..10). k = 0 with weights: quantiles_idx[0] = 0 on an empty array -> IndexError,
while the Lean model answers `ok []` (forceEnds: `idx.length - 1` truncates to 0, List.set on [] is a no-op)."""
from _common import *
from tensorflow_lattice.python import premade_lib
A = np.array
def chk(name, fn, model_line):
    try:
        r = ("ok", list(fn()))
    except Exception as e:
        r = ("raises", type(e).__name__)
    m = driver([model_line])
    print(name, "real:", r, "model:", m)
    if r[0] == "raises" and r[1] != "ValueError":
        BAD.append(name)
    if m is not None and (r[0] == "raises") != m[0].startswith("ERR"):
        BAD.append(name + " (model disagrees)")
chk("k=0 weighted", lambda: premade_lib.compute_keypoints(A([1., 2., 3.]), 0, weights=A([1., 1., 1.])), "kp.compute 1,2,3 0 quantiles none none none 1,1,1 mean _")
chk("k=0, empty data, unweighted", lambda: premade_lib.compute_keypoints(A([]), 0), "kp.compute _ 0 quantiles none none none none mean _")
chk("k=1 weighted (returns the MAX, unweighted returns the MIN)", lambda: premade_lib.compute_keypoints(A([1., 2., 3.]), 1, weights=A([1., 1., 1.])), "kp.compute 1,2,3 1 quantiles none none none 1,1,1 mean _")
done()
