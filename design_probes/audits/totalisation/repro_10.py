"""CategoricalCalibration never verifies num_buckets: 0 is accepted, every input (also default_input_value ->
bucket -1) maps to 0.0 whatever output_min/output_max say. Theorems assume `k != []`."""
from _common import *
import tensorflow as tf, tensorflow_lattice as tfl
l = tfl.layers.CategoricalCalibration(num_buckets=0, output_min=1., output_max=2., default_input_value=-1)
y = l(tf.constant([[0], [-1]])).numpy().ravel()
print("outputs", y, "bounds [1,2]")
if (y < 1).any() or (y > 2).any():
    BAD.append("num_buckets=0 output outside bounds")
done()
