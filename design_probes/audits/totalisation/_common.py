import os, sys, warnings, subprocess
os.environ["TF_CPP_MIN_LOG_LEVEL"] = "3"
warnings.filterwarnings("ignore")
import numpy as np
DRIVER = "/verif/lean/.lake/build/bin/tfldriver"
BAD = []
def finite(v):
    return bool(np.all(np.isfinite(np.asarray(v, dtype=float))))
def expect_finite(name, fn):
    """accepted configuration must give finite values: records a defect when it does not / raises non-ValueError"""
    try:
        v = fn()
    except ValueError as e:
        import tensorflow as tf
        if isinstance(e, tf.errors.OpError):
            BAD.append(name); print("DEFECT  %s: raises %s: %s" % (name, type(e).__name__, str(e)[:120].replace("\n", " ")))
        else:
            print("ok      %s: rejected with ValueError: %s" % (name, str(e)[:100].replace("\n", " ")))
        return
    except BaseException as e:
        BAD.append(name); print("DEFECT  %s: raises %s: %s" % (name, type(e).__name__, str(e)[:140].replace("\n", " ")))
        return
    if finite(v):
        print("ok      %s: finite %s" % (name, np.asarray(v).ravel()[:6]))
    else:
        BAD.append(name); print("DEFECT  %s: non-finite %s" % (name, np.asarray(v).ravel()[:6]))
def driver(lines):
    if not os.path.exists(DRIVER):
        return None
    p = subprocess.run([DRIVER], input="\n".join(lines) + "\n", capture_output=True, text=True)
    return p.stdout.strip().split("\n")
def done():
    print("%d defect(s): %s" % (len(BAD), BAD))
    sys.exit(1 if BAD else 0)
