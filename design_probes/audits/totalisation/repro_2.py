"""verify_hyperparameters skips the 'strictly increasing' check when input_keypoints is a tf.Tensor:
equal neighbours are accepted, the piece has length 0 and the layer returns NaN at that keypoint."""
from _common import *
import tensorflow as tf, tensorflow_lattice as tfl
expect_finite("PWLCalibration(input_keypoints=tf.constant([0,0,1])) at x=0",
              lambda: tfl.layers.PWLCalibration(input_keypoints=tf.constant([0., 0., 1.]))(tf.constant([[0.0], [0.5]])))
expect_finite("PWLCalibration(input_keypoints=tf.constant([1,0])) (decreasing) at x=0.5",
              lambda: tfl.layers.PWLCalibration(input_keypoints=tf.constant([1., 0.]))(tf.constant([[0.5]])))
done()
