"""sparsity_factor = 0 is never verified: `% 0` -> ZeroDivisionError (build / trace), not ValueError."""
from _common import *
import tensorflow as tf, tensorflow_lattice as tfl
from tensorflow_lattice.python import conditional_cdf
expect_finite("CDF(sparsity_factor=0)", lambda: tfl.layers.CDF(num_keypoints=3, sparsity_factor=0)(tf.zeros((2, 2))))
expect_finite("cdf_fn(sparsity_factor=0)", lambda: conditional_cdf.cdf_fn(tf.zeros((2, 2)), tf.zeros((1, 2, 3, 1)), sparsity_factor=0))
done()
