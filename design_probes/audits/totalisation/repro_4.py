"""Empty lists that no verify_* rejects: list defaults in the model (getD/headD), IndexError /
ZeroDivisionError in the code (C16 wants a ValueError at construction)."""
from _common import *
import tensorflow as tf, tensorflow_lattice as tfl
C = tfl.configs
FC = lambda n: C.FeatureConfig(n, pwl_calibration_input_keypoints=[0., 1.])
expect_finite("Lattice(lattice_sizes=[]) default init (dim_range = range / 0 dims)", lambda: tfl.layers.Lattice(lattice_sizes=[])(tf.zeros((2, 0))))
expect_finite("Lattice(lattice_sizes=[], kernel_initializer='zeros')", lambda: tfl.layers.Lattice(lattice_sizes=[], kernel_initializer="zeros")(tf.zeros((2, 0))))
expect_finite("CalibratedLattice(feature_configs=[])", lambda: tfl.premade.CalibratedLattice(
    C.CalibratedLatticeConfig(feature_configs=[], output_initialization=[0., 1.])) and 0.0)
expect_finite("CalibratedLatticeEnsemble(lattices=[['a','b'],[]])", lambda: tfl.premade.CalibratedLatticeEnsemble(
    C.CalibratedLatticeEnsembleConfig(feature_configs=[FC("a"), FC("b")], lattices=[["a", "b"], []], output_initialization=[0., 1.])) and 0.0)
expect_finite("CalibratedLatticeEnsemble(rtl_layer, feature_configs=[])", lambda: tfl.premade.CalibratedLatticeEnsemble(
    C.CalibratedLatticeEnsembleConfig(feature_configs=[], lattices="rtl_layer", num_lattices=2, lattice_rank=2, output_initialization=[0., 1.])) and 0.0)
expect_finite("CalibratedLinear(output_calibration=True, output_initialization=[])", lambda: tfl.premade.CalibratedLinear(
    C.CalibratedLinearConfig(feature_configs=[FC("a")], output_calibration=True, output_initialization=[])) and 0.0)
done()
