"""PWLCalibrationConstraints never verifies that `lengths` are positive (model theorems assume AllPos):
the convexity projections divide by l0+l1 and by the previous length."""
from _common import *
import tensorflow as tf
from tensorflow_lattice.python import pwl_calibration_layer as pl
w = tf.constant([[0.], [1.], [0.5], [0.2]])
expect_finite("lengths=[0,0,1], convexity=1 (l0+l1=0)", lambda: pl.PWLCalibrationConstraints(convexity=1, lengths=[0., 0., 1.])(w))
expect_finite("lengths=[1,-1,1], convexity=1 (l0+l1=0)", lambda: pl.PWLCalibrationConstraints(convexity=1, lengths=[1., -1., 1.])(w))
expect_finite("lengths=[0,1,1], convexity=1, monotonicity=1 (finalize: l/l_prev)", lambda: pl.PWLCalibrationConstraints(convexity=1, monotonicity=1, lengths=[0., 1., 1.])(w))
r = driver(["pwlp.conv 1 0 0,0,1 1,1/2,1/5"])
print("Lean model on lengths 0,0,1:", r, "(finite: x/0 = 0)")
done()
