"""float32 collapse / underflow of a quantity that verify_hyperparameters checked in Python floats.
Every configuration below is ACCEPTED (strictly increasing keypoints, input_min < input_max,
output_min < output_max as Python floats) and then divides by a float32 zero."""
from _common import *
import tensorflow as tf, tensorflow_lattice as tfl
from tensorflow_lattice.python import premade_lib, conditional_pwl_calibration as cpc
# (a) piece length 1e-50 -> float32 0 -> (x-k)/0 = 0/0 at x = keypoint
expect_finite("PWLCalibration kp=[0,1e-50,1] at x=0",
              lambda: tfl.layers.PWLCalibration(input_keypoints=[0.0, 1e-50, 1.0])(tf.constant([[0.0]])))
# (b) all keypoints inside one float32 ulp: equal_slopes divides by sum(lengths) = 0 -> NaN kernel
def b():
    l = tfl.layers.PWLCalibration(input_keypoints=[1e8, 1e8 + 1, 1e8 + 2], kernel_initializer="equal_slopes", output_min=0., output_max=1.)
    l.build((None, 1)); return l.kernel.numpy()
expect_finite("PWLCalibration kp=[1e8,1e8+1,1e8+2] equal_slopes kernel", b)
# (b') the premade models ALWAYS use that initializer; keypoints straight from compute_keypoints
def b2():
    kp = premade_lib.compute_keypoints(np.array([1e8, 1e8 + 1, 1e8 + 2, 1e8 + 3]), 3)
    cfg = tfl.configs.CalibratedLatticeConfig(output_initialization=[0., 1.], feature_configs=[
        tfl.configs.FeatureConfig("a", pwl_calibration_input_keypoints=list(kp))])
    return tfl.premade.CalibratedLattice(cfg)(tf.constant([[1e8], [1e8 + 3]]))
expect_finite("premade CalibratedLattice, keypoints = compute_keypoints([1e8..1e8+3],3)", b2)
# (c) Linear range dominance: range 1e-50 -> scaling 0 in float32 -> w*0/0
def c():
    l = tfl.layers.Linear(num_input_dims=2, monotonicities=[1, 1], range_dominances=[(0, 1)], input_min=[0., 0.], input_max=[1e-50, 1.])
    l.build((None, 2)); l.kernel.assign([[1.], [2.]]); return l.kernel.constraint(l.kernel)
expect_finite("Linear range_dominances with input range 1e-50", c)
# (d) Lattice bounds projection (runs with trusts): (hi-lo)/((hi+v)-(lo-v)) with hi,lo equal in float32
def d():
    l = tfl.layers.Lattice(lattice_sizes=[2, 2], output_min=1e8, output_max=1e8 + 1, monotonicities=[1, 1], edgeworth_trusts=[(0, 1, "positive")])
    l.build((None, 2)); l.kernel.assign([[1e8]] * 4); return l.kernel.constraint(l.kernel)
expect_finite("Lattice output bounds [1e8,1e8+1] + trust, projection", d)
def d2():
    l = tfl.layers.Lattice(lattice_sizes=[2, 2], output_min=0., output_max=1e-50, monotonicities=[1, 1], edgeworth_trusts=[(0, 1, "positive")], kernel_initializer="zeros")
    l.build((None, 2)); return l.kernel.constraint(l.kernel)
expect_finite("Lattice output bounds [0,1e-50] + trust, projection of the zero kernel", d2)
# (e) pwl_calibration_fn: deltas = softmax * 1e-50 -> 0
expect_finite("pwl_calibration_fn keypoint_input_max=1e-50 at x=0", lambda: cpc.pwl_calibration_fn(
    tf.constant([[0.0]]), keypoint_input_parameters=tf.zeros((1, 1, 2)), keypoint_output_parameters=tf.zeros((1, 1, 4)),
    keypoint_input_min=0.0, keypoint_input_max=1e-50))
done()
