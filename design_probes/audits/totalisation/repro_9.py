"""Crystals: _get_torsions_and_laplacians normalises every prefitting lattice kernel with
`weights -= min; weights /= max` -- a constant kernel gives 0/0, NaN torsions/laplacians, NaN importance scores and
`int(round(nan))` -> 'ValueError: cannot convert float NaN to integer'. The site is outside the Lean model (scores are
inputs of Ensembles.crystals) and outside the harness (c17 monkey-patches _get_torsions_and_laplacians)."""
from _common import *
import tensorflow as tf, tensorflow_lattice as tfl
from tensorflow_lattice.python import premade_lib
C = tfl.configs
feats = [C.FeatureConfig(n, pwl_calibration_input_keypoints=[0., 1.]) for n in "abc"]
mc = C.CalibratedLatticeEnsembleConfig(feature_configs=feats, lattices="crystals", num_lattices=2, lattice_rank=2, output_initialization=[0., 1.])
pc = premade_lib.construct_prefitting_model_config(mc)
pm = tfl.premade.CalibratedLatticeEnsemble(pc)
for l in pm.layers:
    if l.name.startswith(premade_lib.LATTICE_LAYER_NAME):
        l.kernel.assign(tf.zeros_like(l.kernel) + 0.5)      # a (feasible) constant lattice
try:
    premade_lib.set_crystals_lattice_ensemble(mc, pc, pm)
    print("ok", mc.lattices)
except Exception as e:
    print("DEFECT raises %s: %s" % (type(e).__name__, e)); BAD.append("crystals constant kernel")
done()
