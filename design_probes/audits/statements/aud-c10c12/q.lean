import TflModel.Props.C12
import TflModel.Props.C10
import Mathlib.NumberTheory.Real.Irrational
open Tfl Tfl.Linear Tfl.Asserts

-- normOk_l2_iff hypothesis is unsatisfiable for w = [1,1]
example : ¬ ∃ r : ℚ, r * r = normSq [1, 1] := by
  rintro ⟨r, hr⟩
  have h2 : normSq [1, 1] = 2 := by decide +kernel
  rw [h2] at hr
  have : Irrational (Real.sqrt 2) := irrational_sqrt_two
  apply this
  refine ⟨|r|, ?_⟩
  have : ((|r| : ℚ) : ℝ) = Real.sqrt 2 := by
    rw [eq_comm, Real.sqrt_eq_iff_mul_self_eq (by norm_num) (by positivity)]
    have : (|r| * |r| : ℚ) = 2 := by rw [abs_mul_abs_self]; exact hr
    exact_mod_cast this.symm
  exact this
#print axioms Tfl.C12.lattice_iff
#print axioms Tfl.C10.linear_init_min_max
