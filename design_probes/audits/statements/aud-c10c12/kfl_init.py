import os
os.environ['TF_CPP_MIN_LOG_LEVEL']='3'
import numpy as np, tensorflow as tf
import tensorflow_lattice as tfl
from tensorflow_lattice.python import kronecker_factored_lattice_layer as kl
init = kl.KFLRandomMonotonicInitializer(monotonicities=[1,1], init_min=-1.0, init_max=-0.5, seed=3)
k = tfl.layers.KroneckerFactoredLattice(lattice_sizes=3, num_terms=1, monotonicities=[1,1], kernel_initializer=init)
k.build(tf.TensorShape([None,2]))
print(k.kernel.numpy().ravel(), k.scale.numpy().ravel())
xs = tf.constant([[0.,0.],[2.,0.],[0.,2.],[2.,2.]])
print("f at corners", k(xs).numpy().ravel())
try:
    k.assert_constraints(eps=1e-5); print("KFL ACCEPT")
except Exception as e:
    print("KFL", type(e).__name__, str(e)[:120])
