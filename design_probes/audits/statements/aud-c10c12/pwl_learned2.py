import os
os.environ['TF_CPP_MIN_LOG_LEVEL']='3'
import numpy as np, tensorflow as tf
import tensorflow_lattice as tfl
def outcome(layer, eps=1e-6):
    try:
        layer.assert_constraints(eps=eps); return "ACCEPT"
    except tf.errors.InvalidArgumentError as e:
        return "REJECT"
layer = tfl.layers.PWLCalibration(input_keypoints=[0., 1/3, 2/3, 1.], input_keypoints_type='learned_interior',
        monotonicity='increasing', dtype=tf.float64)
layer(tf.constant([[0.5]], dtype=tf.float64))
layer.interpolation_logits.assign(np.log(np.array([0.34, 0.02, 0.64]))[None, :])
layer.kernel.assign(np.array([[0.0],[1.0],[-0.5],[1.5]]))
print("kp in", layer.keypoints_inputs().numpy().ravel(), "kp out", layer.keypoints_outputs().numpy().ravel())
print("outputs at initial keypoints", layer(tf.constant([[0.],[1/3],[2/3],[1.]])).numpy().ravel())
print("f(0.34), f(0.36) =", layer(tf.constant([[0.34],[0.36]])).numpy().ravel())
print("mono violation 0.5 between learned kps ->", outcome(layer))
