import os
os.environ['TF_CPP_MIN_LOG_LEVEL']='3'
import numpy as np, tensorflow as tf
import tensorflow_lattice as tfl
layer = tfl.layers.RTL(num_lattices=2, lattice_rank=2, lattice_size=2, output_min=0.0, output_max=1.0,
                       init_min=-1.0, init_max=2.0, kernel_initializer='linear_initializer', random_seed=1)
x = {'increasing': tf.constant(np.random.rand(4,3), dtype=tf.float32)}
layer(x)
for w in layer.weights: print(w.name, w.numpy().ravel())
try:
    layer.assert_constraints(eps=1e-5); print("ACCEPT")
except Exception as e:
    print(type(e).__name__, str(e)[:120])
# KFL initializer with explicit negative range
init = tfl.layers.kronecker_factored_lattice_layer.KFLRandomMonotonicInitializer(monotonicities=[1,1], init_min=-1.0, init_max=-0.5, seed=3)
k = tfl.layers.KroneckerFactoredLattice(lattice_sizes=3, num_terms=1, monotonicities=[1,1], kernel_initializer=init)
k.build((None,2))
print(k.kernel.numpy().ravel(), k.scale.numpy().ravel())
xs = tf.constant([[0.,0.],[2.,0.],[0.,2.],[2.,2.]])
print("f at corners", k(xs).numpy().ravel())
try:
    k.assert_constraints(eps=1e-5); print("KFL ACCEPT")
except Exception as e:
    print("KFL", type(e).__name__, str(e)[:120])
