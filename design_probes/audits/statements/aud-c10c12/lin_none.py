import os
os.environ['TF_CPP_MIN_LOG_LEVEL']='3'
import numpy as np, tensorflow as tf
import tensorflow_lattice as tfl
for kw in [dict(normalization_order=1), dict(), dict(monotonicities=[0,0], normalization_order=1)]:
    layer = tfl.layers.Linear(num_input_dims=2, dtype=tf.float64, **kw)
    layer(tf.constant([[0.5,0.5]], dtype=tf.float64))
    layer.kernel.assign(np.array([[0.75],[0.25]]))
    try:
        layer.assert_constraints(eps=1e-4); print(kw, "ACCEPT")
    except Exception as e:
        print(kw, type(e).__name__, str(e)[:100])
    layer.kernel.assign(np.array([[0.75],[0.75]]))
    try:
        layer.assert_constraints(eps=1e-4); print(kw, "norm1.5 ACCEPT")
    except Exception as e:
        print(kw, "norm1.5", type(e).__name__, str(e)[:60])
