import os
os.environ['TF_CPP_MIN_LOG_LEVEL']='3'
import numpy as np, tensorflow as tf
import tensorflow_lattice as tfl
def outcome(layer, eps=1e-6):
    try:
        layer.assert_constraints(eps=eps); return "ACCEPT"
    except tf.errors.InvalidArgumentError as e:
        return "REJECT"
# learned_interior keypoints, 4 keypoints, bounds [0,1], monotone increasing
layer = tfl.layers.PWLCalibration(input_keypoints=[0., 1/3, 2/3, 1.], input_keypoints_type='learned_interior',
        output_min=0.0, output_max=1.0, monotonicity='increasing', dtype=tf.float64)
layer(tf.constant([[0.5]], dtype=tf.float64))
print([v.name for v in layer.weights])
# move learned keypoints: lengths proportional to softmax(logits) * range
lens = np.array([0.34, 0.02, 0.64])
layer.interpolation_logits.assign(np.log(lens)[None, :])
print("keypoints_inputs", layer.keypoints_inputs().numpy().ravel())
# keypoint outputs [0, 1, 0.5, 1]: monotonicity violated by 0.5 between learned keypoints 1 and 2
layer.kernel.assign(np.array([[0.0],[1.0],[-0.5],[0.5]]))
print("keypoints_outputs", layer.keypoints_outputs().numpy().ravel())
xs = np.array([[0.],[1/3],[2/3],[1.]])
print("outputs at initial keypoints", layer(tf.constant(xs)).numpy().ravel())
print("mono violation 0.5 at learned kps ->", outcome(layer))
# bound violation: outputs [0,1.5,0.2,1] ; output_max=1 violated by .5 at learned keypoint 0.34
layer2 = tfl.layers.PWLCalibration(input_keypoints=[0., 0.5, 1.], input_keypoints_type='learned_interior',
        output_min=0.0, output_max=1.0, dtype=tf.float64)
layer2(tf.constant([[0.5]], dtype=tf.float64))
layer2.interpolation_logits.assign(np.log(np.array([0.1,0.9]))[None,:])
layer2.kernel.assign(np.array([[0.0],[1.5],[-1.5]]))
print("kp in", layer2.keypoints_inputs().numpy().ravel(), "kp out", layer2.keypoints_outputs().numpy().ravel())
print("outputs at initial keypoints", layer2(tf.constant([[0.],[.5],[1.]])).numpy().ravel())
print("bound violation 0.5 at learned kp ->", outcome(layer2))
# same with fixed keypoints for contrast
layer3 = tfl.layers.PWLCalibration(input_keypoints=[0., 0.5, 1.], output_min=0.0, output_max=1.0, dtype=tf.float64)
layer3(tf.constant([[0.5]], dtype=tf.float64))
layer3.kernel.assign(np.array([[0.0],[1.5],[-1.5]]))
print("fixed keypoints same kernel ->", outcome(layer3))
