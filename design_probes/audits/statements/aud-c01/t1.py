import os
os.environ['TF_CPP_MIN_LOG_LEVEL']='3'
import numpy as np, tensorflow as tf
from tensorflow_lattice.python import lattice_layer, lattice_lib
import tensorflow_lattice as tfl
rng=np.random.RandomState(0)
def viol(t, mono, ew, tz, lo, hi):
    v=[0.0]
    for d,m in enumerate(mono):
        if m: v.append(float(-np.diff(t,axis=d).min()))
    for (m,c,dr) in ew:
        tt=np.moveaxis(t,[m,c],[0,1]); dm=tt[1:]-tt[:-1]; dd=(dm[:,1:]-dm[:,:-1])*dr
        v.append(float(-dd.min()))
    for (m,c,dr) in tz:
        tt=np.moveaxis(t,[m,c],[0,1])
        v.append(float(((tt[0,1:]-tt[0,:-1])*dr).max())); v.append(float((-(tt[-1,1:]-tt[-1,:-1])*dr).max()))
    if lo is not None: v.append(lo-t.min())
    if hi is not None: v.append(t.max()-hi)
    return max(v)
# 1. duplicate Edgeworth trusts
for sizes,mono,ew,tz in [([3,3,2],[1,0,1],[(0,1,1),(0,1,1)],[]),
                          ([3,3,2],[1,0,0],[(0,1,-1),(0,1,-1),(0,2,1)],[(0,1,-1)]),
                          ([3,3],[1,1],[(0,1,1),(0,1,1)],[(0,1,1)])]:
    worst=0
    for units in (1,2):
      for it in (0,1,3):
        try:
            cons=lattice_layer.LatticeConstraints(lattice_sizes=sizes,monotonicities=mono,edgeworth_trusts=ew,trapezoid_trusts=tz or None,output_min=-1.0,output_max=2.0,num_projection_iterations=it,enforce_strict_monotonicity=True)
        except Exception as e:
            print("rejected",e); break
        for k in range(200):
            w=rng.randn(int(np.prod(sizes)),units)*3
            out=cons(tf.constant(w,dtype=tf.float64)).numpy()
            for u in range(units):
                worst=max(worst,viol(out[:,u].reshape(sizes),mono,ew,tz,-1.0,2.0))
    print("dup-ew",sizes,ew,tz,"accepted; worst violation",worst)
# layer too
L=tfl.layers.Lattice(lattice_sizes=[3,3,2],monotonicities=[1,0,1],edgeworth_trusts=[(0,1,1),(0,1,1)],kernel_initializer='zeros')
print("layer accepted dup")
# 2. feasible => unchanged with trusts
sizes=[3,3,2]; mono=[1,0,1]; ew=[(0,1,1)]; tz=[(0,1,1),(2,1,-1)]
# additive-in-main kernels are feasible: f = a*i0 + b*i2 (no dependence on cond) 
idx=np.indices(sizes)
for units in (1,2):
  for it in (0,1,20):
    cols=[]
    for u in range(units):
        a,b=rng.rand(2)
        # add an edgeworth-feasible interaction: slope along main increases with cond, trapezoid: low side decreasing in cond, high side increasing
        t=a*idx[0]+b*idx[2]+0.1*(idx[0]-1.0)*idx[1]
        cols.append(t.reshape(-1))
    w=np.stack(cols,axis=1)
    for (e,t_) in [(ew,tz),(ew,[(0,1,1)]),([],tz)]:
        lo,hi=float(w.min())-0.5,float(w.max())+0.5
        for u in range(units):
            assert viol(w[:,u].reshape(sizes),mono,e,t_,lo,hi)<=0, "not feasible"
        cons=lattice_layer.LatticeConstraints(lattice_sizes=sizes,monotonicities=mono,edgeworth_trusts=e or None,trapezoid_trusts=t_,output_min=lo,output_max=hi,num_projection_iterations=it,enforce_strict_monotonicity=True)
        out=cons(tf.constant(w,dtype=tf.float64)).numpy()
        print("feasible units",units,"iters",it,"ew",e,"tz",t_,"moved by",np.abs(out-w).max())
