import TflModel.Props.C01
open Tfl Tfl.Lat Tfl.C01

-- duplicate identical Edgeworth trust (accepted by the real constructors) is outside CfgWF
def dupCfg : Cfg := { sizes := [3,3,2], mono := [true,false,true], edgeworth := [⟨0,1,true⟩, ⟨0,1,true⟩] }
example : ¬ CfgWF dupCfg := fun h => by
  have := h.compat
  simp only [dupCfg, List.pairwise_cons, List.mem_cons, List.not_mem_nil, or_false, forall_eq] at this
  exact this.1.1.2.2 ⟨rfl, rfl⟩

-- feasible => unchanged with trusts: true on an instance (no general theorem exists)
example : Table.vals exampleMatchingCfg.sizes (finalizeT exampleMatchingCfg
    (Table.ofVals exampleMatchingCfg.sizes [1,3/4,1/2, 5/4,1,3/4, 3/2,5/4,1,  2,9/4,5/2, 7/4,2,9/4, 3/2,7/4,2]))
    = [1,3/4,1/2, 5/4,1,3/4, 3/2,5/4,1,  2,9/4,5/2, 7/4,2,9/4, 3/2,7/4,2] := by decide +kernel
