import TflModel.Props.C01
import TflModel.Model.Dykstra
open Tfl Tfl.Lat Tfl.C01

-- composite: the driver's latticeConstraintT in strict mode, active branch
example (c : LCfg) (hs : c.strict = true) (ha : constraintActive c = true) (hwf : CfgWF c.fin) (hmx : MixedClassWF c.fin) (t : Table) :
    Strict c.fin (latticeConstraintT c t).get := by
  unfold latticeConstraintT
  simp only [ha, hs, if_true]
  exact C01_exec_mixed_class c.fin hwf hmx _

#check @finalizeT_agree
#print axioms C01_strict_mixed_class
#print axioms C01_exec_mixed_class
