import TflModel.Props.C06Accepted
import TflModel.Props.C20
open Tfl Tfl.Poset Tfl.Linear
#print axioms Tfl.C06.accepted_range_dominance
#print axioms Tfl.C06.categorical_pairs_and_bounds_acyclic
#print axioms Tfl.C20.constrained_weighted_average
#print Tfl.Verify.sharedDim
#print Tfl.Verify.LinCfg
-- normalize l2 is identity
example (w : List Rat) : normalize .l2 w = w := rfl
-- the model's project with ord 2 does not normalise
example : project [1,1] [] [] [] [] .l2 [3,4] = .ok [3,4] := by decide +kernel
