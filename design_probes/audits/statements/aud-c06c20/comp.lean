import TflModel.Props.C06Accepted
open Tfl Tfl.Poset Tfl.Linear
namespace Scratch
/-- composite (both dominance sets non-empty), pre-normalisation + normalisation -/
theorem composite (monos : List Int) (md rd : Pairs) (los his : List (Option Rat)) (ord : NormOrd) (w : List Rat)
    (hmne : md ≠ []) (hrne : rd ≠ [])
    (hamd : Acyclic md) (hard : Acyclic rd)
    (hinmd : ∀ a, IsNode md a → a < w.length) (hinrd : ∀ a, IsNode rd a → a < w.length)
    (hinc : ∀ c ∈ md, getM monos c.1 = 1 ∧ getM monos c.2 = 1)
    (hdisj : ∀ k, IsNode md k → ¬ IsNode rd k)
    (hlen : w.length = (scalings monos rd los his).length)
    (hsc : ∀ k, k < (scalings monos rd los his).length → getV (scalings monos rd los his) k ≠ 0)
    (hdir : ∀ c ∈ rd, ∀ k, (k = c.1 ∨ k = c.2) →
        (getM monos k = 1 ∧ 0 < getV (scalings monos rd los his) k) ∨ (getM monos k = -1 ∧ getV (scalings monos rd los his) k < 0)) :
    ∃ out, project monos md rd los his ord w = .ok out ∧
      (∀ k, SignOk (getM monos k) (getV out k)) ∧
      (∀ c ∈ md, getV out c.2 ≤ getV out c.1) ∧
      (∀ c ∈ rd, getV (scalings monos rd los his) c.2 * getV out c.2 ≤ getV (scalings monos rd los his) c.1 * getV out c.1) := by
  obtain ⟨w2, h2, hmdp, hsg2, hun2⟩ := C06.linear_monotonic_dominance_acyclic monos md w hmne hamd hinmd hinc
  have hl2 : w2.length = w.length := by
    obtain ⟨o, _, _, _, e⟩ := C06.approxProject_eq_of_acyclic (swapPairs md) (signClip monos w) w2
      (C06.acyclic_swap hamd) (fun a ha => by rw [length_signClip]; exact hinmd a (isNode_swap.mp ha)) h2
    rw [e]; simp [length_signClip]
  obtain ⟨w3, h3, hrdp, hsg3, hun3⟩ := C06.linear_range_dominance_acyclic monos rd (scalings monos rd los his) w2 hrne hard
    (fun a ha => by rw [hl2]; exact hinrd a ha) (by rw [hl2]; exact hlen) hsc hdir hsg2
  set sc := scalings monos rd los his
  have hpre : projectPre monos md rd los his w = .ok (divV w3 sc) := by
    have e1 : md.isEmpty = false := by cases md <;> simp_all
    have e2 : rd.isEmpty = false := by cases rd <;> simp_all
    simp [projectPre, e1, e2, h2, h3, bind, Except.bind, pure, Except.pure, sc]
  obtain ⟨n, hn, hnorm⟩ := C06.normalize_keeps ord (divV w3 sc)
  refine ⟨normalize ord (divV w3 sc), by simp [project, hpre, Except.map], ?_, ?_, ?_⟩
  all_goals rw [hnorm]
  · intro k
    by_cases hk : k < (divV w3 sc).length
    · rw [C06.getV_map _ _ hk]
      exact ⟨fun h => div_nonneg ((hsg3 k).1 h) hn.le, fun h => div_nonpos_of_nonpos_of_nonneg ((hsg3 k).2 h) hn.le⟩
    · rw [getV_of_le (by simpa using Nat.le_of_not_lt hk)]
      exact ⟨fun _ => le_rfl, fun _ => le_rfl⟩
  · intro c hc
    have key : ∀ k, getV ((divV w3 sc).map (· / n)) k = getV (divV w3 sc) k / n := by
      intro k
      by_cases hk : k < (divV w3 sc).length
      · exact C06.getV_map _ _ hk
      · rw [getV_of_le (by simpa using Nat.le_of_not_lt hk), getV_of_le (Nat.le_of_not_lt hk)]; simp
    rw [key, key, hun3 c.2 (hdisj c.2 ⟨c, hc, Or.inr rfl⟩), hun3 c.1 (hdisj c.1 ⟨c, hc, Or.inl rfl⟩)]
    exact div_le_div_of_nonneg_right (hmdp c hc) hn.le
  · intro c hc
    have key : ∀ k, getV ((divV w3 sc).map (· / n)) k = getV (divV w3 sc) k / n := by
      intro k
      by_cases hk : k < (divV w3 sc).length
      · exact C06.getV_map _ _ hk
      · rw [getV_of_le (by simpa using Nat.le_of_not_lt hk), getV_of_le (Nat.le_of_not_lt hk)]; simp
    rw [key, key]
    have := div_le_div_of_nonneg_right (hrdp c hc) hn.le
    rw [← mul_div_assoc, ← mul_div_assoc]; exact this
end Scratch
