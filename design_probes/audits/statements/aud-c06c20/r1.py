import os
os.environ['TF_CPP_MIN_LOG_LEVEL']='3'
import numpy as np, tensorflow as tf
import tensorflow_lattice as tfl
from tensorflow_lattice.python import linear_layer as ll
w = np.array([[3.,-1.],[ -4.,2.],[1.,5.],[-2.,-6.],[0.5,0.25]])
for o in [1,2,np.inf,3,0.5,'euclidean',-1, 0, True]:
    try:
        c = ll.LinearConstraints(monotonicities=[1,1,-1,-1,0], monotonic_dominances=[(0,1)], range_dominances=[(2,3)],
              input_min=[None,None,0.,1.,None], input_max=[None,None,2.,1.5,None], normalization_order=o)
        out = c(tf.constant(w)).numpy()
        print('ord',o,'out',out.tolist())
        for p in [1,2,np.inf,3,0.5]:
            print('   norm',p, np.linalg.norm(out,ord=p,axis=0) if p not in (3,0.5) else (np.sum(np.abs(out)**p,axis=0))**(1/p))
    except Exception as e:
        print('ord',o,'EXC',type(e).__name__,str(e)[:150])
# C20 weighted-average with all nonpositive kernel
L = tfl.layers.Linear(num_input_dims=2, monotonicities=[1,1], normalization_order=1, use_bias=False, dtype=tf.float64)
L.build((None,2))
k = L.kernel.constraint(tf.constant([[-1.],[-2.]],dtype=tf.float64))
print('projected kernel', k.numpy().tolist())
L.kernel.assign(k)
print('out at x=[5,7]:', L(tf.constant([[5.,7.]],dtype=tf.float64)).numpy().tolist())
# tiny but >= 1e-8 norm
k2 = L.kernel.constraint(tf.constant([[3e-9],[2e-9]],dtype=tf.float64)); print('tiny', k2.numpy().tolist())
k3 = L.kernel.constraint(tf.constant([[6e-9],[5e-9]],dtype=tf.float64)); print('tiny2', k3.numpy().tolist())
