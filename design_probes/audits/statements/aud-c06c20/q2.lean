import TflModel.Model.Linear
open Tfl Tfl.Poset Tfl.Linear
#eval project [1,1,-1,-1,0] [(0,1)] [(2,3)] [none,none,some 0,some 1,none] [none,none,some 2,some (3/2),none] .l1 [3,-4,1,-2,1/2]
#eval project [1,1,-1,-1,0] [(0,1)] [(2,3)] [none,none,some 0,some 1,none] [none,none,some 2,some (3/2),none] .l1 [-1,2,5,-6,1/4]
