import TflModel.Props.C15
open Tfl Tfl.Alt
def cyc2 : PwlFnCfg := ⟨0, 1, 0, 1, 1, false, false, false, true, none, none⟩
def usm : List ℚ → List ℚ := fun l => l.map (fun _ => 1 / (l.length : ℚ))
example : verifyPwlFn cyc2 none false 1 1 1 = .ok () := by decide +kernel
example : ValidPwl cyc2 2 1 := verify_ok_valid cyc2 none false 1 1 1 (by decide +kernel)
-- paired layer kernel has ONE row
example : (layerKernel cyc2 (kernelOutputs cyc2 usm (fun _ => 2/3) [7/10])).length = 1 := by decide +kernel
example : derivedKeypoints cyc2 (keypointDeltas cyc2 usm [0]) = [0, 1] := by decide +kernel
-- the constructor model of C16 accepts is_cyclic with two keypoints?
#check @Tfl.C14.C14_T2_paired_layer_wellformed
#eval pwlFnRow cyc2 usm (fun _ => 2/3) none false [[7/10]] [1/3]
