import os
os.environ['TF_CPP_MIN_LOG_LEVEL']='3'
import numpy as np, tensorflow as tf
import tensorflow_lattice as tfl
layer = tfl.layers.PWLCalibration(input_keypoints=[0.0,1.0], units=1, is_cyclic=True)
print('constructed')
try:
    layer.build((None,1)); print('built')
except Exception as e: print('build raises', type(e).__name__, str(e)[:200])
