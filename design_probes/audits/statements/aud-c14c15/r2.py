import os
os.environ['TF_CPP_MIN_LOG_LEVEL']='3'
import numpy as np, tensorflow as tf
from tensorflow_lattice.python import conditional_pwl_calibration as cp
x = tf.constant([[0.2],[0.7]])
for kout in [tf.zeros((1,3)), tf.zeros((2,3)), tf.zeros((1,1,3))]:
  try:
    y = cp.pwl_calibration_fn(inputs=x, keypoint_input_parameters=tf.zeros((1,1)), keypoint_output_parameters=kout,
        keypoint_input_min=0.0, keypoint_input_max=1.0, keypoint_output_min=0.0, keypoint_output_max=1.0, units=2, monotonicity='none')
    print(kout.shape, 'ok', y.shape)
  except Exception as e:
    print(kout.shape, 'raises', type(e).__name__, str(e)[:120])
# fixed missing_output_value outside bounds
y = cp.pwl_calibration_fn(inputs=tf.constant([[-1.0],[0.5]]), keypoint_input_parameters=None, keypoint_output_parameters=tf.zeros((1,2)),
    keypoint_input_min=0.0, keypoint_input_max=1.0, keypoint_output_min=0.0, keypoint_output_max=1.0, units=1, monotonicity='none',
    missing_input_value=-1.0, missing_output_value=5.0)
print('missing fixed outside bounds ->', y.numpy().ravel())
