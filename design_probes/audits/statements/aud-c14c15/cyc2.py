import os
os.environ['TF_CPP_MIN_LOG_LEVEL']='3'
import numpy as np, tensorflow as tf
import tensorflow_lattice as tfl
from tensorflow_lattice.python import conditional_pwl_calibration as cp
# n = 2 keypoints, cyclic, monotonicity none -> output_param_size = 1
x = tf.constant([[-1.0],[0.0],[0.3],[1.0],[2.0]])
try:
    y = cp.pwl_calibration_fn(inputs=x, keypoint_input_parameters=None, keypoint_output_parameters=tf.constant([[0.7]]),
        keypoint_input_min=0.0, keypoint_input_max=1.0, keypoint_output_min=0.0, keypoint_output_max=1.0,
        units=1, monotonicity='none', is_cyclic=True)
    print('fn', y.numpy().ravel())
except Exception as e:
    print('fn raises', type(e).__name__, e)
try:
    layer = tfl.layers.PWLCalibration(input_keypoints=[0.0,1.0], units=1, is_cyclic=True)
    layer.build((None,1))
    print('kernel shape', layer.kernel.shape)
    layer.kernel.assign(np.array([[0.668]],np.float32))
    print('layer', layer(x).numpy().ravel())
except Exception as e:
    print('layer raises', type(e).__name__, str(e)[:300])
