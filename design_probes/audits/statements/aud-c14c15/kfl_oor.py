import os
os.environ['TF_CPP_MIN_LOG_LEVEL']='3'
import numpy as np, tensorflow as tf
import tensorflow_lattice as tfl
def run(L, dims, bias, X, clip=False):
    T=1;U=1
    kfl = tfl.layers.KroneckerFactoredLattice(lattice_sizes=L, units=1, num_terms=T, clip_inputs=clip)
    kfl.build(tf.TensorShape([None,dims]))
    rng=np.random.RandomState(0)
    k = rng.randint(-3,4,size=(1,L,dims,T)).astype(np.float32)
    kfl.kernel.assign(k); kfl.scale.assign(np.array([[2.0]],np.float32)); kfl.bias.assign(np.array(bias,np.float32).reshape(kfl.bias.shape))
    term=np.ones([L]*dims)
    for d in range(dims):
        sh=[1]*dims; sh[d]=L
        term=term*k[0,:,d,0].astype(np.float64).reshape(sh)
    dense=(bias+2.0*term).reshape(-1,1)
    lat=tfl.layers.Lattice(lattice_sizes=[L]*dims, units=1, clip_inputs=clip, interpolation='hypercube')
    lat.build(tf.TensorShape([None,dims])); lat.kernel.assign(dense.astype(np.float32))
    x=tf.constant(np.array(X,np.float32))
    print('L',L,'dims',dims,'bias',bias,'clip',clip,'X',X)
    print(' kfl',kfl(x).numpy().ravel(),' lattice(tensor)',lat(x).numpy().ravel())
    xl=[x[:,d:d+1] for d in range(dims)]
    print(' lattice(list)',lat(xl).numpy().ravel(), ' kfl(list)', kfl(xl).numpy().ravel())
run(3,2,1.5,[[-0.5,1.0],[2.5,0.25],[1.0,1.0]])
run(3,2,0.0,[[-0.5,1.0],[2.5,0.25]])
run(2,2,1.5,[[-0.5,0.5],[1.5,0.25]])
run(2,2,1.5,[[-0.5,0.5],[1.5,0.25]], clip=True)
