import TflModel.Props.C14
open Tfl Tfl.Alt
-- out of range, unclipped, L = 3, bias 3/2
#eval Kfl.eval 3 false [[[1, 2, 0], [0, 1, 3]]] [2] (3/2) [-1/2, 1]
#eval kflAsLattice .tensor 3 false 2 [[[1, 2, 0], [0, 1, 3]]] [2] (3/2) [-1/2, 1]
#eval Kfl.eval 2 false [[[1, 2], [0, 1]]] [2] (3/2) [-1/2, 1/2]
#eval kflAsLattice .tensor 2 false 2 [[[1, 2], [0, 1]]] [2] (3/2) [-1/2, 1/2]
#eval kflAsLattice .list 2 false 2 [[[1, 2], [0, 1]]] [2] (3/2) [-1/2, 1/2]
example : ∃ xs, xs.length = 2 ∧ kflAsLattice .tensor 3 false 2 [[[1, 2, 0], [0, 1, 3]]] [2] (3/2) xs ≠ .ok (Kfl.eval 3 false [[[1, 2, 0], [0, 1, 3]]] [2] (3/2) xs) :=
  ⟨[-1/2, 1], by decide +kernel⟩
#print axioms Tfl.C14.C14_T1_lattice_layer_returns_kfl
