import os, sys
os.environ['TF_CPP_MIN_LOG_LEVEL'] = '3'
sys.path.insert(0, '/verif/harness')
import numpy as np
from fractions import Fraction
from common import *
from props import c08
import tensorflow as tf
import tensorflow_lattice as tfl

def base(sizes):
  r = len(sizes)
  return dict(sizes=sizes, mono=[0]*r, ew=[], tz=[], uni=[0]*r, md=[], rd=[], jm=[], ju=[], lo=None, hi=None)

rng = np.random.RandomState(7)
for name, sizes, ju in [('ju1-valley+peak', [3, 2], [((0,), 'valley'), ((0,), 'peak')]),
                        ('ju2-valley+peak', [3, 3], [((0, 1), 'valley'), ((0, 1), 'peak')]),
                        ('ju2-valley+valley', [3, 3], [((0, 1), 'valley'), ((0, 1), 'valley')])]:
  cfg = base(sizes); cfg['ju'] = ju
  n = int(np.prod(sizes))
  w = [[Fraction(int(v), 4)] for v in rng.randint(-20, 20, size=n)]
  wf = np.array([[float(v) for v in row] for row in w])
  print('==', name, 'accepted:', c08.accepted(cfg), 'input', wf[:, 0].tolist(), 'viol in %.3g' % c08.full_violation(cfg, wf[:, 0].reshape(sizes)))
  A = c08.constraint_rows(cfg)
  qp = c08.qp_nearest(A, wf[:, 0])
  for iters in (1, 5, 50, 500, 3000):
    out = c08.real_dykstra(cfg, wf, iters, graph=iters > 50)
    print('  real iters %4d viol %.4e  dist-to-QP-nearest %.4e' % (iters, c08.full_violation(cfg, out[:, 0].reshape(sizes)), float(np.max(np.abs(out[:, 0] - qp)))))
  for iters in (1, 5, 12):
    rep = run_driver([c08.model_line(cfg, [w[i][0] for i in range(n)], iters)], timeout=300)[0]
    m = np.array([float(x) for x in parse_rats(rep)])
    print('  MODEL iters %3d viol %.4e  dist-to-QP-nearest %.4e' % (iters, c08.full_violation(cfg, m.reshape(sizes)), float(np.max(np.abs(m - qp)))))
  # feasible kernel (constant along constrained dims): does the real code leave it alone?
  # layer acceptance
  try:
    lay = tfl.layers.Lattice(lattice_sizes=sizes, joint_unimodalities=[(list(d), s) for d, s in ju], kernel_initializer='zeros', num_projection_iterations=50)
    lay.build((None, len(sizes)))
    lay.kernel.assign(wf.astype('float32'))
    k = lay.kernel.constraint(lay.kernel).numpy()
    print('  Lattice layer ACCEPTED; constraint(kernel) viol %.4e' % c08.full_violation(cfg, k[:, 0].reshape(sizes)))
  except Exception as e:
    print('  Lattice layer:', type(e).__name__, str(e)[:200])
