import os, sys
os.environ['TF_CPP_MIN_LOG_LEVEL'] = '3'
sys.path.insert(0, '/verif/harness')
import numpy as np
from common import *
from props import c08
import tensorflow_lattice as tfl
def base(sizes):
  r = len(sizes)
  return dict(sizes=sizes, mono=[0]*r, ew=[], tz=[], uni=[0]*r, md=[], rd=[], jm=[], ju=[], lo=None, hi=None)
for name, upd in [('self-jm', dict(jm=[(0,0)])), ('self-md', dict(mono=[1,1], md=[(0,0)]))]:
  cfg = base([3,3]); cfg.update(upd)
  for kname, k in [('const', np.ones(9)), ('linear dim0 incr', np.repeat([0.,1.,2.],3)), ('incr both', np.array([0,1,2,1,2,3,2,3,4.])), ('bump', np.array([0,0,0,0,1,0,0,0,0.]))]:
    wf = k.reshape(9,1)
    for it in (1, 50, 2000):
      out = c08.real_dykstra(cfg, wf, it, graph=it>50)
      print(name, kname, 'iters', it, 'moved %.3e' % np.max(np.abs(out-wf)), np.round(out[:,0],4).tolist() if it==2000 else '')
  try:
    kw = dict(joint_monotonicities=[(0,0)]) if 'jm' in upd else dict(monotonicities=[1,1], monotonic_dominances=[(0,0)])
    tfl.layers.Lattice(lattice_sizes=[3,3], **kw); print(name, 'Lattice layer constructor ACCEPTS')
  except Exception as e:
    print(name, 'Lattice layer:', type(e).__name__, str(e)[:120])
