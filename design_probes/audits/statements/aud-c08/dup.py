import os, sys
os.environ['TF_CPP_MIN_LOG_LEVEL'] = '3'
sys.path.insert(0, '/verif/harness')
import numpy as np
from fractions import Fraction
from common import *
from props import c08
from tensorflow_lattice.python import lattice_lib

def base(sizes):
  r = len(sizes)
  return dict(sizes=sizes, mono=[0]*r, ew=[], tz=[], uni=[0]*r, md=[], rd=[], jm=[], ju=[], lo=None, hi=None)

cases = []
c = base([3, 3]); c['mono'] = [1, 0]; c['ew'] = [(0, 1, 1), (0, 1, 1)]; cases.append(('dup-ew', c))
c = base([3, 3]); c['mono'] = [1, 0]; c['ew'] = [(0, 1, 1)]; c['tz'] = [(0, 1, 1), (0, 1, 1)]; cases.append(('dup-tz', c))
c = base([3, 3]); c['jm'] = [(0, 1), (0, 1)]; cases.append(('dup-jm', c))
c = base([3, 3]); c['mono'] = [1, 1]; c['md'] = [(0, 1), (0, 1)]; cases.append(('dup-md', c))
c = base([3, 3]); c['jm'] = [(0, 0)]; cases.append(('self-jm', c))
c = base([3, 3]); c['mono'] = [1, 1]; c['md'] = [(0, 0)]; cases.append(('self-md', c))
c = base([3, 3]); c['ju'] = [((0, 1), 'valley'), ((0, 1), 'valley')]; cases.append(('dup-ju', c))
c = base([3, 3]); c['ju'] = [((0, 1), 'valley'), ((0, 1), 'peak')]; cases.append(('ju-valley+peak', c))
c = base([3, 3]); c['ju'] = [((0,), 'valley'), ((0,), 'peak')]; cases.append(('ju1-valley+peak', c))
c = base([3, 3]); c['ju'] = [((0, 1), 'valley'), ((1, 0), 'valley')]; cases.append(('ju-perm', c))

rng = np.random.RandomState(3)
for name, cfg in cases*2:
  n = int(np.prod(cfg['sizes']))
  w = [[Fraction(int(v), 4)] for v in rng.randint(-20, 20, size=n)]
  wf = np.array([[float(v) for v in row] for row in w])
  print('==', name, 'accepted by verify_hyperparameters:', c08.accepted(cfg))
  for iters in (1, 2, 5):
    try:
      out = c08.real_dykstra(cfg, wf, iters)
    except Exception as e:
      print('  iters', iters, 'REAL RAISES', type(e).__name__, str(e)[:150]); continue
    line = c08.model_line(cfg, [w[i][0] for i in range(n)], iters)
    rep = run_driver([line])[0]
    try:
      m = np.array([float(x) for x in parse_rats(rep)])
      d = float(np.max(np.abs(m - out[:, 0])))
    except Exception as e:
      print('  iters', iters, 'model reply', rep[:80]); continue
    try:
      v = '%.3e' % c08.full_violation(cfg, out[:, 0].reshape(cfg['sizes']))
    except Exception as e:
      v = 'n/a'
    print('  iters', iters, 'max|real-model| = %.3e' % d, 'viol real', v, 'moved %.3e' % float(np.max(np.abs(out-wf))))
