import os, sys
os.environ['TF_CPP_MIN_LOG_LEVEL'] = '3'
sys.path.insert(0, '/verif/harness')
import numpy as np
from fractions import Fraction
from common import *
from props import c08
def base(sizes):
  r = len(sizes)
  return dict(sizes=sizes, mono=[0]*r, ew=[], tz=[], uni=[0]*r, md=[], rd=[], jm=[], ju=[], lo=None, hi=None)
rng = np.random.RandomState(11)
for name, mk in [('dup-ew', lambda c: c.update(mono=[1,0], ew=[(0,1,1),(0,1,1)])),
                 ('dup-tz', lambda c: c.update(mono=[1,0], tz=[(0,1,1),(0,1,1)])),
                 ('dup-ew+tz', lambda c: c.update(mono=[1,0], ew=[(0,1,-1),(0,1,-1)], tz=[(0,1,-1)])),
                 ('dup-md', lambda c: c.update(mono=[1,1], md=[(0,1),(0,1)])),
                 ('dup-jm', lambda c: c.update(jm=[(0,1),(0,1)]))]:
  bad = 0; worst = 0
  for trial in range(8):
    cfg = base([4, 3] if trial % 2 else [3, 4]); mk(cfg)
    n = 12
    w = [[Fraction(int(v), 4)] for v in rng.randint(-20, 20, size=n)]
    wf = np.array([[float(v) for v in row] for row in w])
    assert c08.accepted(cfg)
    out = c08.real_dykstra(cfg, wf, 2)
    m = np.array([float(x) for x in parse_rats(run_driver([c08.model_line(cfg, [w[i][0] for i in range(n)], 2)])[0])])
    d = float(np.max(np.abs(m - out[:, 0])))
    worst = max(worst, d); bad += d > 1e-9
  print(name, 'mismatches %d/8' % bad, 'worst %.3e' % worst)
