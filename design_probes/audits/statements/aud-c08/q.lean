import TflModel.Props.C08
open Tfl Tfl.Lat Tfl.C08

def cVP : DCfg := { sizes := [3, 2], mono := [false, false], jointUnimod := [⟨[0], true⟩, ⟨[0], false⟩] }

example : CfgWF cVP ∧ dykstraActive cVP = true := by
  refine ⟨⟨?_, ?_, ?_, ?_, ?_, rfl⟩, by decide⟩
  · intro tr htr; simp [cVP] at htr
  · intro tr htr; simp [cVP] at htr
  · intro p hp; simp [cVP] at hp
  · intro p hp; simp [cVP] at hp
  · intro ju hju
    have : ju = ⟨[0], true⟩ ∨ ju = ⟨[0], false⟩ := by simpa [cVP] using hju
    rcases this with rfl | rfl <;> exact ⟨by decide, by decide⟩

-- self pair: jointMono (0,0) violates CfgWF
example : ¬ CfgWF { sizes := [3, 3], mono := [false, false], jointMono := [(0, 0)] } := by
  intro h; exact (h.jmono (0,0) (by simp)).2.2 rfl

#eval Table.vals [3, 2] (projectByDykstraT cVP 5 (Table.ofVals [3, 2] [-4, 5/4, -17/4, -1/4, 3/4, 19/4]))
#print axioms projectByDykstraT_cfg_converges
