import os
os.environ['TF_CPP_MIN_LOG_LEVEL']='3'
import numpy as np, itertools, warnings
import tensorflow_lattice as tfl
from tensorflow_lattice.python import premade_lib, configs

def cover(n, r, L, seed):
    mc = configs.CalibratedLatticeEnsembleConfig(
      feature_configs=[configs.FeatureConfig(name="f%d" % i) for i in range(n)], lattices="crystals",
      num_lattices=L, lattice_rank=r, random_seed=seed)
    pc = premade_lib.construct_prefitting_model_config(mc)
    return pc.lattices

for n in (2,3,4):
    try:
        lats = cover(n, 1, n, 1)
        ok = all(any(('f%d'%i) in l and ('f%d'%j) in l for l in lats) for i,j in itertools.combinations(range(n),2))
        print("rank1 cover n=%d:"%n, lats, "all pairs covered:", ok, "max size", max(len(l) for l in lats))
    except Exception as e:
        print("rank1 cover n=%d raises"%n, type(e).__name__, e)

# final crystals with rank 1 through the patched scores path
def final(n, L, r, t, lap):
    names = ["f%d" % i for i in range(n)]
    mc = configs.CalibratedLatticeEnsembleConfig(
      feature_configs=[configs.FeatureConfig(name=f) for f in names], lattices="crystals",
      num_lattices=L, lattice_rank=r, random_seed=1)
    o1, o2 = premade_lib._get_torsions_and_laplacians, premade_lib._verify_prefitting_model
    premade_lib._get_torsions_and_laplacians = lambda **kw: ([list(map(np.float64,row)) for row in t], list(map(np.float64,lap)))
    premade_lib._verify_prefitting_model = lambda *a, **kw: None
    try:
        with warnings.catch_warnings():
            warnings.simplefilter("ignore")
            premade_lib.set_crystals_lattice_ensemble(mc, mc, None)
        return mc.lattices
    except Exception as e:
        return "raises %s: %s" % (type(e).__name__, e)
    finally:
        premade_lib._get_torsions_and_laplacians, premade_lib._verify_prefitting_model = o1, o2

t = [[0,1,0.5],[1,0,0.25],[0.5,0.25,0]]
print("final rank1 n=3 L=3:", final(3,3,1,t,[1,0.5,0.25]))
print("final rank1 n=3 L=5:", final(3,5,1,t,[1,0.5,0.25]))
# full real path rank 1: build prefitting model
try:
    n=3
    names = ["f%d" % i for i in range(n)]
    mc = configs.CalibratedLatticeEnsembleConfig(
        feature_configs=[configs.FeatureConfig(name=f, pwl_calibration_input_keypoints=[0.0, 1.0]) for f in names],
        lattices="crystals", num_lattices=4, lattice_rank=1, random_seed=3, output_initialization=[0.0, 1.0])
    pc = premade_lib.construct_prefitting_model_config(mc)
    print("prefit cfg lattices", pc.lattices, "rank", pc.lattice_rank)
    pm = tfl.premade.CalibratedLatticeEnsemble(pc)
    rng = np.random.RandomState(0)
    for li in range(len(pc.lattices)):
        layer = pm.get_layer("%s_%d" % (premade_lib.LATTICE_LAYER_NAME, li))
        layer.kernel.assign(rng.rand(*layer.kernel.shape).astype(np.float32))
    premade_lib.set_crystals_lattice_ensemble(mc, pc, pm)
    print("real path rank1:", mc.lattices)
except Exception as e:
    print("real path rank1 raises", type(e).__name__, str(e)[:200])
