import TflModel.Props.C17
import TflModel.Props.C18
open Tfl Tfl.Ensembles Tfl.C17
#print axioms Tfl.C17.rtl_structure
#print axioms Tfl.C17.crystals_structure
#print axioms Tfl.C17.random_ensemble_total
#print axioms Tfl.C17.pair_cover
#print axioms Tfl.C18.quantiles_weighted
#print axioms Tfl.C18.quantiles_unweighted
#print axioms Tfl.C18.uniform_keypoints
-- cover clause without 2 ≤ r ?
#eval pairCover 3 1 [0,1,2]
#eval pairCover 4 1 [3,0,5,1,4,2]
#eval pairCover 3 0 [0,1,2]
