import os
os.environ['TF_CPP_MIN_LOG_LEVEL']='3'
import numpy as np, warnings
print("numpy", np.__version__)
from tensorflow_lattice.python import premade_lib, configs
def mk(k=3, init='quantiles'):
    return configs.CalibratedLatticeConfig(feature_configs=[configs.FeatureConfig(name='x')], output_calibration=True,
        output_calibration_num_keypoints=k, output_initialization=init)
for labs in (['good','bad','good','ugly'], ['b','a','c'], ['a','b','c'], ['f','g'], ['cat','dog','cat'], [b'x', b'y'], ['1','2','3'],['int','float']):
    for arr in (np.array(labs), np.array(labs, dtype=object), list(labs)):
        for init in ('quantiles','uniform'):
            try:
                with warnings.catch_warnings():
                    warnings.simplefilter("ignore")
                    out = premade_lib.compute_label_keypoints(mk(3, init), arr, logits_output=False)
                print(labs, type(arr).__name__, getattr(arr,'dtype',None), init, '->', list(out))
            except Exception as e:
                print(labs, type(arr).__name__, getattr(arr,'dtype',None), init, 'RAISES', type(e).__name__, str(e)[:90])
