import TflModel.Props.C17
open Tfl Tfl.Ensembles Tfl.C17

theorem addPair_cover_any (r : Nat) (lats : List (List Nat)) (p : Nat × Nat) :
    Grows lats (addPair r lats p) ∧ Covered (addPair r lats p) p.1 p.2 := by
  unfold addPair
  split_ifs with h
  · refine ⟨Grows.refl _, ?_⟩
    rw [List.any_eq_true] at h
    obtain ⟨l, hl, h⟩ := h
    simp only [Bool.and_eq_true, List.contains_iff_mem] at h
    exact ⟨l, hl, h⟩
  · cases h1 : addToHaving r p.1 p.2 lats with
    | some out => exact ⟨(addToHaving_some r _ _ lats out h1).1, (addToHaving_some r _ _ lats out h1).2.1⟩
    | none =>
      cases h2 : addToRoomy r p.1 p.2 lats with
      | some out => exact ⟨(addToRoomy_some r _ _ lats out h2).1, (addToRoomy_some r _ _ lats out h2).2.1⟩
      | none =>
        simp only
        refine ⟨fun l hl => ⟨l, List.mem_append_left _ hl, List.Subset.refl l⟩, ?_⟩
        refine ⟨_, List.mem_append_right _ (List.mem_singleton_self _), ?_, mem_addIfAbsent _ _⟩
        exact subset_addIfAbsent _ _ (List.mem_singleton_self _)

theorem foldl_cover_any (r : Nat) : ∀ (ps : List (Nat × Nat)) (lats : List (List Nat)),
    Grows lats (ps.foldl (addPair r) lats) ∧ (∀ p ∈ ps, Covered (ps.foldl (addPair r) lats) p.1 p.2)
  | [], lats => ⟨Grows.refl _, fun _ h => (by cases h)⟩
  | p :: ps, lats => by
    obtain ⟨g1, c1⟩ := addPair_cover_any r lats p
    obtain ⟨g2, c2⟩ := foldl_cover_any r ps (addPair r lats p)
    rw [List.foldl_cons]
    refine ⟨g1.trans g2, ?_⟩
    intro q hq
    rcases List.mem_cons.mp hq with rfl | hq
    · exact Covered.mono g2 c1
    · exact c2 q hq

/-- the cover clause of `pair_cover` WITHOUT `2 ≤ r` -/
theorem pair_cover_any_rank (n r : Nat) (perm : List Nat)
    (hp : perm.Perm (List.range (allPairs n).length)) :
    ∀ i j, i < j → j < n → ∃ l ∈ pairCover n r perm, i ∈ l ∧ j ∈ l := by
  intro i j hij hj
  exact (foldl_cover_any r (applyPerm perm (allPairs n)) []).2 (i, j)
    ((applyPerm_perm perm _ hp).symm.subset (mem_allPairs hij hj))
#print axioms pair_cover_any_rank
