import TflModel.Props.C18
import TflModel.Props.C16
open Tfl Tfl.Verify

def kpVal (kps : List Rat) : Val := .s false (kps.map fun x => Item.a (Atom.flt x))

theorem mapE_gen (f : Item → Except Err Rat) (hf : ∀ x, f (Item.a (Atom.flt x)) = .ok x) :
    ∀ kps : List Rat, mapE f (kps.map fun x => Item.a (Atom.flt x)) = .ok kps
  | [] => rfl
  | x :: xs => by
    have ih := mapE_gen f hf xs
    simp only [List.map_cons, mapE]
    rw [hf x]; simp only; rw [ih]

theorem si_of_pairwise : ∀ kps : List Rat, kps.Pairwise (· < ·) → strictlyIncreasing kps = true
  | [], _ => rfl
  | [_], _ => rfl
  | a :: b :: rest, h => by
    have h1 := List.pairwise_cons.mp h
    simp only [strictlyIncreasing, Bool.and_eq_true, decide_eq_true_eq]
    exact ⟨h1.1 b List.mem_cons_self, si_of_pairwise (b :: rest) h1.2⟩

theorem bridge (kps : List Rat) (h2 : 2 ≤ kps.length) (hp : kps.Pairwise (· < ·)) :
    parseKeypoints (kpVal kps) = .ok (some kps) := by
  unfold parseKeypoints kpVal
  simp only [Val.isNone, Val.len, Val.iter, bind, Except.bind, List.length_map, pure, Except.pure]
  have hlt : ¬ kps.length < 2 := by omega
  simp only [hlt, if_false]
  rw [mapE_gen _ (fun x => rfl) kps]
  simp [si_of_pairwise kps hp]

/-- what a C18 T4 could look like: weighted/unweighted results are accepted by C16's keypoint parser -/
theorem c18_unweighted_accepted (values : List Rat) (k : Nat) (clipMin clipMax dflt : Option Rat) (red : Tfl.Keypoints.Reduce)
    (dirs : List Int) (hk : 2 ≤ k) (hn : k ≤ (Tfl.C18.sortedValues values none clipMin clipMax dflt).length) :
    ∃ kps, Tfl.Keypoints.computeKeypoints values k .quantiles clipMin clipMax dflt none red dirs = .ok kps ∧
      parseKeypoints (kpVal kps) = .ok (some kps) := by
  obtain ⟨kps, h, hl, hp, _⟩ := Tfl.C18.quantiles_unweighted values k clipMin clipMax dflt red dirs hk hn
  exact ⟨kps, h, bridge kps (by omega) hp⟩
#print axioms c18_unweighted_accepted
