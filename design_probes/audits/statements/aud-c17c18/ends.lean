import TflModel.Props.C18
open Tfl Tfl.Keypoints Tfl.C18

theorem head_of_strict_rat {s : List Rat} (hs : s.Pairwise (· < ·)) {m : Rat} (hm : m ∈ s) (hlo : ∀ z ∈ s, m ≤ z) :
    s[0]? = some m := by
  obtain ⟨i, hi, rfl⟩ := List.getElem_of_mem hm
  rcases Nat.eq_zero_or_pos i with rfl | hpos
  · exact List.getElem?_eq_getElem hi
  · have h1 := List.pairwise_iff_getElem.mp hs 0 i (by omega) hi hpos
    have h2 := hlo (s[0]'(by omega)) (List.getElem_mem _)
    exact absurd (lt_of_lt_of_le h1 h2) (lt_irrefl _)

/-- with `clip_min = c` (and `clip_max ≥ c` if given) the smallest prepared value is `c` -/
theorem sortedValues_head_clipMin (values : List Rat) (weights : Option (List Rat)) (c : Rat) (clipMax dflt : Option Rat)
    (hmax : ∀ c', clipMax = some c' → c ≤ c') :
    (sortedValues values weights (some c) clipMax dflt)[0]? = some c := by
  unfold sortedValues
  apply head_of_strict_rat (unique_pairwise _)
  · rw [mem_unique]
    unfold prepare
    cases clipMax with
    | none => simp
    | some c' =>
      have := hmax c' rfl
      simp only [List.map_append, List.map_map, List.mem_append, List.mem_map, List.map_cons, List.map_nil,
        List.mem_singleton]
      left; right
      simp [min_eq_left this]
  · intro z hz
    rw [mem_unique] at hz
    unfold prepare at hz
    cases clipMax with
    | none =>
      simp only [List.map_append, List.map_map, List.mem_append, List.mem_map, List.map_cons, List.map_nil,
        List.mem_singleton] at hz
      rcases hz with ⟨p, _, rfl⟩ | rfl
      · exact le_max_right _ _
      · exact le_refl _
    | some c' =>
      have hcc := hmax c' rfl
      simp only [List.map_append, List.map_map, List.mem_append, List.mem_map, List.map_cons, List.map_nil,
        List.mem_singleton] at hz
      rcases hz with (⟨p, _, rfl⟩ | rfl) | rfl
      · exact le_min (le_max_right _ _) hcc
      · exact le_min (le_refl _) hcc
      · exact hcc
#print axioms sortedValues_head_clipMin
