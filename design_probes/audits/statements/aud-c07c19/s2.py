import os
os.environ['TF_CPP_MIN_LOG_LEVEL']='3'
import numpy as np, tensorflow as tf
import tensorflow_lattice as tfl
from tensorflow_lattice.python import kronecker_factored_lattice_layer as m
keras = m.keras
print("keras module:", keras.__name__, getattr(keras,'__version__',None))
def trial(opt_factory, name):
    layer = tfl.layers.KroneckerFactoredLattice(lattice_sizes=2, units=1, num_terms=1, monotonicities=[1])
    model = keras.Sequential([keras.layers.Input(shape=(1,)), layer])
    layer.kernel.assign(np.array([[[[0.25]],[[1.0]]]],dtype=np.float32))
    layer.scale.assign(np.array([[1.0]],dtype=np.float32))
    layer.finalize_constraints()
    model.compile(optimizer=opt_factory(), loss='mse')
    x = np.array([[0.0],[1.0]],dtype=np.float32); y = np.array([[0.0],[-5.0]],dtype=np.float32)  # target decreasing
    print(name, "trainable order:", [v.name for v in model.trainable_variables])
    for step in range(3):
        model.train_on_batch(x,y)
        out = model.predict(x,verbose=0).ravel()
        print(name,"step",step,"kernel",layer.kernel.numpy().ravel(),"scale",layer.scale.numpy().ravel(),"f(0),f(1)",out,"MONO" if out[0]<=out[1]+1e-6 else "DECREASING")
trial(lambda: keras.optimizers.SGD(learning_rate=0.5), "SGD")
try:
    trial(lambda: keras.optimizers.legacy.SGD(learning_rate=0.5), "legacySGD")
except Exception as e:
    print("legacy err", e)
