import os
os.environ['TF_CPP_MIN_LOG_LEVEL']='3'
import numpy as np, tensorflow as tf
import tensorflow_lattice as tfl

def run(lo, hi, s_old, s_new):
    layer = tfl.layers.KroneckerFactoredLattice(lattice_sizes=2, units=1, num_terms=1, monotonicities=[1],
                                                output_min=lo, output_max=hi)
    layer.build(tf.TensorShape([None,1]))
    layer.kernel.assign(np.array([[[[0.25]],[[1.0]]]],dtype=np.float32))   # increasing
    layer.scale.assign(np.array([[s_old]],dtype=np.float32))
    # update K; constrain K ; update S ; constrain S  (per-variable order of a Keras optimizer)
    c = layer.kernel.constraint
    if c is not None: layer.kernel.assign(c(layer.kernel))
    layer.scale.assign(np.array([[s_new]],dtype=np.float32))
    c = layer.scale.constraint
    if c is not None: layer.scale.assign(c(layer.scale))
    out = layer(tf.constant([[0.0],[1.0]])).numpy().ravel()
    print("bounds",lo,hi,"s_old",s_old,"s_new",s_new,"kernel",layer.kernel.numpy().ravel(),"scale",layer.scale.numpy().ravel(),"f(0),f(1)=",out, "MONOTONE" if out[0]<=out[1] else "DECREASING")
run(None,None,1.0,-1.0)
run(0.0,1.0,0.5,-0.5)
run(0.0,None,-1.0,1.0)
run(None,1.0,1.0,-1.0)
