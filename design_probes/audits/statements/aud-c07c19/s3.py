import os
os.environ['TF_CPP_MIN_LOG_LEVEL']='3'
import numpy as np, tensorflow as tf
import tensorflow_lattice as tfl
for interp in ["hypercube","simplex"]:
  for sizes,x in [([2],[-0.5]),([3,2],[2.5,0.25]),([2,2],[1.5,0.5])]:
    try:
        layer = tfl.layers.Lattice(lattice_sizes=sizes, interpolation=interp, clip_inputs=False, dtype=tf.float64)
        xin = tf.constant([x],dtype=tf.float64)
        layer(xin)
        with tf.GradientTape() as tape:
            out = layer(xin)
        J = tape.jacobian(out, layer.kernel).numpy().ravel()
        print(interp,sizes,x,"J=",J,"sum=",J.sum(),"min=",J.min())
    except Exception as e:
        print(interp,sizes,x,"ERR",type(e).__name__,str(e)[:100])
