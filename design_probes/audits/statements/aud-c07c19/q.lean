import TflModel.Props.C07
import TflModel.Props.C19Deriv
open Tfl Tfl.Kfl
#print axioms Tfl.C07.layer_monotone_and_bounded_after_constraints
#print axioms Tfl.C07.finalize_constraints_establishes_premises
#print axioms Tfl.C19.gradFactors_hasFDerivAt
#print axioms Tfl.C19.simplex_jacobian_row_convex
#print axioms Tfl.C19.lattice_jacobian_row_convex
-- the history of s1.py in the model: consK with scale +1, raw scale update to -1, consS
example : ¬ ValidRun 2 [true] none none { K := [[[1/4, 1]]], scale := [1] } [.consK [1], .assignS [-1], .consS] := by
  simp [ValidRun]
-- model reproduces the decrease
example :
    let fin := runOps [true] none none { K := [[[1/4, 1]]], scale := [1] } [.consK [1], .assignS [-1], .consS]
    eval 2 false fin.K fin.scale 0 [0] = -1/4 ∧ eval 2 false fin.K fin.scale 0 [1] = -1 := by
  decide +kernel
-- two-sided variant
example :
    let fin := runOps [true] (some 0) (some 1) { K := [[[1/4, 1]]], scale := [1/2] } [.consK [1], .assignS [-1/2], .consS]
    eval 2 false fin.K fin.scale (1/2) [0] = 3/8 ∧ eval 2 false fin.K fin.scale (1/2) [1] = 0 := by
  decide +kernel
-- out-of-range, clip off: lattice weights
#eval LatticeEval.hypercubeWeights .tensor false [3, 2] [5/2, 1/4]
#eval Tfl.C19.simplexKernelWeights false [3, 2] [5/2, 1/4] 6
#eval LatticeEval.hypercubeWeights .tensor false [2] [-1/2]
