import TflModel.Props.C04
open Tfl Tfl.PwlProj

theorem pc_total (hs L : List Rat) (cv : Int) (g : Nat) (hcv : cv = 0 ∨ cv = 1 ∨ cv = -1)
    (hl : L.length = hs.length) (hg : g = 0 ∨ g = 1) : ∃ r, projectConvexity hs L cv g = .ok r := by
  unfold projectConvexity
  have h1 : ¬ (cv ≠ 0 ∧ cv ≠ 1 ∧ cv ≠ -1) := by omega
  have h2 : ¬ (L.length ≠ hs.length) := by omega
  have h3 : ¬ (g ≠ 0 ∧ g ≠ 1) := by omega
  rw [if_neg h1, if_neg h2, if_neg h3]
  split_ifs
  · exact ⟨_, rfl⟩
  · exact ⟨_, rfl⟩
  · split <;> exact ⟨_, rfl⟩

theorem apbo_total (b : Rat) (hs : List Rat) (omin omax : Rat) (minC maxC : BCT) (h1 : minC ≠ .clamped)
    (h2 : maxC ≠ .clamped) : ∃ r, approxProjectBoundsOnly b hs omin omax minC maxC = .ok r := by
  unfold approxProjectBoundsOnly
  have : ¬ (minC = .clamped ∨ maxC = .clamped) := by tauto
  rw [if_neg this]
  split_ifs <;> exact ⟨_, rfl⟩

theorem pbcm_total (b : Rat) (hs : List Rat) (m : Int) (hm : m = 1 ∨ m = -1) (omin omax : Rat) (minC maxC : BCT) :
    ∃ r, projectBoundsConsideringMonotonicity b hs m omin omax minC maxC = .ok r := by
  unfold projectBoundsConsideringMonotonicity
  rcases hm with e | e
  · subst e; simp
  · subst e; simp

theorem stepBounds_total (c : Cfg) (hc : CfgOk c)
    (hcl : c.mono = 0 → c.minC ≠ .clamped ∧ c.maxC ≠ .clamped) (st : State) :
    ∃ s, stepBounds c st = .ok s := by
  unfold stepBounds
  split_ifs with hB hm
  · have hm1 : c.mono = 1 ∨ c.mono = -1 := by
      rcases hc.mono with e | e | e
      · exact absurd e hm
      · exact Or.inl e
      · exact Or.inr e
    obtain ⟨r, hr⟩ := pbcm_total (st.bias - st.lc.biasBounds) (vsub st.heights st.lc.hBounds) c.mono hm1
      c.omin c.omax c.minC c.maxC
    simp only [hr, Except.map]
    exact ⟨_, rfl⟩
  · have hm0 : c.mono = 0 := by simpa using hm
    obtain ⟨a, b⟩ := hcl hm0
    obtain ⟨r, hr⟩ := apbo_total (st.bias - st.lc.biasBounds) (vsub st.heights st.lc.hBounds)
      c.omin c.omax c.minC c.maxC a b
    simp only [hr, Except.map]
    exact ⟨_, rfl⟩
  · exact ⟨_, rfl⟩

theorem stepConv0_total (c : Cfg) (hc : CfgOk c) (L : List Rat) (n : Nat) (hlen : c.conv ≠ 0 → 2 ≤ n → L.length = n)
    (st : State) (hw : WF n st) : ∃ s, stepConv0 c L st = .ok s := by
  unfold stepConv0
  split_ifs with h
  · have hl : L.length = (vsub st.heights st.lc.hConv0).length := by
      rw [length_vsub, hw.1, hw.2.2.2.1]; simp; exact hlen h.1 (by rw [← hw.1]; exact h.2)
    obtain ⟨r, hr⟩ := pc_total _ L c.conv 0 hc.conv hl (Or.inl rfl)
    simp only [hr, Except.map]; exact ⟨_, rfl⟩
  · exact ⟨_, rfl⟩

theorem stepConv1_total (c : Cfg) (hc : CfgOk c) (L : List Rat) (n : Nat) (hlen : c.conv ≠ 0 → 2 ≤ n → L.length = n)
    (st : State) (hw : WF n st) : ∃ s, stepConv1 c L st = .ok s := by
  unfold stepConv1
  split_ifs with h
  · have hl : L.length = (vsub st.heights st.lc.hConv1).length := by
      rw [length_vsub, hw.1, hw.2.2.2.2]; simp; exact hlen h.1 (by rw [← hw.1]; omega)
    obtain ⟨r, hr⟩ := pc_total _ L c.conv 1 hc.conv hl (Or.inr rfl)
    simp only [hr, Except.map]; exact ⟨_, rfl⟩
  · exact ⟨_, rfl⟩

theorem body_total (c : Cfg) (hc : CfgOk c) (hcl : c.mono = 0 → c.minC ≠ .clamped ∧ c.maxC ≠ .clamped)
    (L : List Rat) (n : Nat) (hlen : c.conv ≠ 0 → 2 ≤ n → L.length = n) (st : State) (hw : WF n st) :
    ∃ s, body c L st = .ok s := by
  obtain ⟨s1, h1⟩ := stepBounds_total c hc hcl st
  have w1 := (stepBounds_spec c n st s1 hw h1).1
  have w2 := (stepMono_spec c n s1 w1).1
  obtain ⟨s3, h3⟩ := stepConv0_total c hc L n hlen _ w2
  have w3 := (stepConv0_spec c L n _ s3 w2 h3).1
  obtain ⟨s4, h4⟩ := stepConv1_total c hc L n hlen s3 w3
  refine ⟨s4, ?_⟩
  unfold body
  simp only [bind, Except.bind, h1, h3, h4]

theorem whileLoop_total (c : Cfg) (hc : CfgOk c) (hcl : c.mono = 0 → c.minC ≠ .clamped ∧ c.maxC ≠ .clamped)
    (L : List Rat) (n : Nat) (hlen : c.conv ≠ 0 → 2 ≤ n → L.length = n) (lim fuel : Nat) (st : State)
    (hw : WF n st) : ∃ s, whileLoop c L lim fuel st = .ok s := by
  induction fuel generalizing st with
  | zero => exact ⟨st, rfl⟩
  | succ k ih =>
    simp only [whileLoop]
    split_ifs
    · obtain ⟨s, hs⟩ := body_total c hc hcl L n hlen st hw
      rw [hs]
      exact ih s (body_spec c L n st s hw hs).1
    · exact ⟨st, rfl⟩

/-- totality: for a `CfgOk` configuration without "clamp and no monotonicity" and with matching
lengths when convexity needs them, `projectAll` always returns -/
theorem projectAll_total (c : Cfg) (hc : CfgOk c) (hcl : c.mono = 0 → c.minC ≠ .clamped ∧ c.maxC ≠ .clamped)
    (L : List Rat) (it : Nat) (b : Rat) (hs : List Rat)
    (hlen : c.conv ≠ 0 → 2 ≤ hs.length → L.length = hs.length) :
    ∃ out, projectAll c L it b hs = .ok out := by
  unfold projectAll
  obtain ⟨s1, h1⟩ := body_total c hc hcl L hs.length hlen _ (wf_init b hs)
  rw [h1]
  simp only
  split_ifs
  · exact ⟨_, rfl⟩
  · obtain ⟨s, h⟩ := whileLoop_total c hc hcl L hs.length hlen (it * s1.counter) (it * s1.counter) _ (wf_init b hs)
    rw [h]
    simp only
    rw [finalize_eq]
    split_ifs <;> exact ⟨_, rfl⟩
#print axioms projectAll_total
