import TflModel.Props.C05
open Tfl Tfl.PwlEval Tfl.Poset
example (cfg : Cfg) (kernels wss : List (List Rat)) (mouts xs ms : List Rat)
    (h : xs.length = kernels.length) (h1 : xs.length ≠ 1) (hm : ms.length = xs.length) :
    callUnits cfg kernels wss mouts xs (some ms) =
      (List.range kernels.length).mapM (fun u =>
        call cfg (kernels.getD u []) (wss.getD u []) (getR mouts u) (getR xs u) (some (getR ms u))) := by
  have h1' : kernels.length ≠ 1 := h ▸ h1
  simp [callUnits, h, h1', hm]
-- categorical "monotone" corollary (order of rows carried to the outputs)
example (k : List Rat) (d : Option Int) (i j : Int) (hi : 0 ≤ i ∧ i < k.length) (hj : 0 ≤ j ∧ j < k.length)
    (hdi : d ≠ some i) (hdj : d ≠ some j) (h : getV k i.toNat ≤ getV k j.toNat) :
    Categorical.call k d i ≤ Categorical.call k d j := by
  rw [Tfl.C05.category_maps_to_row k d i hi.1 hi.2 hdi, Tfl.C05.category_maps_to_row k d j hj.1 hj.2 hdj]; exact h
