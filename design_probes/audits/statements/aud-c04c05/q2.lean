import TflModel.Props.C04
open Tfl Tfl.PwlProj Tfl.C04
def bcts : List BCT := [.none, .bound, .clamped]
def kernels : List (List Rat × List Rat) :=
  [([1], [3]), ([1,2], [-1, 4]), ([1,2,1/2], [5,-2,3]), ([1,1,1,3], [-7, 2, -3, 9])]
def sweep : List (Int × Int × Nat × Nat × Nat × Nat) := Id.run do
  let mut bad := []
  for m in [(-1:Int),0,1] do
    for cv in [(-1:Int),0,1] do
      for (i, a) in bcts.zipIdx.map (fun p => (p.2, p.1)) do
        for (j, b) in bcts.zipIdx.map (fun p => (p.2, p.1)) do
          for it in [0,1,3] do
            for (L, hs) in kernels do
              let expectErr := m == 0 && (a == .clamped || b == .clamped)
              let r := projectAll ⟨m, cv, -1, 2, a, b⟩ L it 7 hs
              let isErr := match r with | .ok _ => false | .error _ => true
              if isErr != expectErr then bad := (m, cv, i, j, it, hs.length) :: bad
  return bad
#eval sweep
