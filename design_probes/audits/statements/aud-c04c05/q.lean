import TflModel.Props.C04
import TflModel.Props.C05
open Tfl Tfl.PwlProj Tfl.C04
#print axioms Tfl.C04.monotone_exact
#print axioms Tfl.C04.bounds_hold
#print axioms Tfl.C04.convex_exact
#print axioms Tfl.C04.clamp_hit
#print axioms Tfl.C04.feasible_unchanged
#print axioms Tfl.C05.pwl_linear_between
#print axioms Tfl.C05.learned_keypoints_ordered
-- non-vacuity probes: .ok on decreasing, one-sided, conv w/o mono with bounds, cyclic-like (L longer)
#eval projectAll ⟨-1, 0, 0, 1, .clamped, .clamped⟩ [1, 2, 1] 1 5 [1, -2, 3]
#eval projectAll ⟨-1, -1, 0, 1, .none, .bound⟩ [1, 2, 1] 3 5 [1, -2, 3]
#eval projectAll ⟨0, 1, 0, 1, .bound, .bound⟩ [1, 2, 1] 3 5 [1, -2, 3]
#eval projectAll ⟨0, 0, 0, 1, .bound, .bound⟩ [1, 2, 1] 3 5 [1, -2]
#eval projectAll ⟨0, 1, 0, 1, .bound, .bound⟩ [1, 2, 1] 3 5 [1, -2]
#eval projectAll ⟨1, 0, 0, 1, .clamped, .none⟩ [1, 2, 1] 3 5 [1, -2, 3]
#eval projectAll ⟨1, 0, 0, 1, .none, .clamped⟩ [1, 2, 1] 1 5 [1, -2, 3]
