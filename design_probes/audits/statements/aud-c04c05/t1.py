import os
os.environ['TF_CPP_MIN_LOG_LEVEL']='3'
import numpy as np, tensorflow as tf
import tensorflow_lattice as tfl
# fixed missing_output_value outside [output_min, output_max]
l = tfl.layers.PWLCalibration(input_keypoints=[0.,1.,2.], units=2, output_min=0., output_max=1., monotonicity=1,
                              impute_missing=True, missing_input_value=-1., missing_output_value=5.)
y = l(tf.constant([[-1.],[0.5]]))
print("fixed missing out:", y.numpy(), "constraint on missing_output:", getattr(l.missing_output,'constraint',None))
try:
    a = l.assert_constraints()
    print("assert_constraints ok", len(a))
except Exception as e:
    print("assert_constraints raised", type(e).__name__, e)
# categorical float input / non-integer
c = tfl.layers.CategoricalCalibration(num_buckets=3, units=1, default_input_value=-1)
c.build((None,1)); c.kernel.assign([[5.],[6.],[7.]])
print("cat float in:", c(tf.constant([[1.9],[-1.0],[-0.5],[2.0]])).numpy().ravel())
