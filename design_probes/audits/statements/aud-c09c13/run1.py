import os
os.environ['TF_CPP_MIN_LOG_LEVEL']='3'
import numpy as np, tensorflow as tf
import tensorflow_lattice as tfl
from tensorflow_lattice.python import lattice_lib, pwl_calibration_layer as pl
# torsion, per-dim list amounts: scaling list by 2 -> x4
w = tf.constant(np.array([[0.],[1.],[3.],[7.]]), dtype=tf.float64)
a = float(lattice_lib.torsion_regularizer(w,[2,2],l1=[1.,1.],l2=0.0))
b = float(lattice_lib.torsion_regularizer(w,[2,2],l1=[2.,2.],l2=0.0))
c = float(lattice_lib.torsion_regularizer(w,[2,2],l1=[3.,3.],l2=0.0))
print("torsion l1=[1,1]:",a," [2,2]:",b," [3,3]=[1,1]+[2,2]:",c, " additive would be", a+b)
obj = tfl.layers.Lattice  # noqa
r1 = tfl.lattice_layer.TorsionRegularizer([2,2], l1=[1.,1.])(w); r2 = tfl.lattice_layer.TorsionRegularizer([2,2], l1=[2.,2.])(w)
print("object:", float(r1), float(r2))
# negative per-dim list accepted?
try:
  print("neg list torsion:", float(tfl.lattice_layer.TorsionRegularizer([2,2], l1=[-1.,1.])(w)))
except Exception as e: print("neg list raised", type(e).__name__, e)
try:
  print("neg scalar torsion:", float(tfl.lattice_layer.TorsionRegularizer([2,2], l1=-1.)(w)))
except Exception as e: print("neg scalar raised", type(e).__name__, e)
# PWL cyclic Hessian on affine outputs 0,1,2 ; wrinkle on quadratic 0,1,4,9 ; laplacian const
x = tf.constant([[0.],[1.],[1.]], dtype=tf.float64)
print("hess cyc affine:", float(pl.HessianRegularizer(l1=1.0, is_cyclic=True)(x)), " non-cyc:", float(pl.HessianRegularizer(l1=1.0)(x)))
xq = tf.constant([[0.],[1.],[3.],[5.]], dtype=tf.float64)
print("wrinkle cyc quad:", float(pl.WrinkleRegularizer(l1=1.0, is_cyclic=True)(xq)), " non-cyc:", float(pl.WrinkleRegularizer(l1=1.0)(xq)))
xc = tf.constant([[5.],[0.],[0.],[0.]], dtype=tf.float64)
print("lap cyc const:", float(pl.LaplacianRegularizer(l1=1.0, l2=1.0, is_cyclic=True)(xc)))
