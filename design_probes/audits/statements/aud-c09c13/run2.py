import os
os.environ['TF_CPP_MIN_LOG_LEVEL']='3'
import numpy as np, tensorflow as tf
import tensorflow_lattice as tfl
from tensorflow_lattice.python import pwl_calibration_layer as pl, pwl_calibration_lib as plib, linear_layer as ll, kronecker_factored_lattice_lib as kl, categorical_calibration_layer as cl
rng=np.random.RandomState(0)
worst=0
for t in range(40):
  k=rng.randint(3,7); U=3
  w=rng.randn(k,U)*np.array([1,100,0.01])
  mono=int(rng.choice([-1,0,1])); conv=int(rng.choice([-1,1]))
  omin,omax=-1.0,2.0
  _,_,minc,maxc=plib.convert_all_constraints(omin,omax,False,False)
  c=pl.PWLCalibrationConstraints(monotonicity=mono,convexity=conv,lengths=tf.constant(rng.rand(k-1)+0.5,dtype=tf.float64),output_min=omin,output_max=omax,output_min_constraints=minc,output_max_constraints=maxc,num_projection_iterations=8)
  full=c(tf.constant(w)).numpy()
  for u in range(U):
    s=c(tf.constant(w[:,u:u+1])).numpy()[:,0]
    worst=max(worst,np.max(np.abs(full[:,u]-s))/max(1,np.max(np.abs(s))))
print("pwl convex+mono(dec incl.) per-unit worst rel diff:",worst)
worst=0
for t in range(40):
  n=4;U=3
  w=rng.randn(n,U)*np.array([1,100,0.01])
  c=ll.LinearConstraints(monotonicities=[1,1,1,1],monotonic_dominances=[(3,2)],range_dominances=[(0,1)],input_min=[0.,0.,None,None],input_max=[1.,2.,None,None],normalization_order=2)
  full=c(tf.constant(w)).numpy()
  for u in range(U):
    s=c(tf.constant(w[:,u:u+1])).numpy()[:,0]
    worst=max(worst,np.max(np.abs(full[:,u]-s)))
print("linear full constraint (L2 norm, dominances) per-unit worst abs diff:",worst)
worst=0
for t in range(20):
  L,dims,T,U=3,2,2,3
  w=rng.randn(1,L,U*dims,T); sc=rng.randn(U,T)
  full=kl.finalize_weight_constraints(tf.constant(w),units=U,scale=tf.constant(sc),monotonicities=[1,0],output_min=0.,output_max=1.).numpy()
  for u in range(U):
    s=kl.finalize_weight_constraints(tf.constant(w[:,:,u*dims:(u+1)*dims,:]),units=1,scale=tf.constant(sc[u:u+1]),monotonicities=[1,0],output_min=0.,output_max=1.).numpy()
    worst=max(worst,np.max(np.abs(full[:,:,u*dims:(u+1)*dims,:]-s)))
print("kfl finalize_weight_constraints per-unit worst abs diff:",worst)
