import TflModel.Props.C09
import TflModel.Props.C13
open Tfl Tfl.Reg Tfl.Units Tfl.Lat
#print axioms Tfl.C09.lattice_constraint_per_unit
#print axioms Tfl.C09.finalize_per_unit
#print axioms Tfl.C09.pwl_bounds_and_scaling_per_unit
#print axioms Tfl.C09.linear_normalization_per_unit
#print axioms Tfl.C09.kfl_reshape_per_unit
#print axioms Tfl.C09.lattice_constraint_unit_permutation
#print axioms Tfl.C13.laplacian_eq_documented
#print axioms Tfl.C13.torsion_eq_documented
#print axioms Tfl.C13.pwl_wrinkle_eq_documented
#print axioms Tfl.C13.torsion_separable
#print axioms Tfl.C13.torsion_per_unit
-- cyclic Hessian on affine-in-index outputs (0,1,2) does not vanish
example : pwlHessian 1 0 true [[0, 1, 1]] = 6 := by decide +kernel
example : outs [0,1,1] = [0,1,2] := by decide +kernel
-- cyclic wrinkle on quadratic outputs (0,1,4,9) does not vanish
example : pwlWrinkle 1 0 true [[0, 1, 3, 5]] ≠ 0 := by decide +kernel
-- cyclic Laplacian on constants vanishes (instance)
example : pwlLaplacian 1 1 true [[5, 0, 0, 0]] = 0 := by decide +kernel
-- L2 normalisation is identity in both models
example (units : Nat) (m : Mat) : normalizeU units .l2 m = m := rfl
example (v : List ℚ) : Tfl.Linear.normalize .l2 v = v := rfl
-- DCfgWF satisfiable on a nontrivial cfg
example : DCfgWF ({ sizes := [3, 3], mono := [true, false], edgeworth := [⟨0, 1, true⟩] } : DCfg) :=
  ⟨by decide, by decide, by intro tr h; simp at h; subst h; exact ⟨by decide, by decide⟩, by intro p h; simp at h, by intro ju h; simp at h⟩
