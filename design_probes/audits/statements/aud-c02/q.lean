import TflModel.Props.C02Accepted
import TflModel.Props.C02Lip
open Tfl Tfl.LatticeEval Tfl.C02
#print axioms Tfl.C02.C02_T4_simplex_mono
#print axioms Tfl.C02.C02_T4_hypercube_mono
#print axioms Tfl.C02.C02_T5_edgeworth
#print axioms Tfl.C02.C02_T6_simplex_lipschitz
#print axioms Tfl.C02.accepted_monotone
#print axioms Tfl.C02.C02_T3_agree_edge
-- model-level: monotone kernel, clip off, out-of-range: output decreases (general path)
def K3 : W := fun idx => (coord idx 0 : ℚ)
example : MonoAx [3] 0 K3 := by unfold MonoAx; decide +kernel
example : kernelOf [3] K3 = [0,1,2] := by decide +kernel
example : hypercubeValue .tensor false [3] (kernelOf [3] K3) [2] = 2 := by decide +kernel
example : hypercubeValue .tensor false [3] (kernelOf [3] K3) ([2].set 0 (5/2)) = 1 := by decide +kernel
example : hypercubeValue .list false [3] (kernelOf [3] K3) ([2].set 0 3) = 0 := by decide +kernel
-- fast path
def K22 : W := fun idx => (Table.ofVals [2,2] [0,0,10,0]).get idx
example : MonoAx [2,2] 0 K22 := by unfold MonoAx; decide +kernel
example : hypercubeValue .tensor false [2,2] (kernelOf [2,2] K22) [0, 3/2] = 0 := by decide +kernel
example : hypercubeValue .tensor false [2,2] (kernelOf [2,2] K22) ([0, 3/2].set 0 1) = -5 := by decide +kernel
-- simplex silently wrong vertex
example : evalSimplex false [3,3] [0,1,2,3,4,5,6,7,8] [1, -3/2] = .ok (3/2) := by decide +kernel
