import os
os.environ['TF_CPP_MIN_LOG_LEVEL']='3'
import numpy as np, tensorflow as tf
import tensorflow_lattice as tfl
rng=np.random.RandomState(0)
sizes=[3,2,3]; bad=0; n=0
for trial in range(200):
    a=rng.randn(*sizes)
    inc=np.cumsum(np.cumsum(np.abs(rng.randn(*sizes)),axis=0),axis=2)
    K=inc+a[:, :, :1]+a[:1,:,:]
    l=tfl.layers.Lattice(lattice_sizes=sizes,interpolation='hypercube',clip_inputs=True,dtype='float64',
                         edgeworth_trusts=[(0,2,'positive')],monotonicities=['increasing','none','none'])
    l.build((None,3)); l.kernel.assign(K.reshape(-1,1))
    x=rng.uniform(-0.5,2.5,size=3); m=np.sort(rng.uniform(-0.5,2.5,2)); c=np.sort(rng.uniform(-0.5,2.5,2))
    P=[]
    for im,ic in [(0,0),(1,0),(0,1),(1,1)]:
        y=x.copy(); y[0]=m[im]; y[2]=c[ic]; P.append(y)
    v=l(tf.constant(np.array(P))).numpy().ravel()
    n+=1
    if (v[3]-v[2]) < (v[1]-v[0]) - 1e-9: bad+=1
print('edgeworth axes (0,2) rank3: trials',n,'violations',bad)
