import os
os.environ['TF_CPP_MIN_LOG_LEVEL']='3'
import numpy as np, tensorflow as tf
import tensorflow_lattice as tfl
from tensorflow_lattice.python import lattice_lib as ll

def layer(sizes, K, interp, clip, units=1, mono=None):
    l = tfl.layers.Lattice(lattice_sizes=sizes, units=units, interpolation=interp, clip_inputs=clip,
                           monotonicities=mono, dtype='float64')
    l.build((None, len(sizes)))
    l.kernel.assign(np.array(K, dtype=np.float64).reshape(-1, units))
    return l

# 1. general path hypercube, clip off, monotone kernel [0,1,2], size 3
l = layer([3], [0,1,2], 'hypercube', False, mono=['increasing'])
l.assert_constraints()
print('hyper [3] clip off, x=2,2.5,3,-0.5 ->', l(tf.constant([[2.],[2.5],[3.],[-0.5]], dtype=tf.float64)).numpy().ravel())
# constant kernel range
l = layer([3], [1,1,1], 'hypercube', False)
print('hyper [3] const kernel x=2.5 ->', l(tf.constant([[2.5]], dtype=tf.float64)).numpy().ravel())
# 2. fast path all-2 tensor, clip off; K monotone in axis 0: K[0,0]=0,K[1,0]=10,K[0,1]=0,K[1,1]=10 → slope in x0 = (1-x1)*10 + x1*0 ; set K = [[0,0],[10,0]]: K[i,j]; mono along axis0: K[1,0]>=K[0,0] (10>=0), K[1,1]>=K[0,1] (0>=0)
l = layer([2,2], [0,0,10,0], 'hypercube', False, mono=['increasing','none'])
print('hyper [2,2] fast clip off, x=(0,1.5),(1,1.5) ->', l(tf.constant([[0.,1.5],[1.,1.5]], dtype=tf.float64)).numpy().ravel())
# 3. simplex clip off out of range
l = layer([3,3], list(range(9)), 'simplex', False, mono=['increasing','increasing'])
for x in [[1.,-1.5],[1.,-0.5],[1.,2.5],[2.5, 1.],[3.5,1.]]:
    try:
        print('simplex [3,3] clip off', x, '->', l(tf.constant([x], dtype=tf.float64)).numpy().ravel())
    except Exception as e:
        print('simplex [3,3] clip off', x, 'EXC', type(e).__name__)
# simplex monotone pair out of range, kernel monotone in axis 0
l = layer([3], [0,1,2], 'simplex', False, mono=['increasing'])
print('simplex [3] clip off x=-0.5,-1,-1.5,2.5,3.5', end=' ')
for x in [-0.5,-1.,-1.5,2.5,3.5]:
    try: print(l(tf.constant([[x]], dtype=tf.float64)).numpy().ravel(), end=' ')
    except Exception as e: print(type(e).__name__, end=' ')
print()
