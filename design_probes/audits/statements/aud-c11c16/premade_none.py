import os
os.environ['TF_CPP_MIN_LOG_LEVEL']='3'
import numpy as np, tensorflow as tf
import tensorflow_lattice as tfl
fcs=[tfl.configs.FeatureConfig('f%d'%i, pwl_calibration_input_keypoints=[0.,0.5,1.]) for i in range(5)]
def mk(lat):
    mc=tfl.configs.CalibratedLatticeEnsembleConfig(feature_configs=fcs, lattices=lat, num_lattices=3, lattice_rank=2,
        output_initialization=[0.,1.], random_seed=None)
    if lat=='random':
        tfl.premade_lib.set_random_lattice_ensemble(mc)
    return tfl.premade.CalibratedLatticeEnsemble(mc)
x={('tfl_input_f%d'%i): np.random.RandomState(i).uniform(0,1,(6,1)).astype('float32') for i in range(5)}
for lat in ['rtl_layer','random']:
    try:
        m=mk(lat); y=m(x).numpy()
        m2=tfl.premade.CalibratedLatticeEnsemble.from_config(m.get_config(), custom_objects=tfl.premade.get_custom_objects())
        try:
            m2.set_weights(m.get_weights())
            y2=m2(x).numpy()
            print(lat,'outputs equal', np.allclose(y,y2), float(np.abs(y-y2).max()))
        except Exception as e:
            print(lat,'set_weights/predict', type(e).__name__, str(e)[:150])
    except Exception as e:
        print(lat,'RAISED', type(e).__name__, str(e)[:200])
