import os
os.environ['TF_CPP_MIN_LOG_LEVEL']='3'
import numpy as np, tensorflow as tf
import tensorflow_lattice as tfl
def mk(seed):
    return tfl.layers.RTL(num_lattices=4, lattice_rank=2, random_seed=seed)
x = {'unconstrained': tf.constant(np.random.RandomState(0).uniform(0,1,(5,6)).astype('float32'))}
diff=0
for trial in range(5):
    l = mk(None); y = l(x)
    l2 = tfl.layers.RTL.from_config(l.get_config()); y2 = l2(x)
    s1 = l._rtl_structure; s2 = l2._rtl_structure
    same = (str(s1)==str(s2))
    if not same: diff+=1
    print(trial, 'cfg equal', l.get_config()==l2.get_config() , 'structure same', same)
    if not same and trial==0:
        print(s1); print(s2)
        try:
            l2.set_weights(l.get_weights()); print('out equal', np.allclose(l(x).numpy(), l2(x).numpy()))
        except Exception as e: print('set_weights', type(e).__name__, e)
print('diff', diff)
