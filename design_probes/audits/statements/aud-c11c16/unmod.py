import os
os.environ['TF_CPP_MIN_LOG_LEVEL']='3'
import numpy as np, tensorflow as tf
import tensorflow_lattice as tfl
def t(name, f):
    try:
        r = f()
        print(name, 'OK', r)
    except Exception as e:
        print(name, 'RAISED', type(e).__name__, str(e).splitlines()[0][:160] if str(e) else '')
w2 = tf.constant([[0.5],[-0.3]])
for order in [3, 0, 'inf', -1, 1.5, '1']:
    t('LinearConstraints norm=%r ctor+call'%(order,), lambda: tfl.layers.LinearConstraints(monotonicities=[1,1], normalization_order=order)(w2).numpy().ravel())
def lin(order):
    l = tfl.layers.Linear(num_input_dims=2, monotonicities=[1,1], normalization_order=order)
    y = l(tf.constant([[0.1,0.2]]))
    return l.kernel.constraint(l.kernel).numpy().ravel()
for order in [3, 0]:
    t('Linear norm=%r'%order, lambda: lin(order))
def pwl(**kw):
    l = tfl.layers.PWLCalibration(input_keypoints=[0.,1.,2.], **kw)
    y = l(tf.constant([[0.5]]))
    c = l.kernel.constraint
    return (y.numpy().ravel(), None if c is None else np.isfinite(c(l.kernel).numpy()).all())
t('PWL units=0', lambda: pwl(units=0))
t('PWL units=-1', lambda: pwl(units=-1))
t('PWL iters=-1 mono', lambda: pwl(monotonicity=1, convexity=1, output_min=0., output_max=1., num_projection_iterations=-1))
t('PWL iters=0 mono', lambda: pwl(monotonicity=1, convexity=1, output_min=0., output_max=1., num_projection_iterations=0))
def lat(**kw):
    l = tfl.layers.Lattice(lattice_sizes=[2,2], **kw)
    y = l(tf.constant([[0.5,0.5]]))
    c = l.kernel.constraint
    return (y.numpy().ravel(), None if c is None else np.isfinite(c(l.kernel).numpy()).all())
t('Lattice units=0', lambda: lat(units=0))
t('Lattice iters=-1', lambda: lat(monotonicities=[1,1], edgeworth_trusts=[(0,1,'positive')], num_projection_iterations=-1))
t('Lattice eps neg', lambda: lat(monotonicities=[1,1], monotonic_at_every_step=False, num_projection_iterations=0))
t('Cat units=0', lambda: tfl.layers.CategoricalCalibration(num_buckets=3, units=0)(tf.constant([[1]])).numpy())
t('KFL dims', lambda: tfl.layers.KroneckerFactoredLattice(lattice_sizes=2.0)(tf.constant([[0.5,0.5]])).numpy())
t('KFL mono bad', lambda: tfl.layers.KroneckerFactoredLattice(lattice_sizes=2, monotonicities=[1,-1])(tf.constant([[0.5,0.5]])).numpy())
t('KFL mono len', lambda: tfl.layers.KroneckerFactoredLattice(lattice_sizes=2, monotonicities=[1])(tf.constant([[0.5,0.5]])).numpy())
t('RTL rank0', lambda: tfl.layers.RTL(num_lattices=2, lattice_rank=0)({'unconstrained': tf.constant([[0.5,0.5]])}).numpy())
t('RTL nl0', lambda: tfl.layers.RTL(num_lattices=0, lattice_rank=2)({'unconstrained': tf.constant([[0.5,0.5]])}).numpy())
