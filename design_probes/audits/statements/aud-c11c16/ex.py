import sys
sys.path.insert(0,'/verif/harness')
import translate_configs as t
rows=t.extract()
print(len(rows))
from collections import Counter
print(Counter(r['kind'] for r in rows))
for r in rows:
    if r['file'] in ('pwl_calibration_layer.py','rtl_layer.py','premade.py','parallel_combination_layer.py','linear_layer.py'):
        print(r['cls'], r['kind'], 'kwargs',r['kwargs'], r['from_config'], r['consumes'], r['consumes_rest'])
        print('  params', r['params'])
        for k in r['keys']:
            print('   ', k)
