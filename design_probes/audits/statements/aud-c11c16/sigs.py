import re,sys
for f in sys.argv[1:]:
    src=open(f).read()
    print("=====",f)
    for m in re.finditer(r'^(theorem|lemma)\s+(\S+)(.*?):=', src, re.S|re.M):
        s=re.sub(r'\s+',' ',m.group(0))
        line=src[:m.start()].count('\n')+1
        print(f"{line}: {s[:700]}")
