import os
os.environ['TF_CPP_MIN_LOG_LEVEL']='3'
import numpy as np, tensorflow as tf
import tensorflow_lattice as tfl
def trycase(name, **kw):
    try:
        sizes = kw.pop('lattice_sizes',[3,3])
        l = tfl.layers.Lattice(lattice_sizes=sizes, **kw)
        x = tf.constant(np.random.RandomState(0).uniform(0,2,(4,len(sizes))).astype('float32'))
        y = l(x)
        w = tf.constant(np.random.RandomState(1).normal(size=l.kernel.shape).astype('float32'))
        c = l.kernel.constraint
        pw = c(w) if c is not None else w
        l.kernel.assign(pw)
        l.finalize_constraints()
        y = l(x)
        print(name, 'OK finite=', bool(np.all(np.isfinite(pw.numpy())) and np.all(np.isfinite(y.numpy()))))
    except Exception as e:
        print(name, 'RAISED', type(e).__name__, str(e)[:200])
trycase('mdom self', monotonicities=[1,1], monotonic_dominances=[(0,0)])
trycase('rdom self', monotonicities=[1,1], range_dominances=[(0,0)])
trycase('jmono self', monotonicities=[1,1], joint_monotonicities=[(0,0)])
trycase('dup edgeworth', monotonicities=[1,1], edgeworth_trusts=[(0,1,'positive'),(0,1,'positive')])
trycase('dup trapezoid', monotonicities=[1,1], trapezoid_trusts=[(0,1,'positive'),(0,1,'positive')])
trycase('mdom self simplex', monotonicities=[1,1], monotonic_dominances=[(0,0)], interpolation='simplex')
