import os
os.environ['TF_CPP_MIN_LOG_LEVEL']='3'
import numpy as np, tensorflow as tf
import tensorflow_lattice as tfl
from tensorflow_lattice.python import linear_layer as ll, pwl_calibration_layer as pl, cdf_layer
def t(name, f):
    try:
        r = f()
        print(name, 'OK', r)
    except Exception as e:
        print(name, 'RAISED', type(e).__name__, str(e).splitlines()[0][:160] if str(e) else '')
w2 = tf.constant([[0.5],[-0.3]])
for order in [3, 0, -1, 1.5, '1']:
    t('LinearConstraints norm=%r ctor+call'%(order,), lambda: ll.LinearConstraints(monotonicities=[1,1], normalization_order=order)(w2).numpy().ravel())
t('PWL units=0 ctor', lambda: pl.PWLCalibration(input_keypoints=[0.,1.,2.], units=0) and 'constructed')
def pwlb():
    l = pl.PWLCalibration(input_keypoints=[0.,1.,2.], units=0); l.build((None,1)); return 'built', l.kernel.shape
t('PWL units=0 build', pwlb)
t('CDF units=0', lambda: cdf_layer.CDF(num_keypoints=3, units=0)(tf.constant([[0.5,0.2]])).numpy())
t('CDF nk=0', lambda: cdf_layer.CDF(num_keypoints=0)(tf.constant([[0.5,0.2]])).numpy())
t('Linear units=0', lambda: ll.Linear(num_input_dims=2, units=0)(tf.constant([[0.5,0.2]])).numpy())
t('KFL units ok dims', lambda: tfl.layers.KroneckerFactoredLattice(lattice_sizes=2, num_terms=2)(tf.constant([[0.5,0.5]])).numpy())
