import TflModel.Props.C16
open Tfl Tfl.Verify
def r1 : RawLatFull :=
  { sizes := .s false [.a (.int 3), .a (.int 3)]
    mono := .s false [.a (.int 1), .a (.int 1)]
    md := .s false [.s true [.int 0, .int 0]]
    jm := .s false [.s true [.int 1, .int 1]]
    ew := .s false [.s true [.int 0, .int 1, .int 1], .s true [.int 0, .int 1, .int 1]] }
example : outcome (verifyLattice r1) = 0 := by decide +kernel
example : (verifyLattice r1).toOption.map
   (fun c => (decide ((c.ew.map (fun t => (atomNat t.main, atomNat t.cond))).Nodup), c.md, c.jm)) = some (false, [(0,0)], [(1,1)]) := by decide +kernel
example : (kflLayer ⟨.a (.flt 3), .a (.int 1), .a (.int 1), .a .none, .a .none⟩).toOption.map (·.size) = some 0 := by decide +kernel
