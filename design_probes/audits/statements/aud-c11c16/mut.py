import sys, ast, os
sys.path.insert(0,'/verif/harness')
import translate_configs as t
rows=t.extract()
d=t.repo_dir()
for r in rows:
    tree=ast.parse(open(os.path.join(d,r['file'])).read())
    cls=[n for n in tree.body if isinstance(n,ast.ClassDef) and n.name==r['cls']][0]
    attrs={k['attr'] for k in r['keys']}
    for fn in cls.body:
        if isinstance(fn,ast.FunctionDef) and fn.name!='__init__':
            for a in attrs:
                if a and any(t._assigns_attr(s,a) for s in fn.body):
                    print(r['cls'],fn.name,a)
