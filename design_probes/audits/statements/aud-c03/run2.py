import os
os.environ['TF_CPP_MIN_LOG_LEVEL']='3'
import numpy as np
import tensorflow as tf
import tensorflow_lattice as tfl
from tensorflow_lattice.python import configs, premade
rng = np.random.RandomState(0)
def fc(name, mono, **kw):
    return configs.FeatureConfig(name=name, lattice_size=3, monotonicity=mono,
        pwl_calibration_input_keypoints=[0.,1.,2.], pwl_calibration_num_keypoints=3, **kw)
feats = [fc("a","increasing"),
         fc("b","increasing", reflects_trust_in=[configs.TrustConfig("a", t, 1) for t in ("edgeworth","trapezoid")]),
         fc("c","decreasing")]
cfg = configs.CalibratedLatticeConfig(feature_configs=feats, output_min=0.0, output_max=1.0, output_initialization=[0.,1.])
m = premade.CalibratedLattice(cfg)
worst = {}
for it in range(30):
    for v in m.trainable_variables:
        v.assign(rng.normal(size=v.shape).astype(np.float32)*100)
    for v in m.trainable_variables:
        if v.constraint is not None: v.assign(v.constraint(v))
    grid = np.linspace(0, 2, 9)
    for f,d in ((0,1),(1,1),(2,-1)):
        for _ in range(30):
            base = rng.uniform(0,2,size=3)
            xs = np.tile(base,(len(grid),1)); xs[:,f]=grid
            y = m([tf.constant(xs[:,i:i+1], tf.float32) for i in range(3)]).numpy().ravel()
            w = (np.diff(y)*d).min()
            if w < worst.get(f,0): worst[f]=w
print("worst per feature (a,b,c):", worst)
