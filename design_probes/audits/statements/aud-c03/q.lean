import TflModel.Props.C03
open Tfl Tfl.Premade Tfl.C03
#print axioms C03_partial
#print axioms buildSpec_wired
#print axioms output_bounds
#print axioms lattice_constraint_delivers
#print axioms kfl_constraint_delivers
#print axioms pwl_constraint_delivers
#eval (buildSpec (cfgRtl (.inc false) (.pairs [(0, 1)] .tuple))).toOption
-- over-acceptance probes
#eval (buildSpec { kind := .lattice, outMin := some 3, outMax := some 1, features := [{ mono := .inc true }] }).toOption.isSome
#eval (buildSpec { kind := .lattice, features := [{ mono := .inc true, latticeSize := 0 }] }).toOption.isSome
#eval (buildSpec { kind := .lattice, features := [{ numBuckets := 2, mono := .pairs [(0,1),(1,0)] .list }] }).toOption.isSome
#eval (buildSpec { kind := .lattice, features := [] }).toOption
#eval (buildSpec { kind := .linear, outMin := some 0, features := [] }).toOption
