import os
os.environ['TF_CPP_MIN_LOG_LEVEL']='3'
import numpy as np, itertools
import tensorflow as tf
import tensorflow_lattice as tfl
from tensorflow_lattice.python import configs, premade

def hostile(model, rng, scale):
    for v in model.trainable_variables:
        v.assign(rng.normal(size=v.shape).astype(np.float32)*scale)
    for v in model.trainable_variables:
        if v.constraint is not None:
            v.assign(v.constraint(v))

def check(model, names, mono_idx, dirs, lo, hi, rng, tag):
    worst = 0.0; bviol = 0.0
    for trial in range(40):
        base = rng.uniform(-0.5, 2.5, size=(len(names),))
        grid = np.linspace(-0.5, 2.5, 13)
        for f in mono_idx:
            xs = np.tile(base, (len(grid),1)); xs[:,f] = grid
            y = model([tf.constant(xs[:,i:i+1], tf.float32) for i in range(len(names))]).numpy().ravel()
            d = np.diff(y)*dirs[f]
            worst = min(worst, d.min())
            if lo is not None: bviol = max(bviol, lo - y.min())
            if hi is not None: bviol = max(bviol, y.max() - hi)
    print(tag, "worst monotone diff", worst, "bound violation", bviol)

rng = np.random.RandomState(0)
# 1. calibrated lattice, trapezoid trust only (class B), 3 features
def fc(name, mono, **kw):
    return configs.FeatureConfig(name=name, lattice_size=3, monotonicity=mono,
        pwl_calibration_input_keypoints=[0.,1.,2.], pwl_calibration_num_keypoints=3, **kw)
for trust_types in (["trapezoid"], ["edgeworth","trapezoid"]):
    feats = [fc("a","increasing"),
             fc("b","increasing", reflects_trust_in=[configs.TrustConfig("a", t, 1) for t in trust_types]),
             fc("c","decreasing")]
    cfg = configs.CalibratedLatticeConfig(feature_configs=feats, output_min=0.0, output_max=1.0, output_initialization=[0.,1.])
    m = premade.CalibratedLattice(cfg)
    for sc in (1,10,100):
        hostile(m, rng, sc)
        check(m, ["a","b","c"], [0,1,2], {0:1,1:1,2:-1}, 0.0, 1.0, rng, "lattice %s scale %d"%(trust_types, sc))
# 2. calibrated linear with dominates and bounds
feats = [fc("a","increasing", dominates=[configs.DominanceConfig("b")]), fc("b","increasing"), fc("c","decreasing")]
cfg = configs.CalibratedLinearConfig(feature_configs=feats, output_min=-1.0, output_max=2.0, output_initialization=[-1.,2.])
m = premade.CalibratedLinear(cfg)
for sc in (1,10,100):
    hostile(m, rng, sc)
    check(m, ["a","b","c"], [0,1,2], {0:1,1:1,2:-1}, -1.0, 2.0, rng, "linear doms scale %d"%sc)
