import os
os.environ["TF_CPP_MIN_LOG_LEVEL"]="3"
import numpy as np, tensorflow as tf
import tensorflow_lattice as tfl
from tensorflow_lattice.python import kronecker_factored_lattice_layer as kfll, kronecker_factored_lattice_lib as kfl_lib
from tensorflow_lattice.python import pwl_calibration_lib as plib, conditional_pwl_calibration as cpc, linear_lib, lattice_layer, lattice_lib
# C07: bounds without monotonicity
layer = kfll.KroneckerFactoredLattice(lattice_sizes=2, units=1, num_terms=2, output_min=0.0, output_max=1.0)
x = tf.constant([[0.3,0.9],[1.0,1.0],[0.,0.]])
layer(x)
layer.kernel.assign(layer.kernel*0+5.0)
layer.kernel.assign(layer.kernel.constraint(layer.kernel))
layer.scale.assign(layer.scale.constraint(layer.scale))
print("C07 no-mono bounds: out", layer(x).numpy().ravel(), "kernel max", float(tf.reduce_max(layer.kernel)))
layer.finalize_constraints()
print("C07 after finalize: out", layer(x).numpy().ravel())
# C04: mono+convex+bounds, bias above max
for iters in [0,1,8]:
  w = tf.constant([[5.0],[1.0],[2.0],[0.5]])
  out = plib.project_all_constraints(w, monotonicity=1, output_min=0.0, output_max=1.0,
      output_min_constraints=plib.BoundConstraintsType.BOUND, output_max_constraints=plib.BoundConstraintsType.BOUND,
      convexity=1, lengths=tf.constant([1.,1.,1.]), num_projection_iterations=iters)
  print("C04 mono+convex+bounds iters",iters, "keypoint outputs", np.cumsum(out.numpy().ravel()))
w = tf.constant([[-5.0],[1.0],[2.0],[0.5]])
out = plib.project_all_constraints(w, monotonicity=1, output_min=0.0, output_max=1.0,
      output_min_constraints=plib.BoundConstraintsType.BOUND, output_max_constraints=plib.BoundConstraintsType.BOUND,
      convexity=1, lengths=tf.constant([1.,1.,1.]), num_projection_iterations=0)
print("C04 iters0 bias below", np.cumsum(out.numpy().ravel()))
# C15: omitted interior keypoints
try:
  o = cpc.pwl_calibration_fn(tf.constant([[0.2],[0.7]]), None, tf.zeros((1,2)))
  print("C15 None keypoint_input_parameters ok", o.numpy().ravel())
except Exception as e: print("C15 None keypoint params raised", type(e).__name__, str(e)[:120])
# C16: linear range dominance with zero range
try:
  o = linear_lib.project(tf.constant([[1.0],[2.0]]), [1,1], range_dominances=[(0,1)], input_min=[0.0,0.0], input_max=[0.0,1.0])
  print("C16 zero input range ->", o.numpy().ravel())
except Exception as e: print("C16 raised", type(e).__name__, e)
# trusts as lists (after JSON roundtrip)
try:
  c = lattice_layer.LatticeConstraints(lattice_sizes=[2,2], monotonicities=[1,0], edgeworth_trusts=[[0,1,1]], trapezoid_trusts=[[0,1,1]])
  print("lists trusts ->", c(tf.constant([[0.],[1.],[2.],[1.]])).numpy().ravel())
except Exception as e: print("C11/C16 trust lists raised", type(e).__name__, e)
