import os, sys, subprocess, random
os.environ["TF_CPP_MIN_LOG_LEVEL"]="3"
from fractions import Fraction
import numpy as np, tensorflow as tf
from tensorflow_lattice.python import lattice_lib
rnd=random.Random(int(os.environ.get("VERIF_SEED","0")))
cases=[]; lines=[]
for _ in range(300):
    nd=rnd.randint(1,4); sizes=[rnd.randint(2,4) for _ in range(nd)]; mono=[rnd.randint(0,1) for _ in range(nd)]
    n=int(np.prod(sizes)); kind=rnd.randint(0,2)
    vals=[Fraction(rnd.randint(-24,24),8) for _ in range(n)] if kind==0 else ([Fraction(rnd.randint(-3,3)) for _ in range(n)] if kind==1 else [Fraction(rnd.random()*1e6-5e5) for _ in range(n)])
    w=np.array([float(v) for v in vals]).reshape(sizes)
    out=lattice_lib._approximately_project_monotonicity(tf.constant(w,dtype=tf.float64),sizes,mono).numpy().ravel()
    cases.append((sizes,mono,vals,out))
    lines.append("approxmono %s %s %s"%(",".join(map(str,sizes)),",".join(map(str,mono))," ".join("%d/%d"%(v.numerator,v.denominator) for v in vals)))
p=subprocess.run(["lake","env","lean","--run","Driver2.lean"],input="\n".join(lines)+"\n",capture_output=True,text=True,cwd="/tmp/probe/spike",timeout=300)
outs=p.stdout.strip().split("\n"); assert len(outs)==len(cases),(len(outs),p.stderr[:500])
bad=0; moved=0
for (sizes,mono,vals,real),line in zip(cases,outs):
    model=[Fraction(x) for x in line.split()]
    scale=max(1.0,max(abs(float(v)) for v in vals))
    d=max(abs(float(m)-r) for m,r in zip(model,real))
    if d>1e-9*scale: bad+=1; print("DISAGREE",sizes,mono,d)
    if any(m!=v for m,v in zip(model,vals)): moved+=1
print("cases",len(cases),"disagreements",bad,"nontrivial(moved)",moved)
