import Spike.Memo
open Tfl
def main : IO Unit := do
  let sizes := [3,3,3]
  let w0 : W := fun idx => ((idx.foldl (· * 7 + ·) 1 % 13 : Nat) : Rat)
  let t := (List.range 12).foldl (fun t d => runStage sizes (fun w => cummaxAx w (d % 3)) t) (tabulate sizes w0)
  IO.println ((allIdx sizes).map t.get)
