import Spike.Model
import Spike.Lemmas
import Spike.Pwl
import Spike.PwlLemmas
import Spike.Edge
import Spike.EdgeLemmas
import Spike.Proj
import Spike.ProjLemmas
