import Mathlib.Data.List.Basic
import Mathlib.Data.List.Nodup
import Mathlib.Tactic.Linarith
import Mathlib.Algebra.Order.Field.Rat
namespace Tfl
abbrev V := Nat → ℚ
/-- `_max_projection(..., step=1)`: in topological order, raise each node to the max of itself and
    its (already processed) predecessors. `cs` are pairs (j,i) meaning w j ≤ w i. -/
def maxAt (cs : List (Nat × Nat)) (w : V) (i : Nat) : ℚ :=
  cs.foldl (fun m c => if c.2 = i then max m (w c.1) else m) (w i)
def maxStep (cs : List (Nat × Nat)) (w : V) (i : Nat) : V :=
  fun k => if k = i then maxAt cs w i else w k
def maxSweep (cs : List (Nat × Nat)) (order : List Nat) (w : V) : V := order.foldl (maxStep cs) w

theorem maxAt_ge_self (cs : List (Nat × Nat)) (w : V) (i : Nat) : w i ≤ maxAt cs w i := by
  unfold maxAt
  generalize w i = m0
  induction cs generalizing m0 with
  | nil => simp
  | cons c cs ih =>
    simp only [List.foldl_cons]
    split_ifs
    · exact le_trans (le_max_left _ _) (ih _)
    · exact ih _
theorem foldl_mono_init (cs : List (Nat × Nat)) (w : V) (i : Nat) {a b : ℚ} (h : a ≤ b) :
    cs.foldl (fun m c => if c.2 = i then max m (w c.1) else m) a ≤
    cs.foldl (fun m c => if c.2 = i then max m (w c.1) else m) b := by
  induction cs generalizing a b with
  | nil => simpa
  | cons c cs ih =>
    simp only [List.foldl_cons]
    split_ifs
    · exact ih (max_le_max h le_rfl)
    · exact ih h
theorem maxAt_ge_pred (cs : List (Nat × Nat)) (w : V) {j i : Nat} (h : (j, i) ∈ cs) : w j ≤ maxAt cs w i := by
  unfold maxAt
  generalize w i = m0
  induction cs generalizing m0 with
  | nil => cases h
  | cons c cs ih =>
    simp only [List.foldl_cons]
    rcases List.mem_cons.mp h with e | e
    · subst e
      simp only [if_true]
      have : w j ≤ max m0 (w j) := le_max_right _ _
      refine le_trans this ?_
      have := foldl_mono_init cs w i (le_refl (max m0 (w j)))
      clear this
      -- fold only increases its accumulator
      have inc : ∀ (l : List (Nat × Nat)) (a : ℚ), a ≤ l.foldl (fun m c => if c.2 = i then max m (w c.1) else m) a := by
        intro l; induction l with
        | nil => intro a; simp
        | cons d l ihl => intro a; simp only [List.foldl_cons]; split_ifs
                          · exact le_trans (le_max_left _ _) (ihl _)
                          · exact ihl _
      exact inc cs _
    · exact ih e _

/-- L6 core: if every constraint (j,i) has j strictly before i in a duplicate-free `order`, a full max
    sweep makes every constraint hold. -/
theorem maxSweep_feasible (cs : List (Nat × Nat)) :
    ∀ (order done : List Nat) (w : V), (done ++ order).Nodup →
      (∀ j i, (j, i) ∈ cs → i ∈ done → j ∈ done ∧ w j ≤ w i) →
      (∀ j i, (j, i) ∈ cs → i ∈ order → j ∈ done ∨ (∃ pre post, order = pre ++ i :: post ∧ j ∈ pre)) →
      ∀ j i, (j, i) ∈ cs → i ∈ done ++ order → maxSweep cs order w j ≤ maxSweep cs order w i := by
  intro order
  induction order with
  | nil => intro done w _ hd _ j i hc hi; simpa [maxSweep] using (hd j i hc (by simpa using hi)).2
  | cons a rest ih =>
    intro done w hnd hd hord j i hc hi
    have hnd' : ((done ++ [a]) ++ rest).Nodup := by simpa [List.append_assoc] using hnd
    have ha_not_done : a ∉ done := by
      have := List.nodup_append.mp hnd; intro h; exact (this.2.2 a h a (List.mem_cons_self ..)) rfl
    simp only [maxSweep, List.foldl_cons]
    apply ih (done ++ [a]) (maxStep cs w a) hnd'
    · intro j' i' hc' hi'
      rcases List.mem_append.mp hi' with h | h
      · obtain ⟨hj, hle⟩ := hd j' i' hc' h
        refine ⟨List.mem_append_left _ hj, ?_⟩
        have hj_ne : j' ≠ a := fun e => ha_not_done (e ▸ hj)
        have hi_ne : i' ≠ a := fun e => ha_not_done (e ▸ h)
        simpa [maxStep, hj_ne, hi_ne] using hle
      · have hia : i' = a := by simpa using h
        subst hia
        have hj : j' ∈ done := by
          rcases hord j' i' hc' (List.mem_cons_self ..) with h1 | ⟨pre, post, e, hp⟩
          · exact h1
          · exfalso
            cases pre with
            | nil => cases hp
            | cons x xs =>
              have hx : x = i' := by simpa using (List.cons.inj e).1.symm
              have : i' ∈ xs ++ i' :: post := by simp
              have e2 : rest = xs ++ i' :: post := by simpa using (List.cons.inj e).2
              have hdup := (List.nodup_append.mp hnd).2.1
              rw [List.nodup_cons] at hdup
              exact hdup.1 (e2 ▸ this)
        refine ⟨List.mem_append_left _ hj, ?_⟩
        have hj_ne : j' ≠ i' := fun e => ha_not_done (e ▸ hj)
        simp only [maxStep, hj_ne, if_false, if_true]
        exact maxAt_ge_pred cs w hc'
    · intro j' i' hc' hi'
      rcases hord j' i' hc' (List.mem_cons_of_mem _ hi') with h1 | ⟨pre, post, e, hp⟩
      · exact Or.inl (List.mem_append_left _ h1)
      · cases pre with
        | nil => cases hp
        | cons x xs =>
          have hx : a = x := (List.cons.inj e).1
          have e2 : rest = xs ++ i' :: post := (List.cons.inj e).2
          rcases List.mem_cons.mp hp with h | h
          · exact Or.inl (by subst h; simp [hx])
          · exact Or.inr ⟨xs, post, e2, h⟩
    · exact hc
    · simpa [List.append_assoc] using hi
#print axioms maxSweep_feasible
end Tfl
