namespace Tfl
/-- `_project_partial_edgeworth` on one square: (p,q,r,s) = (G[i][j], G[i][j+1], G[i+1][j], G[i+1][j+1]) -/
def sqProj (p q r s : Rat) : Rat × Rat × Rat × Rat :=
  let c := max (((r - p) - (s - q)) / 4) 0
  (p + c, q - c, r - c, s + c)
/-- dominance triangle, group 1: (a,b,m) = (G[i][j], G[i+1][j+1], G[i+1][j]) -/
def triProj1 (a b m : Rat) : Rat × Rat × Rat :=
  let c := max (((a + b) / 2 - m) / 3) 0
  (a - c, b - c, m + 2 * c)
/-- one Dykstra group step on an abstract state -/
structure DState (α : Type) where
  w : α
  c : Nat → α   -- last_change per group
def dstep {α : Type} [Add α] [Sub α] (P : Nat → α → α) (g : Nat) (s : DState α) : DState α :=
  let r := s.w - s.c g
  let w' := P g r
  { w := w', c := fun h => if h = g then w' - r else s.c h }
end Tfl
