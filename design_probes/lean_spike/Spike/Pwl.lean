/-! 1-D hat / ramp model (Mathlib-free) -/
namespace Tfl
def clip01 (z : Rat) : Rat := max (min z 1) 0
def ramp (i : Nat) (x : Rat) : Rat := clip01 (x - i)
def absR (z : Rat) : Rat := if z < 0 then -z else z
/-- lattice 1-D weight: `1 - min(|x - i|, 1)` -/
def hat (i : Nat) (x : Rat) : Rat := 1 - min (absR (x - i)) 1
def sumRange (n : Nat) (f : Nat → Rat) : Rat := (List.range n).foldl (fun acc i => acc + f i) 0
/-- hat-form 1-D interpolation as the code computes it -/
def interpHat (n : Nat) (k : Nat → Rat) (x : Rat) : Rat := sumRange n (fun i => hat i x * k i)
/-- PWL (bias + heights) form -/
def interpRamp (n : Nat) (k : Nat → Rat) (x : Rat) : Rat :=
  k 0 + sumRange (n-1) (fun i => (k (i+1) - k i) * ramp i x)
end Tfl
