import Spike.Memo
import Mathlib.Data.List.Basic
namespace Tfl
theorem lookup_map_self (l : List Idx) (f : W) (idx : Idx) (h : idx ∈ l) :
    (l.map (fun i => (i, f i))).lookup idx = some (f idx) := by
  induction l with
  | nil => cases h
  | cons a as ih =>
    simp only [List.map_cons, List.lookup_cons]
    by_cases e : idx = a
    · subst e; simp
    · have : (idx == a) = false := by simpa using e
      simp only [this]
      exact ih (by rcases List.mem_cons.mp h with h | h; exact absurd h e; exact h)
/-- on the box, a tabulated function answers exactly like the function -/
theorem get_tabulate (sizes : List Nat) (f : W) (idx : Idx) (h : idx ∈ allIdx sizes) :
    (tabulate sizes f).get idx = f idx := by
  simp [Table.get, tabulate, lookup_map_self _ f idx h]
#print axioms get_tabulate
end Tfl
