import Spike.Edge
import Mathlib.Tactic.Linarith
import Mathlib.Algebra.Order.Field.Rat
import Mathlib.Data.List.Basic
namespace Tfl
variable {B : Type}

theorem foldl_max_ge_init (f : B → ℚ) (bs : List B) (a : ℚ) :
    a ≤ bs.foldl (fun acc b => max acc (f b)) a := by
  induction bs generalizing a with
  | nil => simp
  | cons x xs ih => exact le_trans (le_max_left _ _) (ih _)
theorem foldl_max_ge_mem (f : B → ℚ) (bs : List B) (a : ℚ) {b : B} (hb : b ∈ bs) :
    f b ≤ bs.foldl (fun acc b => max acc (f b)) a := by
  induction bs generalizing a with
  | nil => cases hb
  | cons x xs ih =>
    rcases List.mem_cons.mp hb with h | h
    · subst h; exact le_trans (le_max_right _ _) (foldl_max_ge_init f xs _)
    · exact ih _ h
theorem maxViol_nonneg (G : Grid B) (bs : List B) (i j : Nat) : 0 ≤ maxViol G bs i j :=
  foldl_max_ge_init _ _ _
theorem eviol_le_maxViol (G : Grid B) (bs : List B) (i j : Nat) {b : B} (hb : b ∈ bs) :
    eviol G i j b ≤ maxViol G bs i j := foldl_max_ge_mem _ _ _ hb

/-- the step fixes its own square -/
theorem estep_fixes (G : Grid B) (bs : List B) (i j : Nat) {b : B} (hb : b ∈ bs) :
    eviol (estep bs G (i, j)) i j b ≤ 0 := by
  have h := eviol_le_maxViol G bs i j hb
  simp only [eviol, estep] at *
  simp
  linarith
/-- the step does not touch a square that does not contain the modified point -/
theorem estep_other (G : Grid B) (bs : List B) (i j i' j' : Nat) (b : B)
    (h : ¬ ((i' = i ∨ i' = i + 1) ∧ (j' = j ∨ j' = j + 1))) :
    eviol (estep bs G (i, j)) i' j' b = eviol G i' j' b := by
  simp only [eviol, estep]
  split_ifs <;> first | rfl | (exfalso; omega)

def lexlt (p q : Nat × Nat) : Prop := p.1 < q.1 ∨ (p.1 = q.1 ∧ p.2 < q.2)

/-- sweeping a lex-sorted list of squares leaves every already-good earlier square good and fixes the swept ones -/
theorem sweep_good (bs : List B) (ps : List (Nat × Nat)) (hs : ps.Pairwise lexlt) :
    ∀ (G : Grid B) (done : List (Nat × Nat)),
      (∀ p ∈ done, ∀ q ∈ ps, lexlt p q) →
      (∀ p ∈ done, ∀ b ∈ bs, eviol G p.1 p.2 b ≤ 0) →
      ∀ p, (p ∈ done ∨ p ∈ ps) → ∀ b ∈ bs, eviol (ps.foldl (estep bs) G) p.1 p.2 b ≤ 0 := by
  induction ps with
  | nil => intro G done _ hg p hp b hb; simpa using hg p (by simpa using hp) b hb
  | cons q qs ih =>
    intro G done hlt hg p hp b hb
    rw [List.pairwise_cons] at hs
    simp only [List.foldl_cons]
    apply ih hs.2 (estep bs G q) (done ++ [q])
    · intro p' hp' r hr
      rcases List.mem_append.mp hp' with h | h
      · exact hlt p' h r (List.mem_cons_of_mem _ hr)
      · simp at h; subst h; exact hs.1 r hr
    · intro p' hp' b' hb'
      rcases List.mem_append.mp hp' with h | h
      · have hl := hlt p' h q (List.mem_cons_self ..)
        rw [show q = (q.1, q.2) from rfl, estep_other G bs q.1 q.2 p'.1 p'.2 b' (by unfold lexlt at hl; omega)]
        exact hg p' h b' hb'
      · simp at h; subst h; exact estep_fixes G bs _ _ hb'
    · rcases hp with h | h
      · exact Or.inl (List.mem_append_left _ h)
      · rcases List.mem_cons.mp h with h | h
        · exact Or.inl (by simp [h])
        · exact Or.inr h
    · exact hb
#print axioms sweep_good
end Tfl
