/-! Spike: rank-generic lattice tensors as functions on multi-indices (Mathlib-free). -/
namespace Tfl
abbrev Idx := List Nat
abbrev W := Idx → Rat

def coord (idx : Idx) (d : Nat) : Nat := idx.getD d 0
def setc (idx : Idx) (d v : Nat) : Idx := idx.set d v

/-- running max along axis `d`, exactly the Python loop `layers[i] = max(layers[i], layers[i-1])`. -/
def cummaxUpTo (w : W) (d : Nat) (idx : Idx) : Nat → Rat
  | 0 => w (setc idx d 0)
  | k+1 => max (cummaxUpTo w d idx k) (w (setc idx d (k+1)))
def cummaxAx (w : W) (d : Nat) : W := fun idx => cummaxUpTo w d idx (coord idx d)

def cumminFrom (w : W) (d : Nat) (n : Nat) (idx : Idx) : Nat → Rat
  -- `j` = distance from the top layer n-1
  | 0 => w (setc idx d (n-1))
  | j+1 => min (cumminFrom w d n idx j) (w (setc idx d (n-1-(j+1))))
def cumminAx (w : W) (d n : Nat) : W := fun idx => cumminFrom w d n idx (n-1 - coord idx d)

/-- `_approximately_project_monotonicity` for one unit. -/
def approxMono (sizes : List Nat) (mono : List Bool) (w : W) : W :=
  let dims := (List.range sizes.length).filter (fun d => mono.getD d false)
  let mx := dims.foldl (fun acc d => cummaxAx acc d) w
  let half : W := fun idx => (w idx + mx idx) / 2
  dims.foldl (fun acc d => cumminAx acc d (sizes.getD d 0)) half
end Tfl
