import Spike.Memo
namespace Tfl
/-- `_approximately_project_monotonicity` on table state (executable form) -/
def approxMonoT (sizes : List Nat) (mono : List Bool) (t : Table) : Table :=
  let dims := (List.range sizes.length).filter (fun d => mono.getD d false)
  let mx := dims.foldl (fun acc d => runStage sizes (fun w => cummaxAx w d) acc) t
  let half := tabulate sizes (fun idx => (t.get idx + mx.get idx) / 2)
  dims.foldl (fun acc d => runStage sizes (fun w => cumminAx w d (sizes.getD d 0)) acc) half
end Tfl
