import Spike.Memo
import Spike.Pwl
namespace Tfl
def sumL (l : List Rat) : Rat := l.foldr (· + ·) 0
/-- product of 1-D hat weights of vertex `idx` at point `x` (the outer product of `batch_outer_operation`) -/
def prodW : List Rat → Idx → Rat
  | xd :: xs, i :: t => hat i xd * prodW xs t
  | _, _ => 1
/-- flat form, as the code: dot product of the outer-product weight vector with the kernel -/
def evalFlat (sizes : List Nat) (x : List Rat) (K : W) : Rat :=
  sumL ((allIdx sizes).map (fun idx => prodW x idx * K idx))
/-- iterated 1-D interpolation, axis by axis -/
def evalRec : List Nat → List Rat → W → Rat
  | n :: ns, xd :: xs, K => sumL ((List.range n).map (fun i => hat i xd * evalRec ns xs (fun t => K (i :: t))))
  | _, _, K => K []
end Tfl
