def hello := "world"
