import Mathlib.Data.List.Basic
import Mathlib.Data.List.Count
import Mathlib.Data.List.Nodup
import Mathlib.Tactic.Ring
namespace Tfl
/-- `rtl_inputs * (1 + total // n)` then `[:total]` — the tile-and-truncate step of `_get_rtl_structure` -/
def tileTake (L : List Nat) (total : Nat) : List Nat :=
  ((List.replicate (1 + total / L.length) L).flatten).take total

theorem flatten_replicate_succ (k : Nat) (L : List Nat) :
    (List.replicate (k+1) L).flatten = (List.replicate k L).flatten ++ L := by
  rw [List.replicate_succ', List.flatten_append]; simp

theorem length_flatten_replicate (k : Nat) (L : List Nat) :
    (List.replicate k L).flatten.length = k * L.length := by
  induction k with
  | zero => simp
  | succ k ih => rw [flatten_replicate_succ, List.length_append, ih]; ring

theorem count_flatten_replicate (k : Nat) (L : List Nat) (x : Nat) :
    ((List.replicate k L).flatten).count x = k * L.count x := by
  induction k with
  | zero => simp
  | succ k ih => rw [flatten_replicate_succ, List.count_append, ih]; ring

/-- every input is used `q` or `q+1` times where `q = total / n`: usage counts differ by at most one -/
theorem count_tileTake (L : List Nat) (hL : L.Nodup) (hpos : 0 < L.length) (total : Nat) {x : Nat} (hx : x ∈ L) :
    total / L.length ≤ (tileTake L total).count x ∧ (tileTake L total).count x ≤ total / L.length + 1 := by
  set n := L.length with hn
  set q := total / n with hq
  have hsplit : total = q * n + total % n := by rw [hq]; exact (Nat.div_add_mod' total n).symm
  have hlt : total % n < n := Nat.mod_lt _ hpos
  have h1 : tileTake L total = (List.replicate q L).flatten ++ L.take (total % n) := by
    unfold tileTake
    rw [← hn, ← hq, Nat.add_comm 1 q, flatten_replicate_succ]
    have hlen : (List.replicate q L).flatten.length = q * n := by rw [length_flatten_replicate]
    rw [List.take_append, hlen]
    have e1 : total - q * n = total % n := by omega
    rw [e1, List.take_of_length_le (by rw [hlen]; omega)]
  have hc1 : L.count x = 1 := List.count_eq_one_of_mem hL hx
  rw [h1, List.count_append, count_flatten_replicate, hc1, Nat.mul_one]
  have hsub : (L.take (total % n)).count x ≤ L.count x := (List.take_sublist _ _).count_le x
  omega
#print axioms count_tileTake
end Tfl
