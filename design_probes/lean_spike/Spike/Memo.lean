import Spike.Model
namespace Tfl
/-- all multi-indices of the box `sizes`, row-major -/
def allIdx : List Nat → List Idx
  | [] => [[]]
  | n :: ns => (List.range n).flatMap (fun i => (allIdx ns).map (fun t => i :: t))
/-- a tabulated tensor: the executable state of every loop is DATA, never a closure
    (Lean compiles `Idx → Rat`-valued definitions by arity, so a `let tbl` inside would be
    recomputed on every call). -/
abbrev Table := List (Idx × Rat)
def tabulate (sizes : List Nat) (f : W) : Table := (allIdx sizes).map (fun idx => (idx, f idx))
def Table.get (t : Table) : W := fun idx => (t.lookup idx).getD 0
/-- run one functional stage on a table -/
def runStage (sizes : List Nat) (stage : W → W) (t : Table) : Table := tabulate sizes (stage t.get)
end Tfl
