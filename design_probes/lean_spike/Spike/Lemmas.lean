import Spike.Model
import Mathlib.Tactic.Linarith
import Mathlib.Algebra.Order.Field.Rat
import Mathlib.Order.Lattice
namespace Tfl

@[simp] theorem length_setc (idx : Idx) (d v : Nat) : (setc idx d v).length = idx.length := by
  simp [setc]
@[simp] theorem coord_setc_same {idx : Idx} {d : Nat} (v : Nat) (h : d < idx.length) :
    coord (setc idx d v) d = v := by
  simp [coord, setc, List.getD, h]
@[simp] theorem coord_setc_ne {idx : Idx} {d d' : Nat} (v : Nat) (h : d ≠ d') :
    coord (setc idx d v) d' = coord idx d' := by
  simp [coord, setc, List.getD, List.getElem?_set_ne h]
@[simp] theorem setc_setc_same (idx : Idx) (d a b : Nat) : setc (setc idx d a) d b = setc idx d b := by
  simp [setc]
theorem setc_comm (idx : Idx) {d d' : Nat} (a b : Nat) (h : d ≠ d') :
    setc (setc idx d a) d' b = setc (setc idx d' b) d a := by
  simp [setc, List.set_comm _ _ h]
theorem setc_coord_self {idx : Idx} {d : Nat} (h : d < idx.length) : setc idx d (coord idx d) = idx := by
  simp [setc, coord, List.getD, h]

def InRange (sizes : List Nat) (idx : Idx) : Prop :=
  idx.length = sizes.length ∧ ∀ d, d < sizes.length → coord idx d < sizes.getD d 0

/-- monotone (non-decreasing) along axis `d` on the box `sizes`. -/
def MonoAx (sizes : List Nat) (d : Nat) (w : W) : Prop :=
  ∀ idx, InRange sizes idx → d < sizes.length → coord idx d + 1 < sizes.getD d 0 →
    w idx ≤ w (setc idx d (coord idx d + 1))

theorem cummaxUpTo_setc_same (w : W) (d : Nat) (idx : Idx) (a k : Nat) :
    cummaxUpTo w d (setc idx d a) k = cummaxUpTo w d idx k := by
  induction k with
  | zero => simp [cummaxUpTo]
  | succ k ih => simp [cummaxUpTo, ih]

theorem cummaxAx_mono_self (sizes : List Nat) (d : Nat) (w : W) : MonoAx sizes d (cummaxAx w d) := by
  intro idx hr hd _
  have hl : d < idx.length := by rw [hr.1]; exact hd
  simp only [cummaxAx, coord_setc_same _ hl, cummaxUpTo, cummaxUpTo_setc_same]
  exact le_max_left _ _

theorem inRange_setc {sizes : List Nat} {idx : Idx} {d v : Nat} (hr : InRange sizes idx)
    (hv : v < sizes.getD d 0) : InRange sizes (setc idx d v) := by
  refine ⟨by simpa using hr.1, fun d' hd' => ?_⟩
  by_cases h : d = d'
  · subst h; rw [coord_setc_same _ (by rw [hr.1]; exact hd')]; exact hv
  · rw [coord_setc_ne _ h]; exact hr.2 d' hd'

theorem cummaxAx_mono_other (sizes : List Nat) {d d' : Nat} (hne : d ≠ d') (hdl : d < sizes.length) (w : W)
    (hw : MonoAx sizes d' w) : MonoAx sizes d' (cummaxAx w d) := by
  intro idx hr hd' hlt
  have key : ∀ k, k ≤ coord idx d →
      cummaxUpTo w d idx k ≤ cummaxUpTo w d (setc idx d' (coord idx d' + 1)) k := by
    intro k
    induction k with
    | zero =>
      intro _
      simp only [cummaxUpTo]
      have h0 : InRange sizes (setc idx d 0) :=
        inRange_setc hr (lt_of_le_of_lt (Nat.zero_le _) (hr.2 d hdl))
      have := hw (setc idx d 0) h0 hd' (by rwa [coord_setc_ne _ hne])
      rw [coord_setc_ne _ hne, setc_comm _ _ _ hne] at this
      exact this
    | succ k ih =>
      intro hk
      simp only [cummaxUpTo]
      have hk1 : InRange sizes (setc idx d (k+1)) :=
        inRange_setc hr (lt_of_le_of_lt hk (hr.2 d hdl))
      have h1 := hw (setc idx d (k+1)) hk1 hd' (by rwa [coord_setc_ne _ hne])
      rw [coord_setc_ne _ hne, setc_comm _ _ _ hne] at h1
      exact max_le_max (ih (Nat.le_of_succ_le hk)) h1
  simp only [cummaxAx]
  rw [coord_setc_ne _ (Ne.symm hne)]
  exact key _ le_rfl

#print axioms cummaxAx_mono_other
end Tfl
