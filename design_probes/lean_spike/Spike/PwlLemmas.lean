import Spike.Pwl
import Mathlib.Tactic.Linarith
import Mathlib.Tactic.Ring
import Mathlib.Tactic.Push
import Mathlib.Algebra.Order.Field.Rat
import Mathlib.Data.Rat.Cast.Order
namespace Tfl

theorem sumRange_succ (n : Nat) (f : Nat → Rat) : sumRange (n+1) f = sumRange n f + f n := by
  simp [sumRange, List.range_succ, List.foldl_append]
@[simp] theorem sumRange_zero (f : Nat → Rat) : sumRange 0 f = 0 := by simp [sumRange]

theorem clip01_mono {a b : ℚ} (h : a ≤ b) : clip01 a ≤ clip01 b := by
  unfold clip01; exact max_le_max (min_le_min h le_rfl) le_rfl
theorem clip01_nonneg (a : ℚ) : 0 ≤ clip01 a := le_max_right _ _

theorem ramp_mono (i : Nat) {x y : ℚ} (h : x ≤ y) : ramp i x ≤ ramp i y := by
  unfold ramp; exact clip01_mono (by linarith)

/-- key pointwise identity: hat_(i+1) = ramp_i - ramp_(i+1) -/
theorem hat_succ_eq (i : Nat) (x : ℚ) : hat (i+1) x = ramp i x - ramp (i+1) x := by
  simp only [hat, ramp, clip01, absR, min_def, max_def]
  push_cast
  split_ifs <;> linarith

theorem hat_zero_eq (x : ℚ) (hx : 0 ≤ x) : hat 0 x = 1 - ramp 0 x := by
  simp only [hat, ramp, clip01, absR, min_def, max_def]
  push_cast
  split_ifs <;> linarith

theorem interpRamp_mono (n : Nat) (k : Nat → ℚ) (hk : ∀ i, i + 1 < n → k i ≤ k (i+1))
    {x y : ℚ} (h : x ≤ y) : interpRamp n k x ≤ interpRamp n k y := by
  unfold interpRamp
  have : ∀ m, m ≤ n - 1 → sumRange m (fun i => (k (i+1) - k i) * ramp i x)
      ≤ sumRange m (fun i => (k (i+1) - k i) * ramp i y) := by
    intro m
    induction m with
    | zero => intro _; simp
    | succ m ih =>
      intro hm
      rw [sumRange_succ, sumRange_succ]
      have hk' : 0 ≤ k (m+1) - k m := by have := hk m (by omega); linarith
      have := mul_le_mul_of_nonneg_left (ramp_mono m h) hk'
      linarith [ih (by omega)]
  linarith [this (n-1) le_rfl]
#print axioms interpRamp_mono
end Tfl
