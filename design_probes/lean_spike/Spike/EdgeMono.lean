import Spike.EdgeLemmas
import Mathlib.Data.List.Range
import Mathlib.Tactic.Ring
namespace Tfl
variable {B : Type}

theorem estep_behind_diff (bs : List B) (G : Grid B) (p : Nat × Nat) (a c : Nat) (b b' : B) :
    estep bs G p a c b' - estep bs G p a c b = G a c b' - G a c b := by
  simp only [estep]; split_ifs <;> ring

theorem fold_behind_diff (bs : List B) (ps : List (Nat × Nat)) (G : Grid B) (a c : Nat) (b b' : B) :
    (ps.foldl (estep bs) G) a c b' - (ps.foldl (estep bs) G) a c b = G a c b' - G a c b := by
  induction ps generalizing G with
  | nil => rfl
  | cons q qs ih => simp only [List.foldl_cons]; rw [ih, estep_behind_diff]

theorem fold_col0 (bs : List B) (ps : List (Nat × Nat)) (G : Grid B) (a : Nat) (b : B) :
    (ps.foldl (estep bs) G) a 0 b = G a 0 b := by
  induction ps generalizing G with
  | nil => rfl
  | cons q qs ih => simp only [List.foldl_cons]; rw [ih]; simp [estep]
theorem fold_row0 (bs : List B) (ps : List (Nat × Nat)) (G : Grid B) (c : Nat) (b : B) :
    (ps.foldl (estep bs) G) 0 c b = G 0 c b := by
  induction ps generalizing G with
  | nil => rfl
  | cons q qs ih => simp only [List.foldl_cons]; rw [ih]; simp [estep]

theorem mem_pairsLex {M N i j : Nat} : (i, j) ∈ pairsLex M N ↔ i + 1 < M ∧ j + 1 < N := by
  simp [pairsLex]; omega

theorem pairsLex_pairwise (M N : Nat) : (pairsLex M N).Pairwise lexlt := by
  unfold pairsLex
  rw [List.pairwise_flatMap]
  constructor
  · intro i _
    rw [List.pairwise_map]
    exact (List.pairwise_lt_range).imp (fun h => Or.inr ⟨rfl, h⟩)
  · exact (List.pairwise_lt_range).imp (fun {a b} h p hp q hq => by
      simp only [List.mem_map] at hp hq
      obtain ⟨_, _, rfl⟩ := hp; obtain ⟨_, _, rfl⟩ := hq
      exact Or.inl h)

/-- C01-T2(a): after the sweep every Edgeworth square holds at every behind-position -/
theorem esweep_edgeworth (M N : Nat) (bs : List B) (G : Grid B) {i j : Nat}
    (hi : i + 1 < M) (hj : j + 1 < N) {b : B} (hb : b ∈ bs) :
    eviol (esweep M N bs G) i j b ≤ 0 := by
  have := sweep_good bs (pairsLex M N) (pairsLex_pairwise M N) G [] (by simp) (by simp)
    (i, j) (Or.inr (mem_pairsLex.mpr ⟨hi, hj⟩)) b hb
  simpa [esweep] using this

/-- C01-T2(b): monotonicity along the MAIN axis is restored in every column, from column 0 alone -/
theorem esweep_mono_main (M N : Nat) (bs : List B) (G : Grid B) {b : B} (hb : b ∈ bs)
    (h0 : ∀ i, i + 1 < M → G i 0 b ≤ G (i+1) 0 b) :
    ∀ j, j < N → ∀ i, i + 1 < M → esweep M N bs G i j b ≤ esweep M N bs G (i+1) j b := by
  intro j
  induction j with
  | zero => intro _ i hi; simp only [esweep, fold_col0]; exact h0 i hi
  | succ j ih =>
    intro hj i hi
    have e := esweep_edgeworth M N bs G hi hj hb
    have m := ih (by omega) i hi
    simp only [eviol] at e
    linarith
/-- C01-T2(b'): monotonicity along a monotone CONDITIONAL axis is restored in every row, from row 0 alone -/
theorem esweep_mono_cond (M N : Nat) (bs : List B) (G : Grid B) {b : B} (hb : b ∈ bs)
    (h0 : ∀ j, j + 1 < N → G 0 j b ≤ G 0 (j+1) b) :
    ∀ i, i < M → ∀ j, j + 1 < N → esweep M N bs G i j b ≤ esweep M N bs G i (j+1) b := by
  intro i
  induction i with
  | zero => intro _ j hj; simp only [esweep, fold_row0]; exact h0 j hj
  | succ i ih =>
    intro hi j hj
    have e := esweep_edgeworth M N bs G (show i + 1 < M by omega) hj hb
    have m := ih (by omega) j hj
    simp only [eviol] at e
    linarith
/-- C01-T2(c): every difference between two behind-positions is untouched — hence behind-axis
    monotonicity and all OTHER trusts' inequalities (combinations of such differences) survive -/
theorem esweep_behind (M N : Nat) (bs : List B) (G : Grid B) (a c : Nat) (b b' : B) :
    esweep M N bs G a c b' - esweep M N bs G a c b = G a c b' - G a c b :=
  fold_behind_diff bs _ G a c b b'
#print axioms esweep_mono_main
#print axioms esweep_mono_cond
end Tfl
