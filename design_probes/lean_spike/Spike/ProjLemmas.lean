import Spike.Proj
import Mathlib.Tactic.Linarith
import Mathlib.Tactic.Ring
import Mathlib.Algebra.Order.Field.Rat
namespace Tfl
/-- lands in the half-space -/
theorem sqProj_feasible (p q r s : ℚ) :
    let o := sqProj p q r s
    (o.2.2.1 - o.1) - (o.2.2.2 - o.2.1) ≤ 0 := by
  simp only [sqProj, max_def]; split_ifs <;> linarith
/-- identity on feasible input -/
theorem sqProj_fix (p q r s : ℚ) (h : (r - p) - (s - q) ≤ 0) : sqProj p q r s = (p, q, r, s) := by
  have : max (((r - p) - (s - q)) / 4) 0 = 0 := max_eq_right (by linarith)
  simp [sqProj, this]
/-- variational inequality = exact Euclidean projection onto {(y3-y1)-(y4-y2) ≤ 0} -/
theorem sqProj_vi (p q r s y1 y2 y3 y4 : ℚ) (hy : (y3 - y1) - (y4 - y2) ≤ 0) :
    let o := sqProj p q r s
    (p - o.1) * (y1 - o.1) + (q - o.2.1) * (y2 - o.2.1) + (r - o.2.2.1) * (y3 - o.2.2.1)
      + (s - o.2.2.2) * (y4 - o.2.2.2) ≤ 0 := by
  simp only [sqProj, max_def]
  split_ifs with h
  · nlinarith
  · nlinarith [mul_nonneg (show (0:ℚ) ≤ ((r - p) - (s - q)) / 4 from le_of_lt (not_le.mp h)) (show (0:ℚ) ≤ -((y3 - y1) - (y4 - y2)) by linarith)]
theorem triProj1_vi (a b m y1 y2 y3 : ℚ) (hy : (y1 + y2) / 2 - y3 ≤ 0) :
    let o := triProj1 a b m
    (a - o.1) * (y1 - o.1) + (b - o.2.1) * (y2 - o.2.1) + (m - o.2.2) * (y3 - o.2.2) ≤ 0 := by
  simp only [triProj1, max_def]
  split_ifs with h
  · nlinarith
  · nlinarith [mul_nonneg (show (0:ℚ) ≤ ((a + b) / 2 - m) / 3 from le_of_lt (not_le.mp h)) (show (0:ℚ) ≤ -((y1 + y2) / 2 - y3) by linarith)]
/-- Dykstra telescoping invariant for functions (pointwise), any projections -/
theorem dstep_invariant {ι : Type} (P : Nat → (ι → ℚ) → (ι → ℚ)) (g : Nat) (s : DState (ι → ℚ))
    (gs : List Nat) (hg : g ∈ gs) (hn : gs.Nodup) (x : ι) :
    (dstep P g s).w x - (gs.map (fun h => (dstep P g s).c h x)).sum
      = s.w x - (gs.map (fun h => s.c h x)).sum := by
  induction gs with
  | nil => cases hg
  | cons a as ih =>
    rw [List.nodup_cons] at hn
    simp only [List.map_cons, List.sum_cons]
    by_cases ha : a = g
    · subst ha
      have hrest : (as.map (fun h => (dstep P a s).c h x)) = as.map (fun h => s.c h x) := by
        apply List.map_congr_left; intro h hh
        have : h ≠ a := fun e => hn.1 (e ▸ hh)
        simp [dstep, this]
      rw [hrest]; simp only [dstep, if_true, Pi.sub_apply]; ring
    · have hg' : g ∈ as := by
        rcases List.mem_cons.mp hg with h | h
        · exact absurd h.symm ha
        · exact h
      have := ih hg' hn.2
      have hc : (dstep P g s).c a x = s.c a x := by simp [dstep, ha]
      rw [hc]; linarith
#print axioms sqProj_vi
#print axioms dstep_invariant
end Tfl
