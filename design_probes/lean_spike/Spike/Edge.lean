/-! Edgeworth approximate projection on the grid-with-behind abstraction (Mathlib-free). -/
namespace Tfl
variable {B : Type}
abbrev Grid (B : Type) := Nat → Nat → B → Rat
/-- amount by which square (i,j) violates the (direction +1) Edgeworth inequality at behind-position b -/
def eviol (G : Grid B) (i j : Nat) (b : B) : Rat :=
  (G (i+1) j b - G i j b) - (G (i+1) (j+1) b - G i (j+1) b)
/-- `tf.maximum(tf.reduce_max(diff), 0)` over all behind-positions -/
def maxViol (G : Grid B) (bs : List B) (i j : Nat) : Rat :=
  bs.foldl (fun acc b => max acc (eviol G i j b)) 0
/-- `layers[i+1][j+1] += max_violation` -/
def estep (bs : List B) (G : Grid B) (p : Nat × Nat) : Grid B :=
  fun a c b => if a = p.1 + 1 ∧ c = p.2 + 1 then G a c b + maxViol G bs p.1 p.2 else G a c b
def pairsLex (M N : Nat) : List (Nat × Nat) :=
  (List.range (M-1)).flatMap (fun i => (List.range (N-1)).map (fun j => (i, j)))
def esweep (M N : Nat) (bs : List B) (G : Grid B) : Grid B := (pairsLex M N).foldl (estep bs) G
end Tfl
