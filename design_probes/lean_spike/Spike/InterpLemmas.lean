import Spike.Interp
import Mathlib.Tactic.Ring
import Mathlib.Algebra.Order.Field.Rat
import Mathlib.Data.List.Basic
namespace Tfl
@[simp] theorem sumL_nil : sumL [] = 0 := rfl
@[simp] theorem sumL_cons (a : ℚ) (l : List ℚ) : sumL (a :: l) = a + sumL l := rfl
theorem sumL_append (l₁ l₂ : List ℚ) : sumL (l₁ ++ l₂) = sumL l₁ + sumL l₂ := by
  induction l₁ with
  | nil => simp
  | cons a l ih => simp [ih]; ring
theorem sumL_map_mul_left (c : ℚ) (l : List Idx) (f : Idx → ℚ) :
    sumL (l.map (fun t => c * f t)) = c * sumL (l.map f) := by
  induction l with
  | nil => simp
  | cons a l ih => simp [ih]; ring
theorem sumL_flatMap {α : Type} (l : List α) (g : α → List ℚ) :
    sumL (l.flatMap g) = sumL (l.map (fun a => sumL (g a))) := by
  induction l with
  | nil => simp
  | cons a l ih => simp [List.flatMap_cons, sumL_append, ih]
/-- L2: the code's flat outer-product form equals iterated 1-D interpolation (same lengths) -/
theorem evalFlat_eq_evalRec : ∀ (sizes : List Nat) (x : List ℚ) (K : W), x.length = sizes.length →
    evalFlat sizes x K = evalRec sizes x K := by
  intro sizes
  induction sizes with
  | nil => intro x K h; cases x with
    | nil => simp [evalFlat, allIdx, prodW, evalRec]
    | cons a l => simp at h
  | cons n ns ih =>
    intro x K h
    cases x with
    | nil => simp at h
    | cons xd xs =>
      have hl : xs.length = ns.length := by simpa using h
      simp only [evalFlat, allIdx, evalRec, List.map_flatMap, List.map_map]
      rw [sumL_flatMap]
      congr 1
      apply List.map_congr_left
      intro i _
      have := ih xs (fun t => K (i :: t)) hl
      simp only [evalFlat] at this
      rw [← this, ← sumL_map_mul_left]
      congr 1
      apply List.map_congr_left
      intro t _
      simp [prodW]; ring
#print axioms evalFlat_eq_evalRec
end Tfl
