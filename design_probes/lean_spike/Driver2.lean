import Spike.MonoT
open Tfl
def parseRat (s : String) : Option Rat :=
  match s.splitOn "/" with
  | [n] => n.toInt?.map (fun k => (k : Rat))
  | [n, d] => do let a ← n.toInt?; let b ← d.toNat?; if b = 0 then none else some ((a : Rat) / (b : Rat))
  | _ => none
def showRat (r : Rat) : String := s!"{r.num}/{r.den}"
def parseNats (s : String) : Option (List Nat) := (s.splitOn ",").mapM (·.toNat?)
def handle (line : String) : String :=
  match (line.trimAscii.toString).splitOn " " with
  | "approxmono" :: sz :: mn :: vals =>
    match parseNats sz, parseNats mn, vals.mapM parseRat with
    | some sizes, some mono, some vs =>
      let idxs := allIdx sizes
      if idxs.length ≠ vs.length then "bad-op" else
      let t : Table := idxs.zip vs
      let out := approxMonoT sizes (mono.map (· != 0)) t
      " ".intercalate (idxs.map (fun i => showRat (out.get i)))
    | _, _, _ => "bad-op"
  | _ => "bad-op"
partial def loop (h : IO.FS.Stream) : IO Unit := do
  let line ← h.getLine
  if line.isEmpty then return ()
  IO.println (handle line)
  loop h
def main : IO Unit := do loop (← IO.getStdin)
