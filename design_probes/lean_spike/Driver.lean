import Spike.Model
import Spike.Pwl
open Tfl
def parseRat (s : String) : Option Rat :=
  match s.splitOn "/" with
  | [n] => n.toInt?.map (fun k => (k : Rat))
  | [n, d] => do let a ← n.toInt?; let b ← d.toNat?; if b = 0 then none else some ((a : Rat) / (b : Rat))
  | _ => none
def showRat (r : Rat) : String := s!"{r.num}/{r.den}"
def handle (line : String) : String :=
  match (line.trimAscii.toString).splitOn " " with
  | "interp" :: n :: x :: ks =>
    match n.toNat?, parseRat x, ks.mapM parseRat with
    | some n, some x, some ks => showRat (interpHat n (fun i => ks.getD i 0) x) ++ " " ++ showRat (interpRamp n (fun i => ks.getD i 0) x)
    | _, _, _ => "bad-op"
  | _ => "bad-op"
partial def loop (h : IO.FS.Stream) : IO Unit := do
  let line ← h.getLine
  if line.isEmpty then return ()
  IO.println (handle line)
  loop h
def main : IO Unit := do loop (← IO.getStdin)
