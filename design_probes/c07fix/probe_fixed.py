# real-code checks for Props/C07Fix.lean
import numpy as np, tensorflow as tf
import tensorflow_lattice as tfl
from tensorflow_lattice.python import kronecker_factored_lattice_lib as kl
from tensorflow_lattice.python import kronecker_factored_lattice_layer as kly

def K_to_kernel(K, L, dims, terms):
    # model layout K[t][d][k] -> code kernel (1, L, units*dims, terms), units=1
    w = np.zeros((1, L, dims, terms), np.float32)
    for t in range(terms):
        for d in range(dims):
            for k in range(L):
                w[0, k, d, t] = K[t][d][k]
    return tf.constant(w)

# 1. zero_scale_not_fixed
scale = tf.Variable([[0.0]])
c = kly.KroneckerFactoredLatticeConstraints(units=1, scale=scale, monotonicities=[1], output_min=None, output_max=None)
w = K_to_kernel([[[1, 2]]], 2, 1, 1)
print("zero-scale:", c(w).numpy().ravel().tolist())

# 2. non-vacuity example is a fixed point in the real code
exK = [[[1/3, 5/6, 5/6], [0, 2/3, 0]], [[5/8, 3/8, 1/8], [0, 1, 0]]]
scale = tf.Variable([[0.5, -0.5]])
c = kly.KroneckerFactoredLatticeConstraints(units=1, scale=scale, monotonicities=[1, 0], output_min=0.0, output_max=1.0)
w = K_to_kernel(exK, 3, 2, 2)
out = c(w)
print("example unchanged:", bool(np.array_equal(out.numpy(), w.numpy())))
sc = kly.ScaleConstraints(output_min=0.0, output_max=1.0)
print("scale unchanged:", bool(np.array_equal(sc(scale).numpy(), scale.numpy())))

# 3. tf.pow(1.0, 1/dims) == 1.0 exactly
for dims in range(1, 40):
    v = tf.pow(tf.constant(1.0), 1.0 / dims).numpy()
    assert v == 1.0, (dims, v)
print("pow(1.0, 1/dims) == 1.0 for dims 1..39")

# 4. initial (kernel, scale) of built layers are fixed points and accepted with eps=0
rng = np.random.RandomState(0)
bad = 0; n = 0
for trial in range(60):
    L = int(rng.randint(2, 5)); dims = int(rng.randint(1, 4)); terms = int(rng.randint(1, 4)); units = int(rng.randint(1, 3))
    monos = [int(rng.randint(0, 2)) for _ in range(dims)]
    mode = trial % 4
    lo = [None, 0.0, None, -1.0][mode]; hi = [None, None, 2.0, 3.0][mode]
    layer = tfl.layers.KroneckerFactoredLattice(lattice_sizes=L, units=units, num_terms=terms, monotonicities=monos,
                                                output_min=lo, output_max=hi, kernel_initializer='kfl_random_monotonic_initializer')
    layer(tf.zeros((1, units, dims)) if units > 1 else tf.zeros((1, dims)))
    k0 = layer.kernel.numpy().copy(); s0 = layer.scale.numpy().copy()
    k1 = layer.kernel.constraint(layer.kernel).numpy() if layer.kernel.constraint is not None else k0
    s1 = layer.scale.constraint(layer.scale).numpy() if layer.scale.constraint is not None else s0
    n += 1
    if not (np.array_equal(k0, k1) and np.array_equal(s0, s1)):
        bad += 1; print("NOT FIXED", L, dims, terms, units, monos, lo, hi, np.abs(k0-k1).max(), np.abs(s0-s1).max())
    try:
        layer.assert_constraints(eps=0.0)
    except Exception as e:
        bad += 1; print("REJECTED eps=0", L, dims, terms, units, monos, lo, hi, type(e).__name__, str(e)[:200])
print("init fixed-point trials:", n, "not fixed:", bad)
