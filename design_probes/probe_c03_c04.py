import os
os.environ["TF_CPP_MIN_LOG_LEVEL"]="3"
import numpy as np, tensorflow as tf
import tensorflow_lattice as tfl
from tensorflow_lattice.python import linear_lib, pwl_calibration_lib as plib
B=plib.BoundConstraintsType
# C03 candidate: normalization with all weights <= 0
w = linear_lib.project(tf.constant([[-1.0],[-2.0]]), [1,1], normalization_order=1)
print("C03 cand: all-negative weights + norm1 ->", w.numpy().ravel(), "(weighted average degenerates to 0)")
# C04 variants: mono only + bounds (single-step or dykstra?), far kernels
def kp(w): return np.cumsum(w.numpy(),axis=0).T
for (mono,conv,mn,mx,cmn,cmx,w0) in [
   (1,0,0.,1.,B.BOUND,B.BOUND,[[5.],[1.],[-3.],[2.]]),
   (1,0,0.,1.,B.CLAMPED,B.CLAMPED,[[5.],[1.],[-3.],[2.]]),
   (-1,0,0.,1.,B.BOUND,B.BOUND,[[-5.],[1.],[-3.],[2.]]),
   (0,1,0.,1.,B.BOUND,B.BOUND,[[5.],[1.],[-3.],[2.]]),
   (1,1,0.,1.,B.CLAMPED,B.BOUND,[[5.],[1.],[3.],[2.]]),
   (1,-1,0.,1.,B.BOUND,B.BOUND,[[0.5],[4.],[3.],[2.]]),
   (1,1,0.,1.,B.BOUND,B.BOUND,[[0.9995],[4.],[5.],[6.]]),
   (0,0,0.,1.,B.BOUND,B.BOUND,[[5.],[1.],[-30.],[2.]]),
   ]:
  out = plib.project_all_constraints(tf.constant(w0), mono, mn, mx, cmn, cmx, conv, tf.constant([1.,2.,1.]), 8)
  print("C04", dict(mono=mono,conv=conv,cmin=cmn.name,cmax=cmx.name), "w0", np.ravel(w0), "-> keypoint outputs", np.round(kp(out),5))
