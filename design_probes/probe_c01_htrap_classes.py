import os, sys
os.environ["TF_CPP_MIN_LOG_LEVEL"]="3"
import numpy as np, tensorflow as tf
import tensorflow_lattice as tfl
from tensorflow_lattice.python import lattice_layer
exec(open('/verif/design_probes/probe_c01_random.py').read().split("worst = {}")[0].split("rng = ")[0])  # imports + violations()
import itertools
rng=np.random.RandomState(21)
def violations(w, sizes, mono, edge, trap, omin, omax):
    v = {"mono":0.0,"edge":0.0,"trap":0.0,"bounds":0.0}
    for d in range(len(sizes)):
        if mono[d]:
            a = np.moveaxis(w, d, 0); v["mono"] = max(v["mono"], float(np.max(a[:-1]-a[1:])))
    for (m,c,dr) in edge:
        a = np.moveaxis(w, (m,c), (0,1)); a = a[:, ::-1] if dr<0 else a
        v["edge"] = max(v["edge"], float(np.max((a[1:, :-1]-a[:-1, :-1]) - (a[1:, 1:]-a[:-1, 1:]))))
    for (m,c,dr) in trap:
        a = np.moveaxis(w, (m,c), (0,1)); a = a[:, ::-1] if dr<0 else a
        v["trap"] = max(v["trap"], float(np.max(a[0,1:]-a[0,:-1])), float(np.max(a[-1,:-1]-a[-1,1:])))
    if omin is not None: v["bounds"]=max(v["bounds"], float(omin-w.min()))
    if omax is not None: v["bounds"]=max(v["bounds"], float(w.max()-omax))
    return v
def run(label, gen, n):
    bad=0; tot=0; worst=None
    for _ in range(n):
        sizes,units,mono,edge,trap=gen()
        b=rng.randint(4); omin=None if b in (0,2) else float(rng.randint(-2,1)); omax=None if b in (0,1) else (omin or 0.0)+float(rng.randint(1,4))
        w=[rng.randint(-3,4,size=(int(np.prod(sizes)),units)).astype(float), rng.randn(int(np.prod(sizes)),units)*10][rng.randint(2)]
        try: c=lattice_layer.LatticeConstraints(lattice_sizes=sizes,monotonicities=mono,edgeworth_trusts=edge or None,trapezoid_trusts=trap or None,output_min=omin,output_max=omax,num_projection_iterations=int(rng.choice([0,1,3])))
        except ValueError: continue
        out=c(tf.constant(w)).numpy().reshape(sizes+[units]); tot+=1
        v=violations(out,sizes,mono,edge,trap,omin,omax); m=max(v.values())
        if m>1e-6*max(1,np.abs(w).max()):
            bad+=1
            if worst is None or m>worst[0]: worst=(m,v,sizes,units,mono,edge,trap)
    print(label,"cases",tot,"bad",bad,worst if worst else "")
# A: rank 2, edgeworth + trapezoid, cond monotone, units 1..3
def genA():
    sizes=[int(rng.randint(2,5)),int(rng.randint(2,5))]; d=int(rng.choice([-1,1]))
    return sizes,int(rng.choice([1,2,3])),[1,1],[(0,1,d)] if rng.rand()<0.7 else [(0,1,d)],[(0,1,d)]
run("A rank2 edge+trap monotone-cond",genA,300)
# B: rank 3, trapezoid only (no edgeworth), cond monotone, possibly 2 trapezoids sharing cond
def genB():
    sizes=[int(rng.randint(2,4)) for _ in range(3)]; mono=[1,1,1]
    trap=[(0,2,int(rng.choice([-1,1])))]
    if rng.rand()<0.5: trap.append((1,2,int(rng.choice([-1,1]))))
    return sizes,int(rng.choice([1,2])),mono,[],trap
run("B rank3 trap-only monotone-cond (shared cond allowed)",genB,300)
# C: rank 3, edgeworth + trapezoid, cond NOT monotone, distinct conds
def genC():
    sizes=[int(rng.randint(2,4)) for _ in range(3)]; mono=[1,0,1]; d=int(rng.choice([-1,1]))
    edge=[(0,1,d)]+([(2,1,int(rng.choice([-1,1])))] if rng.rand()<0.5 else [])
    return sizes,int(rng.choice([1,2])),mono,edge,[(0,1,d)]
run("C rank3 edge+trap free-cond",genC,300)
# D: rank 3, edgeworth on one pair, trapezoid on another pair with monotone cond  (expected BAD = F-C01-a)
def genD():
    sizes=[int(rng.randint(2,4)) for _ in range(3)]; mono=[1,1,0]
    return sizes,1,mono,[(0,2,1)],[(0,1,int(rng.choice([-1,1])))]
run("D rank3 edge(0,2)+trap(0,1) monotone-cond [expect finding]",genD,200)
# E: rank 4 mixture excluding F-C01-a and documented exception
def genE():
    sizes=[int(rng.randint(2,4)) for _ in range(4)]; mono=[1,1,0,0]
    edge=[(0,2,int(rng.choice([-1,1]))),(1,3,int(rng.choice([-1,1])))]; trap=[(0,3,int(rng.choice([-1,1]))),(1,2,int(rng.choice([-1,1])))]
    return sizes,int(rng.choice([1,2])),mono,edge,trap
run("E rank4 2 edge + 2 trap, free conds distinct",genE,150)
