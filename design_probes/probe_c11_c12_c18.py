import os, time
os.environ["TF_CPP_MIN_LOG_LEVEL"]="3"
t=time.time()
import numpy as np, tensorflow as tf
import tensorflow_lattice as tfl
print("import s", time.time()-t, "eager", tf.executing_eagerly())
from tensorflow_lattice.python import categorical_calibration_lib as ccl, linear_layer, pwl_calibration_layer as pl, pwl_calibration_lib as plib
# C12 categorical assert reduce_min
w = tf.constant([[0.0],[5.0],[1.0]])   # pairs (0,1) ok, (1,2) violated by 4
try:
    ccl.assert_constraints(w, None, None, [(0,1),(1,2)], eps=1e-6); print("C12 cat: assert PASSED on violating weights -> defect")
except Exception as e: print("C12 cat: raised", type(e).__name__)
# C11 LinearConstraints get_config typo
c = linear_layer.LinearConstraints(monotonicities=[1,1], range_dominances=[(0,1)], input_min=[0.0,0.0], input_max=[1.0,2.0])
try:
    c2 = linear_layer.LinearConstraints.from_config(c.get_config()); print("C11 linear constraints ok", c2.get_config()==c.get_config())
except Exception as e: print("C11 LinearConstraints from_config raised", type(e).__name__, e)
# C11 PWL missing_output_value
l = pl.PWLCalibration(input_keypoints=[0.,1.,2.], impute_missing=True, missing_input_value=-1.0, missing_output_value=7.0)
cfg = l.get_config(); print("C11 pwl cfg has missing_output_value:", "missing_output_value" in cfg)
# C18 np.quantile interpolation kw
from tensorflow_lattice.python import premade_lib
try:
    print("C18", premade_lib.compute_keypoints(np.array([1.,2.,3.,4.,5.,6.]), 3))
except Exception as e: print("C18 compute_keypoints raised", type(e).__name__, e)
try:
    print("C18 weighted", premade_lib.compute_keypoints(np.array([1.,2.,3.,4.,5.,6.]), 3, weights=np.ones(6)))
except Exception as e: print("C18 weighted raised", type(e).__name__, e)
try:
    print("C18 uniform", premade_lib.compute_keypoints(np.array([1.,2.,3.,4.,5.,6.]), 3, keypoints='uniform'))
except Exception as e: print("C18 uniform raised", type(e).__name__, e)
