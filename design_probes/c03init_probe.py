# real code at the point excluded by Tfl.C03.InitRange: output_initialization outside [output_min, output_max] / not sorted
import numpy as np, tensorflow as tf, tensorflow_lattice as tfl
def feats():
    return [tfl.configs.FeatureConfig(name='a', lattice_size=2, monotonicity='increasing', pwl_calibration_input_keypoints=[0.,1.,2.]),
            tfl.configs.FeatureConfig(name='b', lattice_size=2, monotonicity='increasing', pwl_calibration_input_keypoints=[0.,1.,2.])]
x = {'a': np.array([[0.],[2.]]), 'b': np.array([[0.],[2.]])}
xs = [x['a'], x['b']]
def run(tag, cfg, cls):
    try:
        m = cls(cfg)
        y = m.predict(xs, verbose=0).ravel()
        print(tag, 'fresh predictions at (0,0),(2,2):', y, 'bounds', cfg.output_min, cfg.output_max)
        for l in m.layers:
            if hasattr(l, 'assert_constraints'):
                try:
                    with tf.control_dependencies(l.assert_constraints()): pass
                    print('   ', l.name, 'assert ok')
                except Exception as e:
                    print('   ', l.name, 'assert RAISES', type(e).__name__)
    except Exception as e:
        print(tag, 'construction raises', type(e).__name__, str(e)[:200])
run('lattice out_init=[-2,2] bounds[0,1]', tfl.configs.CalibratedLatticeConfig(feature_configs=feats(), output_min=0., output_max=1., output_initialization=[-2., 2.]), tfl.premade.CalibratedLattice)
run('linear  out_init=[-2,2] bounds[0,1]', tfl.configs.CalibratedLinearConfig(feature_configs=feats(), output_min=0., output_max=1., output_initialization=[-2., 2.]), tfl.premade.CalibratedLinear)
run('lattice+outcal out_init=[2,-2] (descending)', tfl.configs.CalibratedLatticeConfig(feature_configs=feats(), output_calibration=True, output_initialization=[2., -2.]), tfl.premade.CalibratedLattice)
run('lattice+outcal out_init=[-2,2] bounds[0,1]', tfl.configs.CalibratedLatticeConfig(feature_configs=feats(), output_min=0., output_max=1., output_calibration=True, output_initialization=[-2., 2.]), tfl.premade.CalibratedLattice)
run('lattice out_init=[5] (single value, default-less)', tfl.configs.CalibratedLatticeConfig(feature_configs=feats(), output_initialization=[5.]), tfl.premade.CalibratedLattice)
