import numpy as np, tensorflow as tf, tensorflow_lattice as tfl
def run(kw, kernel, eps):
    l = tfl.layers.Linear(**kw); l.build((None, kw["num_input_dims"]))
    l.kernel.assign(np.array(kernel, dtype=np.float32))
    try:
        l.assert_constraints(eps=eps); return "accepted"
    except tf.errors.InvalidArgumentError as e:
        return "REJECTED: " + str(e).split("\n")[0][:90]
for eps in (0.0, 1e-6):
    print("unit 1-norm [[.5],[.5]] eps", eps, run(dict(num_input_dims=2, monotonicities=[1,1], normalization_order=1, use_bias=False), [[.5],[.5]], eps))
for eps in (0.0, 1e-6):
    print("unit inf-norm [[1.],[.5]] eps", eps, run(dict(num_input_dims=2, monotonicities=[1,1], normalization_order=np.inf, use_bias=False), [[1.],[.5]], eps))
# projection output then assert at 0
l = tfl.layers.Linear(num_input_dims=2, monotonicities=[1,1], normalization_order=1, use_bias=False); l.build((None,2))
out = l.kernel.constraint(tf.constant([[3.],[1.]])).numpy(); print("project ->", out.ravel())
for eps in (0.0, 1e-6):
    print(" projected, eps", eps, run(dict(num_input_dims=2, monotonicities=[1,1], normalization_order=1, use_bias=False), out, eps))
out0 = l.kernel.constraint(tf.constant([[-3.],[-1.]])).numpy(); print("degenerate project ->", out0.ravel())
print(" degenerate, eps 0", run(dict(num_input_dims=2, monotonicities=[1,1], normalization_order=1, use_bias=False), out0, 0.0))
for mon in ([1,0],[1,1]):
    print("neg eps -1e-3, monotonicities", mon, "kernel [[1],[1]]:", run(dict(num_input_dims=2, monotonicities=mon, use_bias=False), [[1.],[1.]], -1e-3))
print("no norm, eps 0, [[.5],[.5]]:", run(dict(num_input_dims=2, monotonicities=[1,1], use_bias=False), [[.5],[.5]], 0.0))
