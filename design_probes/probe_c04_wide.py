import os, sys, collections
os.environ["TF_CPP_MIN_LOG_LEVEL"]="3"
import numpy as np, tensorflow as tf
import tensorflow_lattice as tfl
from tensorflow_lattice.python import pwl_calibration_lib as plib, pwl_calibration_layer as pl
B=plib.BoundConstraintsType
rng=np.random.RandomState(int(sys.argv[1]) if len(sys.argv)>1 else 0)
fails=collections.Counter(); examples={}; tot=0
for trial in range(int(sys.argv[2]) if len(sys.argv)>2 else 1500):
    mono=int(rng.choice([-1,0,1])); conv=int(rng.choice([-1,0,0,1])); nk=int(rng.randint(2,7)); units=int(rng.choice([1,2]))
    bmode=rng.randint(4); omin=None if bmode in (0,2) else float(rng.randint(-2,1)); omax=None if bmode in (0,1) else (omin if omin is not None else 0.0)+float(rng.choice([0.0005,1,3]))
    cmin=bool(rng.randint(2)) and omin is not None and mono!=0; cmax=bool(rng.randint(2)) and omax is not None and mono!=0
    iters=int(rng.choice([0,1,8,8,30]))
    kp=np.cumsum(np.concatenate([[0.],rng.choice([0.25,1.,3.],size=nk-1)])).tolist()
    try:
        L=pl.PWLCalibration(input_keypoints=kp,units=units,output_min=omin,output_max=omax,clamp_min=cmin,clamp_max=cmax,monotonicity=mono,convexity=conv,num_projection_iterations=iters,dtype=tf.float64)
        L(tf.zeros((1,1),dtype=tf.float64))
    except ValueError as e:
        continue
    kind=rng.randint(4)
    w = [rng.randint(-3,4,size=(nk,units)).astype(float), rng.randn(nk,units)*10, rng.randn(nk,units)*0.01, np.abs(rng.randn(nk,units))*np.array([[20.]]+[[1.]]*(nk-1))][kind]
    try: out=L.kernel.constraint(tf.constant(w)).numpy()
    except Exception as e:
        fails[("raise",type(e).__name__)]+=1; examples.setdefault(("raise",type(e).__name__),(str(e)[:100],dict(mono=mono,conv=conv,omin=omin,omax=omax,cmin=cmin,cmax=cmax,iters=iters))); continue
    tot+=1
    y=np.cumsum(out,axis=0); h=out[1:]; lens=np.diff(kp).reshape(-1,1); sc=max(1.0,np.abs(w).max())
    v=[]
    if not np.isfinite(out).all(): v.append("nonfinite")
    if mono==1 and h.min()<0: v.append("mono")
    if mono==-1 and h.max()>0: v.append("mono")
    if omin is not None and y.min()<omin-1e-7*sc: v.append("below_min")
    if omax is not None and y.max()>omax+1e-7*sc: v.append("above_max")
    if conv!=0 and nk>2:
        s=h/lens; dv=np.diff(s,axis=0)*conv
        if dv.min()<-1e-7*sc and not (mono==0 and (omin is not None or omax is not None)): v.append("convexity")
    if conv==0:
        if cmin and np.abs(y.min(axis=0)-omin).max()>1e-7*sc: v.append("clamp_min")
        if cmax and np.abs(y.max(axis=0)-omax).max()>1e-7*sc: v.append("clamp_max")
    for name in v:
        key=(name,"mono%d"%mono,"conv%d"%conv,"min" if omin is not None else "-","max" if omax is not None else "-","it0" if iters==0 else "it+")
        fails[key]+=1; examples.setdefault(key,(w.T.tolist(),kp,dict(omin=omin,omax=omax,cmin=cmin,cmax=cmax,iters=iters),np.round(y.T,4).tolist()))
print("cases",tot)
for k,c in sorted(fails.items(), key=lambda kv: str(kv[0])): print(c,k,examples[k] if c and len(str(examples[k]))<400 else "")
