import ast, sys, glob, os
root='/repo/tensorflow_lattice/python'
for path in sorted(glob.glob(root+'/*.py')):
    if path.endswith('_test.py') or path.endswith('test_utils.py'): continue
    tree=ast.parse(open(path).read())
    for cls in [n for n in tree.body if isinstance(n,ast.ClassDef)]:
        fns={f.name:f for f in cls.body if isinstance(f,ast.FunctionDef)}
        if 'get_config' not in fns or '__init__' not in fns: continue
        init=fns['__init__']; params=[a.arg for a in init.args.args[1:]]+[a.arg for a in init.args.kwonlyargs]; has_kw=init.args.kwarg is not None
        keys=[]
        for node in ast.walk(fns['get_config']):
            if isinstance(node,ast.Dict):
                for k in node.keys:
                    if isinstance(k,ast.Constant) and isinstance(k.value,str): keys.append(k.value)
            if isinstance(node,ast.Subscript) and isinstance(node.ctx,ast.Store) and isinstance(node.slice,ast.Constant): keys.append(node.slice.value)
        uses_super=any(isinstance(n,ast.Call) and isinstance(n.func,ast.Attribute) and n.func.attr=='get_config' for n in ast.walk(fns['get_config']))
        missing=[p for p in params if p not in keys]; extra=[k for k in keys if k not in params]
        flag="" if not missing and not extra else "  <-- MISMATCH"
        print(f"{os.path.basename(path)}:{cls.name}: params={len(params)} keys={len(keys)} kwargs={has_kw} super={uses_super} missing={missing} extra={extra}{flag}")
