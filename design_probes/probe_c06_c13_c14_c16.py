import os, itertools
os.environ["TF_CPP_MIN_LOG_LEVEL"]="3"
import numpy as np, tensorflow as tf
import tensorflow_lattice as tfl
from tensorflow_lattice.python import lattice_lib, lattice_layer, linear_lib, categorical_calibration_lib as ccl, internal_utils, pwl_calibration_layer as pl, kronecker_factored_lattice_lib as kfl_lib
rng=np.random.RandomState(0)
# C13 tuple amounts with units>1
for l1 in [(0.5,0.25),[0.5,0.25]]:
  try:
    r = lattice_lib.laplacian_regularizer(tf.constant(rng.randn(6,2)), [2,3], l1=l1, l2=0.0); print("C13 lap", type(l1).__name__, float(r))
  except Exception as e: print("C13 lap", type(l1).__name__, "raised", type(e).__name__, e)
  try:
    r = lattice_lib.torsion_regularizer(tf.constant(rng.randn(6,2)), [2,3], l1=l1, l2=0.0); print("C13 tor", type(l1).__name__, float(r))
  except Exception as e: print("C13 tor", type(l1).__name__, "raised", type(e).__name__, e)
# C13 rank3 reference
def lap_ref(w,sizes,l1,l2):
    w=w.reshape(sizes+[w.shape[1]]); tot=0
    for d in range(len(sizes)):
        df=np.diff(w,axis=d); tot+= l1[d]*np.abs(df).sum()+l2[d]*(df**2).sum()
    return tot
def tor_ref(w,sizes,l1,l2):
    w=w.reshape(sizes+[w.shape[1]]); tot=0
    for i in range(len(sizes)):
      for j in range(i+1,len(sizes)):
        t=np.diff(np.diff(w,axis=i),axis=j); tot+= l1[i]*l1[j]*np.abs(t).sum()+l2[i]*l2[j]*(t**2).sum()
    return tot
sizes=[2,3,4]; w=rng.randn(24,2); l1=[0.5,0.0,2.0]; l2=[1.0,3.0,0.0]
print("C13 lap rank3", float(lattice_lib.laplacian_regularizer(tf.constant(w),sizes,l1=l1,l2=l2)), lap_ref(w,sizes,l1,l2))
print("C13 tor rank3", float(lattice_lib.torsion_regularizer(tf.constant(w),sizes,l1=l1,l2=l2)), tor_ref(w,sizes,l1,l2))
# C06 categorical/linear random DAGs
bad=0; tot=0
for t in range(300):
    n=rng.randint(2,7); order=rng.permutation(n)
    pairs=[(int(order[i]),int(order[j])) for i in range(n) for j in range(i+1,n) if rng.rand()<0.4]
    if not pairs: continue
    units=rng.choice([1,3]); w=rng.randint(-3,4,size=(n,units)).astype(np.float64)
    try: out=ccl.project(tf.constant(w), -1.0, 2.0, pairs).numpy()
    except Exception as e: print("C06 cat raised", type(e).__name__, e, pairs); bad+=1; continue
    tot+=1
    v=max(float((out[i]-out[j]).max()) for i,j in pairs)
    if v>1e-9 or out.min()<-1-1e-9 or out.max()>2+1e-9: bad+=1; print("C06 cat viol", v, pairs)
print("C06 cat cases",tot,"bad",bad)
# cyclic with root
try:
    out=ccl.project(tf.constant([[0.],[3.],[1.]]), None,None,[(0,1),(1,2),(2,1)]); print("C16 cyclic-with-root accepted:", out.numpy().ravel())
except Exception as e: print("C16 cyclic raised", type(e).__name__)
# C14 KFL vs Lattice
units,dims,terms,ls=2,3,2,3
kernel=rng.randn(1,ls,units*dims,terms).astype(np.float32); scale=rng.randn(units,terms).astype(np.float32); bias=rng.randn(units).astype(np.float32)
x=(rng.rand(5,units,dims)*(ls-1)).astype(np.float32)
out=kfl_lib.evaluate_with_hypercube_interpolation(tf.constant(x),scale,bias,tf.constant(kernel),units,terms,ls,True).numpy()
k5=kernel.reshape(ls,units,dims,terms)
dense=np.zeros((ls**dims,units))
for u in range(units):
  for idx in itertools.product(range(ls),repeat=dims):
    val=bias[u]+np.mean([scale[u,t]*np.prod([k5[idx[d],u,d,t] for d in range(dims)]) for t in range(terms)])
    dense[np.ravel_multi_index(idx,[ls]*dims),u]=val
out2=lattice_lib.evaluate_with_hypercube_interpolation(tf.constant(x,dtype=tf.float64),tf.constant(dense),units,[ls]*dims,True).numpy()
print("C14 KFL vs dense max diff", np.abs(out-out2).max())
